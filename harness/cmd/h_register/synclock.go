package main

import (
	"bytes"
	"context"
	"encoding/json"
	"fmt"
	"math/rand"
	"os"
	"os/exec"
	"path/filepath"
	"sort"
	"strconv"
	"strings"
	"sync"
	"sync/atomic"
	"time"

	"github.com/containerd/nri/pkg/adaptation"
	"github.com/containerd/nri/pkg/api"
	"github.com/containerd/nri/pkg/stub"

	"verif/harness/internal/coqfmt"
	"verif/harness/internal/hx"
)

// Every stress run of the synclock driver executes in a re-executed copy of this binary.  A runtime
// whose sync lock is released once too often dies with an unrecoverable "fatal error: sync: RUnlock of
// unlocked RWMutex"; in a child process that is an OBSERVATION of the run (reported as a failure of
// the property's oracle by the parent), not the end of the driver.
const syncLockHelperArg = "-synclock-helper"

// Bounds.  A run takes a few hundred milliseconds.
const (
	slRunBound   = 120 * time.Second // a run that is not over by then is dumped as it stands (an observation)
	slChildBound = 300 * time.Second // the parent kills a child that did not even dump (machinery failure)
	slProbeGrace = 100 * time.Millisecond
	slMaxFailing = 5 // failing runs after which the stream stops: the verdict is settled
)

// what the parent asks of one run
type slSpec struct {
	Dir     string `json:"dir"` // scratch directory, created and removed by the parent
	R       int    `json:"r"`
	P       int    `json:"p"`
	N       int    `json:"n"`
	Starts  []int  `json:"starts"`
	DblSeed int64  `json:"dbl_seed"` // PRNG of the choice which blocks are released twice
	Probe   bool   `json:"probe"`    // start with the two-blocks-one-released-twice scenario
}

type slResult struct {
	Case *slCase `json:"case,omitempty"`
	Err  string  `json:"err,omitempty"` // failure of the machinery inside the run
}

// one entry of the API-level log (Model/SyncLock.v: lev)
type logEv struct {
	Kind string   `json:"k"` // acq rel rel2 recv ret store enter srecv sret
	G    string   `json:"g,omitempty"`
	P    string   `json:"p,omitempty"` // plugin name, or (enter/sret, before resolution) the sync session
	C    string   `json:"c,omitempty"`
	IDs  []string `json:"ids,omitempty"`
	OK   bool     `json:"ok,omitempty"`
	sess int
}

type slPlugin struct {
	run      *slRun
	name     string
	stub     stub.Stub
	snapshot []string
	creates  []string
	syncs    int
	sess     int
	closed   int32
}

type slRun struct {
	a       *adaptation.Adaptation
	spec    slSpec
	out     string
	plugins []*slPlugin

	mu    sync.Mutex // protects log, store, every plugin's records: one linearisation
	log   []logEv
	store []string
	sess  int
	viol  []string

	// held: sync blocks currently held = between the "acquired" log entry and the "released" log entry
	// of the block's FIRST Unblock.  A repeated Unblock of a released block does not touch it.
	held       int32
	inSync     int32 // SyncFn invocations in progress
	rets       int32 // SyncFn returns
	total      int32 // containers created so far
	twice      int32 // blocks released a second time
	twiceOther int32 // ... while another block was held
	abandon    int32 // a violation was seen: no further Unblock is issued, the run is dumped as it stands
	once       sync.Once
	herr       atomic.Value
}

// violation records a failure of the oracle and freezes the run: from now on no goroutine calls
// Unblock any more (on a runtime whose lock count is off that would be fatal), and the watchdog
// writes out the log as it stands.
func (r *slRun) violation(format string, args ...interface{}) {
	r.mu.Lock()
	if len(r.viol) < 10 {
		r.viol = append(r.viol, fmt.Sprintf(format, args...))
	}
	r.mu.Unlock()
	atomic.StoreInt32(&r.abandon, 1)
}

func (r *slRun) parkIfAbandoned() {
	if atomic.LoadInt32(&r.abandon) != 0 {
		select {}
	}
}

func (r *slRun) logEv(e logEv) {
	r.mu.Lock()
	r.log = append(r.log, e)
	r.mu.Unlock()
}

// syncFn is the runtime side of a plugin synchronisation: it must never overlap a held sync block.
func (r *slRun) syncFn(ctx context.Context, cb adaptation.SyncCB) error {
	atomic.AddInt32(&r.inSync, 1)
	if h := atomic.LoadInt32(&r.held); h != 0 {
		r.violation("SyncFn entered while %d sync block(s) held", h)
	}
	r.mu.Lock()
	k := r.sess
	r.sess++
	snap := append([]string{}, r.store...)
	r.log = append(r.log, logEv{Kind: "enter", sess: k, IDs: snap})
	r.mu.Unlock()

	// the session number travels to the plugin inside the snapshot, which is how the log learns
	// which plugin this invocation synchronised
	pods := []*api.PodSandbox{{Id: "sync-" + strconv.Itoa(k), Name: "sync"}}
	ctrs := make([]*api.Container, len(snap))
	for i, id := range snap {
		ctrs[i] = &api.Container{Id: id, PodSandboxId: "pod0", Name: id}
	}
	_, err := cb(ctx, pods, ctrs)

	if h := atomic.LoadInt32(&r.held); h != 0 {
		r.violation("%d sync block(s) held when SyncFn was about to return", h)
	}
	r.mu.Lock()
	r.log = append(r.log, logEv{Kind: "sret", sess: k, OK: err == nil})
	r.mu.Unlock()
	atomic.AddInt32(&r.inSync, -1)
	atomic.AddInt32(&r.rets, 1)
	return err
}

func (p *slPlugin) Synchronize(_ context.Context, pods []*api.PodSandbox, ctrs []*api.Container) ([]*api.ContainerUpdate, error) {
	k := -1
	for _, pod := range pods {
		if strings.HasPrefix(pod.Id, "sync-") {
			k, _ = strconv.Atoi(pod.Id[5:])
		}
	}
	ids := make([]string, len(ctrs))
	for i, c := range ctrs {
		ids[i] = c.Id
	}
	r := p.run
	r.mu.Lock()
	p.syncs++
	p.sess = k
	p.snapshot = ids
	r.log = append(r.log, logEv{Kind: "srecv", P: p.name, IDs: ids, sess: k})
	r.mu.Unlock()
	return nil, nil
}

func (p *slPlugin) CreateContainer(_ context.Context, _ *api.PodSandbox, c *api.Container) (*api.ContainerAdjustment, []*api.ContainerUpdate, error) {
	g := c.Id
	if i := strings.IndexByte(g, '-'); i > 0 {
		g = g[:i]
	}
	r := p.run
	r.mu.Lock()
	p.creates = append(p.creates, c.Id)
	r.log = append(r.log, logEv{Kind: "recv", G: g, P: p.name, C: c.Id})
	r.mu.Unlock()
	return nil, nil, nil
}

// noise: requests outside any sync block keep the adaptation mutex busy
func (p *slPlugin) StartContainer(context.Context, *api.PodSandbox, *api.Container) error { return nil }

type slCase struct {
	Trace     []logEv     `json:"trace"`
	Store     []string    `json:"store"`
	Plugins   []slPlugObs `json:"plugins"`
	Viol      []string    `json:"violations,omitempty"`
	Abandoned bool        `json:"abandoned,omitempty"` // frozen after a violation and dumped as it stood
	Crash     string      `json:"crash,omitempty"`     // the runtime died inside the sync lock (no log survives)
	Probe     bool        `json:"probe,omitempty"`
	Twice     int         `json:"released_twice"`
	TwiceOth  int         `json:"released_twice_while_another_block_held"`
	Spec      *slSpec     `json:"spec,omitempty"`
	R, P, N   int
}

type slPlugObs struct {
	Name       string   `json:"name"`
	Registered bool     `json:"registered"`
	Snapshot   []string `json:"snapshot"`
	Creates    []string `json:"creates"`
}

func (e logEv) coq() string {
	switch e.Kind {
	case "acq":
		return "LBlockAcq " + coqfmt.Str(e.G)
	case "rel":
		return "LBlockRel " + coqfmt.Str(e.G)
	case "rel2":
		return "LBlockRelAgain " + coqfmt.Str(e.G)
	case "recv":
		return fmt.Sprintf("LRecv %s %s %s", coqfmt.Str(e.G), coqfmt.Str(e.P), coqfmt.Str(e.C))
	case "ret":
		return fmt.Sprintf("LCreateRet %s %s", coqfmt.Str(e.G), coqfmt.Str(e.C))
	case "store":
		return fmt.Sprintf("LStore %s %s", coqfmt.Str(e.G), coqfmt.Str(e.C))
	case "enter":
		return fmt.Sprintf("LSyncEnter %s %s", coqfmt.Str(e.P), coqfmt.StrList(e.IDs))
	case "srecv":
		return fmt.Sprintf("LSyncRecv %s %s", coqfmt.Str(e.P), coqfmt.StrList(e.IDs))
	case "sret":
		return fmt.Sprintf("LSyncRet %s %s", coqfmt.Str(e.P), coqfmt.Bool(e.OK))
	}
	panic("unknown log event " + e.Kind)
}

// ---------------------------------------------------------------- the runtime's use of the API, logged

var slPod = &api.PodSandbox{Id: "pod0", Name: "pod0", Namespace: "default"}

// acquire: "block acquired" is logged after BlockPluginSync returned.
func (r *slRun) acquire(gn string) *adaptation.PluginSyncBlock {
	r.parkIfAbandoned()
	b := r.a.BlockPluginSync()
	atomic.AddInt32(&r.held, 1)
	if atomic.LoadInt32(&r.inSync) != 0 {
		r.violation("sync block acquired by %s while SyncFn in progress", gn)
	}
	r.logEv(logEv{Kind: "acq", G: gn})
	return b
}

func (r *slRun) create(gn, id string) {
	_, err := r.a.CreateContainer(context.Background(), &api.CreateContainerRequest{Pod: slPod,
		Container: &api.Container{Id: id, PodSandboxId: slPod.Id, Name: id}})
	r.logEv(logEv{Kind: "ret", G: gn, C: id})
	if err != nil {
		r.herr.Store(fmt.Errorf("CreateContainer %s: %w", id, err))
	}
}

// bookkeeping: the runtime's own store, inside the same block as the creation
func (r *slRun) keep(gn, id string) {
	r.mu.Lock()
	r.store = append(r.store, id)
	r.log = append(r.log, logEv{Kind: "store", G: gn, C: id})
	r.mu.Unlock()
	atomic.AddInt32(&r.total, 1)
}

// release: the FIRST Unblock of a block; "block released" is logged (and the held-block counter
// decremented) before the call.
func (r *slRun) release(gn string, b *adaptation.PluginSyncBlock) {
	r.logEv(logEv{Kind: "rel", G: gn})
	if atomic.LoadInt32(&r.inSync) != 0 {
		r.violation("SyncFn in progress while %s still holds its sync block", gn)
	}
	atomic.AddInt32(&r.held, -1)
	r.parkIfAbandoned()
	b.Unblock()
}

// releaseAgain: a repeated Unblock of a block this goroutine already released (explicit Unblock on the
// success path plus a deferred one: "Safe to call multiple times but only from a single goroutine").
// It must not change anything: the held-block counter is NOT touched, whoever else holds a block
// keeps holding it.
func (r *slRun) releaseAgain(gn string, b *adaptation.PluginSyncBlock) {
	r.parkIfAbandoned()
	atomic.AddInt32(&r.twice, 1)
	if atomic.LoadInt32(&r.held) > 0 {
		atomic.AddInt32(&r.twiceOther, 1)
	}
	r.logEv(logEv{Kind: "rel2", G: gn})
	b.Unblock()
}

// createInBlock is one creation with its bookkeeping inside a sync block.
func (r *slRun) createInBlock(gn, id string, twice bool) {
	b := r.acquire(gn)
	if twice {
		defer r.releaseAgain(gn, b)
	}
	r.create(gn, id)
	r.keep(gn, id)
	r.release(gn, b)
}

// probe: two blocks are held, a plugin is waiting to be synchronised, the first block is released
// TWICE while the second is in the middle of a creation (request relayed, bookkeeping not yet done).
// The plugin must stay blocked until the second block is released.
func (r *slRun) probe(startPlugin func(j int) chan error) (pending chan error) {
	ba := r.acquire("ga")
	bb := r.acquire("gb")
	started := startPlugin(0)
	// stub.Start returns once the plugin is configured: the runtime is then about to request the
	// exclusive section.  Whether it has got that far does not matter for what follows (no property
	// says that a plugin is configured while blocks are held): after a short wait the scenario goes on
	// and the result of Start is collected at the end of the run.
	select {
	case err := <-started:
		if err != nil {
			r.herr.Store(fmt.Errorf("stub 0 start: %w", err))
		}
	case <-time.After(2 * time.Second):
		pending = started
	}
	time.Sleep(5 * time.Millisecond)
	r.create("gb", "gb-c0")
	r.create("ga", "ga-c0")
	r.keep("ga", "ga-c0")
	r.release("ga", ba)
	r.releaseAgain("ga", ba)
	// gb still holds its block: a synchronisation entered now is flagged by syncFn
	for t0 := time.Now(); time.Since(t0) < slProbeGrace; time.Sleep(time.Millisecond) {
		r.parkIfAbandoned()
	}
	r.keep("gb", "gb-c0")
	r.release("gb", bb)
	return pending
}

// buildCase: call with r.mu held.
func (r *slRun) buildCase(abandoned bool) *slCase {
	// resolve sync sessions to plugin names through what the plugins received
	sessName := map[int]string{}
	for _, p := range r.plugins {
		if p.sess >= 0 {
			sessName[p.sess] = p.name
		}
	}
	okSess := map[int]bool{}
	cs := &slCase{Store: append([]string{}, r.store...), Viol: append([]string{}, r.viol...), R: r.spec.R, P: r.spec.P, N: r.spec.N,
		Abandoned: abandoned, Probe: r.spec.Probe, Twice: int(atomic.LoadInt32(&r.twice)), TwiceOth: int(atomic.LoadInt32(&r.twiceOther))}
	for _, e := range r.log {
		switch e.Kind {
		case "enter", "sret":
			n, ok := sessName[e.sess]
			if !ok {
				n = "?" + strconv.Itoa(e.sess)
			}
			e.P = n
			if e.Kind == "sret" && e.OK {
				okSess[e.sess] = true
			}
		}
		cs.Trace = append(cs.Trace, e)
	}
	for _, p := range r.plugins {
		cs.Plugins = append(cs.Plugins, slPlugObs{Name: p.name, Registered: p.sess >= 0 && okSess[p.sess],
			Snapshot: append([]string{}, p.snapshot...), Creates: append([]string{}, p.creates...)})
		if p.syncs > 1 || (!abandoned && p.syncs != 1) {
			cs.Viol = append(cs.Viol, fmt.Sprintf("plugin %s was synchronized %d times", p.name, p.syncs))
		}
	}
	return cs
}

func writeResult(out string, res *slResult) {
	js, err := json.Marshal(res)
	if err == nil {
		err = os.WriteFile(out+".tmp", js, 0o644)
	}
	if err == nil {
		err = os.Rename(out+".tmp", out)
	}
	if err != nil {
		fmt.Fprintln(os.Stderr, "synclock helper:", err)
		os.Exit(2)
	}
}

// dumpAndExit writes the run as it stands and ends the process WITHOUT touching the Adaptation again.
func (r *slRun) dumpAndExit() {
	r.once.Do(func() {
		r.mu.Lock()
		cs := r.buildCase(true)
		r.mu.Unlock()
		writeResult(r.out, &slResult{Case: cs})
	})
	os.Exit(0)
}

// oneSyncLockRun: R goroutines x N creations inside sync blocks (some released twice), P stubs
// registering at points of the creation stream chosen by the PRNG, one noise goroutine.
func oneSyncLockRun(spec slSpec, out string) (*slCase, error) {
	R, P, N, starts := spec.R, spec.P, spec.N, spec.Starts
	sock := filepath.Join(spec.Dir, "nri.sock")
	r := &slRun{spec: spec, out: out}
	a, err := newAdaptation(spec.Dir, sock, r.syncFn)
	if err != nil {
		return nil, err
	}
	r.a = a
	if err := a.Start(); err != nil {
		return nil, err
	}
	defer a.Stop()
	// Start synchronises the (here: no) pre-installed plugins through SyncFn once; that is start-up,
	// not a registration: it is not part of the log
	r.mu.Lock()
	r.log = nil
	r.mu.Unlock()
	base := atomic.LoadInt32(&r.rets)

	// watchdog: after a violation, or when the run does not end, the log is written out as it stands
	go func() {
		t0 := time.Now()
		for {
			time.Sleep(2 * time.Millisecond)
			if atomic.LoadInt32(&r.abandon) != 0 {
				// let a synchronisation in progress return, so that the log shows it whole
				for dl := time.Now().Add(3 * time.Second); atomic.LoadInt32(&r.inSync) != 0 && time.Now().Before(dl); {
					time.Sleep(time.Millisecond)
				}
				time.Sleep(20 * time.Millisecond)
				r.dumpAndExit()
			}
			if time.Since(t0) > slRunBound {
				r.violation("the run was not over after %v: %d of %d registrations synchronized, %d sync block(s) held",
					slRunBound, atomic.LoadInt32(&r.rets)-base, P, atomic.LoadInt32(&r.held))
			}
		}
	}()

	ctx := context.Background()
	stop := make(chan struct{})
	var wg, nwg sync.WaitGroup

	// noise
	nwg.Add(1)
	go func() {
		defer nwg.Done()
		ctr := &api.Container{Id: "noise", PodSandboxId: slPod.Id, Name: "noise"}
		for {
			select {
			case <-stop:
				return
			default:
			}
			a.StartContainer(ctx, &api.StateChangeEvent{Pod: slPod, Container: ctr})
			time.Sleep(20 * time.Microsecond)
		}
	}()

	// plugins
	r.plugins = make([]*slPlugin, P)
	for j := 0; j < P; j++ {
		p := &slPlugin{run: r, name: fmt.Sprintf("%02d-p%d", (j*37)%100, j), sess: -1}
		st, err := stub.New(p, stub.WithPluginName(fmt.Sprintf("p%d", j)), stub.WithPluginIdx(fmt.Sprintf("%02d", (j*37)%100)),
			stub.WithSocketPath(sock), stub.WithOnClose(func() { atomic.StoreInt32(&p.closed, 1) }))
		if err != nil {
			return nil, err
		}
		p.stub = st
		r.plugins[j] = p
	}
	startPlugin := func(j int) chan error {
		ch := make(chan error, 1)
		go func() { ch <- r.plugins[j].stub.Start(ctx) }()
		return ch
	}
	first := 0
	var pwg sync.WaitGroup
	if spec.Probe {
		first = 1
		if pending := r.probe(startPlugin); pending != nil {
			pwg.Add(1)
			go func() {
				defer pwg.Done()
				if err := <-pending; err != nil {
					r.herr.Store(fmt.Errorf("stub 0 start: %w", err))
				}
			}()
		}
	}
	for j := first; j < P; j++ {
		pwg.Add(1)
		go func(j int) {
			defer pwg.Done()
			for atomic.LoadInt32(&r.total) < int32(starts[j]) {
				time.Sleep(50 * time.Microsecond)
			}
			if err := <-startPlugin(j); err != nil {
				r.herr.Store(fmt.Errorf("stub %d start: %w", j, err))
			}
		}(j)
	}

	// runtime goroutines
	for g := 0; g < R; g++ {
		wg.Add(1)
		go func(g int) {
			defer wg.Done()
			gn := "g" + strconv.Itoa(g)
			rnd := rand.New(rand.NewSource(spec.DblSeed + int64(g)*7919))
			for i := 0; i < N; i++ {
				r.createInBlock(gn, gn+"-c"+strconv.Itoa(i), rnd.Intn(100) < 45)
				if i%3 == g%3 {
					time.Sleep(time.Duration(30*(g+1)) * time.Microsecond)
				}
			}
		}(g)
	}
	wg.Wait()
	pwg.Wait()
	// every block is released: pending registrations complete.  Then one more block: acquired only after
	// the last finishedPluginSync, i.e. after the last activation
	deadline := time.Now().Add(60 * time.Second)
	for atomic.LoadInt32(&r.rets)-base < int32(P) && time.Now().Before(deadline) {
		time.Sleep(200 * time.Microsecond)
	}
	if got := atomic.LoadInt32(&r.rets) - base; got < int32(P) {
		r.violation("only %d of %d registrations were synchronized within 60s of the last sync block being released", got, P)
		select {} // the watchdog writes the run out
	}
	r.parkIfAbandoned()
	a.BlockPluginSync().Unblock()
	// a tail of creations that every registered plugin must see as requests
	for i := 0; i < 2; i++ {
		r.createInBlock("gt", "gt-c"+strconv.Itoa(i), i == 1)
	}
	close(stop)
	nwg.Wait()
	for _, p := range r.plugins {
		if atomic.LoadInt32(&p.closed) != 0 {
			r.herr.Store(fmt.Errorf("plugin %s lost its connection during the run", p.name))
		}
	}
	r.parkIfAbandoned()
	if e := r.herr.Load(); e != nil {
		return nil, e.(error)
	}
	r.mu.Lock()
	cs := r.buildCase(false)
	r.mu.Unlock()
	for _, p := range r.plugins {
		p.stub.Stop()
	}
	return cs, nil
}

// syncLockHelper runs in the re-executed copy: SPEC OUT
func syncLockHelper(args []string) int {
	if len(args) != 2 {
		return 2
	}
	js, err := os.ReadFile(args[0])
	if err != nil {
		fmt.Fprintln(os.Stderr, err)
		return 2
	}
	var spec slSpec
	if err := json.Unmarshal(js, &spec); err != nil {
		fmt.Fprintln(os.Stderr, err)
		return 2
	}
	adaptation.SetPluginRegistrationTimeout(60 * time.Second)
	adaptation.SetPluginRequestTimeout(60 * time.Second)
	cs, err := oneSyncLockRun(spec, args[1])
	res := &slResult{Case: cs}
	if err != nil {
		res = &slResult{Err: err.Error()}
	}
	writeResult(args[1], res)
	return 0
}

// runSyncLockChild executes one run in a child process and interprets how it ended.
func runSyncLockChild(c *hx.Ctx, exe string, i int, spec slSpec) (*slCase, error) {
	dir, err := scratch("sl")
	if err != nil {
		return nil, err
	}
	defer os.RemoveAll(dir)
	spec.Dir = dir
	specFile, outFile := filepath.Join(dir, "spec.json"), filepath.Join(dir, "result.json")
	js, _ := json.Marshal(spec)
	if err := os.WriteFile(specFile, js, 0o644); err != nil {
		return nil, err
	}
	ctx, cancel := context.WithTimeout(context.Background(), slChildBound)
	defer cancel()
	cmd := exec.CommandContext(ctx, exe, syncLockHelperArg, specFile, outFile)
	var errb bytes.Buffer
	cmd.Stdout, cmd.Stderr = &errb, &errb
	runErr := cmd.Run()
	if res, rerr := os.ReadFile(outFile); rerr == nil && runErr == nil {
		var r slResult
		if err := json.Unmarshal(res, &r); err != nil {
			return nil, err
		}
		if r.Err != "" {
			return nil, fmt.Errorf("%s", r.Err)
		}
		if r.Case == nil {
			return nil, fmt.Errorf("synclock helper wrote no case")
		}
		r.Case.Spec = &spec
		return r.Case, nil
	}
	log := errb.String()
	if k := strings.Index(log, "fatal error: sync:"); k >= 0 {
		// the Go runtime's own check of the lock: the sync lock was unlocked more often than locked.
		// The harness calls Unblock at most twice per block, from the goroutine that took it.
		line := log[k:]
		if j := strings.IndexByte(line, '\n'); j > 0 {
			line = line[:j]
		}
		return &slCase{Crash: line, Spec: &spec, Probe: spec.Probe, R: spec.R, P: spec.P, N: spec.N,
			Viol: []string{"the runtime died in the plugin sync lock (" + line + "): an Unblock released a lock its block did not hold"}}, nil
	}
	// anything else (including a data race report of a -race build) is passed on as it is
	fmt.Fprintln(os.Stderr, log)
	return nil, fmt.Errorf("synclock helper for run %d failed: %v", i, runErr)
}

// exactlyOnce is the Go twin of Spec/SyncLockSpec.v: exactly_once_b.
func exactlyOnce(cs *slCase) []string {
	var bad []string
	for _, p := range cs.Plugins {
		if !p.Registered {
			continue
		}
		snap := map[string]bool{}
		for _, id := range p.Snapshot {
			snap[id] = true
		}
		cr := map[string]int{}
		for _, id := range p.Creates {
			cr[id]++
		}
		for _, id := range cs.Store {
			switch {
			case snap[id] && cr[id] > 0:
				bad = append(bad, fmt.Sprintf("%s: %s both in the snapshot and created", p.Name, id))
			case !snap[id] && cr[id] == 0:
				bad = append(bad, fmt.Sprintf("%s: %s neither in the snapshot nor created", p.Name, id))
			case cr[id] > 1:
				bad = append(bad, fmt.Sprintf("%s: %s created %d times", p.Name, id, cr[id]))
			}
		}
	}
	return bad
}

func driveSyncLock(c *hx.Ctx) error {
	exe, err := os.Executable()
	if err != nil {
		return err
	}
	sh := c.NewShard("synclock", "From NRI Require Import Model.SyncLock Spec.SyncLockSpec Run.Common Run.RunSyncLock.",
		"sync_case", "corr_sync", "holds_sync", 8)
	rnd := c.Rand("synclock")
	runs := c.Pick(40, 400)
	overlapped, unregistered, failing, twiceOther, probes := 0, 0, 0, 0, 0
	for i := 0; i < runs && failing < slMaxFailing; i++ {
		R := 2 + rnd.Intn(c.Pick(4, 8))
		P := 1 + rnd.Intn(c.Pick(5, 9))
		N := c.Pick(6, 12) + rnd.Intn(c.Pick(10, 24))
		starts := make([]int, P)
		for j := range starts {
			starts[j] = rnd.Intn(R*N*9/10 + 1)
		}
		if i%8 == 0 { // a burst: all registrations queue up at the same point
			for j := range starts {
				starts[j] = R * N / 2
			}
		}
		spec := slSpec{R: R, P: P, N: N, Starts: starts, DblSeed: rnd.Int63(), Probe: i == 0 || rnd.Intn(2) == 0}
		cs, err := runSyncLockChild(c, exe, i, spec)
		if err != nil {
			return fmt.Errorf("run %d: %w", i, err)
		}
		c.Count("synclock.runs", 1)
		if spec.Probe {
			probes++
			c.Count("synclock.runs_with_probe", 1)
		}
		if cs.Crash != "" {
			failing++
			c.Count("synclock.runs_runtime_died_in_sync_lock", 1)
			c.Eval(fmt.Sprint("synclock/", i), false)
			c.ImplFail("synclock", strings.Join(cs.Viol, "; "), cs)
			continue
		}
		var tr []string
		for _, e := range cs.Trace {
			tr = append(tr, e.coq())
		}
		var pos []string
		nontrivial := false
		for _, p := range cs.Plugins {
			s, cr := append([]string{}, p.Snapshot...), p.Creates
			sort.Strings(s)
			pos = append(pos, fmt.Sprintf("{| po_name := %s; po_registered := %s; po_snapshot := %s; po_creates := %s |}",
				coqfmt.Str(p.Name), coqfmt.Bool(p.Registered), coqfmt.StrList(s), coqfmt.StrList(cr)))
			if p.Registered && len(p.Snapshot) > 0 && len(p.Creates) > 2 {
				nontrivial = true
				overlapped++
			}
			if !p.Registered && !cs.Abandoned {
				unregistered++
			}
		}
		sh.Add(fmt.Sprintf("{| sc_trace := %s; sc_store := %s; sc_plugins := %s |}",
			coqfmt.List(tr), coqfmt.StrList(cs.Store), coqfmt.List(pos)), cs)
		c.Eval(fmt.Sprint("synclock/", i), nontrivial)
		c.Count("synclock.log_events", len(cs.Trace))
		c.Count("synclock.containers", len(cs.Store))
		c.Count("synclock.plugins", len(cs.Plugins))
		c.Count("synclock.blocks_released_twice", cs.Twice)
		c.Count("synclock.blocks_released_twice_while_another_block_held", cs.TwiceOth)
		twiceOther += cs.TwiceOth
		if cs.Abandoned {
			c.Count("synclock.runs_frozen_after_violation", 1)
		}
		if bad := exactlyOnce(cs); len(bad) > 0 || len(cs.Viol) > 0 {
			failing++
			c.ImplFail("synclock", strings.Join(append(bad, cs.Viol...), "; "), cs)
		}
		if i < 2 {
			c.Sample(map[string]interface{}{"R": R, "P": P, "N": N, "probe": spec.Probe, "log_events": len(cs.Trace),
				"released_twice": cs.Twice, "released_twice_while_another_block_held": cs.TwiceOth, "plugins": cs.Plugins[:1]}, 4)
		}
	}
	c.Count("synclock.plugins_registered_mid_stream", overlapped)
	// target shapes of the stream — judged only when no run failed (a failing run is the result then)
	if failing == 0 {
		if overlapped == 0 {
			c.HarnessError("synclock: no plugin registered while containers were being created")
		}
		if unregistered > 0 {
			c.HarnessError("synclock: %d plugins did not complete registration", unregistered)
		}
		if twiceOther == 0 || probes == 0 {
			c.HarnessError("synclock: no block was released twice while another block was held (%d), or no probe ran (%d)", twiceOther, probes)
		}
	} else {
		c.Count("synclock.failing_runs", failing)
	}
	c.Stats.Rule = "synclock: every run in a child process (a runtime that dies inside its sync lock is an observation): R goroutines x N CreateContainer requests inside BlockPluginSync/Unblock on one real Adaptation while P real stubs register at PRNG-chosen points of the creation stream (every 8th run: all at once) and a noise goroutine fires StartContainer outside any block; about 45% of the blocks are released TWICE (explicit Unblock plus a deferred one, the use the doc comment allows) while the other goroutines hold theirs; the held-block counter and the log count a block as released at its first Unblock only; about half of the runs start with a probe: two blocks held, a plugin waiting, the first block released twice while the second is between relaying its creation and its bookkeeping, and must keep the plugin out for a further 100 ms; non-trivial = some plugin completed registration with a non-empty snapshot and more than two creation requests"
	return nil
}
