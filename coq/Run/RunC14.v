From Coq Require Import String List Bool ZArith.
From NRI Require Import Base.Strs Model.Consts Model.Event Model.Convert Run.Common Spec.ConvertSpec.
Import ListNotations.
Local Open Scope Z_scope.

(* mask cases: the mask, what PrettyString printed, what ParseEventMask returned for it *)
Record mask_case := { mc_mask : Z; mc_pretty : string; mc_parsed : option Z }.

Definition corr_mask (c : mask_case) : bool :=
  String.eqb (pretty (mc_mask c)) (mc_pretty c) &&
  opt_eqb Z.eqb (parse [mc_pretty c]) (mc_parsed c).

Definition holds_mask (c : mask_case) : bool :=
  opt_eqb Z.eqb (mc_parsed c) (Some (mc_mask c)).

(* free-form parser cases (separate stream): arbitrary event strings *)
Record parse_case := { pc_input : list string; pc_result : option Z }.
Definition corr_parse (c : parse_case) : bool := opt_eqb Z.eqb (parse (pc_input c)) (pc_result c).

(* ------------------------------------------------------------------ conversions
   Every case carries the input, what the real conversion returned for it, and what the
   real conversion in the opposite direction returned for that ("back").
   N = the input is the NRI value, O = the input is the OCI value. *)
Inductive conv_case :=
| CResN (r : option resources) (o : option oresources) (back : option resources)
| CResO (o : option oresources) (r : option resources) (back : option oresources)
  (* Mount.ToOCI(q) with the string q points to before and after; FromOCIMounts([o]) *)
| CMountN (m : mount) (q : option string) (o : omount) (q' : option string) (back : list mount)
  (* FromOCIMounts(o); then each ToOCI(nil) *)
| CMountsO (o : list omount) (ms : list mount) (back : list omount)
  (* LinuxDevice.ToOCI (d may be nil); FromOCILinuxDevices([o]) *)
| CDevN (d : option device) (o : odevice) (back : list device)
| CDevsO (o : list odevice) (ds : list device) (back : list odevice)
  (* the six lists converted hook by hook with Hook.ToOCI; FromOCIHooks(&o) *)
| CHooksN (h : hooks) (o : ohooks) (back : option hooks)
| CHooksO (o : option ohooks) (h : option hooks) (back : option ohooks)
  (* each KeyValue.ToOCI; FromOCIEnv *)
| CEnvN (l : list keyvalue) (ss : list string) (back : list keyvalue)
| CEnvO (ss : list string) (l : list keyvalue) (back : list string)
| CDupSlice (l back : list string)
| CDupMap (m back : list (string * string)).

Definition corr_conv (c : conv_case) : bool :=
  match c with
  | CResN r o back =>
      opt_eqb oresources_eqb (to_oci_resources r) o && opt_eqb resources_eqb (from_oci_resources o) back
  | CResO o r back =>
      opt_eqb resources_eqb (from_oci_resources o) r && opt_eqb oresources_eqb (to_oci_resources r) back
  | CMountN m q o q' back =>
      omount_eqb (fst (mount_to_oci m q)) o && os_eqb (snd (mount_to_oci m q)) q' &&
      list_eqb mount_eqb (from_oci_mounts [o]) back
  | CMountsO o ms back =>
      list_eqb mount_eqb (from_oci_mounts o) ms &&
      list_eqb omount_eqb (map (fun m => fst (mount_to_oci m None)) ms) back
  | CDevN d o back =>
      odevice_eqb (device_to_oci d) o && list_eqb device_eqb (from_oci_devices [o]) back
  | CDevsO o ds back =>
      list_eqb device_eqb (from_oci_devices o) ds &&
      list_eqb odevice_eqb (map (fun d => device_to_oci (Some d)) ds) back
  | CHooksN h o back =>
      ohooks_eqb (hooks_to_oci h) o && opt_eqb hooks_eqb (from_oci_hooks (Some o)) back
  | CHooksO o h back =>
      opt_eqb hooks_eqb (from_oci_hooks o) h && opt_eqb ohooks_eqb (option_map hooks_to_oci h) back
  | CEnvN l ss back =>
      sl_eqb (to_oci_env l) ss && list_eqb kv_eqb (from_oci_env ss) back
  | CEnvO ss l back =>
      list_eqb kv_eqb (from_oci_env ss) l && sl_eqb (to_oci_env l) back
  | CDupSlice l back => sl_eqb (dup_string_slice l) back
  | CDupMap m back => ss_eqb (dup_string_map m) back
  end.

(* the predicates of Spec/ConvertSpec.v on the implementation's observations only *)
Definition holds_conv (c : conv_case) : bool :=
  match c with
  | CResN r _ back => rt_res_nri r back
  | CResO o _ back => rt_res_oci o back
  | CMountN m _ _ _ back => rt_mount_nri m back
  | CMountsO o _ back => rt_mounts_oci o back
  | CDevN d _ back => rt_device_nri d back
  | CDevsO o _ back => rt_devices_oci o back
  | CHooksN h _ back => rt_hooks_nri h back
  | CHooksO o _ back => rt_hooks_oci o back
  | CEnvN l _ back => rt_env_nri l back
  | CEnvO ss _ back => rt_env_oci ss back
  | CDupSlice l back => sl_eqb back l
  | CDupMap m back => ss_eqb back m
  end.

(* ------------------------------------------------------------------ Copy *)
Record copy_case := { cc_in : option resources; cc_out : option resources }.
Definition corr_copy (c : copy_case) : bool := opt_eqb resources_eqb (copy (cc_in c)) (cc_out c).
Definition holds_copy (c : copy_case) : bool := copy_ok (cc_in c) (cc_out c).

(* ------------------------------------------------------------------ optional constructors
   the constructor, its argument, what it returned, what Get() of the result returned *)
Record opt_case := { oc_kind : ckind; oc_arg : goarg; oc_res : oval; oc_get : oval }.
Definition corr_opt (c : opt_case) : bool :=
  oval_eqb (ctor (oc_kind c) (oc_arg c)) (oc_res c) &&
  oval_eqb (getter (oc_kind c) (oc_res c)) (oc_get c).
Definition holds_opt (c : opt_case) : bool := ctor_ok (oc_kind c) (oc_arg c) (oc_res c) (oc_get c).
