(* Reference semantics and executable predicates for C15 (subscription, dispatch) and C16 (life cycle).
   Everything here is phrased in terms of the protocol (which handler exists for which event,
   how the runtime carries an event) and of the property text; nothing refers to the tables
   regenerated from stub.go.  No proofs in this file. *)
From Coq Require Import String Ascii List Bool ZArith NArith Arith.
From NRI Require Import Base.Strs Base.Assoc Model.Consts Model.Event Model.Stub.
Import ListNotations.
Open Scope string_scope.
Open Scope list_scope.

(* ====================================================================== *)
(* C15 — subscription                                                      *)
(* ====================================================================== *)

(* the plugin type p implements a handler for event e *)
Definition ref_implemented (p : plugin) (e : Z) : bool :=
  existsb (fun h => implements p h && (proto_event h =? e)%Z) all_handlers.

(* the mask with exactly the events of the handlers p implements (he = the handler/event table) *)
Definition ref_mask_t (he : list (handler * Z)) (p : plugin) : Z :=
  fold_left (fun m x => if implements p (fst x) then set_bit m (snd x) else m) he 0%Z.
Definition ref_mask (p : plugin) : Z := ref_mask_t handler_events p.

(* every bit of m (any of the 32 bits of the int32, sign included) is a bit of ev *)
Definition subset_of (m ev : Z) : bool := (Z.land m (Z.lnot ev) =? 0)%Z.

(* what the property demands of the answer to Configure, given what the plugin's hook did:
   no hook or mask 0: exactly the implemented events; a subset: that subset; anything with an
   event the plugin cannot handle: refused; a failing hook: its failure *)
Definition holds_cfg_m (rm : Z) (hook : cfg_hook) (obs : cfg_result) : bool :=
  match hook, obs with
  | NoHook, COk m => (m =? rm)%Z
  | HookFails, CErrHook => true
  | HookMask r, COk m => subset_of r rm && (m =? (if (r =? 0)%Z then rm else r))%Z
  | HookMask r, CErrUnhandled => negb (subset_of r rm)
  | _, _ => false
  end.
Definition holds_cfg (p : plugin) (hook : cfg_hook) (obs : cfg_result) : bool :=
  holds_cfg_m (ref_mask p) hook obs.

(* stub.New succeeds iff the plugin implements at least one of the thirteen handlers *)
Definition ref_new_ok (p : plugin) : bool := existsb (implements p) all_handlers.

(* setupHandlers meets the reference for plugin type p *)
Definition ref_ok (he : list (handler * Z)) (p : plugin) : bool :=
  (stub_events p =? ref_mask_t he p)%Z && Bool.eqb (new_ok p) (ref_new_ok p).

(* ====================================================================== *)
(* C15 — dispatch                                                          *)
(* ====================================================================== *)

Definition carrier_eqb (a b : carrier) : bool :=
  match a, b with
  | ByRPC x, ByRPC y => String.eqb x y
  | ByStateChange, ByStateChange => true
  | _, _ => false
  end.

(* the handler a message is for: by its RPC, or for StateChange by its event number *)
Definition handler_for (c : carrier) (ev : Z) : option handler :=
  find (fun h => carrier_eqb (carrier_of h) c &&
                 match c with ByStateChange => (proto_event h =? ev)%Z | ByRPC _ => true end) all_handlers.

(* what the property demands of the delivery of an arbitrary message: the handler the message is
   for — if the plugin has it — runs once with the message's fields and its results are what the
   runtime gets; a message that is for no handler (unknown event, unknown RPC) runs nothing *)
Definition expected_msg (p : plugin) (c : carrier) (m : message) (beh : string -> hresult)
  : list invocation * reply :=
  match handler_for c (m_event m) with
  | Some h => expected_delivery p h m beh
  | None => ([], no_reply)
  end.

Definition sl_eqb (a b : list string) : bool :=
  (fix go (a b : list string) : bool :=
     match a, b with
     | [], [] => true
     | x :: r, y :: s => String.eqb x y && go r s
     | _, _ => false
     end) a b.

Definition invocation_eqb (a b : invocation) : bool := String.eqb (fst a) (fst b) && sl_eqb (snd a) (snd b).

Fixpoint invocations_eqb (a b : list invocation) : bool :=
  match a, b with
  | [], [] => true
  | x :: r, y :: s => invocation_eqb x y && invocations_eqb r s
  | _, _ => false
  end.

Definition reply_eqb (a b : reply) : bool :=
  match a, b with
  | ROk x y, ROk x' y' => String.eqb x x' && String.eqb y y'
  | RErr x, RErr y => String.eqb x y
  | _, _ => false
  end.

Definition delivery_eqb (a b : list invocation * reply) : bool :=
  invocations_eqb (fst a) (fst b) && reply_eqb (snd a) (snd b).

(* behaviours as data: method -> results, everything else returns nothing *)
Definition beh_of (l : list (string * hresult)) (meth : string) : hresult :=
  match alookup meth l with Some r => r | None => {| r_adjust := ""; r_update := ""; r_error := "" |} end.

Definition holds_disp (p : plugin) (c : carrier) (m : message) (beh : string -> hresult)
           (obs : list invocation * reply) : bool :=
  delivery_eqb obs (expected_msg p c m beh).

(* ====================================================================== *)
(* C16 — the life cycle                                                    *)
(* ====================================================================== *)

Definition reachable (sw : switches) (s : state) : Prop := exists l, s = run sw init l.

Definition b2n (b : bool) : nat := if b then 1 else 0.

(* where the one close notification of the ttrpc client of generation g currently is: already
   delivered to the plugin (fired), under way (pending), not yet emitted because the client is
   still open, or being handled right now (closer) *)
Definition tokens (s : state) (g : nat) : nat :=
  count_occ_nat g (fired s) + count_occ_nat g (pending s) + b2n (cli_open s && Nat.eqb g (gen s)) +
  match closer s with Some g' => b2n (Nat.eqb g' g) | None => 0 end.

(* invariant of the life-cycle LTS (for any setting of the switches; the clauses about the
   connection are conditional on the switch that breaks them) *)
Record wf (sw : switches) (s : state) : Prop := {
  (* connClosed is in progress only while close() waits for the server loop *)
  wf_closer : match ph s with Closing | ClosingStuck => True | _ => closer s = None end;
  (* an open client exists only from its creation in Start until the session ends *)
  wf_cli : match ph s with Registering | AwaitConfigure | AwaitLost | Configured => True | _ => cli_open s = false end;
  (* every client ever created has exactly one close notification, somewhere *)
  wf_tokens : forall g, tokens s g = b2n (Nat.leb 1 g && Nat.leb g (gen s));
  wf_conn : match ph s with
            | AwaitConfigure => wait_cfg_unguarded sw = false -> conn_live (sconn s) = true
            | Idle => dead_conn_reused sw = false -> sconn s = CNone
            | MuxUp | Registering => dead_conn_reused sw = false -> conn_live (sconn s) = true
            (* Start can only be left waiting without a result if Configure omits the send on some path *)
            | AwaitLost => cfg_ok_unsent sw || cfg_hookerr_unsent sw || cfg_reject_unsent sw = true
            | _ => True
            end;
  wf_started : match ph s with Configured => started s = true | Idle => started s = false | _ => True end;
  wf_waiters : match ph s with Configured | Closing => True | _ => waiters s = [] end;
  (* a Run call is blocked only on the current session, while it is up or being closed *)
  wf_runners : close_takes_srv_result sw = false ->
               match ph s with
               | Configured | Closing => forallb (Nat.eqb (gen s)) (runners s) = true
               | _ => runners s = []
               end;
  (* with a channel per Start no Configure result outlives its session *)
  wf_stale : cfg_chan_shared sw = false -> stale_cfg s = false
}.

(* the events a healthy runtime produces for one Start *)
Definition healthy_start : list action := [AStart; EDialOk; ISetupOk; ERegOk; ECfgOk].

(* s' is the same session as s: nothing the plugin or the runtime can see changed except the
   bookkeeping of close notifications (pending, fired) *)
Definition same_session (s s' : state) : Prop :=
  ph s' = ph s /\ started s' = started s /\ sconn s' = sconn s /\ gen s' = gen s /\ cli_open s' = cli_open s /\
  waiters s' = waiters s /\ established s' = established s /\ last_start s' = last_start s /\
  runners s' = runners s /\ stale_cfg s' = stale_cfg s.


(* Configure hands its result to Start on every way it can end *)
Definition results_sent (sw : switches) : Prop :=
  cfg_ok_unsent sw = false /\ cfg_hookerr_unsent sw = false /\ cfg_reject_unsent sw = false.

