(* Combination theorems for C04, part 8: the run-time predicate holds_C04 (Run/RunAdapt.v), evaluated on the
   model's own views, is true — theorem and run-time check coincide: a false holds_C04 on a harness case
   whose views correspond to the model's can only come from a creation request violating W4.
   (The RUpdate case uses update_view_full of Proofs/UpdateViewProofs.v: judged at every position, also
   after a dropped ignore-failure update.) *)
From Coq Require Import String Ascii List Bool ZArith Arith Lia.
From NRI Require Import Base.Strs Base.Assoc Model.Types Model.Result Spec.Apply Spec.AbsLedger Run.RunAdapt
  Proofs.CombineWf Proofs.CombineProofs Proofs.CombineView Proofs.CombineUpdate Proofs.UpdateViewProofs.
Import ListNotations.
Open Scope string_scope.
Open Scope list_scope.

Lemma views_ok_nth views : forall n f,
  (forall i v, nth_error views i = Some v -> f (n + i) v = true) -> views_ok n views f = true.
Proof.
  induction views as [|a r IH]; intros n f H; cbn [views_ok]; [reflexivity|].
  apply andb_true_iff. split.
  - rewrite <- (Nat.add_0_r n). apply (H 0 a). reflexivity.
  - apply IH. intros i v Hn. replace (S n + i) with (n + S i) by lia. apply (H (S i) v). exact Hn.
Qed.

Lemma wf_views_firstn rps i : wf_views rps = true -> wf_views (firstn i rps) = true.
Proof.
  unfold wf_views. rewrite !forallb_forall. intros H p Hp. apply H. rewrite adjs_of_firstn in Hp. apply (In_firstn _ _ _ Hp).
Qed.

Theorem holds_C04_on_model (case : adapt_case) :
  ac_views case = fst (run_request (ac_req case) (ac_resps case)) ->
  holds_C04 case = true.
Proof.
  unfold holds_C04. intros Hv. destruct (ac_req case) as [c0|id req|id] eqn:Hr; [| |reflexivity].
  - rewrite Hv. apply views_ok_nth. intros i v Hn. cbn [Nat.add].
    destruct (wf_views (firstn i (ac_resps case))) eqn:Hw; [|reflexivity]. cbn [negb orb].
    destruct (view_is_prefix_result_w4 c0 (ac_resps case) i v Hw Hn) as [x [-> Hx]].
    exact Hx.
  - rewrite Hv. apply views_ok_nth. intros i v Hn. cbn [Nat.add].
    destruct (update_view_full id req (ac_resps case) i v Hn) as [x [-> Hx]]. exact Hx.
Qed.
