package main

import (
	"context"
	"fmt"
	"os"
	"path/filepath"
	"sort"
	"strconv"
	"strings"
	"sync"
	"sync/atomic"
	"time"

	"github.com/containerd/nri/pkg/adaptation"
	"github.com/containerd/nri/pkg/api"
	"github.com/containerd/nri/pkg/stub"

	"verif/harness/internal/coqfmt"
	"verif/harness/internal/hx"
)

// one entry of the API-level log (Model/SyncLock.v: lev)
type logEv struct {
	Kind string   `json:"k"` // acq rel recv ret store enter srecv sret
	G    string   `json:"g,omitempty"`
	P    string   `json:"p,omitempty"` // plugin name, or (enter/sret, before resolution) the sync session
	C    string   `json:"c,omitempty"`
	IDs  []string `json:"ids,omitempty"`
	OK   bool     `json:"ok,omitempty"`
	sess int
}

type slPlugin struct {
	run      *slRun
	name     string
	stub     stub.Stub
	snapshot []string
	creates  []string
	syncs    int
	sess     int
	closed   int32
}

type slRun struct {
	a      *adaptation.Adaptation
	mu     sync.Mutex // protects log, store, every plugin's records: one linearisation
	log    []logEv
	store  []string
	sess   int
	held   int32 // sync blocks currently held (between "acquired" and "released" log entries)
	inSync int32 // SyncFn invocations in progress
	viol   []string
	rets   int32 // SyncFn returns
}

func (r *slRun) violation(format string, args ...interface{}) {
	r.mu.Lock()
	if len(r.viol) < 10 {
		r.viol = append(r.viol, fmt.Sprintf(format, args...))
	}
	r.mu.Unlock()
}

// syncFn is the runtime side of a plugin synchronisation: it must never overlap a held sync block.
func (r *slRun) syncFn(ctx context.Context, cb adaptation.SyncCB) error {
	atomic.AddInt32(&r.inSync, 1)
	if h := atomic.LoadInt32(&r.held); h != 0 {
		r.violation("SyncFn entered while %d sync block(s) held", h)
	}
	r.mu.Lock()
	k := r.sess
	r.sess++
	snap := append([]string{}, r.store...)
	r.log = append(r.log, logEv{Kind: "enter", sess: k, IDs: snap})
	r.mu.Unlock()

	// the session number travels to the plugin inside the snapshot, which is how the log learns
	// which plugin this invocation synchronised
	pods := []*api.PodSandbox{{Id: "sync-" + strconv.Itoa(k), Name: "sync"}}
	ctrs := make([]*api.Container, len(snap))
	for i, id := range snap {
		ctrs[i] = &api.Container{Id: id, PodSandboxId: "pod0", Name: id}
	}
	_, err := cb(ctx, pods, ctrs)

	if h := atomic.LoadInt32(&r.held); h != 0 {
		r.violation("%d sync block(s) held when SyncFn was about to return", h)
	}
	r.mu.Lock()
	r.log = append(r.log, logEv{Kind: "sret", sess: k, OK: err == nil})
	r.mu.Unlock()
	atomic.AddInt32(&r.inSync, -1)
	atomic.AddInt32(&r.rets, 1)
	return err
}

func (p *slPlugin) Synchronize(_ context.Context, pods []*api.PodSandbox, ctrs []*api.Container) ([]*api.ContainerUpdate, error) {
	k := -1
	for _, pod := range pods {
		if strings.HasPrefix(pod.Id, "sync-") {
			k, _ = strconv.Atoi(pod.Id[5:])
		}
	}
	ids := make([]string, len(ctrs))
	for i, c := range ctrs {
		ids[i] = c.Id
	}
	r := p.run
	r.mu.Lock()
	p.syncs++
	p.sess = k
	p.snapshot = ids
	r.log = append(r.log, logEv{Kind: "srecv", P: p.name, IDs: ids, sess: k})
	r.mu.Unlock()
	return nil, nil
}

func (p *slPlugin) CreateContainer(_ context.Context, _ *api.PodSandbox, c *api.Container) (*api.ContainerAdjustment, []*api.ContainerUpdate, error) {
	g := c.Id
	if i := strings.IndexByte(g, '-'); i > 0 {
		g = g[:i]
	}
	r := p.run
	r.mu.Lock()
	p.creates = append(p.creates, c.Id)
	r.log = append(r.log, logEv{Kind: "recv", G: g, P: p.name, C: c.Id})
	r.mu.Unlock()
	return nil, nil, nil
}

// noise: requests outside any sync block keep the adaptation mutex busy
func (p *slPlugin) StartContainer(context.Context, *api.PodSandbox, *api.Container) error { return nil }

type slCase struct {
	Trace   []logEv     `json:"trace"`
	Store   []string    `json:"store"`
	Plugins []slPlugObs `json:"plugins"`
	Viol    []string    `json:"violations,omitempty"`
	R, P, N int
}

type slPlugObs struct {
	Name       string   `json:"name"`
	Registered bool     `json:"registered"`
	Snapshot   []string `json:"snapshot"`
	Creates    []string `json:"creates"`
}

func (e logEv) coq() string {
	switch e.Kind {
	case "acq":
		return "LBlockAcq " + coqfmt.Str(e.G)
	case "rel":
		return "LBlockRel " + coqfmt.Str(e.G)
	case "recv":
		return fmt.Sprintf("LRecv %s %s %s", coqfmt.Str(e.G), coqfmt.Str(e.P), coqfmt.Str(e.C))
	case "ret":
		return fmt.Sprintf("LCreateRet %s %s", coqfmt.Str(e.G), coqfmt.Str(e.C))
	case "store":
		return fmt.Sprintf("LStore %s %s", coqfmt.Str(e.G), coqfmt.Str(e.C))
	case "enter":
		return fmt.Sprintf("LSyncEnter %s %s", coqfmt.Str(e.P), coqfmt.StrList(e.IDs))
	case "srecv":
		return fmt.Sprintf("LSyncRecv %s %s", coqfmt.Str(e.P), coqfmt.StrList(e.IDs))
	case "sret":
		return fmt.Sprintf("LSyncRet %s %s", coqfmt.Str(e.P), coqfmt.Bool(e.OK))
	}
	panic("unknown log event " + e.Kind)
}

// oneSyncLockRun: R goroutines x N creations inside sync blocks, P stubs registering at points of the
// creation stream chosen by the PRNG, one noise goroutine.
func oneSyncLockRun(c *hx.Ctx, R, P, N int, starts []int) (*slCase, error) {
	dir, err := scratch("sl")
	if err != nil {
		return nil, err
	}
	defer os.RemoveAll(dir)
	sock := filepath.Join(dir, "nri.sock")
	r := &slRun{}
	a, err := newAdaptation(dir, sock, r.syncFn)
	if err != nil {
		return nil, err
	}
	r.a = a
	if err := a.Start(); err != nil {
		return nil, err
	}
	defer a.Stop()
	// Start synchronises the (here: no) pre-installed plugins through SyncFn once; that is start-up,
	// not a registration: it is not part of the log
	r.mu.Lock()
	r.log = nil
	r.mu.Unlock()
	base := atomic.LoadInt32(&r.rets)

	ctx := context.Background()
	pod := &api.PodSandbox{Id: "pod0", Name: "pod0", Namespace: "default"}
	total := int32(0)
	stop := make(chan struct{})
	var wg, nwg sync.WaitGroup
	var herr atomic.Value

	// noise
	nwg.Add(1)
	go func() {
		defer nwg.Done()
		ctr := &api.Container{Id: "noise", PodSandboxId: pod.Id, Name: "noise"}
		for {
			select {
			case <-stop:
				return
			default:
			}
			a.StartContainer(ctx, &api.StateChangeEvent{Pod: pod, Container: ctr})
			time.Sleep(20 * time.Microsecond)
		}
	}()

	// plugins
	plugins := make([]*slPlugin, P)
	var pwg sync.WaitGroup
	for j := 0; j < P; j++ {
		p := &slPlugin{run: r, name: fmt.Sprintf("%02d-p%d", (j*37)%100, j), sess: -1}
		st, err := stub.New(p, stub.WithPluginName(fmt.Sprintf("p%d", j)), stub.WithPluginIdx(fmt.Sprintf("%02d", (j*37)%100)),
			stub.WithSocketPath(sock), stub.WithOnClose(func() { atomic.StoreInt32(&p.closed, 1) }))
		if err != nil {
			return nil, err
		}
		p.stub = st
		plugins[j] = p
		pwg.Add(1)
		go func(j int) {
			defer pwg.Done()
			for atomic.LoadInt32(&total) < int32(starts[j]) {
				time.Sleep(50 * time.Microsecond)
			}
			if err := st.Start(ctx); err != nil {
				herr.Store(fmt.Errorf("stub %d start: %w", j, err))
			}
		}(j)
	}

	// runtime goroutines
	for g := 0; g < R; g++ {
		wg.Add(1)
		go func(g int) {
			defer wg.Done()
			gn := "g" + strconv.Itoa(g)
			for i := 0; i < N; i++ {
				b := a.BlockPluginSync()
				atomic.AddInt32(&r.held, 1)
				if atomic.LoadInt32(&r.inSync) != 0 {
					r.violation("sync block acquired by %s while SyncFn in progress", gn)
				}
				r.mu.Lock()
				r.log = append(r.log, logEv{Kind: "acq", G: gn})
				r.mu.Unlock()

				id := gn + "-c" + strconv.Itoa(i)
				_, err := a.CreateContainer(ctx, &api.CreateContainerRequest{Pod: pod,
					Container: &api.Container{Id: id, PodSandboxId: pod.Id, Name: id}})
				r.mu.Lock()
				r.log = append(r.log, logEv{Kind: "ret", G: gn, C: id})
				r.mu.Unlock()
				if err != nil {
					herr.Store(fmt.Errorf("CreateContainer %s: %w", id, err))
				}
				r.mu.Lock()
				r.store = append(r.store, id)
				r.log = append(r.log, logEv{Kind: "store", G: gn, C: id})
				r.mu.Unlock()
				atomic.AddInt32(&total, 1)

				r.mu.Lock()
				r.log = append(r.log, logEv{Kind: "rel", G: gn})
				r.mu.Unlock()
				if atomic.LoadInt32(&r.inSync) != 0 {
					r.violation("SyncFn in progress while %s still holds its sync block", gn)
				}
				atomic.AddInt32(&r.held, -1)
				b.Unblock()
				if i%3 == g%3 {
					time.Sleep(time.Duration(30*(g+1)) * time.Microsecond)
				}
			}
		}(g)
	}
	wg.Wait()
	pwg.Wait()
	// every registration has been through SyncFn; then one more block: acquired only after the last
	// finishedPluginSync, i.e. after the last activation
	deadline := time.Now().Add(60 * time.Second)
	for atomic.LoadInt32(&r.rets)-base < int32(P) && time.Now().Before(deadline) {
		time.Sleep(200 * time.Microsecond)
	}
	if got := atomic.LoadInt32(&r.rets) - base; got < int32(P) {
		herr.Store(fmt.Errorf("only %d of %d registrations reached SyncFn within 60s", got, P))
	}
	a.BlockPluginSync().Unblock()
	// a tail of creations that every registered plugin must see as requests
	for i := 0; i < 2; i++ {
		b := a.BlockPluginSync()
		atomic.AddInt32(&r.held, 1)
		r.mu.Lock()
		r.log = append(r.log, logEv{Kind: "acq", G: "gt"})
		r.mu.Unlock()
		id := "gt-c" + strconv.Itoa(i)
		_, err := a.CreateContainer(ctx, &api.CreateContainerRequest{Pod: pod,
			Container: &api.Container{Id: id, PodSandboxId: pod.Id, Name: id}})
		if err != nil {
			herr.Store(fmt.Errorf("CreateContainer %s: %w", id, err))
		}
		r.mu.Lock()
		r.log = append(r.log, logEv{Kind: "ret", G: "gt", C: id})
		r.store = append(r.store, id)
		r.log = append(r.log, logEv{Kind: "store", G: "gt", C: id})
		r.log = append(r.log, logEv{Kind: "rel", G: "gt"})
		r.mu.Unlock()
		atomic.AddInt32(&r.held, -1)
		b.Unblock()
	}
	close(stop)
	nwg.Wait()
	for _, p := range plugins {
		if atomic.LoadInt32(&p.closed) != 0 {
			herr.Store(fmt.Errorf("plugin %s lost its connection during the run", p.name))
		}
	}
	if e := herr.Load(); e != nil {
		return nil, e.(error)
	}

	r.mu.Lock()
	defer r.mu.Unlock()
	// resolve sync sessions to plugin names through what the plugins received
	sessName := map[int]string{}
	for _, p := range plugins {
		if p.sess >= 0 {
			sessName[p.sess] = p.name
		}
	}
	okSess := map[int]bool{}
	cs := &slCase{Store: append([]string{}, r.store...), Viol: r.viol, R: R, P: P, N: N}
	for _, e := range r.log {
		switch e.Kind {
		case "enter", "sret":
			n, ok := sessName[e.sess]
			if !ok {
				n = "?" + strconv.Itoa(e.sess)
			}
			e.P = n
			if e.Kind == "sret" && e.OK {
				okSess[e.sess] = true
			}
		}
		cs.Trace = append(cs.Trace, e)
	}
	for _, p := range plugins {
		cs.Plugins = append(cs.Plugins, slPlugObs{Name: p.name, Registered: p.sess >= 0 && okSess[p.sess],
			Snapshot: append([]string{}, p.snapshot...), Creates: append([]string{}, p.creates...)})
		if p.syncs != 1 {
			cs.Viol = append(cs.Viol, fmt.Sprintf("plugin %s was synchronized %d times", p.name, p.syncs))
		}
	}
	for _, p := range plugins {
		p.stub.Stop()
	}
	return cs, nil
}

// exactlyOnce is the Go twin of Spec/SyncLockSpec.v: exactly_once_b.
func exactlyOnce(cs *slCase) []string {
	var bad []string
	for _, p := range cs.Plugins {
		if !p.Registered {
			continue
		}
		snap := map[string]bool{}
		for _, id := range p.Snapshot {
			snap[id] = true
		}
		cr := map[string]int{}
		for _, id := range p.Creates {
			cr[id]++
		}
		for _, id := range cs.Store {
			switch {
			case snap[id] && cr[id] > 0:
				bad = append(bad, fmt.Sprintf("%s: %s both in the snapshot and created", p.Name, id))
			case !snap[id] && cr[id] == 0:
				bad = append(bad, fmt.Sprintf("%s: %s neither in the snapshot nor created", p.Name, id))
			case cr[id] > 1:
				bad = append(bad, fmt.Sprintf("%s: %s created %d times", p.Name, id, cr[id]))
			}
		}
	}
	return bad
}

func driveSyncLock(c *hx.Ctx) error {
	adaptation.SetPluginRegistrationTimeout(60 * time.Second)
	adaptation.SetPluginRequestTimeout(60 * time.Second)
	sh := c.NewShard("synclock", "From NRI Require Import Model.SyncLock Spec.SyncLockSpec Run.Common Run.RunSyncLock.",
		"sync_case", "corr_sync", "holds_sync", 8)
	rnd := c.Rand("synclock")
	runs := c.Pick(40, 400)
	overlapped, unregistered := 0, 0
	for i := 0; i < runs; i++ {
		R := 2 + rnd.Intn(c.Pick(4, 8))
		P := 1 + rnd.Intn(c.Pick(5, 9))
		N := c.Pick(6, 12) + rnd.Intn(c.Pick(10, 24))
		starts := make([]int, P)
		for j := range starts {
			starts[j] = rnd.Intn(R*N*9/10 + 1)
		}
		if i%8 == 0 { // a burst: all registrations queue up at the same point
			for j := range starts {
				starts[j] = R * N / 2
			}
		}
		cs, err := oneSyncLockRun(c, R, P, N, starts)
		if err != nil {
			return fmt.Errorf("run %d: %w", i, err)
		}
		var tr []string
		for _, e := range cs.Trace {
			tr = append(tr, e.coq())
		}
		var pos []string
		nontrivial := false
		for _, p := range cs.Plugins {
			s, cr := append([]string{}, p.Snapshot...), p.Creates
			sort.Strings(s)
			pos = append(pos, fmt.Sprintf("{| po_name := %s; po_registered := %s; po_snapshot := %s; po_creates := %s |}",
				coqfmt.Str(p.Name), coqfmt.Bool(p.Registered), coqfmt.StrList(s), coqfmt.StrList(cr)))
			if p.Registered && len(p.Snapshot) > 0 && len(p.Creates) > 2 {
				nontrivial = true
				overlapped++
			}
			if !p.Registered {
				unregistered++
			}
		}
		sh.Add(fmt.Sprintf("{| sc_trace := %s; sc_store := %s; sc_plugins := %s |}",
			coqfmt.List(tr), coqfmt.StrList(cs.Store), coqfmt.List(pos)), cs)
		c.Eval(fmt.Sprint("synclock/", i), nontrivial)
		c.Count("synclock.runs", 1)
		c.Count("synclock.log_events", len(cs.Trace))
		c.Count("synclock.containers", len(cs.Store))
		c.Count("synclock.plugins", len(cs.Plugins))
		if bad := exactlyOnce(cs); len(bad) > 0 || len(cs.Viol) > 0 {
			c.ImplFail("synclock", strings.Join(append(bad, cs.Viol...), "; "), cs)
		}
		if i < 2 {
			c.Sample(map[string]interface{}{"R": R, "P": P, "N": N, "log_events": len(cs.Trace), "plugins": cs.Plugins[:1]}, 4)
		}
	}
	c.Count("synclock.plugins_registered_mid_stream", overlapped)
	if overlapped == 0 {
		c.HarnessError("synclock: no plugin registered while containers were being created")
	}
	if unregistered > 0 {
		c.HarnessError("synclock: %d plugins did not complete registration", unregistered)
	}
	c.Stats.Rule = "synclock: per run R goroutines x N CreateContainer requests inside BlockPluginSync/Unblock on one real Adaptation while P real stubs register at PRNG-chosen points of the creation stream (every 8th run: all at once) and a noise goroutine fires StartContainer outside any block; non-trivial = some plugin completed registration with a non-empty snapshot and more than two creation requests"
	return nil
}
