(* C02 — plugins touching disjoint items, or removing before setting, never conflict. *)
From Coq Require Import String List Bool.
From NRI Require Import Model.Types Model.Result Spec.AbsLedger Proofs.LedgerProofs.
Import ListNotations.

(* If no key is claimed twice in the whole history (no two plugins set the same item of the same
   container) and none is held beforehand, the abstract ledger never reports a conflict — whatever is
   released, whatever the original container or the runtime's request contains (abs_run does not
   read them at all). *)
Theorem C02_abs_disjoint_no_conflict :
  forall gs o d,
    NoDup (concat (map g_claims gs)) ->
    (forall k, In k (concat (map g_claims gs)) -> lmem k o = false) ->
    exists r, abs_run gs o d = Some r.
Proof. exact abs_disjoint_no_conflict. Qed.
Print Assumptions C02_abs_disjoint_no_conflict.

Example C02_example_remove_then_set :
  abs_conflict (Some "c"%string)
    [ {| rp_adjust := Some (with_a_ann adj_empty [("k", "A")]%string); rp_updates := [] |};
      {| rp_adjust := Some (with_a_ann adj_empty [("-k", ""); ("k", "B")]%string); rp_updates := [] |} ] = false.
Proof. reflexivity. Qed.
