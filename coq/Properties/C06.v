(* C06 — Subscribed plugins get each event once, in index order, in one common order.
   This file contains only statements closed by [exact]; the model is Model/Dispatch.v
   (tables regenerated from the sources in Model/DispConsts.v and Model/Consts.v). *)
From Coq Require Import String List Bool ZArith NArith Sorted Permutation.
From NRI Require Import Model.Consts Model.Event Model.DispConsts Model.Dispatch
  Spec.DispatchSpec Proofs.DispatchProofs.
Import ListNotations.
Open Scope string_scope.
Open Scope list_scope.

(* The indices CheckPluginIndex accepts are exactly "00" … "99" (100 strings), and on all
   100 x 100 pairs Go's byte-wise string comparison — the one sortPlugins uses — is the
   numeric order.  Complete computation over the finite domain, stated in the theorem. *)
Theorem C06_index_order_is_numeric :
  (length all_indices = 100%nat /\ NoDup all_indices) /\
  (forall s, check_index s = true -> In s all_indices) /\
  (forall s, In s all_indices -> check_index s = true) /\
  (forall a b, In a all_indices -> In b all_indices ->
     (str_ltb a b = true <-> (index_num a < index_num b)%Z)).
Proof. exact (conj all_indices_count (conj check_index_in (conj in_indices_check index_order_is_numeric))). Qed.
Print Assumptions C06_index_order_is_numeric.

(* Subscription, for EVERY mask an int32 holds without its sign bit (bit-level lemma, no
   sweep): the empty mask subscribes to all thirteen events; any other accepted mask to
   exactly the events whose bit (event number - 1) it has; a refused mask has a bit outside
   ValidEvents. *)
Theorem C06_subscription_is_the_mask_bit : forall raw e : Z,
  (0 <= raw < 2 ^ 31)%Z -> (1 <= e <= 13)%Z ->
  match configure_events raw with
  | Some m => is_set m e = (if (raw =? 0)%Z then true else Z.testbit raw (e - 1))
  | None => raw <> 0%Z /\ (exists k : Z, (13 <= k < 31)%Z /\ Z.testbit raw k = true)
  end.
Proof. exact configure_subscription. Qed.
Print Assumptions C06_subscription_is_the_mask_bit.

(* sortPlugins: the model's sort is sorted and a permutation of the un-closed plugins; all
   theorems below assume only that much of the list, so any result of Go's unstable
   sort.Slice is covered *)
Theorem C06_sort_plugins : forall l, Sorted ple (sort_plugins l) /\ Permutation (sort_plugins l) (prune l).
Proof. exact (fun l => conj (sort_plugins_sorted l) (sort_plugins_perm l)). Qed.
Print Assumptions C06_sort_plugins.

(* A request that no plugin vetoes calls exactly the subscribed plugins of the sorted list,
   each once, in list order — hence lower index before higher. *)
Theorem C06_exactly_subscribed_in_order :
  forall (Rq Rp Acc Res : Type) (ev_of : Rq -> Z) (init : Rq -> Acc)
         (apply : Acc -> plugin -> Rp -> Acc + string) (finish : Rq -> Acc -> Res)
         (T : N) (rq : Rq) (h : plugin -> call Rp) (ps : list plugin),
  Sorted ple ps -> NoDup (ids ps) -> (forall p, In p ps -> p_closed p = false) ->
  let o := snd (run_request ev_of init apply finish T rq h ps) in
  (forall r : Res, o_result o = inl r -> o_invoked o = filter (subscribed (ev_of rq)) ps) /\
  NoDup (ids (o_invoked o)) /\
  StronglySorted ple (o_invoked o) /\
  (forall (i j : nat) (d : plugin), (i < j < length (o_invoked o))%nat ->
     ple (nth i (o_invoked o) d) (nth j (o_invoked o) d)) /\
  (forall p, In p (o_invoked o) -> subscribed (ev_of rq) p = true).
Proof. exact exactly_subscribed_in_order. Qed.
Print Assumptions C06_exactly_subscribed_in_order.

(* … and for two-digit indices "not after in the list" is "numerically not greater" *)
Theorem C06_index_monotone_numeric : forall p q,
  In (p_idx p) all_indices -> In (p_idx q) all_indices -> ple p q ->
  (index_num (p_idx p) <= index_num (p_idx q))%Z.
Proof. exact ple_numeric. Qed.
Print Assumptions C06_index_monotone_numeric.

(* Whatever the plugins answer, the plugins called are a prefix (up to the veto) of the
   subscribed, connected plugins. *)
Theorem C06_veto_prefix :
  forall (Rq Rp Acc Res : Type) (ev_of : Rq -> Z) (init : Rq -> Acc)
         (apply : Acc -> plugin -> Rp -> Acc + string) (finish : Rq -> Acc -> Res)
         (T : N) (rq : Rq) (h : plugin -> call Rp) (ps : list plugin),
  let o := snd (run_request ev_of init apply finish T rq h ps) in
  exists n : nat,
    o_invoked o = firstn n (filter (callable (ev_of rq)) ps) /\
    (forall r : Res, o_result o = inl r -> o_invoked o = filter (callable (ev_of rq)) ps).
Proof. exact veto_prefix. Qed.
Print Assumptions C06_veto_prefix.

(* For every sequence of requests, registrations and disconnections processed atomically
   (any sorted result of each registration's sort): every plugin's view of the global
   invocation log is the sub-sequence of the requests in which it was called, so any two
   plugins see the requests they have in common in the same order; and in every request
   the plugins are called in index order, each once. *)
Theorem C06_common_order :
  forall (Rq Rp Acc Res : Type) (ev_of : Rq -> Z) (init : Rq -> Acc)
         (apply : Acc -> plugin -> Rp -> Acc + string) (finish : Rq -> Acc -> Res)
         (T : N) (ps : list plugin) (s : list (action Rq Rp)) (ps' : list plugin)
         (os : list (observation Rq Res)),
  Run ev_of init apply finish T ps s ps' os -> Inv ps ->
  (forall id : N, trace id (log_of os) = map o_rq (filter (was_invoked id) os)) /\
  (NoDup (map o_rq os) ->
   forall (p q : N) (a b : Rq),
     before a b (trace p (log_of os)) ->
     In a (trace q (log_of os)) -> In b (trace q (log_of os)) ->
     before a b (trace q (log_of os))) /\
  (forall o, In o os -> StronglySorted ple (o_invoked o) /\ NoDup (ids (o_invoked o))).
Proof. exact common_order. Qed.
Print Assumptions C06_common_order.

(* The result a caller gets is a function (result_of) of its own request and of the
   exchanges with the plugins called for that request — nothing of any other request. *)
Theorem C06_isolation :
  forall (Rq Rp Acc Res : Type) (ev_of : Rq -> Z) (init : Rq -> Acc)
         (apply : Acc -> plugin -> Rp -> Acc + string) (finish : Rq -> Acc -> Res)
         (T : N) (ps : list plugin) (s : list (action Rq Rp)) (ps' : list plugin)
         (os : list (observation Rq Res)),
  Run ev_of init apply finish T ps s ps' os ->
  forall o, In o os ->
  exists (ps1 : list plugin) (h : plugin -> call Rp),
    In (ARequest (o_rq o) h) s /\
    o_result o = result_of init apply finish (o_rq o)
                   (exchanges ev_of apply T (o_rq o) h ps1 (init (o_rq o))) /\
    o_invoked o = map fst (exchanges ev_of apply T (o_rq o) h ps1 (init (o_rq o))).
Proof. exact isolation. Qed.
Print Assumptions C06_isolation.

(* The executable machine of the model (the one the correspondence runs) is a run of the
   relation the theorems quantify over. *)
Theorem C06_machine_is_a_run :
  forall (Rq Rp Acc Res : Type) (ev_of : Rq -> Z) (init : Rq -> Acc)
         (apply : Acc -> plugin -> Rp -> Acc + string) (finish : Rq -> Acc -> Res)
         (T : N) (s : list (action Rq Rp)) (ps : list plugin) (seen : list N),
  incl (ids ps) seen -> fresh_registrations seen s ->
  Run ev_of init apply finish T ps s (fst (run ev_of init apply finish T ps s))
      (snd (run ev_of init apply finish T ps s)).
Proof. exact run_is_Run. Qed.
Print Assumptions C06_machine_is_a_run.

(* The thirteen entry points reach the plugins under the thirteen event numbers, each relay
   function tests the bit of that event, every loop runs under the adaptation mutex with
   deferred pruning and stops at the first error, registration appends and sorts under the
   mutex with the comparison idx[i] < idx[j] — all read off the current sources. *)
Theorem C06_structure_of_the_code : structure_ok = true.
Proof. exact structure_holds. Qed.
Print Assumptions C06_structure_of_the_code.

(* ---------- non-vacuity: concrete inputs meeting the hypotheses *)
Definition exA := {| p_id := 1; p_idx := "05"; p_name := "A"; p_events := 8191; p_closed := false |}.
Definition exB := {| p_id := 2; p_idx := "10"; p_name := "B"; p_events := 8; p_closed := false |}.   (* CreateContainer only *)
Definition exC := {| p_id := 3; p_idx := "10"; p_name := "C"; p_events := 1032; p_closed := false |}. (* Create + Remove *)
Definition exD := {| p_id := 4; p_idx := "99"; p_name := "D"; p_events := 1; p_closed := false |}.    (* RunPodSandbox only *)
Definition ex_ok (ev : Z) (p : plugin) : call string :=
  {| c_res := Reply (if has_response ev then p_name p else ""); c_dur := 3; c_in_write := false |}.

Example C06_indices : str_ltb "09" "10" = true /\ index_num "09" = 9%Z /\ check_index "1a" = false /\ In "42" all_indices.
Proof. repeat split; vm_compute; tauto. Qed.

Example C06_masks : configure_events 0 = Some 8191%Z /\ configure_events 8192 = None /\
  is_set 1032 4 = true /\ is_set 1032 11 = true /\ is_set 1032 5 = false /\ Z.testbit 1032 (4 - 1) = true.
Proof. repeat split. Qed.

Example C06_one_request :
  let ps := sort_plugins [exD; exC; exA; exB] in
  Sorted ple ps /\ NoDup (ids ps) /\
  map p_name (o_invoked (snd (tk_run_request 100 (7%N, 4%Z) (ex_ok 4) ps))) = ["A"; "C"; "B"] /\
  o_result (snd (tk_run_request 100 (7%N, 4%Z) (ex_ok 4) ps)) = inl ["A"; "C"; "B"].
Proof.
  split; [apply sort_plugins_sorted|]. split; [vm_compute; repeat constructor; simpl; intuition discriminate|].
  split; reflexivity.
Qed.

Example C06_history :
  let s := [ARegister exB; ARequest (1%N, 4%Z) (ex_ok 4); ARegister exA; ARequest (2%N, 11%Z) (ex_ok 11);
            ARegister exC; ARequest (3%N, 4%Z) (ex_ok 4); ARequest (4%N, 11%Z) (ex_ok 11)] in
  let os := snd (tk_run 100 [] s) in
  fresh_registrations [] s /\ Inv [] /\ NoDup (map o_rq os) /\
  map fst (trace 1 (log_of os)) = [2; 3; 4]%N /\ map fst (trace 2 (log_of os)) = [1; 3]%N /\
  map fst (trace 3 (log_of os)) = [3; 4]%N.
Proof.
  cbn zeta. split; [vm_compute; intuition discriminate|]. split; [split; constructor|].
  split; [vm_compute; repeat constructor; simpl; intuition discriminate|]. repeat split; vm_compute; reflexivity.
Qed.
