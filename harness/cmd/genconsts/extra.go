package main

// extra emits the constants of the other models; extended as models are added.
func extra(repo string, p func(string, ...interface{})) {
}
