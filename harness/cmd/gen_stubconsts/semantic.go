package main

// Meaning-level helpers of the translator: look through unexported helper methods and local closures,
// resolve handler look-ups done through a helper that returns a func value, and accept the equivalent
// spellings of the few operations the model is about (set an event bit, test a mask for bits outside
// another, default-then-override, early return vs nesting).  Statements that do not touch what a
// recogniser is about (logging, counters) are skipped; a statement that DOES touch it and is not
// recognised makes the recogniser give up, so that the table entry / switch is left at its
// "not recognised" value and the tie breaks visibly.  Nothing is guessed.

import (
	"go/ast"
	"go/constant"
	"go/token"
	"strings"
	"unicode"
)

// methodsOf returns the methods declared in the file, by name.
func methodsOf(f *ast.File) map[string]*ast.FuncDecl {
	out := map[string]*ast.FuncDecl{}
	for _, d := range f.Decls {
		if fd, ok := d.(*ast.FuncDecl); ok && fd.Recv != nil && fd.Body != nil {
			out[fd.Name.Name] = fd
		}
	}
	return out
}

func unexported(name string) bool {
	for _, r := range name {
		return unicode.IsLower(r)
	}
	return false
}

// callees: the unexported methods of the stub called (as stub.name(...)) from fd, transitively up to depth,
// without those named in exclude.
func callees(fd *ast.FuncDecl, methods map[string]*ast.FuncDecl, depth int, exclude ...string) []*ast.FuncDecl {
	skip := map[string]bool{fd.Name.Name: true}
	for _, e := range exclude {
		skip[e] = true
	}
	var out []*ast.FuncDecl
	var visit func(n ast.Node, d int)
	visit = func(n ast.Node, d int) {
		ast.Inspect(n, func(m ast.Node) bool {
			ce, ok := m.(*ast.CallExpr)
			if !ok {
				return true
			}
			name := strings.TrimPrefix(sel(ce.Fun), "stub.")
			if name == sel(ce.Fun) || strings.Contains(name, ".") || !unexported(name) || skip[name] {
				return true
			}
			if h, ok := methods[name]; ok {
				skip[name] = true
				out = append(out, h)
				if d > 1 {
					visit(h.Body, d-1)
				}
			}
			return true
		})
	}
	visit(fd.Body, depth)
	return out
}

// strip removes parentheses and single-argument conversions:  api.EventMask(x), uint(x), (x)  ->  x.
func strip(e ast.Expr) ast.Expr {
	for {
		switch x := e.(type) {
		case *ast.ParenExpr:
			e = x.X
			continue
		case *ast.CallExpr:
			if len(x.Args) == 1 {
				switch f := sel(x.Fun); f {
				case "api.EventMask", "EventMask", "uint", "uint32", "int32", "int", "uint64", "int64", "api.Event":
					e = x.Args[0]
					continue
				}
			}
		}
		return e
	}
}

// resolve replaces an identifier bound in env (closure / helper parameters) by its argument.
func resolve(e ast.Expr, env map[string]ast.Expr) ast.Expr {
	e = strip(e)
	if id, ok := e.(*ast.Ident); ok && env != nil {
		if v, ok := env[id.Name]; ok {
			return strip(v)
		}
	}
	return e
}

func isLit(e ast.Expr, v string) bool {
	bl, ok := strip(e).(*ast.BasicLit)
	return ok && bl.Value == v
}

// fieldOf names the message field an argument stands for:  req.Pod, req.GetPod()  ->  "Pod".
func fieldOf(a ast.Expr, prefix string) string {
	if ce, ok := a.(*ast.CallExpr); ok && len(ce.Args) == 0 {
		if se, ok := ce.Fun.(*ast.SelectorExpr); ok && sel(se.X) == prefix && strings.HasPrefix(se.Sel.Name, "Get") {
			return strings.TrimPrefix(se.Sel.Name, "Get")
		}
	}
	return strings.TrimPrefix(sel(a), prefix+".")
}

// bitOfEvent:  <one> << (E - 1)  in any of its spellings; returns E.
func bitOfEvent(e ast.Expr, env map[string]ast.Expr) (ast.Expr, bool) {
	be, ok := strip(e).(*ast.BinaryExpr)
	if !ok || be.Op != token.SHL || !isLit(be.X, "1") {
		return nil, false
	}
	sub, ok := strip(be.Y).(*ast.BinaryExpr)
	if !ok || sub.Op != token.SUB || !isLit(sub.Y, "1") {
		return nil, false
	}
	return resolve(sub.X, env), true
}

// matchBitSet recognises "set the bit of event E in mask T":
//
//	T.Set(E)        T |= 1 << (E-1)        T = T | 1 << (E-1)
func matchBitSet(st ast.Stmt, env map[string]ast.Expr) (target string, event ast.Expr, ok bool) {
	switch x := st.(type) {
	case *ast.ExprStmt:
		if ce, isCall := x.X.(*ast.CallExpr); isCall && len(ce.Args) == 1 {
			if se, isSel := ce.Fun.(*ast.SelectorExpr); isSel && se.Sel.Name == "Set" {
				return sel(se.X), resolve(ce.Args[0], env), true
			}
		}
	case *ast.AssignStmt:
		if len(x.Lhs) != 1 || len(x.Rhs) != 1 {
			return "", nil, false
		}
		t := sel(x.Lhs[0])
		if x.Tok == token.OR_ASSIGN {
			if ev, isBit := bitOfEvent(x.Rhs[0], env); isBit {
				return t, ev, true
			}
		}
		if x.Tok == token.ASSIGN {
			if be, isBin := strip(x.Rhs[0]).(*ast.BinaryExpr); isBin && be.Op == token.OR {
				if sel(strip(be.X)) == t {
					if ev, isBit := bitOfEvent(be.Y, env); isBit {
						return t, ev, true
					}
				}
				if sel(strip(be.Y)) == t {
					if ev, isBit := bitOfEvent(be.X, env); isBit {
						return t, ev, true
					}
				}
			}
		}
	}
	return "", nil, false
}

// mentions reports whether n refers to one of the names (as a whole dotted path or its root identifier).
func mentions(n ast.Node, names map[string]bool) bool {
	found := false
	ast.Inspect(n, func(m ast.Node) bool {
		switch x := m.(type) {
		case *ast.SelectorExpr:
			if names[sel(x)] {
				found = true
			}
		case *ast.Ident:
			if names[x.Name] {
				found = true
			}
		}
		return !found
	})
	return found
}

type setupRow struct {
	iface, field, method string
	events               []int64
}

// setupRows reads setupHandlers: per interface assertion the handlers field assigned, the plugin method bound
// and the event bits set — directly, through a local closure, or into a local mask that is OR-ed into
// stub.events unconditionally at the top level of the function.  ok = false: something that touches the mask
// was not understood.
func setupRows(fd *ast.FuncDecl, methods map[string]*ast.FuncDecl, evNum func(ast.Expr) (int64, bool)) (rows []setupRow, ok bool) {
	ok = true
	closures := map[string]*ast.FuncLit{}
	masks := map[string]bool{"stub.events": true}
	// phases: a top-level call  stub.helper()  of an unexported method without parameters and results is
	// replaced by the helper's statements (two levels)
	var flatten func(list []ast.Stmt, d int) []ast.Stmt
	flatten = func(list []ast.Stmt, d int) []ast.Stmt {
		var out []ast.Stmt
		for _, st := range list {
			if es, isEs := st.(*ast.ExprStmt); isEs && d > 0 {
				if ce, isCall := es.X.(*ast.CallExpr); isCall && len(ce.Args) == 0 {
					name := strings.TrimPrefix(sel(ce.Fun), "stub.")
					if h, isHelper := methods[name]; isHelper && name != sel(ce.Fun) && unexported(name) && name != fd.Name.Name &&
						(h.Type.Params == nil || len(h.Type.Params.List) == 0) && (h.Type.Results == nil || len(h.Type.Results.List) == 0) {
						out = append(out, flatten(h.Body.List, d-1)...)
						continue
					}
				}
			}
			out = append(out, st)
		}
		return out
	}
	body := flatten(fd.Body.List, 2)
	for _, st := range body {
		as, isAs := st.(*ast.AssignStmt)
		if !isAs || len(as.Lhs) != 1 || len(as.Rhs) != 1 {
			continue
		}
		if fl, isLit := as.Rhs[0].(*ast.FuncLit); isLit && as.Tok == token.DEFINE {
			closures[sel(as.Lhs[0])] = fl
		}
		// stub.events |= M   /   stub.events = stub.events | M
		if sel(as.Lhs[0]) == "stub.events" {
			if id, isId := strip(as.Rhs[0]).(*ast.Ident); isId && as.Tok == token.OR_ASSIGN {
				masks[id.Name] = true
			}
			if be, isBin := strip(as.Rhs[0]).(*ast.BinaryExpr); isBin && as.Tok == token.ASSIGN && be.Op == token.OR {
				if x, y := sel(strip(be.X)), sel(strip(be.Y)); x == "stub.events" && !strings.Contains(y, ".") {
					masks[y] = true
				} else if y == "stub.events" && !strings.Contains(x, ".") {
					masks[x] = true
				}
			}
		}
	}
	type item struct {
		st  ast.Stmt
		env map[string]ast.Expr
	}
	// expand calls of local closures (one level; parameters substituted)
	expand := func(list []ast.Stmt) []item {
		var out []item
		for _, st := range list {
			if es, isEs := st.(*ast.ExprStmt); isEs {
				if ce, isCall := es.X.(*ast.CallExpr); isCall {
					if fl, isCl := closures[sel(ce.Fun)]; isCl && fl.Type.Params != nil {
						env := map[string]ast.Expr{}
						i := 0
						for _, p := range fl.Type.Params.List {
							for _, n := range p.Names {
								if i < len(ce.Args) {
									env[n.Name] = ce.Args[i]
								}
								i++
							}
						}
						for _, b := range fl.Body.List {
							out = append(out, item{b, env})
						}
						continue
					}
				}
			}
			out = append(out, item{st, nil})
		}
		return out
	}
	for _, st := range body {
		is, isIf := st.(*ast.IfStmt)
		if !isIf || is.Init == nil {
			// top level: declarations, the closures, the final OR into stub.events and the "no handler at all"
			// test are known; any other write to the mask is not
			if as, isAs := st.(*ast.AssignStmt); isAs && mentions(as.Lhs[0], masks) {
				known := false
				if sel(as.Lhs[0]) == "stub.events" && (as.Tok == token.OR_ASSIGN || as.Tok == token.ASSIGN) {
					if id := sel(strip(as.Rhs[0])); masks[id] {
						known = as.Tok == token.OR_ASSIGN
					}
					if be, isBin := strip(as.Rhs[0]).(*ast.BinaryExpr); isBin && be.Op == token.OR && as.Tok == token.ASSIGN {
						known = masks[sel(strip(be.X))] && masks[sel(strip(be.Y))]
					}
				}
				if !known {
					ok = false
				}
			}
			continue
		}
		as, isAs := is.Init.(*ast.AssignStmt)
		if !isAs || len(as.Rhs) != 1 {
			continue
		}
		ta, isTa := as.Rhs[0].(*ast.TypeAssertExpr)
		if !isTa || sel(ta.X) != "stub.plugin" {
			continue
		}
		row := setupRow{iface: sel(ta.Type)}
		rowOK := true
		for _, it := range expand(is.Body.List) {
			if x, isAssign := it.st.(*ast.AssignStmt); isAssign && len(x.Lhs) == 1 && len(x.Rhs) == 1 && strings.HasPrefix(sel(x.Lhs[0]), "stub.handlers.") {
				row.field = strings.TrimPrefix(sel(x.Lhs[0]), "stub.handlers.")
				row.method = strings.TrimPrefix(sel(x.Rhs[0]), "plugin.")
				continue
			}
			if t, ev, isSet := matchBitSet(it.st, it.env); isSet && masks[t] {
				if n, isNum := evNum(ev); isNum {
					row.events = append(row.events, n)
				} else {
					rowOK = false
				}
				continue
			}
			if mentions(it.st, masks) {
				rowOK = false // touches the mask in a way that is not understood
			}
		}
		if row.field == "" || !rowOK {
			if !rowOK {
				ok = false
			}
			continue
		}
		rows = append(rows, row)
	}
	return rows, ok
}

type scRow struct {
	event int64
	field string
	args  []string
}

// handlerLookup reads a helper of the shape
//
//	func (stub *stub) h(e api.Event) func(...) error { switch e { case api.Event_X: return stub.handlers.F ... }; return nil }
//
// and returns, in source order, the (event, handlers field) pairs; every other path must return nil.
func handlerLookup(h *ast.FuncDecl, evNum func(ast.Expr) (int64, bool)) (pairs []scRow, ok bool) {
	if h.Type.Params == nil || len(h.Type.Params.List) != 1 || len(h.Type.Params.List[0].Names) != 1 {
		return nil, false
	}
	param := h.Type.Params.List[0].Names[0].Name
	seenSwitch := false
	for _, st := range h.Body.List {
		switch x := st.(type) {
		case *ast.SwitchStmt:
			if seenSwitch || x.Init != nil || sel(x.Tag) != param {
				return nil, false
			}
			seenSwitch = true
			for _, cs := range x.Body.List {
				cc := cs.(*ast.CaseClause)
				if len(cc.Body) != 1 {
					return nil, false
				}
				rs, isRet := cc.Body[0].(*ast.ReturnStmt)
				if !isRet || len(rs.Results) != 1 {
					return nil, false
				}
				if cc.List == nil { // default
					if sel(rs.Results[0]) != "nil" {
						return nil, false
					}
					continue
				}
				f := sel(rs.Results[0])
				if !strings.HasPrefix(f, "stub.handlers.") {
					return nil, false
				}
				for _, ce := range cc.List {
					n, isNum := evNum(ce)
					if !isNum {
						return nil, false
					}
					pairs = append(pairs, scRow{event: n, field: strings.TrimPrefix(f, "stub.handlers.")})
				}
			}
		case *ast.ReturnStmt:
			if len(x.Results) != 1 || sel(x.Results[0]) != "nil" {
				return nil, false
			}
		default:
			return nil, false
		}
	}
	return pairs, seenSwitch
}

// stateChangeLookups reads the form of StateChange that asks helper(s) for the handler of the event:
//
//	if h := stub.lookupA(evt.Event); h != nil { err = h(ctx, evt.Pod) } else if g := stub.lookupB(evt.Event); g != nil { ... }
//
// An event that more than one helper knows is not understood (the second would only run when the first
// field is unset): ok = false.
func stateChangeLookups(fd *ast.FuncDecl, methods map[string]*ast.FuncDecl, evNum func(ast.Expr) (int64, bool)) (rows []scRow, ok bool) {
	seen := map[int64]bool{}
	var chain func(is *ast.IfStmt) bool
	chain = func(is *ast.IfStmt) bool {
		as, isAs := is.Init.(*ast.AssignStmt)
		if !isAs || len(as.Lhs) != 1 || len(as.Rhs) != 1 {
			return false
		}
		ce, isCall := as.Rhs[0].(*ast.CallExpr)
		if !isCall || len(ce.Args) != 1 || fieldOf(ce.Args[0], "evt") != "Event" {
			return false
		}
		name := strings.TrimPrefix(sel(ce.Fun), "stub.")
		h, isHelper := methods[name]
		if !isHelper || !unexported(name) {
			return false
		}
		hname := sel(as.Lhs[0])
		be, isBin := is.Cond.(*ast.BinaryExpr)
		if !isBin || be.Op != token.NEQ || sel(be.X) != hname || sel(be.Y) != "nil" {
			return false
		}
		var args []string
		calls := 0
		ast.Inspect(is.Body, func(k ast.Node) bool {
			c, isC := k.(*ast.CallExpr)
			if isC && sel(c.Fun) == hname && len(c.Args) >= 1 {
				calls++
				args = nil
				for _, a := range c.Args[1:] {
					args = append(args, fieldOf(a, "evt"))
				}
			}
			return true
		})
		if calls != 1 {
			return false
		}
		pairs, okLookup := handlerLookup(h, evNum)
		if !okLookup {
			return false
		}
		for _, p := range pairs {
			if seen[p.event] {
				return false
			}
			seen[p.event] = true
			rows = append(rows, scRow{event: p.event, field: p.field, args: args})
		}
		switch e := is.Else.(type) {
		case nil:
			return true
		case *ast.IfStmt:
			return chain(e)
		}
		return false
	}
	found := false
	for _, st := range fd.Body.List {
		if is, isIf := st.(*ast.IfStmt); isIf && is.Init != nil {
			if found || !chain(is) {
				return nil, false
			}
			found = true
		}
	}
	return rows, found
}

// subsetViolation recognises "x has a bit outside m" as the condition of an if statement (with its init):
//
//	v := x & ^m; v != 0      x &^ m != 0      x & ^m != 0      x & m != x      x | m != m
//
// neg = true when the condition is the negation (== instead of !=), i.e. the violation is the else branch.
func subsetViolation(is *ast.IfStmt) (x, m string, neg, ok bool) {
	be, isBin := strip(is.Cond).(*ast.BinaryExpr)
	if !isBin || (be.Op != token.NEQ && be.Op != token.EQL) {
		return "", "", false, false
	}
	neg = be.Op == token.EQL
	outside := func(e ast.Expr) (string, string, bool) {
		b, isB := strip(e).(*ast.BinaryExpr)
		if !isB {
			return "", "", false
		}
		if b.Op == token.AND_NOT {
			return sel(strip(b.X)), sel(strip(b.Y)), true
		}
		if b.Op == token.AND {
			if u, isU := strip(b.Y).(*ast.UnaryExpr); isU && u.Op == token.XOR {
				return sel(strip(b.X)), sel(strip(u.X)), true
			}
			if u, isU := strip(b.X).(*ast.UnaryExpr); isU && u.Op == token.XOR {
				return sel(strip(b.Y)), sel(strip(u.X)), true
			}
		}
		return "", "", false
	}
	l, r := strip(be.X), strip(be.Y)
	// ... != 0
	for _, p := range [][2]ast.Expr{{l, r}, {r, l}} {
		if !isLit(p[1], "0") {
			continue
		}
		if a, b, isOut := outside(p[0]); isOut {
			return a, b, neg, true
		}
		if as, isAs := is.Init.(*ast.AssignStmt); isAs && len(as.Lhs) == 1 && len(as.Rhs) == 1 && sel(as.Lhs[0]) == sel(p[0]) {
			if a, b, isOut := outside(as.Rhs[0]); isOut {
				return a, b, neg, true
			}
		}
	}
	// x & m != x     x | m != m
	for _, p := range [][2]ast.Expr{{l, r}, {r, l}} {
		b, isB := p[0].(*ast.BinaryExpr)
		if !isB {
			continue
		}
		other := sel(p[1])
		bx, by := sel(strip(b.X)), sel(strip(b.Y))
		if b.Op == token.AND {
			if bx == other {
				return bx, by, neg, true
			}
			if by == other {
				return by, bx, neg, true
			}
		}
		if b.Op == token.OR {
			if by == other {
				return bx, by, neg, true
			}
			if bx == other {
				return by, bx, neg, true
			}
		}
	}
	return "", "", false, false
}

// returnsError: the block contains a return whose last result is not nil.
func returnsError(list []ast.Stmt) bool {
	for _, s := range list {
		if rs, ok := s.(*ast.ReturnStmt); ok && len(rs.Results) > 0 && sel(rs.Results[len(rs.Results)-1]) != "nil" {
			return true
		}
	}
	return false
}

// sessionCmp: the condition compares something with stub.session (== or !=).
func sessionCmp(cond ast.Expr) (token.Token, bool) {
	be, ok := strip(cond).(*ast.BinaryExpr)
	if !ok || (be.Op != token.EQL && be.Op != token.NEQ) {
		return 0, false
	}
	if sel(strip(be.X)) == "stub.session" || sel(strip(be.Y)) == "stub.session" {
		return be.Op, true
	}
	return 0, false
}

// closeGuarded walks the statements of the close-notification handler (looking through unexported helper
// methods) and says whether every call of stub.close() happens only for the current session: inside
// `if s == stub.session { ... }`, in the else branch of `if s != stub.session`, or after
// `if s != stub.session { ...; return }`.  found = a call of stub.close() was seen at all.
func closeGuarded(fd *ast.FuncDecl, methods map[string]*ast.FuncDecl, depth int) (guarded, found bool) {
	guarded = true
	var block func(list []ast.Stmt, cond bool, d int)
	block = func(list []ast.Stmt, cond bool, d int) {
		for _, st := range list {
			switch x := st.(type) {
			case *ast.ExprStmt:
				ce, isCall := x.X.(*ast.CallExpr)
				if !isCall {
					continue
				}
				name := sel(ce.Fun)
				if name == "stub.close" {
					found = true
					if !cond {
						guarded = false
					}
					continue
				}
				n := strings.TrimPrefix(name, "stub.")
				if h, isHelper := methods[n]; isHelper && n != name && unexported(n) && d > 0 && n != fd.Name.Name {
					block(h.Body.List, cond, d-1)
				}
			case *ast.IfStmt:
				op, isCmp := sessionCmp(x.Cond)
				block(x.Body.List, cond || (isCmp && op == token.EQL), d)
				if eb, isBlock := x.Else.(*ast.BlockStmt); isBlock {
					block(eb.List, cond || (isCmp && op == token.NEQ), d)
				} else if ei, isIf := x.Else.(*ast.IfStmt); isIf {
					block([]ast.Stmt{ei}, cond || (isCmp && op == token.NEQ), d)
				}
				if isCmp && op == token.NEQ && x.Else == nil && len(x.Body.List) > 0 {
					if _, isRet := x.Body.List[len(x.Body.List)-1].(*ast.ReturnStmt); isRet {
						cond = true
					}
				}
			case *ast.BlockStmt:
				block(x.List, cond, d)
			}
		}
	}
	block(fd.Body.List, false, depth)
	return guarded, found
}

var _ = constant.Int64Val
