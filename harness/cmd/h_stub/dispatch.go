package main

// Driver "stubdispatch" (C15): real stub.Stub values built on generated plugin types with
// chosen handler subsets, against the scripted runtime end of rt.go.  Per plugin type and
// Configure-hook behaviour one session: the runtime end's view of the Configure answer is a
// cfg_case; in sessions that got configured every event / request type is sent with
// distinguishable payload tokens and every plugin method scripted with distinguishable
// results, each delivery is a disp_case.

import (
	"context"
	"encoding/json"
	"fmt"
	"math/bits"
	"math/rand"
	"os"
	"path/filepath"
	"sort"
	"time"

	"github.com/containerd/nri/pkg/api"
	"github.com/containerd/nri/pkg/stub"
	"google.golang.org/grpc/status"

	"verif/harness/internal/coqfmt"
	"verif/harness/internal/hx"
)

// handlerDefs is in the order of Model.Stub.hindex.
var handlerDefs = []struct {
	method string
	event  api.Event
	rpc    string // "" = carried by StateChange
	args   []string
	adjust bool
	update bool
}{
	{"RunPodSandbox", api.Event_RUN_POD_SANDBOX, "", []string{"Pod"}, false, false},
	{"UpdatePodSandbox", api.Event_UPDATE_POD_SANDBOX, "UpdatePodSandbox", []string{"Pod", "OverheadLinuxResources", "LinuxResources"}, false, false},
	{"StopPodSandbox", api.Event_STOP_POD_SANDBOX, "", []string{"Pod"}, false, false},
	{"RemovePodSandbox", api.Event_REMOVE_POD_SANDBOX, "", []string{"Pod"}, false, false},
	{"PostUpdatePodSandbox", api.Event_POST_UPDATE_POD_SANDBOX, "", []string{"Pod"}, false, false},
	{"CreateContainer", api.Event_CREATE_CONTAINER, "CreateContainer", []string{"Pod", "Container"}, true, true},
	{"StartContainer", api.Event_START_CONTAINER, "", []string{"Pod", "Container"}, false, false},
	{"UpdateContainer", api.Event_UPDATE_CONTAINER, "UpdateContainer", []string{"Pod", "Container", "LinuxResources"}, false, true},
	{"StopContainer", api.Event_STOP_CONTAINER, "StopContainer", []string{"Pod", "Container"}, false, true},
	{"RemoveContainer", api.Event_REMOVE_CONTAINER, "", []string{"Pod", "Container"}, false, false},
	{"PostCreateContainer", api.Event_POST_CREATE_CONTAINER, "", []string{"Pod", "Container"}, false, false},
	{"PostStartContainer", api.Event_POST_START_CONTAINER, "", []string{"Pod", "Container"}, false, false},
	{"PostUpdateContainer", api.Event_POST_UPDATE_CONTAINER, "", []string{"Pod", "Container"}, false, false},
}

// refMask is the reference subscription of a handler subset (oracle on the Go side).
func refMask(mask int) int32 {
	var m int32
	for i, h := range handlerDefs {
		if mask&(1<<i) != 0 {
			m |= 1 << (uint(h.event) - 1)
		}
	}
	return m
}

const dispImports = "From NRI Require Import Model.Stub Spec.StubSpec Run.Common Run.RunStub."

type cfgSpec struct {
	Name string `json:"name"`
	Hook string `json:"hook"` // "none" | "fails" | "mask"
	Mask int32  `json:"mask"`
}

type cfgRaw struct {
	Stream string  `json:"stream"`
	Plugin int     `json:"plugin_mask"`
	Cfg    cfgSpec `json:"configure"`
	NewOK  bool    `json:"new_ok"`
	NewErr string  `json:"new_err,omitempty"`
	Obs    string  `json:"observed"` // "ok" | "err-hook" | "err-unhandled" | "" (no stub)
	Events int32   `json:"events"`
	ErrMsg string  `json:"error_message,omitempty"`
}

type msgSpec struct {
	RPC    string            `json:"rpc"` // "" = StateChange
	Event  int32             `json:"event"`
	Fields map[string]string `json:"fields"`
	// Upd: when set, every method is scripted to succeed and to return exactly this update list
	// ('+'-separated container ids, "" = nil) instead of its own tokens
	Upd *string `json:"updates,omitempty"`
}

type replyObs struct {
	IsErr  bool   `json:"is_err"`
	Err    string `json:"err,omitempty"`
	Adjust string `json:"adjust"`
	Update string `json:"update"`
}

type dispRaw struct {
	Stream string          `json:"stream"`
	Plugin int             `json:"plugin_mask"`
	Hook   bool            `json:"hook"`
	Msg    msgSpec         `json:"message"`
	Beh    map[string]hres `json:"behaviour"`
	Inv    []invocation    `json:"invocations"`
	Reply  replyObs        `json:"reply"`
}

type dispDriver struct {
	c     *hx.Ctx
	rt    *runtime
	rnd   *rand.Rand
	cfgS  *hx.Shard
	dispS *hx.Shard
	sessS *hx.Shard
	n     int
}

func driveDispatch(c *hx.Ctx) error {
	rt, err := newRuntime("cfg")
	if err != nil {
		return err
	}
	defer rt.close()
	d := &dispDriver{c: c, rt: rt, rnd: c.Rand("stubdispatch")}
	d.cfgS = c.NewShard("cfg", dispImports, "cfg_case", "corr_cfg", "holds_cfg_case", 600)
	d.dispS = c.NewShard("disp", dispImports, "disp_case", "corr_disp", "holds_disp_case", 500)
	d.sessS = c.NewShard("sess", dispImports, "sess_case", "corr_sess", "holds_sess", 500)

	byKey := map[string]pluginType{}
	for _, pt := range pluginTypes {
		byKey[fmt.Sprintf("%d/%v", pt.mask, pt.hook)] = pt
	}

	// corpus first
	if err := d.corpus(byKey); err != nil {
		return err
	}

	// choice of types: every special, single and co-single subset always; the seeded ones:
	// 12 (picked by this run's seed) in the quick tier, all 96 in the thorough tier
	var random []int
	seen := map[int]bool{}
	var chosen []int
	for _, pt := range pluginTypes {
		if seen[pt.mask] {
			continue
		}
		seen[pt.mask] = true
		if pt.kind == "random" {
			random = append(random, pt.mask)
		} else {
			chosen = append(chosen, pt.mask)
		}
	}
	d.rnd.Shuffle(len(random), func(i, j int) { random[i], random[j] = random[j], random[i] })
	chosen = append(chosen, random[:c.Pick(12, len(random))]...)
	sort.Ints(chosen)
	gapRandom := map[int]bool{}
	for _, m := range random[:4] {
		gapRandom[m] = true
	}

	for _, mask := range chosen {
		// without the Configure hook
		if err := d.session(byKey[fmt.Sprintf("%d/false", mask)], cfgSpec{Name: "no-hook", Hook: "none"}, true); err != nil {
			return err
		}
		// with the hook
		pt := byKey[fmt.Sprintf("%d/true", mask)]
		first := true
		for _, cs := range d.cfgVariants(mask) {
			full := false
			if first && cs.Hook == "mask" && cs.Mask&^refMask(mask) == 0 {
				full, first = true, false
			}
			if err := d.session(pt, cs, full); err != nil {
				return err
			}
		}
		// events sent by the runtime end as soon as Configure is answered, while Start has not returned yet
		if mask != 0 && (mask == 8191 || mask == 8191&^(1<<1|1<<5|1<<7|1<<8) || pluginKind(byKey, mask) == "single" || gapRandom[mask]) {
			for _, hook := range []bool{false, true} {
				if err := d.gapSession(byKey[fmt.Sprintf("%d/%v", mask, hook)]); err != nil {
					return err
				}
			}
		}
		// one stub object through several sessions
		if mask != 0 {
			for _, script := range d.restartVariants(mask) {
				if err := d.restarts(pt, script); err != nil {
					return err
				}
			}
		}
	}
	c.Stats.Exhaustive = false
	c.Stats.Rule = "stubdispatch: real stub.Stub values on generated Go plugin types (harness/cmd/h_stub/plugins_gen.go, written by gentypes: " +
		"a Go method set is fixed at compile time, so the types are generated ahead: the handler-less type, all 13 single-handler types, all 13 " +
		"twelve-handler types, all-13, pod-only, container-only, RPC-carried-only, StateChange-carried-only, four request/post-event pairs and 96 subsets from a fixed seed, each " +
		"with and without the Configure hook; NOT all 8192 subsets — the complete domain is covered by the Coq sweep only) are started against a " +
		"scripted runtime end over a real unix socket + multiplex + ttrpc. cfg cases: what the runtime end receives for Configure when the hook is " +
		"absent, fails, or returns 0 / the exact mask / a random proper subset / the mask plus one unimplemented valid event / one unimplemented " +
		"event alone / plus bit 14 / plus bit 31 / plus the sign bit / a random 31-bit mask; stub.New's verdict for each type. disp cases: in " +
		"configured sessions every one of the 13 events / requests is sent twice (handlers scripted to succeed, then to fail) plus StateChange with " +
		"event numbers no case exists for (0, 14, 99, and the four RPC-carried events) and messages with absent fields, and for CreateContainer / UpdateContainer / StopContainer six more deliveries each whose handler returns the update " +
		"list nil, [other], [other1 other2], [own], [other own other2], [own other own] (own = the id of the request's container): the runtime end must " +
		"receive exactly that list, element by element, and the plugin's own slice must still read the same after the call; pod, container and both " +
		"resource sets carry distinct tokens, all 13 methods are scripted with distinct adjustment / update / error tokens; recorded: the methods " +
		"that ran with the tokens they saw, and the reply or error the runtime end got. non-trivial cfg case: the hook returned a mask (clamping " +
		"exercised); non-trivial disp case: a handler ran. gap sessions (all-handlers, StateChange-only, every single-handler and 4 seeded types, with " +
		"and without hook): the runtime end sends every event and request as soon as Configure is answered, while the stub's Start is still between " +
		"receiving the configuration result and marking itself started (held there for 150 ms by a logrus hook on its 'Started plugin' line): every " +
		"acknowledged event must have reached its handler, same comparison as every other delivery. UpdatePodSandbox is also delivered with both, " +
		"only one, and neither of the two resource sections present, to pods that carry resources and overhead of their own. sess cases (restart stream): ONE stub.Stub object is started two or three times " +
		"(Stop, or a rejected configuration, in between; a few deliveries in every configured session) with a different hook answer per session: " +
		"subset A then 0; subset A then an implemented subset B disjoint from A; exact, A, 0; hook failure, 0, B; superset (rejected) then exact; " +
		"A, A plus an unimplemented event (rejected), B; for single-handler types exact/0 and unimplemented/0; every session is compared with " +
		"Model.Stub.sessions (the stub's mask threaded through the sessions, with 'Configure writes stub.events' read from the source) and judged " +
		"as if it were a first session."
	return nil
}

// cfgVariants: the hook behaviours tried for a handler subset.
func (d *dispDriver) cfgVariants(mask int) []cfgSpec {
	exact := refMask(mask)
	out := []cfgSpec{
		{Name: "zero", Hook: "mask", Mask: 0},
		{Name: "exact", Hook: "mask", Mask: exact},
		{Name: "hook-fails", Hook: "fails"},
	}
	if mask == 0 {
		return out[:1]
	}
	if bits.OnesCount32(uint32(exact)) > 1 {
		sub := exact
		for sub == exact || sub == 0 {
			sub = exact & int32(d.rnd.Uint32())
		}
		out = append(out, cfgSpec{Name: "subset", Hook: "mask", Mask: sub})
	}
	if valid := int32(8191); exact != valid {
		var un []int32
		for b := int32(1); b <= valid; b <<= 1 {
			if exact&b == 0 {
				un = append(un, b)
			}
		}
		b := un[d.rnd.Intn(len(un))]
		out = append(out, cfgSpec{Name: "superset", Hook: "mask", Mask: exact | b})
		out = append(out, cfgSpec{Name: "unimplemented-only", Hook: "mask", Mask: un[d.rnd.Intn(len(un))]})
	}
	out = append(out,
		cfgSpec{Name: "stray-bit-14", Hook: "mask", Mask: exact | 1<<13},
		cfgSpec{Name: "stray-bit-31", Hook: "mask", Mask: exact | 1<<30},
		cfgSpec{Name: "sign-bit", Hook: "mask", Mask: exact | -1<<31},
		cfgSpec{Name: "random", Hook: "mask", Mask: int32(d.rnd.Uint32() >> 1)},
		cfgSpec{Name: "random-valid", Hook: "mask", Mask: int32(d.rnd.Intn(8192))},
	)
	return out
}

func cfgHookTerm(cs cfgSpec) string {
	switch cs.Hook {
	case "none":
		return "NoHook"
	case "fails":
		return "HookFails"
	}
	return "(HookMask " + coqfmt.Z(int64(cs.Mask)) + ")"
}

// session runs one stub through New / Start / (deliveries) / Stop.
func (d *dispDriver) session(pt pluginType, cs cfgSpec, full bool) error {
	if pt.mk == nil {
		return fmt.Errorf("no generated plugin type for this handler subset")
	}
	c := d.c
	co := &core{cfgMask: cs.Mask}
	if cs.Hook == "fails" {
		co.cfgFail = fmt.Sprintf("hook-failure-%d", d.n)
	}
	d.n++
	raw := cfgRaw{Stream: "cfg", Plugin: pt.mask, Cfg: cs}
	c.Count("cfg/hook="+cs.Name, 1)
	c.Count("types/kind="+pt.kind, 1)

	st, err := stub.New(pt.mk(co), stub.WithPluginName("disp"), stub.WithPluginIdx("00"),
		stub.WithSocketPath(d.rt.sock), stub.WithOnClose(func() {}))
	if err != nil {
		raw.NewErr = err.Error()
		d.addCfg(raw, cs, "None")
		return nil
	}
	raw.NewOK = true

	ctx := context.Background()
	call := launch(func() error { return st.Start(ctx) })
	var s *session
	select {
	case s = <-d.rt.accepted:
	case <-time.After(10 * time.Second):
		return fmt.Errorf("plugin %d: no connection reached the scripted runtime", pt.mask)
	}
	if !call.wait(20 * time.Second) {
		return fmt.Errorf("plugin %d, configure %s: Start did not return", pt.mask, cs.Name)
	}
	if !waitC(s.configured, 10*time.Second) {
		return fmt.Errorf("plugin %d, configure %s: Configure was not answered (Start: %v)", pt.mask, cs.Name, call.err)
	}
	obsTerm := ""
	switch {
	case s.cfgErr == nil:
		raw.Obs, raw.Events = "ok", s.cfgResp.GetEvents()
		obsTerm = "(Some (OResult (COk " + coqfmt.Z(int64(raw.Events)) + ")))"
	default:
		// The stub hands the Configure result to Start before ttrpc has written the response; when the
		// result is an error Start tears the connection down at once, so the runtime end sees either
		// the error response or a closed connection.  Both are a rejection; the reason is only known
		// in the first case.
		raw.ErrMsg = s.cfgErr.Error()
		sst, isStatus := status.FromError(s.cfgErr)
		switch {
		case !isStatus:
			raw.Obs, obsTerm = "rejected-connection-closed", "(Some ORejected)"
		case co.cfgFail != "" && sst.Message() == co.cfgFail:
			raw.ErrMsg = sst.Message()
			raw.Obs, obsTerm = "err-hook", "(Some (OResult CErrHook))"
		default:
			raw.ErrMsg = sst.Message()
			raw.Obs, obsTerm = "err-unhandled", "(Some (OResult CErrUnhandled))"
		}
	}
	if (call.err == nil) != (s.cfgErr == nil) {
		c.ImplFail("cfg", fmt.Sprintf("C15: Start returned %v although Configure was answered with %v", call.err, s.cfgErr), raw)
	}
	d.addCfg(raw, cs, obsTerm)

	if call.err != nil {
		return nil
	}
	defer st.Stop()
	msgs := d.messages(full)
	for _, m := range msgs {
		if err := d.deliver(pt, co, s, m); err != nil {
			return fmt.Errorf("plugin %d: %v", pt.mask, err)
		}
	}
	return nil
}

func (d *dispDriver) addCfg(raw cfgRaw, cs cfgSpec, obsTerm string) {
	c := d.c
	term := fmt.Sprintf("{| cc_plugin := %s; cc_hook := %s; cc_new_ok := %s; cc_obs := %s |}",
		coqfmt.N(uint64(raw.Plugin)), cfgHookTerm(cs), coqfmt.Bool(raw.NewOK), obsTerm)
	d.cfgS.Add(term, raw)
	c.Eval(fmt.Sprintf("cfg/%d/%s/%d", raw.Plugin, cs.Hook, cs.Mask), cs.Hook == "mask" && raw.NewOK)
	c.Count("cfg/observed="+raw.Obs, 1)
	c.Sample(raw, 4)

	// the oracle in Go
	ref := refMask(raw.Plugin)
	want := ""
	wantEvents := int32(0)
	switch {
	case raw.Plugin == 0:
		want = ""
	case cs.Hook == "none":
		want, wantEvents = "ok", ref
	case cs.Hook == "fails":
		want = "err-hook"
	case cs.Mask&^ref != 0:
		want = "err-unhandled"
	case cs.Mask == 0:
		want, wantEvents = "ok", ref
	default:
		want, wantEvents = "ok", cs.Mask
	}
	if raw.NewOK != (raw.Plugin != 0) {
		c.ImplFail("cfg", fmt.Sprintf("C15: stub.New accepted=%v for handler subset %d", raw.NewOK, raw.Plugin), raw)
	} else if raw.Obs == "rejected-connection-closed" && (want == "err-hook" || want == "err-unhandled") {
		// rejected, reason lost with the connection
	} else if raw.Obs != want || (want == "ok" && raw.Events != wantEvents) {
		c.ImplFail("cfg", fmt.Sprintf("C15: Configure answered %s events=%d, the property demands %s events=%d", raw.Obs, raw.Events, want, wantEvents), raw)
	}
}

// messages: what the runtime end sends in one configured session.
func (d *dispDriver) messages(full bool) []msgSpec {
	var out []msgSpec
	k := 0
	tok := func(kind string) string { k++; return fmt.Sprintf("%s%d.%d", kind[:1], d.n, k) }
	fieldsOf := func(args []string, drop string) map[string]string {
		f := map[string]string{}
		for _, a := range args {
			if a == drop {
				continue
			}
			switch a {
			case "Pod":
				f[a] = tok("pod")
			case "Container":
				f[a] = tok("ctr")
			case "LinuxResources":
				f[a] = tok("res")
			case "OverheadLinuxResources":
				f[a] = tok("ovh")
			}
		}
		return f
	}
	stateFields := func() map[string]string { return map[string]string{"Pod": tok("pod"), "Container": tok("ctr")} }
	if !full {
		// two random handlers' messages
		for i := 0; i < 2; i++ {
			h := handlerDefs[d.rnd.Intn(len(handlerDefs))]
			f := fieldsOf(h.args, "")
			if h.rpc == "" {
				f = stateFields()
			}
			out = append(out, msgSpec{RPC: h.rpc, Event: int32(h.event), Fields: f})
		}
		return out
	}
	for _, h := range handlerDefs {
		for rep := 0; rep < 2; rep++ {
			f := fieldsOf(h.args, "")
			if h.rpc == "" {
				// a StateChange event always has room for pod and container; pod events carry no container
				f = stateFields()
				if len(h.args) == 1 && rep == 0 {
					delete(f, "Container")
				}
			}
			out = append(out, msgSpec{RPC: h.rpc, Event: int32(h.event), Fields: f})
		}
	}
	// absent fields
	for _, h := range handlerDefs {
		drop := h.args[d.rnd.Intn(len(h.args))]
		if d.rnd.Intn(3) != 0 {
			continue
		}
		out = append(out, msgSpec{RPC: h.rpc, Event: int32(h.event), Fields: fieldsOf(h.args, drop)})
	}
	// UpdatePodSandbox with each of {both, resources only, overhead only, neither} present
	for _, drop := range [][]string{nil, {"OverheadLinuxResources"}, {"LinuxResources"}, {"OverheadLinuxResources", "LinuxResources"}} {
		h := handlerDefs[1]
		f := fieldsOf(h.args, "")
		for _, k := range drop {
			delete(f, k)
		}
		out = append(out, msgSpec{RPC: h.rpc, Event: int32(h.event), Fields: f})
	}
	// update lists that name the request's own container: alone, among others, repeated; and nil, one, two others
	for _, h := range handlerDefs {
		if !h.update {
			continue
		}
		for v := 0; v < 6; v++ {
			f := fieldsOf(h.args, "")
			own := f["Container"]
			o1, o2 := tok("x"), tok("y")
			upd := [...]string{"", o1, o1 + "+" + o2, own, o1 + "+" + own + "+" + o2, own + "+" + o1 + "+" + own}[v]
			out = append(out, msgSpec{RPC: h.rpc, Event: int32(h.event), Fields: f, Upd: &upd})
		}
	}
	// StateChange with event numbers that have no case
	for _, ev := range []int32{0, int32(api.Event_LAST), 99, int32(api.Event_CREATE_CONTAINER), int32(api.Event_UPDATE_CONTAINER),
		int32(api.Event_STOP_CONTAINER), int32(api.Event_UPDATE_POD_SANDBOX)} {
		out = append(out, msgSpec{RPC: "", Event: ev, Fields: stateFields()})
	}
	return out
}

var dispSeq int

// deliver sends one message, scripted behaviour alternating between success and failure.
func (d *dispDriver) deliver(pt pluginType, co *core, s *session, m msgSpec) error {
	c := d.c
	dispSeq++
	fail := dispSeq%2 == 0 && m.Upd == nil
	empty := dispSeq%7 == 3 && m.Upd == nil // handlers returning nothing at all
	seq := fmt.Sprintf("%d", dispSeq)
	beh := map[string]hres{}
	for _, h := range handlerDefs {
		// the same tokens as Run.RunStub.mk_beh
		r := hres{Adjust: "A:" + h.method + ":" + seq, Update: "U:" + h.method + ":" + seq + "+V"}
		if empty {
			r.Adjust, r.Update = "", ""
		}
		if m.Upd != nil {
			r.Update = *m.Upd
		}
		if fail {
			r.Err = "E:" + h.method + ":" + seq
		}
		beh[h.method] = r
	}
	co.script(beh)

	ctx, cancel := context.WithTimeout(context.Background(), 20*time.Second)
	defer cancel()
	pod, ctr := mkPod(m.Fields["Pod"]), mkCtr(m.Fields["Container"])
	res, ovh := mkRes(m.Fields["LinuxResources"]), mkRes(m.Fields["OverheadLinuxResources"])
	var rep replyObs
	var err error
	switch m.RPC {
	case "CreateContainer":
		var r *api.CreateContainerResponse
		r, err = s.plugin.CreateContainer(ctx, &api.CreateContainerRequest{Pod: pod, Container: ctr})
		if err == nil {
			rep.Adjust, rep.Update = adjustTok(r.GetAdjust()), updatesTok(r.GetUpdate())
		}
	case "UpdateContainer":
		var r *api.UpdateContainerResponse
		r, err = s.plugin.UpdateContainer(ctx, &api.UpdateContainerRequest{Pod: pod, Container: ctr, LinuxResources: res})
		if err == nil {
			rep.Update = updatesTok(r.GetUpdate())
		}
	case "StopContainer":
		var r *api.StopContainerResponse
		r, err = s.plugin.StopContainer(ctx, &api.StopContainerRequest{Pod: pod, Container: ctr})
		if err == nil {
			rep.Update = updatesTok(r.GetUpdate())
		}
	case "UpdatePodSandbox":
		_, err = s.plugin.UpdatePodSandbox(ctx, &api.UpdatePodSandboxRequest{Pod: pod, OverheadLinuxResources: ovh, LinuxResources: res})
	case "":
		_, err = s.plugin.StateChange(ctx, &api.StateChangeEvent{Event: api.Event(m.Event), Pod: pod, Container: ctr})
	default:
		return fmt.Errorf("unknown RPC %q", m.RPC)
	}
	if err != nil {
		sst, ok := status.FromError(err)
		if !ok || ctx.Err() != nil {
			return fmt.Errorf("transport failure on %s/%d: %v", m.RPC, m.Event, err)
		}
		rep.IsErr, rep.Err = true, sst.Message()
	}
	inv := co.taken()
	if inv == nil {
		inv = []invocation{}
	}
	raw := dispRaw{Stream: "disp", Plugin: pt.mask, Hook: pt.hook, Msg: m, Beh: beh, Inv: inv, Reply: rep}

	// Coq term
	carrier := "ByStateChange"
	if m.RPC != "" {
		carrier = "(ByRPC " + coqfmt.Str(m.RPC) + ")"
	}
	var fkeys []string
	for k := range m.Fields {
		fkeys = append(fkeys, k)
	}
	sort.Strings(fkeys)
	var fl []string
	for _, k := range fkeys {
		fl = append(fl, coqfmt.Pair(coqfmt.Str(k), coqfmt.Str(m.Fields[k])))
	}
	var il []string
	for _, iv := range inv {
		il = append(il, coqfmt.Pair(coqfmt.Str(iv.Method), coqfmt.StrList(iv.Args)))
	}
	replyTerm := fmt.Sprintf("(ROk %s %s)", coqfmt.Str(rep.Adjust), coqfmt.Str(rep.Update))
	if rep.IsErr {
		replyTerm = "(RErr " + coqfmt.Str(rep.Err) + ")"
	}
	term := fmt.Sprintf("{| dc_plugin := %s; dc_carrier := %s; dc_event := %s; dc_fields := %s; dc_seq := %s; dc_fail := %s; dc_empty := %s; dc_upd := %s; dc_inv := %s; dc_reply := %s |}",
		coqfmt.N(uint64(pt.mask)), carrier, coqfmt.Z(int64(m.Event)), coqfmt.List(fl), coqfmt.Str(seq), coqfmt.Bool(fail), coqfmt.Bool(empty), coqfmt.OptStr(m.Upd),
		coqfmt.List(il), replyTerm)
	d.dispS.Add(term, raw)

	// the oracle in Go
	if d := co.keptIntact(); d != "" {
		// Go aliasing, which the pure model cannot express: the stub rewrote a slice that belongs to the plugin
		c.ImplFail("disp", fmt.Sprintf("C15: delivery of %s/event %d: %s (the handler's updates are not passed on unchanged: the stub modified them in place)", m.RPC, m.Event, d), raw)
	}
	wantInv, wantRep := expectedDelivery(pt.mask, m, beh)
	if !sameDelivery(inv, rep, wantInv, wantRep) {
		c.ImplFail("disp", fmt.Sprintf("C15: delivery of %s/event %d: invocations %v reply %+v, the property demands %v %+v",
			m.RPC, m.Event, inv, rep, wantInv, wantRep), raw)
	}
	c.Eval(fmt.Sprintf("disp/%d/%v/%s/%d/%v/%d", pt.mask, pt.hook, m.RPC, m.Event, fail, len(m.Fields)), len(inv) > 0)
	kind := "StateChange"
	if m.RPC != "" {
		kind = m.RPC
	}
	c.Count(fmt.Sprintf("disp/%s/ran=%d/err=%v", kind, len(inv), rep.IsErr), 1)
	if len(inv) > 0 {
		c.Sample(raw, 8)
	}
	return nil
}

// expectedDelivery: the reference of Spec.StubSpec.expected_msg, in Go.
func expectedDelivery(mask int, m msgSpec, beh map[string]hres) ([]invocation, replyObs) {
	for i, h := range handlerDefs {
		if h.rpc != m.RPC || (m.RPC == "" && int32(h.event) != m.Event) {
			continue
		}
		if mask&(1<<i) == 0 {
			break
		}
		var args []string
		for _, a := range h.args {
			args = append(args, m.Fields[a])
		}
		r := beh[h.method]
		rep := replyObs{}
		if r.Err != "" {
			rep.IsErr, rep.Err = true, r.Err
		} else {
			if h.adjust {
				rep.Adjust = r.Adjust
			}
			if h.update {
				rep.Update = r.Update
			}
		}
		return []invocation{{Method: h.method, Args: args}}, rep
	}
	return []invocation{}, replyObs{}
}

func sameDelivery(inv []invocation, rep replyObs, winv []invocation, wrep replyObs) bool {
	if rep != wrep || len(inv) != len(winv) {
		return false
	}
	for i := range inv {
		if inv[i].Method != winv[i].Method || len(inv[i].Args) != len(winv[i].Args) {
			return false
		}
		for j := range inv[i].Args {
			if inv[i].Args[j] != winv[i].Args[j] {
				return false
			}
		}
	}
	return true
}

// ---- corpus --------------------------------------------------------------------------------

type dispCorpus struct {
	What   string  `json:"what"`
	Plugin int     `json:"plugin_mask"`
	Hook   bool    `json:"hook"`
	Cfg    cfgSpec `json:"configure"`
}

func corpusDir(id string) string {
	dir := filepath.Join(filepath.Dir(filepath.Dir(os.Args[0])), "corpus", id)
	if _, err := os.Stat(dir); err != nil {
		dir = "/verif/corpus/" + id
	}
	return dir
}

func (d *dispDriver) corpus(byKey map[string]pluginType) error {
	files, _ := filepath.Glob(filepath.Join(corpusDir("C15"), "*.json"))
	sort.Strings(files)
	for _, f := range files {
		data, err := os.ReadFile(f)
		if err != nil {
			return fmt.Errorf("corpus %s: %v", f, err)
		}
		var cs []dispCorpus
		if err := json.Unmarshal(data, &cs); err != nil {
			return fmt.Errorf("corpus %s: %v", f, err)
		}
		for _, k := range cs {
			pt, ok := byKey[fmt.Sprintf("%d/%v", k.Plugin, k.Hook)]
			if !ok {
				return fmt.Errorf("corpus %s: no generated plugin type for subset %d hook=%v", f, k.Plugin, k.Hook)
			}
			d.c.Count("corpus", 1)
			if !k.Hook {
				k.Cfg = cfgSpec{Name: "no-hook", Hook: "none"}
			}
			if err := d.session(pt, k.Cfg, true); err != nil {
				return err
			}
		}
	}
	return nil
}

func pluginKind(byKey map[string]pluginType, mask int) string {
	return byKey[fmt.Sprintf("%d/false", mask)].kind
}

// gapSession: the runtime end delivers every event / request right after the Configure answer, i.e. while the
// stub's Start has the result but has not yet marked the stub started (startDelayMs holds it there).
func (d *dispDriver) gapSession(pt pluginType) error {
	if pt.mk == nil {
		return fmt.Errorf("no generated plugin type for this handler subset")
	}
	c := d.c
	co := &core{}
	d.n++
	st, err := stub.New(pt.mk(co), stub.WithPluginName("disp"), stub.WithPluginIdx("00"),
		stub.WithSocketPath(d.rt.sock), stub.WithOnClose(func() {}))
	if err != nil {
		return fmt.Errorf("plugin %d: stub.New: %v", pt.mask, err)
	}
	var call *call
	var cbErr error
	inFlight := false
	sc := healthyScript()
	sc.OnConfigured = func(s *session) {
		k := 0
		for _, h := range handlerDefs {
			f := map[string]string{}
			for _, a := range h.args {
				k++
				f[a] = fmt.Sprintf("g%d.%d", d.n, k)
			}
			if h.rpc == "" {
				k++
				f["Pod"], f["Container"] = fmt.Sprintf("gp%d.%d", d.n, k), fmt.Sprintf("gc%d.%d", d.n, k)
			}
			if err := d.deliver(pt, co, s, msgSpec{RPC: h.rpc, Event: int32(h.event), Fields: f}); err != nil && cbErr == nil {
				cbErr = err
			}
		}
		inFlight = call != nil && !call.returned()
	}
	d.rt.setScript(sc)
	defer d.rt.setScript(healthyScript())
	startDelayMs.Store(150)
	defer startDelayMs.Store(0)
	call = launch(func() error { return st.Start(context.Background()) })
	var s *session
	select {
	case s = <-d.rt.accepted:
	case <-time.After(10 * time.Second):
		return fmt.Errorf("plugin %d (gap session): no connection reached the scripted runtime", pt.mask)
	}
	if !call.wait(20 * time.Second) {
		return fmt.Errorf("plugin %d (gap session): Start did not return", pt.mask)
	}
	if call.err != nil {
		return fmt.Errorf("plugin %d (gap session): Start: %v", pt.mask, call.err)
	}
	defer st.Stop()
	if !waitC(s.synchronized, 20*time.Second) {
		return fmt.Errorf("plugin %d (gap session): the runtime end did not get through Configure and Synchronize", pt.mask)
	}
	if cbErr != nil {
		return fmt.Errorf("plugin %d (gap session): %v", pt.mask, cbErr)
	}
	if inFlight {
		c.Count("gap-sessions/events-sent-while-Start-in-flight", 1)
	} else {
		c.Count("gap-sessions/Start-had-returned-already", 1)
	}
	return nil
}
