module verif/harness

go 1.22.0

require (
	github.com/containerd/nri v0.0.0
	github.com/containerd/ttrpc v1.2.7
	github.com/opencontainers/runtime-spec v1.1.0
	github.com/opencontainers/runtime-tools v0.9.0
	github.com/sirupsen/logrus v1.9.3
	google.golang.org/grpc v1.57.1
	google.golang.org/protobuf v1.34.1
)

require (
	github.com/containerd/log v0.1.0 // indirect
	github.com/golang/protobuf v1.5.3 // indirect
	github.com/knqyf263/go-plugin v0.8.1-0.20240827022226-114c6257e441 // indirect
	github.com/moby/sys/mountinfo v0.6.2 // indirect
	github.com/syndtr/gocapability v0.0.0-20200815063812-42c35b437635 // indirect
	github.com/tetratelabs/wazero v1.9.0 // indirect
	golang.org/x/sys v0.21.0 // indirect
	google.golang.org/genproto/googleapis/rpc v0.0.0-20230731190214-cbb8c96f2d6d // indirect
)

replace github.com/containerd/nri => /repo

replace github.com/opencontainers/runtime-tools v0.9.0 => github.com/opencontainers/runtime-tools v0.0.0-20221026201742-946c877fa809
