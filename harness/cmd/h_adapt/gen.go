package main

import (
	"fmt"
	"math/rand"
	"sort"
	"strings"

	"verif/harness/internal/nm"
)

// Item identifies one adjustable item of a container: kind + key.
type Item struct {
	Kind string `json:"kind"`
	Key  string `json:"key,omitempty"`
}

func (i Item) String() string { return i.Kind + ":" + i.Key }

var (
	annKeys   = []string{"a0", "a1", "a2", "a3", "io.k/x", "b-c", "A0"}       // "A0" / "a0": names are compared as written
	envKeys   = []string{"E0", "E1", "E2", "E3", "PATH", "E_5", "e0", "Path", "E0_DIR", "PATHEXT"} // "e0" / "E0", "Path" / "PATH": different variables; "E0_DIR" / "E0", "PATHEXT" / "PATH": one name a prefix of the other
	mountDsts = []string{"/m0", "/m1", "/m2", "/m0/sub", "/m1/a/b", "/data", "/m2/x", "/mn3/", "/mn4//y", "/mn5/./z", "/mn3", "/data/"} // "/mn3/", "/mn4//y", "/mn5/./z", "/data/" are not in filepath.Clean form; "/mn3" and "/mn3/", "/data" and "/data/" are two spellings of one path and are DIFFERENT items (destinations are compared as written)
	devPaths  = []string{"/dev/d0", "/dev/d1", "/dev/d2", "/dev/d3", "/dev/sub/../d4", "/dev/d4"} // the last two spell one path in two ways: different items
	cdiNames  = []string{"vendor.com/dev=c0", "vendor.com/dev=c1", "vendor.com/dev=c2", "x.org/y=z"}
	rlTypes   = []string{"RLIMIT_NOFILE", "RLIMIT_NPROC", "RLIMIT_CORE", "RLIMIT_AS"}
	hpSizes   = []string{"2MB", "1GB", "64KB", "2mb", " 1GB"} // "2mb" / "2MB", " 1GB" / "1GB": page sizes are keys compared as written
	uniKeys   = []string{"memory.high", "cpu.weight", "io.max", "-odd.key"}
	classes   = []string{"c0", "c1", "c2", "gold", ""}
)

// markable kinds support the removal marker
var markable = map[string]bool{"ann": true, "mount": true, "dev": true, "env": true, "args": true}

// allItems enumerates the item universe (one constructor per kind of C01).
func allItems() []Item {
	var out []Item
	for _, k := range annKeys {
		out = append(out, Item{"ann", k})
	}
	for _, k := range envKeys {
		out = append(out, Item{"env", k})
	}
	for _, k := range mountDsts {
		out = append(out, Item{"mount", k})
	}
	for _, k := range devPaths {
		out = append(out, Item{"dev", k})
	}
	for _, k := range cdiNames {
		out = append(out, Item{"cdi", k})
	}
	for _, k := range rlTypes {
		out = append(out, Item{"rlimit", k})
	}
	for _, k := range hpSizes {
		out = append(out, Item{"hp", k})
	}
	for _, k := range uniKeys {
		out = append(out, Item{"uni", k})
	}
	for _, f := range nm.Fields {
		out = append(out, Item{"scal", f})
	}
	out = append(out, Item{"args", ""}, Item{"cgroups", ""}, Item{"oom", ""})
	return out
}

// itemKinds lists the distinct kinds for the per-kind collision streams; scalars one by one.
func collisionKinds() []Item {
	out := []Item{{"ann", ""}, {"env", ""}, {"mount", ""}, {"dev", ""}, {"cdi", ""}, {"rlimit", ""}, {"hp", ""}, {"uni", ""},
		{"args", ""}, {"cgroups", ""}, {"oom", ""}}
	for _, f := range nm.Fields {
		out = append(out, Item{"scal", f})
	}
	return out
}

// updatable reports whether an item can be the subject of a container update.
func updatable(i Item) bool { return i.Kind == "scal" || i.Kind == "hp" || i.Kind == "uni" }

// echoC / echoRes: the container being created (or the spec being adjusted) and the resources the
// plugins are shown; "echo" values let a plugin set a field to exactly the value it already has
// (a claim that changes nothing is still a claim) and boundary values (0, "") hit "zero means unset" slips.
type G struct {
	r         *rand.Rand
	echoC     *nm.Container
	echoRes   *nm.Res
	aftermath int
}

// scalFor draws the value plugin tag sets for scalar field f.
func (g *G) scalFor(f string, tag int) nm.SVal {
	v := scalVal(f, tag, g.r)
	if g.echoRes != nil && g.r.Intn(5) == 0 {
		for _, cur := range g.echoRes.Scal {
			if cur.F == f {
				return cur
			}
		}
	}
	return v
}

func (g *G) pick(l []string) string { return l[g.r.Intn(len(l))] }

func (g *G) keyFor(kind string) string {
	switch kind {
	case "ann":
		return g.pick(annKeys)
	case "env":
		return g.pick(envKeys)
	case "mount":
		return g.pick(mountDsts)
	case "dev":
		return g.pick(devPaths)
	case "cdi":
		return g.pick(cdiNames)
	case "rlimit":
		return g.pick(rlTypes)
	case "hp":
		return g.pick(hpSizes)
	case "uni":
		return g.pick(uniKeys)
	}
	return ""
}

// scalar value tagged with the writer (tag 0 = runtime/original)
func scalVal(f string, tag int, r *rand.Rand) nm.SVal {
	v := nm.SVal{F: f}
	switch nm.Kind[f] {
	case 'i':
		v.I = int64(1000*(tag+1) + r.Intn(7))
		if r.Intn(12) == 0 {
			v.I = -1
		}
		if r.Intn(25) == 0 {
			v.I = 0
		}
		if f == "MemLimit" && v.I <= 0 {
			v.I = int64(4096 * (tag + 1))
		}
	case 'u':
		v.U = uint64(100*(tag+1) + r.Intn(7))
		if r.Intn(25) == 0 {
			v.U = 0
		}
		if r.Intn(40) == 0 {
			v.U = 1<<63 + uint64(tag)
		}
	case 'b':
		v.B = (tag+r.Intn(2))%2 == 0
	case 's':
		switch f {
		case "CpuCpus", "CpuMems":
			v.S = fmt.Sprintf("%d-%d", tag, tag+1+r.Intn(3))
		default:
			v.S = classes[r.Intn(len(classes))]
		}
	}
	return v
}

func u32(v uint32) *uint32 { return &v }
func i64(v int64) *int64   { return &v }

func (g *G) mount(dst string, tag int) nm.Mount {
	// rprivate is the one propagation option that does not consult the host's mountinfo (W5); it may stand
	// anywhere in the list
	opts := [][]string{nil, {"ro"}, {"rw", "rprivate"}, {"bind", "ro"}, {"rprivate", "ro"}, {"rbind", "rprivate", "nosuid", "ro"}}[g.r.Intn(6)]
	m := nm.Mount{Dest: dst, Type: []string{"bind", "tmpfs", ""}[g.r.Intn(3)], Source: fmt.Sprintf("/src/p%d%s", tag, dst), Opts: opts}
	// echo: a fifth of the time a plugin's mount agrees with the mount the container already has at this
	// destination in type and source — and half of those times in the NUMBER of options too, differing only in
	// one option's text (a set is a set: the mount must come out as given)
	if tag > 0 && g.echoC != nil && g.r.Intn(5) == 0 {
		for _, cur := range g.echoC.Mounts {
			if cur.Dest != dst {
				continue
			}
			m.Type, m.Source = cur.Type, cur.Source
			if len(cur.Opts) > 0 && g.r.Intn(2) == 0 {
				m.Opts = append([]string(nil), cur.Opts...)
				k := g.r.Intn(len(m.Opts))
				switch m.Opts[k] {
				case "ro":
					m.Opts[k] = "rw"
				case "rw":
					m.Opts[k] = "ro"
				case "nosuid":
					m.Opts[k] = "nodev"
				case "bind":
					m.Opts[k] = "rbind"
				case "rbind":
					m.Opts[k] = "bind"
				default:
					m.Opts[k] = "noexec"
				}
			}
		}
	}
	return m
}

func (g *G) device(path string, tag int) nm.Device {
	d := nm.Device{Path: path, Type: []string{"c", "b"}[g.r.Intn(2)], Major: int64(10 + tag), Minor: int64(g.r.Intn(5))}
	if g.r.Intn(2) == 0 {
		d.Mode = u32([]uint32{0o600, 0o666, 0, 0o444}[g.r.Intn(4)])
	}
	if g.r.Intn(3) == 0 {
		d.UID = u32(uint32(tag))
	}
	if g.r.Intn(3) == 0 {
		d.GID = u32(uint32(100 + tag))
	}
	return d
}

func (g *G) hook(tag, n int) nm.Hook {
	h := nm.Hook{Path: fmt.Sprintf("/bin/hook-p%d-%d", tag, n)}
	if g.r.Intn(2) == 0 {
		h.Args = []string{"hook", fmt.Sprint(tag)}
	}
	if g.r.Intn(3) == 0 {
		h.Env = []string{fmt.Sprintf("H=%d", tag)}
	}
	if g.r.Intn(3) == 0 {
		h.Timeout = i64(int64(g.r.Intn(10)))
	}
	return h
}

func (g *G) hooks(tag int) *nm.Hooks {
	h := &nm.Hooks{}
	lists := []*[]nm.Hook{&h.Prestart, &h.CreateRuntime, &h.CreateContainer, &h.StartContainer, &h.Poststart, &h.Poststop}
	for n := 0; n <= g.r.Intn(4); n++ {
		l := lists[g.r.Intn(6)]
		*l = append(*l, g.hook(tag, n))
	}
	return h
}

// container builds an original container as the runtime would submit it.
func (g *G) container(id string, rich bool) *nm.Container {
	c := &nm.Container{ID: id}
	p := 3
	if rich {
		p = 2
	}
	for _, k := range annKeys {
		if g.r.Intn(p) == 0 {
			c.Ann = append(c.Ann, nm.KV{K: k, V: "orig-" + k})
		}
	}
	for _, k := range envKeys {
		if g.r.Intn(p) == 0 {
			// one entry in six is bare (no '=') or has an empty value: the key is then the whole string
			c.Env = append(c.Env, k+[]string{"=orig", "=orig=x", "=orig y", "=orig", "", "="}[g.r.Intn(6)])
		}
	}
	for _, d := range mountDsts {
		if g.r.Intn(p) == 0 {
			c.Mounts = append(c.Mounts, g.mount(d, 0))
		}
	}
	g.r.Shuffle(len(c.Mounts), func(i, j int) { c.Mounts[i], c.Mounts[j] = c.Mounts[j], c.Mounts[i] })
	for _, d := range devPaths {
		if g.r.Intn(p) == 0 {
			c.Devices = append(c.Devices, g.device(d, 0))
		}
	}
	if g.r.Intn(4) != 0 {
		c.Args = []string{"/bin/app", "--flag", id}[:1+g.r.Intn(3)]
	}
	if g.r.Intn(2) == 0 {
		c.Hooks = g.hooks(0)
	}
	for _, t := range rlTypes {
		if g.r.Intn(5) == 0 {
			c.Rlimits = append(c.Rlimits, nm.Rlimit{Type: t, Hard: 2048, Soft: 1024})
		}
	}
	c.Res = g.res(0, p+1, false)
	if g.r.Intn(2) == 0 {
		c.Cgroups = "/cg/orig/" + id
	}
	if g.r.Intn(3) == 0 {
		c.Oom = i64(int64(g.r.Intn(2000) - 1000))
	}
	return c
}

// res builds resources with each field present with probability 1/p (all fields when p == 1).
func (g *G) res(tag, p int, withClasses bool) *nm.Res {
	r := &nm.Res{}
	for _, f := range nm.Fields {
		if (f == "BlockioClass" || f == "RdtClass") && !withClasses {
			continue
		}
		if p == 1 || g.r.Intn(p) == 0 {
			r.Scal = append(r.Scal, scalVal(f, tag, g.r))
		}
	}
	for _, s := range hpSizes {
		if p == 1 || g.r.Intn(p+1) == 0 {
			r.HP = append(r.HP, nm.HP{Size: s, Limit: uint64(1000 * (tag + 1))})
		}
	}
	for _, k := range uniKeys {
		if p == 1 || g.r.Intn(p+1) == 0 {
			r.Uni = append(r.Uni, nm.KV{K: k, V: fmt.Sprintf("u%d", tag)})
		}
	}
	sort.Slice(r.Uni, func(i, j int) bool { return r.Uni[i].K < r.Uni[j].K })
	return r
}

// Op is what a plugin does with an item in its adjustment.
type Op int

const (
	OpSet Op = iota
	OpRemove
	OpRemoveSet
	OpSetRemove // generator streams only: set listed before the removal marker
	// OpOtherMarkSet: a removal marker for ANOTHER item — the one named "-"+key, i.e. the key "--"+key —
	// together with a set of key: it releases nothing of key (W7 territory: outside C03/C04, inside C01/C02)
	OpOtherMarkSet
)

type Action struct {
	Item Item `json:"item"`
	Op   Op   `json:"op"`
}

// applyAction adds one action of plugin tag to an adjustment.
func (g *G) applyAction(a *nm.Adjust, act Action, tag int) {
	it := act.Item
	set := act.Op != OpRemove
	rm := act.Op != OpSet
	first, second := rm, set // marker first
	if act.Op == OpSetRemove {
		first, second = false, false
	}
	mark := func(k string) string { return "-" + k }
	if act.Op == OpOtherMarkSet {
		mark = func(k string) string { return "--" + k }
	}
	switch it.Kind {
	case "ann":
		if rm {
			a.Ann = append(a.Ann, nm.KV{K: mark(it.Key), V: ""})
		}
		if set {
			v := fmt.Sprintf("p%d-%s", tag, it.Key)
			// echo: a fifth of the time the plugin sets the annotation to exactly the value it already has
			if g.echoC != nil && g.r.Intn(5) == 0 {
				for _, cur := range g.echoC.Ann {
					if cur.K == it.Key {
						v = cur.V
					}
				}
			}
			a.Ann = append(a.Ann, nm.KV{K: it.Key, V: v})
		}
		sort.Slice(a.Ann, func(i, j int) bool { return a.Ann[i].K < a.Ann[j].K })
	case "env":
		s := nm.KV{K: it.Key, V: fmt.Sprintf("p%d", tag) + []string{"", "=q", " r"}[g.r.Intn(3)]}
		// echo: a fifth of the time the plugin sets the variable to exactly the KEY=VALUE the container has
		if g.echoC != nil && g.r.Intn(5) == 0 {
			for _, cur := range g.echoC.Env {
				if strings.HasPrefix(cur, it.Key+"=") {
					s.V = cur[len(it.Key)+1:]
				}
			}
		}
		m := nm.KV{K: mark(it.Key)}
		if act.Op == OpSetRemove {
			a.Env = append(a.Env, s, m)
		}
		if first {
			a.Env = append(a.Env, m)
		}
		if second {
			a.Env = append(a.Env, s)
		}
	case "mount":
		s := g.mount(it.Key, tag)
		m := nm.Mount{Dest: mark(it.Key)}
		if act.Op == OpSetRemove {
			a.Mounts = append(a.Mounts, s, m)
		}
		if first {
			a.Mounts = append(a.Mounts, m)
		}
		if second {
			a.Mounts = append(a.Mounts, s)
		}
	case "dev":
		s := g.device(it.Key, tag)
		m := nm.Device{Path: mark(it.Key)}
		if act.Op == OpSetRemove {
			a.Devices = append(a.Devices, s, m)
		}
		if first {
			a.Devices = append(a.Devices, m)
		}
		if second {
			a.Devices = append(a.Devices, s)
		}
	case "args":
		args := []string{fmt.Sprintf("/bin/p%d", tag), "--x"}[:1+g.r.Intn(2)]
		switch {
		case act.Op == OpRemove:
			// the bare removal marker (UpdateArgs(nil)): releases the claim; outside the domain of C03/C04
			// (W4: the protocol cannot express "no command line"), inside that of C01/C02/C05
			a.Args = []string{""}
		case rm:
			a.Args = append([]string{""}, args...)
		default:
			a.Args = args
		}
	case "cdi":
		a.CDI = append(a.CDI, it.Key)
	case "rlimit":
		a.Rlimits = append(a.Rlimits, nm.Rlimit{Type: it.Key, Hard: uint64(1000 * (tag + 1)), Soft: uint64(100 * (tag + 1))})
	case "hp":
		if a.Res == nil {
			a.Res = &nm.Res{}
		}
		a.Res.HP = append(a.Res.HP, nm.HP{Size: it.Key, Limit: uint64(1000 * (tag + 1))})
	case "uni":
		if a.Res == nil {
			a.Res = &nm.Res{}
		}
		a.Res.Uni = append(a.Res.Uni, nm.KV{K: it.Key, V: fmt.Sprintf("p%d", tag)})
		sort.Slice(a.Res.Uni, func(i, j int) bool { return a.Res.Uni[i].K < a.Res.Uni[j].K })
	case "scal":
		if a.Res == nil {
			a.Res = &nm.Res{}
		}
		a.Res.Scal = append(a.Res.Scal, g.scalFor(it.Key, tag))
		sortScal(a.Res)
	case "cgroups":
		// a path is a string: not in canonical form one time in three (trailing slash, doubled slash, dot element)
		a.Cgroups = fmt.Sprintf("/cg/p%d", tag) + []string{"", "", "/", "//x", "/./y"}[g.r.Intn(5)]
		if g.echoC != nil && g.echoC.Cgroups != "" && g.r.Intn(5) == 0 {
			a.Cgroups = g.echoC.Cgroups
		}
	case "oom":
		a.Oom = i64(int64(tag*10 - 5))
		switch g.r.Intn(6) {
		case 0, 1:
			a.Oom = i64(0) // an explicit 0 is a request, not "unset"
		case 2:
			if g.echoC != nil && g.echoC.Oom != nil {
				a.Oom = i64(*g.echoC.Oom)
			}
		}
	default:
		panic("unknown item kind " + it.Kind)
	}
}

func sortScal(r *nm.Res) {
	idx := map[string]int{}
	for i, f := range nm.Fields {
		idx[f] = i
	}
	sort.SliceStable(r.Scal, func(i, j int) bool { return idx[r.Scal[i].F] < idx[r.Scal[j].F] })
}

// addToRes adds one updatable item of plugin tag to resources.
func (g *G) addToRes(r *nm.Res, it Item, tag int) {
	switch it.Kind {
	case "hp":
		r.HP = append(r.HP, nm.HP{Size: it.Key, Limit: uint64(1000 * (tag + 1))})
	case "uni":
		r.Uni = append(r.Uni, nm.KV{K: it.Key, V: fmt.Sprintf("p%d", tag)})
		sort.Slice(r.Uni, func(i, j int) bool { return r.Uni[i].K < r.Uni[j].K })
	case "scal":
		r.Scal = append(r.Scal, g.scalFor(it.Key, tag))
		sortScal(r)
	}
}

// randomItems draws n distinct items from pool.
func (g *G) randomItems(pool []Item, n int) []Item {
	if n > len(pool) {
		n = len(pool)
	}
	perm := g.r.Perm(len(pool))
	out := make([]Item, 0, n)
	for _, i := range perm[:n] {
		out = append(out, pool[i])
	}
	return out
}
