(* Combination theorems for C03 / C04, part 3: the invariant of the plugin loop for a creation
   request and the theorems stated in Properties/C03.v and Properties/C04.v.

   For the state (container shown c, reply a, ledger o) after a conflict-free prefix of plugins:
     CInv c0 c a o   "the reply a, read by the reference semantics as ONE adjustment of the original
                      c0, yields exactly what is shown" (family by family, with the side conditions
                      each family needs: reply maps have distinct keys and well-formed markers, the
                      ledger holds a mount/env/device key iff the reply carries a set for it);
     OEq c (apply_all c0 prefix)   "what is shown is the sequential reference result".
   Both are preserved by result.adjust (adjust_step) and untouched by the updates of a response. *)
From Coq Require Import String Ascii List Bool ZArith Arith Lia.
From NRI Require Import Base.Lists Base.Strs Base.Assoc Model.Types Model.Result Spec.Apply
  Proofs.KeyedProofs Proofs.ResultProofs Proofs.CombineWf Proofs.CombineBase Proofs.CombineFamilies.
Import ListNotations.
Open Scope string_scope.
Open Scope list_scope.

(* ---------- the boolean well-formedness predicate, as propositions ---------- *)
Record adj_wf (p : adjustment) : Prop := {
  aw_ann : keys_w7 (a_ann p);
  aw_mounts : w7good m_dest mgood (a_mounts p);
  aw_env : w7good env_entry_key egood (a_env p);
  aw_dev : w7good d_path dgood (a_devices p);
  aw_args : args_wf (a_args p)
}.

Lemma key_ok_sound k : key_ok k = true -> marked (rawkey k) = false.
Proof. unfold key_ok. intros H. apply negb_true_iff in H. exact H. Qed.

Lemma args_ok_sound args : args_ok args = true -> args_wf args.
Proof.
  destruct args as [|a0 rest]; cbn [args_ok args_wf]; [intros _; exact I|].
  intros H E. subst a0. cbn in H. destruct rest as [|r0 rest']; [discriminate|].
  exists r0, rest'. split; [reflexivity|]. intros E. subst r0. discriminate.
Qed.

Lemma wf_adj_sound p : wf_adj p = true -> adj_wf p.
Proof.
  unfold wf_adj. rewrite !andb_true_iff, !forallb_forall. intros [[[[Ha Hm] He] Hd] Hargs]. split.
  - intros e Hin. apply key_ok_sound. apply Ha. exact Hin.
  - intros e Hin. split; [apply key_ok_sound; apply Hm; exact Hin|exact I].
  - intros e Hin. specialize (He e Hin). unfold env_ok in He. apply andb_true_iff in He. destruct He as [H1 H2].
    split; [apply key_ok_sound; exact H1|]. unfold egood. intros Hu. rewrite Hu in H2. cbn [orb] in H2.
    apply Nat.eqb_eq in H2. exact H2.
  - intros e Hin. split; [apply key_ok_sound; apply Hd; exact Hin|exact I].
  - apply args_ok_sound. exact Hargs.
Qed.

Lemma adjs_of_map rps : adjs rps = map adj_of rps.
Proof. reflexivity. Qed.

Lemma adjs_of_firstn i rps : adjs (firstn i rps) = firstn i (adjs rps).
Proof. unfold adjs. symmetry. apply firstn_map. Qed.

Lemma In_firstn {A} i (l : list A) x : In x (firstn i l) -> In x l.
Proof. intros H. rewrite <- (firstn_skipn i l). apply in_or_app. left. exact H. Qed.

Lemma wf_create_sound c0 rps : wf_create c0 rps = true -> forall p, In p (adjs rps) -> adj_wf p.
Proof. unfold wf_create. rewrite forallb_forall. intros H p Hp. apply wf_adj_sound. apply H. exact Hp. Qed.

Lemma wf_create_firstn c0 rps i : wf_create c0 rps = true -> wf_create c0 (firstn i rps) = true.
Proof.
  unfold wf_create. rewrite !forallb_forall. intros H p Hp. apply H. rewrite adjs_of_firstn in Hp. apply (In_firstn _ _ _ Hp).
Qed.

(* ---------- the invariant ---------- *)
Record CInv (c0 c : container) (a : adjustment) (o : ledger) : Prop := {
  ci_id : c_id c = c_id c0;
  ci_ann : AInv (c_ann c0) (a_ann a) (c_ann c);
  ci_m : MKInv (c_id c0) (c_mounts c0) (a_mounts a) (c_mounts c) o;
  ci_mm : forall k, marked k = true -> kfind m_dest k (c_mounts c) = kfind m_dest k (c_mounts c0);
  ci_e : EKInv (c_id c0) (c_env c0) (a_env a) (c_env c) o;
  ci_em : forall k, marked k = true -> kfind env_key k (c_env c) = kfind env_key k (c_env c0);
  ci_d : DKInv (c_id c0) (c_devices c0) (a_devices a) (c_devices c) o;
  ci_dm : forall k, marked k = true -> kfind d_path k (c_devices c) = kfind d_path k (c_devices c0);
  ci_args : c_args c = apply_args (c_args c0) (a_args a);
  ci_hooks : c_hooks c = hooks_append (c_hooks c0) (a_hooks a);
  ci_rlimits : c_rlimits c = c_rlimits c0 ++ a_rlimits a;
  ci_res : RInv (c_res c0) (a_res a) (c_res c);
  ci_cgroups : c_cgroups c = if String.eqb (a_cgroups a) "" then c_cgroups c0 else a_cgroups a;
  ci_oom : c_oom c = match a_oom a with Some v => Some v | None => c_oom c0 end
}.

Lemma CInv_init c0 : CInv c0 c0 adj_empty [].
Proof.
  split; cbn [adj_empty a_ann a_mounts a_env a_args a_hooks a_rlimits a_devices a_res a_cgroups a_oom].
  - reflexivity.
  - split; [constructor|intros e []|]. intros x. unfold semA. cbn [alookup]. destruct (marked x); reflexivity.
  - apply KInv_init. reflexivity.
  - reflexivity.
  - apply KInv_init. reflexivity.
  - reflexivity.
  - apply KInv_init. reflexivity.
  - reflexivity.
  - reflexivity.
  - symmetry. apply hooks_append_empty.
  - symmetry. apply app_nil_r.
  - apply RInv_init.
  - reflexivity.
  - reflexivity.
Qed.

Lemma CInv_ledger c0 c a o o' : CInv c0 c a o -> kkfr o o' -> CInv c0 c a o'.
Proof.
  intros [Iid Iann Im Imm Ie Iem Id Idm Iargs Ihooks Irl Ires Icg Ioom] F.
  split; try assumption.
  - apply (KInv_ledger _ _ _ _ _ _ _ _ _ _ _ _ o' Im). intros k. apply F. reflexivity.
  - apply (KInv_ledger _ _ _ _ _ _ _ _ _ _ _ _ o' Ie). intros k. apply F. reflexivity.
  - apply (KInv_ledger _ _ _ _ _ _ _ _ _ _ _ _ o' Id). intros k. apply F. reflexivity.
Qed.

(* C04, last sentence: what is shown agrees with what the runtime obtains from the reply so far *)
Lemma CInv_obs c0 c a o : CInv c0 c a o -> OEq (apply_adj c0 a) c.
Proof.
  intros [Iid Iann Im Imm Ie Iem Id Idm Iargs Ihooks Irl Ires Icg Ioom].
  split; cbn [apply_adj c_ann c_mounts c_env c_args c_hooks c_rlimits c_devices c_res c_cgroups c_oom apply_res r_scal r_hp r_uni].
  - intros k. rewrite (semA_char _ _ _ (ai_nd _ _ _ Iann) (ai_w7 _ _ _ Iann)). apply (ai_sem _ _ _ Iann).
  - apply (KInv_sem_all _ _ m_dest m_dest (fun m => m) IMount mgood m_inj_key _ _ _ _ _ Im Imm).
  - exact (KInv_sem_all _ _ env_entry_key env_key env_to_oci IEnv egood e_inj_key _ _ _ _ _ Ie Iem).
  - symmetry. exact Iargs.
  - symmetry. exact Ihooks.
  - symmetry. exact Irl.
  - apply (KInv_sem_all _ _ d_path d_path (fun d => d) IDev dgood d_inj_key _ _ _ _ _ Id Idm).
  - apply (ri_scal _ _ _ Ires).
  - symmetry. apply (ri_hp _ _ _ Ires).
  - apply (ri_uni _ _ _ Ires).
  - symmetry. exact Icg.
  - symmetry. exact Ioom.
Qed.

Ltac simp_proj :=
  cbn [c_id c_ann c_mounts c_env c_args c_hooks c_rlimits c_devices c_res c_cgroups c_oom
       a_ann a_mounts a_env a_args a_hooks a_rlimits a_cdi a_devices a_res a_cgroups a_oom
       with_c_ann with_c_mounts with_c_env with_c_args with_c_hooks with_c_rlimits with_c_devices with_c_res
       with_c_cgroups with_c_oom
       with_a_ann with_a_mounts with_a_env with_a_args with_a_hooks with_a_rlimits with_a_cdi with_a_devices
       with_a_res with_a_cgroups with_a_oom].
Ltac simp_proj_in H :=
  cbn [c_id c_ann c_mounts c_env c_args c_hooks c_rlimits c_devices c_res c_cgroups c_oom
       a_ann a_mounts a_env a_args a_hooks a_rlimits a_cdi a_devices a_res a_cgroups a_oom
       with_c_ann with_c_mounts with_c_env with_c_args with_c_hooks with_c_rlimits with_c_devices with_c_res
       with_c_cgroups with_c_oom
       with_a_ann with_a_mounts with_a_env with_a_args with_a_hooks with_a_rlimits with_a_cdi with_a_devices
       with_a_res with_a_cgroups with_a_oom] in H.

(* ---------- one plugin's adjustment: result.adjust preserves the invariant ---------- *)
Theorem adjust_step c0 p c a o c' a' o' :
  adj_wf p -> CInv c0 c a o -> adjust p (c, a, o) = Ok (c', a', o') ->
  CInv c0 c' a' o' /\ OEq c' (apply_adj c p) /\ a_cdi a' = a_cdi a ++ a_cdi p.
Proof.
  intros [Wann Wm We Wd Wargs] [Iid Iann Im Imm Ie Iem Id Idm Iargs Ihooks Irl Ires Icg Ioom] H.
  unfold adjust, bind in H.
  (* annotations *)
  destruct (adj_annotations (a_ann p) (c, a, o)) as [[[c1 a1] o1]|e1] eqn:S1; [|discriminate].
  destruct (adj_annotations_spec _ _ _ _ _ _ _ _ Wann Iann S1) as [v1 [r1 [-> [-> [A1 [A2 F1]]]]]]. clear S1.
  (* mounts *)
  destruct (adj_mounts (a_mounts p) _) as [[[c2 a2] o2]|e2] eqn:S2; [|discriminate].
  destruct (adj_mounts_spec _ _ _ _ _ _ _ S2) as [r2 [v2 [-> [-> K2]]]]. clear S2. simp_proj_in K2. rewrite Iid in K2.
  assert (Im1 : MKInv (c_id c0) (c_mounts c0) (a_mounts a) (c_mounts c) o1).
  { apply (KInv_ledger _ _ _ _ _ _ _ _ _ _ _ _ o1 Im). intros k. apply F1. reflexivity. }
  destruct (kstep_full _ _ m_dest m_dest (fun m => m) IMount mgood m_inj_key IMount_inj _ _ _ _ _ _ _ _ _ Im1 Imm Wm K2)
    as [Im2 [Vm [Imm2 Fm]]]. clear K2 Im1.
  (* environment *)
  destruct (adj_env (a_env p) _) as [[[c3 a3] o3]|e3] eqn:S3; [|discriminate].
  destruct (adj_env_spec _ _ _ _ _ _ _ S3) as [r3 [v3 [-> [-> K3]]]]. clear S3. simp_proj_in K3. rewrite Iid in K3.
  assert (Ie2 : EKInv (c_id c0) (c_env c0) (a_env a) (c_env c) o2).
  { apply (KInv_ledger _ _ _ _ _ _ _ _ _ _ _ _ o2 Ie). intros k.
    rewrite (Fm (c_id c0, IEnv k)) by (intros k0 E; discriminate E). apply F1. reflexivity. }
  destruct (kstep_full _ _ env_entry_key env_key env_to_oci IEnv egood e_inj_key IEnv_inj _ _ _ _ _ _ _ _ _ Ie2 Iem We K3)
    as [Ie3 [Ve [Iem3 Fe]]]. clear K3 Ie2.
  (* args *)
  destruct (adj_args (a_args p) _) as [[[c4 a4] o4]|e4] eqn:S4; [|discriminate].
  destruct (adj_args_spec _ _ _ _ _ _ _ Wargs S4) as [F4 [v4 [w4 [-> [-> [Va Ra]]]]]]. clear S4. simp_proj_in Va. simp_proj_in Ra.
  (* hooks *)
  destruct (adj_hooks (a_hooks p) _) as [[[c5 a5] o5]|e5] eqn:S5; [|discriminate].
  destruct (adj_hooks_spec _ _ _ _ _ _ _ S5) as [-> [-> ->]]. clear S5.
  (* devices *)
  destruct (adj_devices (a_devices p) _) as [[[c6 a6] o6]|e6] eqn:S6; [|discriminate].
  destruct (adj_devices_spec _ _ _ _ _ _ _ S6) as [r6 [v6 [-> [-> K6]]]]. clear S6. simp_proj_in K6. rewrite Iid in K6.
  assert (Id4 : DKInv (c_id c0) (c_devices c0) (a_devices a) (c_devices c) o4).
  { apply (KInv_ledger _ _ _ _ _ _ _ _ _ _ _ _ o4 Id). intros k.
    rewrite (F4 (c_id c0, IDev k) eq_refl).
    rewrite (Fe (c_id c0, IDev k)) by (intros k0 E; discriminate E).
    rewrite (Fm (c_id c0, IDev k)) by (intros k0 E; discriminate E). apply F1. reflexivity. }
  destruct (kstep_full _ _ d_path d_path (fun d => d) IDev dgood d_inj_key IDev_inj _ _ _ _ _ _ _ _ _ Id4 Idm Wd K6)
    as [Id6 [Vd [Idm6 Fd]]]. clear K6 Id4.
  (* resources *)
  destruct (adj_resources (a_res p) _) as [[[c7 a7] o7]|e7] eqn:S7; [|discriminate].
  destruct (adj_resources_spec _ _ _ _ _ _ _ S7) as [-> [-> F7]]. clear S7.
  (* cgroups path *)
  destruct (adj_cgroups (a_cgroups p) _) as [[[c8 a8] o8]|e8] eqn:S8; [|discriminate].
  destruct (adj_cgroups_spec _ _ _ _ _ _ _ S8) as [F8 [-> ->]]. clear S8.
  (* OOM score *)
  destruct (adj_oom (a_oom p) _) as [[[c9 a9] o9]|e9] eqn:S9; [|discriminate].
  destruct (adj_oom_spec _ _ _ _ _ _ _ S9) as [F9 [-> ->]]. clear S9.
  (* rlimits *)
  destruct (adj_rlimits (a_rlimits p) _) as [[[c10 a10] o10]|e10] eqn:S10; [|discriminate].
  destruct (adj_rlimits_spec _ _ _ _ _ _ _ S10) as [F10 [-> ->]]. clear S10.
  (* CDI devices *)
  destruct (adj_cdi_spec _ _ _ _ _ _ _ H) as [F11 [-> ->]]. clear H.
  (* the ledger keys of each keyed family after its own step *)
  assert (Ftail : kkfr o6 o').
  { apply (kkfr_trans _ o7); [exact F7|]. apply (kkfr_trans _ o8); [exact F8|]. apply (kkfr_trans _ o9); [exact F9|].
    apply (kkfr_trans _ o10); [exact F10|exact F11]. }
  assert (Pm : forall k, lmem (c_id c0, IMount k) o' = lmem (c_id c0, IMount k) o2).
  { intros k. rewrite (Ftail (c_id c0, IMount k) eq_refl).
    rewrite (Fd (c_id c0, IMount k)) by (intros k0 E; discriminate E).
    rewrite (F4 (c_id c0, IMount k) eq_refl).
    rewrite (Fe (c_id c0, IMount k)) by (intros k0 E; discriminate E). reflexivity. }
  assert (Pe : forall k, lmem (c_id c0, IEnv k) o' = lmem (c_id c0, IEnv k) o3).
  { intros k. rewrite (Ftail (c_id c0, IEnv k) eq_refl).
    rewrite (Fd (c_id c0, IEnv k)) by (intros k0 E; discriminate E).
    rewrite (F4 (c_id c0, IEnv k) eq_refl). reflexivity. }
  assert (Pd : forall k, lmem (c_id c0, IDev k) o' = lmem (c_id c0, IDev k) o6).
  { intros k. apply (Ftail (c_id c0, IDev k) eq_refl). }
  split; [|split].
  - split; simp_proj.
    + exact Iid.
    + exact A1.
    + apply (KInv_ledger _ _ _ _ _ _ _ _ _ _ _ _ o' Im2 Pm).
    + exact Imm2.
    + apply (KInv_ledger _ _ _ _ _ _ _ _ _ _ _ _ o' Ie3 Pe).
    + exact Iem3.
    + apply (KInv_ledger _ _ _ _ _ _ _ _ _ _ _ _ o' Id6 Pd).
    + exact Idm6.
    + apply Ra. exact Iargs.
    + rewrite Ihooks. apply hooks_append_assoc.
    + rewrite Irl, app_assoc. reflexivity.
    + apply RInv_step. exact Ires.
    + destruct (String.eqb_spec (a_cgroups p) "") as [Ep|Np]; [exact Icg|].
      destruct (String.eqb_spec (a_cgroups p) "") as [Ep|_]; [contradiction|reflexivity].
    + destruct (a_oom p); [reflexivity|exact Ioom].
  - split; simp_proj;
      cbn [apply_adj c_ann c_mounts c_env c_args c_hooks c_rlimits c_devices c_res c_cgroups c_oom].
    + exact A2.
    + intros k. rewrite Vm. reflexivity.
    + intros k. rewrite Ve. reflexivity.
    + exact Va.
    + reflexivity.
    + reflexivity.
    + intros k. rewrite Vd. reflexivity.
    + reflexivity.
    + reflexivity.
    + reflexivity.
    + reflexivity.
    + destruct (a_oom p); reflexivity.
  - simp_proj. reflexivity.
Qed.

(* ---------- updates do not touch the container, the reply, or the keyed ledger keys ---------- *)
Lemma update_one_frame u s s' :
  update_one u s = Ok s' -> s_create s' = s_create s /\ s_adjust s' = s_adjust s /\ kkfr (s_own s) (s_own s').
Proof.
  unfold update_one. destruct (match s_create s with Some c => _ | None => false end); [discriminate|].
  destruct (u_res u) as [r|]; [|intros H; inversion H; cbn; repeat split].
  destruct (merge_resources _ _ _ _) as [[r'|e'] o'] eqn:Hm; destruct (merge_resources_spec _ _ _ _ _ _ Hm) as [F _].
  - intros H. inversion H; cbn. repeat split. exact F.
  - destruct (u_ignore u); intros H; inversion H; cbn. repeat split. exact F.
Qed.

Lemma update_all_frame us : forall s s',
  update_all us s = Ok s' -> s_create s' = s_create s /\ s_adjust s' = s_adjust s /\ kkfr (s_own s) (s_own s').
Proof.
  induction us as [|u r IH]; cbn [update_all]; intros s s' H.
  - inversion H; subst. repeat split.
  - destruct (update_one u s) as [s1|e] eqn:E; cbn [bind] in H; [|discriminate].
    destruct (update_one_frame _ _ _ E) as [H1 [H2 H3]]. destruct (IH _ _ H) as [G1 [G2 G3]].
    split; [congruence|]. split; [congruence|]. apply (kkfr_trans _ (s_own s1)); assumption.
Qed.

(* ---------- the plugin loop ---------- *)
Fixpoint steps (rps : list response) (s : st) : res st :=
  match rps with
  | [] => Ok s
  | rp :: r => bind (apply_response rp s) (steps r)
  end.

Lemma run_plugins_snd rps : forall s views, snd (run_plugins rps s views) = steps rps s.
Proof.
  induction rps as [|rp r IH]; intros s views; cbn [run_plugins steps]; [reflexivity|].
  destruct (apply_response rp s) as [s'|e]; cbn [bind]; [apply IH|reflexivity].
Qed.

(* the i-th recorded view is the view of the state reached after the first i plugins, all of which succeeded *)
Lemma run_plugins_nth rps : forall s views i v,
  nth_error (fst (run_plugins rps s views)) (length views + i) = Some v ->
  exists si, steps (firstn i rps) s = Ok si /\ v = view_of si.
Proof.
  induction rps as [|rp r IH]; intros s views i v H.
  - cbn [run_plugins fst] in H. assert (Hn : nth_error views (length views + i) = None) by (apply nth_error_None; lia). congruence.
  - destruct i as [|j].
    + exists s. split; [reflexivity|].
      destruct (run_plugins_views (rp :: r) s views) as [more [Hm Hf]]. destruct Hf as [rest ->]; [discriminate|].
      rewrite Hm, Nat.add_0_r, nth_error_app2, Nat.sub_diag in H by lia. cbn in H. inversion H. reflexivity.
    + cbn [run_plugins] in H. cbn [firstn steps]. destruct (apply_response rp s) as [s'|e].
      * cbn [bind]. apply (IH s' (views ++ [view_of s]) j v). rewrite app_length. cbn [length].
        replace (length views + 1 + j) with (length views + S j) by lia. exact H.
      * cbn [fst] in H. assert (Hn : nth_error (views ++ [view_of s]) (length views + S j) = None).
        { apply nth_error_None. rewrite app_length. cbn [length]. lia. }
        congruence.
Qed.

Lemma steps_app a : forall b s, steps (a ++ b) s = bind (steps a s) (steps b).
Proof.
  induction a as [|rp r IH]; intros b s; cbn [app steps bind]; [reflexivity|].
  destruct (apply_response rp s) as [s'|e]; cbn [bind]; [apply IH|reflexivity].
Qed.

(* the invariant of the loop for a creation request: pre = the adjustments of the plugins asked so far *)
Definition GInv (c0 : container) (pre : list adjustment) (s : st) : Prop :=
  exists c, s_create s = Some c /\ CInv c0 c (s_adjust s) (s_own s) /\ OEq c (apply_all c0 pre) /\
            a_cdi (s_adjust s) = concat (map a_cdi pre).

Lemma GInv_init c0 : GInv c0 [] (init_state (RCreate c0)).
Proof.
  exists c0. cbn [init_state s_create s_adjust s_own]. split; [reflexivity|]. split; [apply CInv_init|].
  split; [apply OEq_refl|reflexivity].
Qed.

Lemma apply_response_inv c0 pre rp s s' :
  GInv c0 pre s -> adj_wf (adj_of rp) -> apply_response rp s = Ok s' -> GInv c0 (pre ++ [adj_of rp]) s'.
Proof.
  intros [c [Hc [Hinv [Hobs Hcdi]]]] Hwf H. unfold apply_response in H. rewrite Hc in H. unfold adj_of in *.
  destruct (rp_adjust rp) as [p|].
  - destruct (adjust p (c, s_adjust s, s_own s)) as [[[c' a'] o']|e] eqn:Ha; cbn [bind] in H; [|discriminate].
    destruct (adjust_step c0 p _ _ _ _ _ _ Hwf Hinv Ha) as [Hinv' [Hstep Hcdi']].
    destruct (update_all_frame _ _ _ H) as [G1 [G2 G3]]. cbn [s_create s_adjust s_own] in G1, G2, G3.
    exists c'. split; [exact G1|]. rewrite G2. split; [apply (CInv_ledger _ _ _ _ _ Hinv' G3)|]. split.
    + rewrite apply_all_snoc. apply (OEq_trans _ _ _ Hstep). apply apply_adj_OEq. exact Hobs.
    + rewrite Hcdi', Hcdi, map_app, concat_app. cbn [map concat]. rewrite app_nil_r. reflexivity.
  - cbn [bind] in H. destruct (update_all_frame _ _ _ H) as [G1 [G2 G3]].
    exists c. split; [congruence|]. rewrite G2. split; [apply (CInv_ledger _ _ _ _ _ Hinv G3)|]. split.
    + rewrite apply_all_snoc. apply (OEq_trans _ _ _ Hobs). apply OEq_sym. apply apply_adj_empty.
    + rewrite Hcdi, map_app, concat_app. cbn [map concat adj_empty a_cdi]. rewrite !app_nil_r. reflexivity.
Qed.

Lemma steps_inv c0 rps : forall pre s s',
  GInv c0 pre s -> (forall p, In p (adjs rps) -> adj_wf p) -> steps rps s = Ok s' -> GInv c0 (pre ++ adjs rps) s'.
Proof.
  induction rps as [|rp r IH]; intros pre s s' Hinv Hwf H; cbn [steps] in H.
  - inversion H; subst. cbn [adjs map]. rewrite app_nil_r. exact Hinv.
  - destruct (apply_response rp s) as [s1|e] eqn:E; cbn [bind] in H; [|discriminate].
    rewrite adjs_of_map. cbn [map]. rewrite <- adjs_of_map.
    replace (pre ++ adj_of rp :: adjs r) with ((pre ++ [adj_of rp]) ++ adjs r) by (rewrite <- app_assoc; reflexivity).
    apply (IH _ s1 s'); [|intros p Hp; apply Hwf; rewrite adjs_of_map; cbn [map]; right; rewrite <- adjs_of_map; exact Hp|exact H].
    apply (apply_response_inv c0 pre rp s s1 Hinv); [|exact E].
    apply Hwf. rewrite adjs_of_map. cbn [map]. left. reflexivity.
Qed.

(* the state reached by the first i plugins of a creation request *)
Lemma create_prefix_state c0 rps i v :
  wf_create c0 (firstn i rps) = true ->
  nth_error (fst (run_request (RCreate c0) rps)) i = Some v ->
  exists si c, snd (run_request (RCreate c0) (firstn i rps)) = Ok si /\ v = ShownContainer c /\ s_create si = Some c /\
               CInv c0 c (s_adjust si) (s_own si) /\ OEq c (apply_all c0 (firstn i (adjs rps))).
Proof.
  intros Hwf H. unfold run_request in *.
  destruct (run_plugins_nth rps (init_state (RCreate c0)) [] i v H) as [si [Hs Hv]].
  destruct (steps_inv c0 (firstn i rps) [] _ _ (GInv_init c0) (wf_create_sound c0 _ Hwf) Hs) as [c [Hc [Hinv [Hobs _]]]].
  exists si, c. rewrite run_plugins_snd. split; [exact Hs|]. split; [|split; [exact Hc|split; [exact Hinv|]]].
  - rewrite Hv. unfold view_of. rewrite Hc. reflexivity.
  - cbn [app] in Hobs. rewrite adjs_of_firstn in Hobs. exact Hobs.
Qed.

(* ====================================================================== *)
(* the theorems                                                           *)
(* ====================================================================== *)

(* C04 (a), sharp form: only the plugins before position i need to be well formed *)
Theorem view_is_prefix_result_sharp c0 rps i v :
  wf_create c0 (firstn i rps) = true ->
  nth_error (fst (run_request (RCreate c0) rps)) i = Some v ->
  exists x, v = ShownContainer x /\ obs_eqb x (apply_all c0 (firstn i (adjs rps))) = true.
Proof.
  intros Hwf H. destruct (create_prefix_state c0 rps i v Hwf H) as [si [c [_ [Hv [_ [_ Hobs]]]]]].
  exists c. split; [exact Hv|apply OEq_obs_eqb; exact Hobs].
Qed.

Theorem view_is_prefix_result c0 rps i v :
  wf_create c0 rps = true ->
  nth_error (fst (run_request (RCreate c0) rps)) i = Some v ->
  exists x, v = ShownContainer x /\ obs_eqb x (apply_all c0 (firstn i (adjs rps))) = true.
Proof. intros Hwf. apply view_is_prefix_result_sharp. apply wf_create_firstn. exact Hwf. Qed.

(* C04 (d): the view agrees with the reply accumulated so far, i.e. with the combined adjustment the
   request restricted to the first i plugins returns *)
Theorem view_agrees_with_reply c0 rps i v :
  wf_create c0 rps = true ->
  nth_error (fst (run_request (RCreate c0) rps)) i = Some v ->
  exists x s, v = ShownContainer x /\ snd (run_request (RCreate c0) (firstn i rps)) = Ok s /\
              obs_eqb x (apply_adj c0 (s_adjust s)) = true.
Proof.
  intros Hwf H.
  destruct (create_prefix_state c0 rps i v (wf_create_firstn c0 rps i Hwf) H) as [si [c [Hs [Hv [_ [Hinv _]]]]]].
  exists c, si. split; [exact Hv|]. split; [exact Hs|]. apply OEq_obs_eqb. apply OEq_sym. apply (CInv_obs _ _ _ _ Hinv).
Qed.

Lemma create_final_state c0 rps s :
  wf_create c0 rps = true -> snd (run_request (RCreate c0) rps) = Ok s ->
  exists c, s_create s = Some c /\ CInv c0 c (s_adjust s) (s_own s) /\ OEq c (apply_all c0 (adjs rps)) /\
            a_cdi (s_adjust s) = concat (map a_cdi (adjs rps)).
Proof.
  intros Hwf H. unfold run_request in H. rewrite run_plugins_snd in H.
  exact (steps_inv c0 rps [] _ _ (GInv_init c0) (wf_create_sound c0 _ Hwf) H).
Qed.

(* C03 (c) *)
Theorem combined_equals_sequential c0 rps s :
  wf_create c0 rps = true -> snd (run_request (RCreate c0) rps) = Ok s ->
  obs_eqb (apply_adj c0 (s_adjust s)) (apply_all c0 (adjs rps)) = true /\
  a_cdi (s_adjust s) = concat (map a_cdi (adjs rps)).
Proof.
  intros Hwf H. destruct (create_final_state c0 rps s Hwf H) as [c [_ [Hinv [Hobs Hcdi]]]].
  split; [|exact Hcdi]. apply OEq_obs_eqb. apply (OEq_trans _ c); [apply (CInv_obs _ _ _ _ Hinv)|exact Hobs].
Qed.

(* the same with the boolean list equality used by holds_C03 *)
Theorem combined_equals_sequential_bool c0 rps s :
  wf_create c0 rps = true -> snd (run_request (RCreate c0) rps) = Ok s ->
  obs_eqb (apply_adj c0 (s_adjust s)) (apply_all c0 (adjs rps)) &&
  list_eqb String.eqb (a_cdi (s_adjust s)) (concat (map a_cdi (adjs rps))) = true.
Proof.
  intros Hwf H. destruct (combined_equals_sequential c0 rps s Hwf H) as [H1 H2].
  rewrite H1, H2. apply (list_eqb_refl String.eqb _ String.eqb_refl).
Qed.
