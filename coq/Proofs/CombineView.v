(* Combination theorems for C04, part 7: what a plugin is shown is the sequential reference result —
   under W4 alone (args <> [""]).  No invariant about the reply or the ledger is needed: every step of
   result.adjust writes to the container shown exactly what the reference semantics prescribes. *)
From Coq Require Import String Ascii List Bool ZArith Arith Lia.
From NRI Require Import Base.Lists Base.Strs Base.Assoc Model.Types Model.Result Spec.Apply
  Proofs.KeyedProofs Proofs.ResultProofs Proofs.CombineWf Proofs.CombineBase Proofs.CombineFamilies Proofs.CombineProofs.
Import ListNotations.
Open Scope string_scope.
Open Scope list_scope.

(* ---------- annotations: the container side only ---------- *)
Lemma ann_apply_sets_view id dels sets : forall view reply o view' reply' o',
  ann_apply_sets id dels sets view reply o = Ok (view', reply', o') ->
  forall x, alookup x view' = match alast x sets with Some v => Some v | None => alookup x view end.
Proof.
  induction sets as [|[k v] r IH]; intros view reply o view' reply' o' H x.
  - cbn [ann_apply_sets] in H. inversion H; subst. reflexivity.
  - cbn [ann_apply_sets] in H. destruct (smem k dels).
    + destruct (claim (id, IAnn k) (lremove (id, IAnn k) o)) as [o2|e] eqn:Hc; [|discriminate].
      rewrite (IH _ _ _ _ _ _ H x), alast_cons. cbn [fst snd]. destruct (alast x r); [reflexivity|].
      rewrite alookup_aset, alookup_aremove. destruct (String.eqb x k); reflexivity.
    + destruct (claim (id, IAnn k) o) as [o2|e] eqn:Hc; [|discriminate].
      rewrite (IH _ _ _ _ _ _ H x), alast_cons. cbn [fst snd]. destruct (alast x r); [reflexivity|].
      rewrite alookup_aset. destruct (String.eqb x k); reflexivity.
Qed.

Lemma ann_apply_lone_view id lone : forall view reply o view' reply' o',
  ann_apply_lone id lone view reply o = (view', reply', o') ->
  forall x, alookup x view' = if smem x lone then None else alookup x view.
Proof.
  induction lone as [|k r IH]; intros view reply o view' reply' o' H x.
  - cbn [ann_apply_lone] in H. inversion H; subst. reflexivity.
  - cbn [ann_apply_lone] in H. rewrite (IH _ _ _ _ _ _ H x), smem_cons, alookup_aremove.
    destruct (String.eqb x k), (smem x r); reflexivity.
Qed.

Lemma adjust_annotations_view id ann view reply o view' reply' o' :
  adjust_annotations id ann view reply o = Ok (view', reply', o') ->
  forall x, alookup x view' = alookup x (apply_ann view ann).
Proof.
  intros H x. unfold adjust_annotations in H.
  destruct (ann_apply_sets id (ann_dels ann) (ann_sets ann) view reply o) as [[[v1 r1] o1]|e] eqn:Hs; [|discriminate].
  inversion H as [Hl]; clear H.
  rewrite (ann_apply_lone_view _ _ _ _ _ _ _ _ Hl x), (ann_apply_sets_view _ _ _ _ _ _ _ _ _ Hs x), alookup_apply_ann, smem_filter.
  destruct (alast x (ann_sets ann)) as [v|] eqn:Ea.
  - assert (Hin : smem x (map fst (ann_sets ann)) = true) by (apply smem_In; apply (alast_Some_in _ _ _ Ea)).
    rewrite Hin, andb_false_r. reflexivity.
  - assert (Hin : smem x (map fst (ann_sets ann)) = false) by (apply smem_false_notin; apply alast_None_notin; exact Ea).
    rewrite Hin, andb_true_r. reflexivity.
Qed.

Lemma adj_annotations_view ann c a o c' a' o' :
  adj_annotations ann (c, a, o) = Ok (c', a', o') ->
  exists v, c' = with_c_ann c v /\ forall x, alookup x v = alookup x (apply_ann (c_ann c) ann).
Proof.
  intros H. unfold adj_annotations in H. destruct ann as [|e0 r0].
  - inversion H; subst. exists (c_ann c'). rewrite with_c_ann_eta. split; reflexivity.
  - remember (e0 :: r0) as ann' eqn:Ea. clear Ea e0 r0.
    destruct (adjust_annotations (c_id c) ann' (c_ann c) (a_ann a) o) as [[[v r] o1]|e] eqn:Hs; [|discriminate].
    inversion H; subst. exists v. split; [reflexivity|]. apply (adjust_annotations_view _ _ _ _ _ _ _ _ Hs).
Qed.

(* ---------- the keyed list families: the container side only ---------- *)
Lemma kstep_view {E W} (ekey : E -> string) (wkey : W -> string) (inj : E -> W) (mk : string -> item)
      id es reply view o reply' view' o' :
  kstep ekey wkey inj mk id es reply view o = Ok (reply', view', o') -> view' = apply_keyed ekey wkey inj view es.
Proof.
  intros H. destruct es as [|e0 es0].
  - cbn in H. inversion H; subst. unfold apply_keyed. cbn. rewrite app_nil_r. symmetry. apply filter_all. intros; reflexivity.
  - pose proof (kstep_nonempty _ _ ekey wkey inj mk id e0 es0 reply view o) as Hks. cbv zeta in Hks. rewrite Hks in H. clear Hks.
    destruct (claim_all _ _) as [o2|]; [|discriminate]. inversion H; subst. reflexivity.
Qed.

(* ---------- args under W4 alone ---------- *)
Lemma adj_args_view args c a o c' a' o' :
  args <> [""] -> adj_args args (c, a, o) = Ok (c', a', o') ->
  exists v, c' = with_c_args c v /\ v = apply_args (c_args c) args.
Proof.
  intros Hw H. unfold adj_args in H. destruct args as [|a0 rest].
  - inversion H; subst. exists (c_args c'). rewrite with_c_args_eta. split; reflexivity.
  - destruct (String.eqb_spec a0 "") as [->|Hn].
    + destruct (claim (c_id c, IArgs) (lremove (c_id c, IArgs) o)) as [o2|e]; [|discriminate].
      inversion H; subst. exists rest. split; [reflexivity|]. cbn [apply_args String.eqb].
      destruct rest as [|r0 rest']; [contradiction|reflexivity].
    + destruct (claim (c_id c, IArgs) o) as [o2|e]; [|discriminate].
      inversion H; subst. exists (a0 :: rest). split; [reflexivity|]. cbn [apply_args].
      destruct (String.eqb_spec a0 "") as [->|_]; [contradiction|reflexivity].
Qed.

(* ---------- result.adjust, the container side ---------- *)
Theorem adjust_view_step p c a o c' a' o' :
  a_args p <> [""] -> adjust p (c, a, o) = Ok (c', a', o') -> OEq c' (apply_adj c p).
Proof.
  intros Wargs H. unfold adjust, bind in H.
  destruct (adj_annotations (a_ann p) (c, a, o)) as [[[c1 a1] o1]|e1] eqn:S1; [|discriminate].
  destruct (adj_annotations_view _ _ _ _ _ _ _ S1) as [v1 [-> A2]]. clear S1.
  destruct (adj_mounts (a_mounts p) _) as [[[c2 a2] o2]|e2] eqn:S2; [|discriminate].
  destruct (adj_mounts_spec _ _ _ _ _ _ _ S2) as [r2 [v2 [-> [-> K2]]]]. clear S2. apply kstep_view in K2.
  destruct (adj_env (a_env p) _) as [[[c3 a3] o3]|e3] eqn:S3; [|discriminate].
  destruct (adj_env_spec _ _ _ _ _ _ _ S3) as [r3 [v3 [-> [-> K3]]]]. clear S3. apply kstep_view in K3.
  destruct (adj_args (a_args p) _) as [[[c4 a4] o4]|e4] eqn:S4; [|discriminate].
  destruct (adj_args_view _ _ _ _ _ _ _ Wargs S4) as [v4 [-> Va]]. clear S4.
  destruct (adj_hooks (a_hooks p) _) as [[[c5 a5] o5]|e5] eqn:S5; [|discriminate].
  destruct (adj_hooks_spec _ _ _ _ _ _ _ S5) as [-> [-> ->]]. clear S5.
  destruct (adj_devices (a_devices p) _) as [[[c6 a6] o6]|e6] eqn:S6; [|discriminate].
  destruct (adj_devices_spec _ _ _ _ _ _ _ S6) as [r6 [v6 [-> [-> K6]]]]. clear S6. apply kstep_view in K6.
  destruct (adj_resources (a_res p) _) as [[[c7 a7] o7]|e7] eqn:S7; [|discriminate].
  destruct (adj_resources_spec _ _ _ _ _ _ _ S7) as [-> [-> F7]]. clear S7.
  destruct (adj_cgroups (a_cgroups p) _) as [[[c8 a8] o8]|e8] eqn:S8; [|discriminate].
  destruct (adj_cgroups_spec _ _ _ _ _ _ _ S8) as [F8 [-> ->]]. clear S8.
  destruct (adj_oom (a_oom p) _) as [[[c9 a9] o9]|e9] eqn:S9; [|discriminate].
  destruct (adj_oom_spec _ _ _ _ _ _ _ S9) as [F9 [-> ->]]. clear S9.
  destruct (adj_rlimits (a_rlimits p) _) as [[[c10 a10] o10]|e10] eqn:S10; [|discriminate].
  destruct (adj_rlimits_spec _ _ _ _ _ _ _ S10) as [F10 [-> ->]]. clear S10.
  destruct (adj_cdi_spec _ _ _ _ _ _ _ H) as [F11 [-> ->]]. clear H.
  simp_proj_in K2. simp_proj_in K3. simp_proj_in K6. simp_proj_in Va.
  split; simp_proj; cbn [apply_adj c_ann c_mounts c_env c_args c_hooks c_rlimits c_devices c_res c_cgroups c_oom].
  - exact A2.
  - intros k. rewrite K2. reflexivity.
  - intros k. rewrite K3. reflexivity.
  - exact Va.
  - reflexivity.
  - reflexivity.
  - intros k. rewrite K6. reflexivity.
  - reflexivity.
  - reflexivity.
  - reflexivity.
  - reflexivity.
  - destruct (a_oom p); reflexivity.
Qed.

(* ---------- the plugin loop ---------- *)
Definition VInv (c0 : container) (pre : list adjustment) (s : st) : Prop :=
  exists c, s_create s = Some c /\ OEq c (apply_all c0 pre).

Lemma apply_response_view c0 pre rp s s' :
  VInv c0 pre s -> a_args (adj_of rp) <> [""] -> apply_response rp s = Ok s' -> VInv c0 (pre ++ [adj_of rp]) s'.
Proof.
  intros [c [Hc Hobs]] Hwf H. unfold apply_response in H. rewrite Hc in H. unfold adj_of in *.
  destruct (rp_adjust rp) as [p|].
  - destruct (adjust p (c, s_adjust s, s_own s)) as [[[c' a'] o']|e] eqn:Ha; cbn [bind] in H; [|discriminate].
    pose proof (adjust_view_step p _ _ _ _ _ _ Hwf Ha) as Hstep.
    destruct (update_all_frame _ _ _ H) as [G1 _]. cbn [s_create] in G1.
    exists c'. split; [exact G1|]. rewrite apply_all_snoc. apply (OEq_trans _ _ _ Hstep). apply apply_adj_OEq. exact Hobs.
  - cbn [bind] in H. destruct (update_all_frame _ _ _ H) as [G1 _].
    exists c. split; [congruence|]. rewrite apply_all_snoc. apply (OEq_trans _ _ _ Hobs). apply OEq_sym. apply apply_adj_empty.
Qed.

Lemma steps_view c0 rps : forall pre s s',
  VInv c0 pre s -> (forall p, In p (adjs rps) -> a_args p <> [""]) -> steps rps s = Ok s' -> VInv c0 (pre ++ adjs rps) s'.
Proof.
  induction rps as [|rp r IH]; intros pre s s' Hinv Hwf H; cbn [steps] in H.
  - inversion H; subst. cbn [adjs map]. rewrite app_nil_r. exact Hinv.
  - destruct (apply_response rp s) as [s1|e] eqn:E; cbn [bind] in H; [|discriminate].
    unfold adjs. cbn [map]. fold (adjs r).
    replace (pre ++ adj_of rp :: adjs r) with ((pre ++ [adj_of rp]) ++ adjs r) by (rewrite <- app_assoc; reflexivity).
    apply (IH _ s1 s'); [|intros p Hp; apply Hwf; unfold adjs; cbn [map]; right; exact Hp|exact H].
    apply (apply_response_view c0 pre rp s s1 Hinv); [|exact E].
    apply Hwf. unfold adjs. cbn [map]. left. reflexivity.
Qed.

Lemma args_w4_sound args : args_w4 args = true -> args <> [""].
Proof. intros H E. subst. discriminate. Qed.

Lemma wf_views_sound rps : wf_views rps = true -> forall p, In p (adjs rps) -> a_args p <> [""].
Proof. unfold wf_views. rewrite forallb_forall. intros H p Hp. apply args_w4_sound. apply H. exact Hp. Qed.

(* C04 (a) with the weakest hypothesis: W4 for the plugins before position i *)
Theorem view_is_prefix_result_w4 c0 rps i v :
  wf_views (firstn i rps) = true ->
  nth_error (fst (run_request (RCreate c0) rps)) i = Some v ->
  exists x, v = ShownContainer x /\ obs_eqb x (apply_all c0 (firstn i (adjs rps))) = true.
Proof.
  intros Hwf H. unfold run_request in H.
  destruct (run_plugins_nth rps (init_state (RCreate c0)) [] i v H) as [si [Hs Hv]].
  assert (Hinit : VInv c0 [] (init_state (RCreate c0))) by (exists c0; split; [reflexivity|apply OEq_refl]).
  destruct (steps_view c0 (firstn i rps) [] _ _ Hinit (wf_views_sound _ Hwf) Hs) as [c [Hc Hobs]].
  exists c. split.
  - rewrite Hv. unfold view_of. rewrite Hc. reflexivity.
  - cbn [app] in Hobs. rewrite adjs_of_firstn in Hobs. apply OEq_obs_eqb. exact Hobs.
Qed.

Lemma wf_create_views c0 rps : wf_create c0 rps = true -> wf_views rps = true.
Proof.
  unfold wf_create, wf_views. rewrite !forallb_forall. intros H p Hp. specialize (H p Hp).
  unfold wf_adj in H. rewrite !andb_true_iff in H. destruct H as [_ Ha].
  destruct (a_args p) as [|a0 [|r0 rest]]; try reflexivity. cbn [args_ok] in Ha. cbn [args_w4].
  destruct (String.eqb a0 ""); [discriminate|reflexivity].
Qed.
