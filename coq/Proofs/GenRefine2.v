(* C13, part 2: resources, the reflection of the Prop-level map equivalence into obs_eqb, the refinement
   theorem, order independence, the frame theorem. *)
From Coq Require Import String Ascii List Bool ZArith Arith Lia Permutation Sorted.
From NRI Require Import Base.Lists Base.Strs Base.Assoc Base.StrOrder Model.Types Model.Result Model.Generate
  Spec.Apply Spec.GenSpec Proofs.KeyedProofs Proofs.GenerateProofs Proofs.GenRefine Run.RunAdapt.
Import ListNotations.
Open Scope string_scope.
Open Scope list_scope.

(* ---------- scalar resources ---------- *)
Lemma sfield_eqb_refl f : sfield_eqb f f = true.
Proof. destruct (sfield_eqb_spec f f); [reflexivity|contradiction]. Qed.

Lemma flookup_fset f g v l : flookup f (fset g v l) = if sfield_eqb f g then Some v else flookup f l.
Proof.
  induction l as [|[h w] r IH]; cbn [fset flookup]; [reflexivity|].
  destruct (sfield_eqb_spec g h) as [->|Hne]; cbn [flookup].
  - destruct (sfield_eqb f h); reflexivity.
  - destruct (sfield_eqb_spec f h) as [->|Hfh].
    + destruct (sfield_eqb_spec h g); [congruence|reflexivity].
    + exact IH.
Qed.

Lemma flookup_fremove f g l : flookup f (fremove g l) = if sfield_eqb f g then None else flookup f l.
Proof.
  unfold fremove. induction l as [|[h w] r IH]; cbn [filter flookup fst].
  - destruct (sfield_eqb f g); reflexivity.
  - destruct (sfield_eqb_spec g h) as [->|Hne]; cbn [negb flookup].
    + rewrite IH. destruct (sfield_eqb f h); reflexivity.
    + rewrite IH. destruct (sfield_eqb_spec f h) as [->|Hfh]; [|reflexivity].
      destruct (sfield_eqb_spec h g); [congruence|reflexivity].
Qed.

Lemma flookup_set_if f g src dst :
  flookup f (set_if g src dst) =
  if sfield_eqb f g then match flookup g src with Some v => Some v | None => flookup f dst end else flookup f dst.
Proof.
  unfold set_if. destruct (flookup g src); [rewrite flookup_fset|]; destruct (sfield_eqb f g); reflexivity.
Qed.

Lemma flookup_notin f l : ~ In f (map fst l) -> flookup f l = None.
Proof.
  induction l as [|[h w] r IH]; cbn [map flookup fst]; intros Hni; [reflexivity|].
  destruct (sfield_eqb_spec f h) as [->|Hne]; [exfalso; apply Hni; left; reflexivity|].
  apply IH. intros H. apply Hni. right. exact H.
Qed.

Lemma flookup_app f l1 l2 : flookup f (l1 ++ l2) = match flookup f l1 with Some v => Some v | None => flookup f l2 end.
Proof. induction l1 as [|[h w] r IH]; cbn [app flookup]; [reflexivity|]. destruct (sfield_eqb f h); [reflexivity|exact IH]. Qed.

Lemma flookup_filter (P : sfield * sval -> bool) f l :
  NoDup (map fst l) ->
  flookup f (filter P l) = match flookup f l with Some v => if P (f, v) then Some v else None | None => None end.
Proof.
  induction l as [|[h w] r IH]; cbn [map filter flookup fst]; intros Hnd; [reflexivity|].
  inversion Hnd as [|? ? Hh Hr]; subst.
  destruct (P (h, w)) eqn:HP; cbn [flookup].
  - destruct (sfield_eqb_spec f h) as [->|Hne]; [rewrite HP; reflexivity|apply IH; exact Hr].
  - rewrite IH by exact Hr. destruct (sfield_eqb_spec f h) as [->|Hne]; [|reflexivity].
    rewrite HP, (flookup_notin h r Hh). reflexivity.
Qed.

(* the reference: every field that is present overwrites *)
Lemma flookup_apply_fold r f fs : forall c,
  flookup f (fold_left (fun m g => match flookup g r with Some v => fset g v m | None => m end) fs c) =
  if existsb (sfield_eqb f) fs then match flookup f r with Some v => Some v | None => flookup f c end else flookup f c.
Proof.
  induction fs as [|g fs IH]; intros c; cbn [fold_left existsb]; [reflexivity|].
  rewrite IH.
  assert (Hc : flookup f (match flookup g r with Some v => fset g v c | None => c end) =
               if sfield_eqb f g then match flookup g r with Some v => Some v | None => flookup f c end else flookup f c).
  { destruct (flookup g r); [rewrite flookup_fset|]; destruct (sfield_eqb f g); reflexivity. }
  rewrite Hc. destruct (sfield_eqb_spec f g) as [->|Hne]; cbn [orb].
  - destruct (existsb _ fs); destruct (flookup g r); reflexivity.
  - reflexivity.
Qed.

Lemma flookup_apply_scal c r f :
  flookup f (apply_scal c r) = match flookup f r with Some v => Some v | None => flookup f c end.
Proof.
  unfold apply_scal. rewrite flookup_apply_fold.
  assert (H : existsb (sfield_eqb f) all_scalars = true) by (destruct f; reflexivity).
  rewrite H. reflexivity.
Qed.

(* the model, layer by layer *)
Definition cls_fn (sc : list (sfield * sval)) (f : sfield) (s : list (sfield * sval)) :=
  match flookup f sc with
  | Some (VS "") => fremove f s
  | Some v => fset f v s
  | None => s
  end.
Definition mem_fn (sc s1 : list (sfield * sval)) :=
  match flookup MemLimit sc with
  | Some (VZ l) => if Z.eqb l 0 then s1 else fset MemSwap (VZ l) (fset MemLimit (VZ l) s1)
  | _ => s1
  end.
Definition gen_scal (sc c0 : list (sfield * sval)) :=
  cls_fn sc RdtClass (cls_fn sc BlockioClass (set_if Pids sc (mem_fn sc
    (set_if CpuRtPeriod sc (set_if CpuRtRuntime sc (set_if CpuMems sc (set_if CpuCpus sc (set_if CpuShares sc
      (set_if CpuQuota sc (set_if CpuPeriod sc c0)))))))))).

Lemma gen_resources_scal r c : r_scal (gen_resources r c) = gen_scal (r_scal r) (r_scal c).
Proof. reflexivity. Qed.

Lemma flookup_cls_fn sc g s f :
  flookup f (cls_fn sc g s) =
  if sfield_eqb f g
  then match flookup g sc with Some (VS "") => None | Some v => Some v | None => flookup f s end
  else flookup f s.
Proof.
  unfold cls_fn. destruct (flookup g sc) as [[z|b|[|ch s']]|];
    rewrite ?flookup_fset, ?flookup_fremove; destruct (sfield_eqb f g); reflexivity.
Qed.

Lemma flookup_mem_fn sc s1 f :
  flookup f (mem_fn sc s1) =
  match flookup MemLimit sc with
  | Some (VZ l) => if Z.eqb l 0 then flookup f s1
                   else if sfield_eqb f MemSwap then Some (VZ l)
                        else if sfield_eqb f MemLimit then Some (VZ l) else flookup f s1
  | _ => flookup f s1
  end.
Proof.
  unfold mem_fn. destruct (flookup MemLimit sc) as [[l|b|s']|]; try reflexivity.
  destruct (Z.eqb l 0); [reflexivity|]. rewrite !flookup_fset. reflexivity.
Qed.

(* gen_view / cleared_classes on the scalars *)
Definition view_keep (e : sfield * sval) : bool :=
  match fst e with
  | CpuShares | CpuQuota | CpuPeriod | CpuRtRuntime | CpuRtPeriod | CpuCpus | CpuMems | Pids => true
  | MemLimit => match snd e with VZ 0 => false | _ => true end
  | BlockioClass | RdtClass => match snd e with VS "" => false | _ => true end
  | _ => false
  end.
Definition view_scal (sc : list (sfield * sval)) :=
  filter view_keep sc ++ match flookup MemLimit (filter view_keep sc) with Some v => [(MemSwap, v)] | None => [] end.
Definition drop_fn (sc : list (sfield * sval)) (f : sfield) (s : list (sfield * sval)) :=
  match flookup f sc with Some (VS "") => fremove f s | _ => s end.

Lemma gen_view_scal a : r_scal (a_res (gen_view a)) = view_scal (r_scal (a_res a)).
Proof. reflexivity. Qed.
Lemma cleared_scal a c :
  r_scal (c_res (cleared_classes a c)) = drop_fn (r_scal (a_res a)) RdtClass (drop_fn (r_scal (a_res a)) BlockioClass (r_scal (c_res c))).
Proof. reflexivity. Qed.

Lemma flookup_drop_fn sc g s f :
  flookup f (drop_fn sc g s) =
  if sfield_eqb f g then match flookup g sc with Some (VS "") => None | _ => flookup f s end else flookup f s.
Proof.
  unfold drop_fn. destruct (flookup g sc) as [[z|b|[|ch s']]|];
    rewrite ?flookup_fremove; destruct (sfield_eqb f g); reflexivity.
Qed.

Definition scal_typed (sc : list (sfield * sval)) : Prop :=
  match flookup MemLimit sc with Some (VZ _) | None => True | Some _ => False end.

Theorem gen_scal_refines sc c0 f :
  NoDup (map fst sc) -> scal_typed sc ->
  flookup f (gen_scal sc c0) = flookup f (apply_scal (drop_fn sc RdtClass (drop_fn sc BlockioClass c0)) (view_scal sc)).
Proof.
  intros Hnd Hty. unfold scal_typed in Hty.
  rewrite flookup_apply_scal. unfold view_scal. rewrite flookup_app, !flookup_drop_fn.
  unfold gen_scal. rewrite !flookup_cls_fn, flookup_set_if, flookup_mem_fn, !flookup_set_if.
  rewrite !(flookup_filter view_keep) by exact Hnd.
  destruct f; cbn [sfield_eqb sfield_idx Nat.eqb];
    repeat match goal with
           | |- context [flookup ?X sc] => destruct (flookup X sc) as [[[|?|?]|?|[|? ?]]|]
           end; cbn; try reflexivity; try contradiction.
Qed.

(* ---------- hugepage limits ---------- *)
Lemma kfind_hp_upsert k s v l : kfind fst k (hp_upsert s v l) = if String.eqb k s then Some (s, v) else kfind fst k l.
Proof.
  induction l as [|[s2 v2] r IH]; cbn [hp_upsert]; [reflexivity|].
  destruct (String.eqb_spec s2 s) as [->|Hne]; cbn [kfind fst].
  - destruct (String.eqb k s); reflexivity.
  - destruct (String.eqb_spec k s2) as [->|Hk].
    + destruct (String.eqb_spec s2 s); [congruence|reflexivity].
    + exact IH.
Qed.

Lemma hp_upsert_keys x s v l : In x (map fst (hp_upsert s v l)) -> In x (map fst l) \/ x = s.
Proof.
  induction l as [|[s2 v2] r IH]; cbn [hp_upsert map fst].
  - intros [<-|[]]. right. reflexivity.
  - destruct (String.eqb s2 s); cbn [map fst].
    + intros H. left. exact H.
    + intros [<-|H]; [left; left; reflexivity|]. destruct (IH H) as [H1|H1]; [left; right; exact H1|right; exact H1].
Qed.

Lemma hp_upsert_NoDup s v l : NoDup (map fst l) -> NoDup (map fst (hp_upsert s v l)).
Proof.
  induction l as [|[s2 v2] r IH]; cbn [hp_upsert map fst]; intros Hnd.
  - repeat constructor. intros [].
  - inversion Hnd as [|? ? Hx Hr]; subst. destruct (String.eqb_spec s2 s) as [->|Hne]; cbn [map fst].
    + constructor; assumption.
    + constructor; [|apply IH; exact Hr]. intros H. destruct (hp_upsert_keys _ _ _ _ H) as [H1|H1]; [contradiction|congruence].
Qed.

Definition hp_fold (r c : list (string * Z)) := fold_left (fun l e => hp_upsert (fst e) (snd e) l) r c.

Lemma hp_fold_NoDup r : forall c, NoDup (map fst c) -> NoDup (map fst (hp_fold r c)).
Proof.
  unfold hp_fold. induction r as [|e r IH]; intros c Hnd; cbn [fold_left]; [exact Hnd|]. apply IH, hp_upsert_NoDup, Hnd.
Qed.

Lemma hp_fold_kfind r : forall c k,
  kfind fst k (hp_fold r c) = match kfind fst k (rev r) with Some e => Some e | None => kfind fst k c end.
Proof.
  unfold hp_fold. induction r as [|e r IH]; intros c k; cbn [fold_left]; [reflexivity|].
  cbn [rev]. rewrite kfind_app, IH. destruct (kfind fst k (rev r)); [reflexivity|].
  rewrite kfind_hp_upsert. cbn [kfind]. destruct e as [s v]. cbn [fst snd]. destruct (String.eqb k s); reflexivity.
Qed.

(* read as a map in which the last entry of a size wins *)
Theorem gen_hp_refines r c k :
  NoDup (map fst c) -> kfind fst k (rev (hp_fold r c)) = kfind fst k (rev (c ++ r)).
Proof.
  intros Hnd. rewrite kfind_rev by (apply hp_fold_NoDup; exact Hnd).
  rewrite hp_fold_kfind, rev_app_distr, kfind_app, (kfind_rev fst k c Hnd). reflexivity.
Qed.

(* ---------- the observable projection at Prop level ---------- *)
Definition obs_equiv (a b : container) : Prop :=
  (forall k, kfind fst k (c_ann a) = kfind fst k (c_ann b)) /\
  (forall k, kfind m_dest k (c_mounts a) = kfind m_dest k (c_mounts b)) /\
  (forall k, kfind ref_env_key k (c_env a) = kfind ref_env_key k (c_env b)) /\
  c_args a = c_args b /\ c_hooks a = c_hooks b /\ c_rlimits a = c_rlimits b /\
  (forall k, kfind d_path k (c_devices a) = kfind d_path k (c_devices b)) /\
  (forall f, flookup f (r_scal (c_res a)) = flookup f (r_scal (c_res b))) /\
  (forall k, kfind fst k (rev (r_hp (c_res a))) = kfind fst k (rev (r_hp (c_res b)))) /\
  (forall k, kfind fst k (r_uni (c_res a)) = kfind fst k (r_uni (c_res b))) /\
  c_cgroups a = c_cgroups b /\ c_oom a = c_oom b.

Lemma obs_equiv_refl a : obs_equiv a a.
Proof. unfold obs_equiv. repeat split. Qed.
Lemma obs_equiv_sym a b : obs_equiv a b -> obs_equiv b a.
Proof.
  unfold obs_equiv. intros (H1 & H2 & H3 & H4 & H5 & H6 & H7 & H8 & H9 & H10 & H11 & H12).
  repeat split; intros; symmetry; auto.
Qed.
Lemma obs_equiv_trans a b c : obs_equiv a b -> obs_equiv b c -> obs_equiv a c.
Proof.
  unfold obs_equiv. intros (H1 & H2 & H3 & H4 & H5 & H6 & H7 & H8 & H9 & H10 & H11 & H12)
                           (G1 & G2 & G3 & G4 & G5 & G6 & G7 & G8 & G9 & G10 & G11 & G12).
  repeat split; intros; etransitivity; eauto.
Qed.

(* reflexivity of the boolean equalities *)
Lemma list_eqb_refl {A} (eqb : A -> A -> bool) : (forall x, eqb x x = true) -> forall l, list_eqb eqb l l = true.
Proof. intros H l. induction l as [|x r IH]; cbn [list_eqb]; [reflexivity|]. rewrite H, IH. reflexivity. Qed.
Lemma opt_eqb_refl {A} (eqb : A -> A -> bool) : (forall x, eqb x x = true) -> forall o, opt_eqb eqb o o = true.
Proof. intros H [x|]; cbn [opt_eqb]; [apply H|reflexivity]. Qed.
Lemma strs_eqb_refl l : list_eqb String.eqb l l = true.
Proof. apply list_eqb_refl, String.eqb_refl. Qed.
Lemma optz_eqb_refl o : opt_eqb Z.eqb o o = true.
Proof. apply opt_eqb_refl, Z.eqb_refl. Qed.
Lemma mount_eqb_refl m : mount_eqb m m = true.
Proof. unfold mount_eqb. rewrite !String.eqb_refl, strs_eqb_refl. reflexivity. Qed.
Lemma device_eqb_refl d : device_eqb d d = true.
Proof. unfold device_eqb. rewrite !String.eqb_refl, !Z.eqb_refl, !optz_eqb_refl. reflexivity. Qed.
Lemma hook_eqb_refl h : hook_eqb h h = true.
Proof. unfold hook_eqb. rewrite String.eqb_refl, !strs_eqb_refl, optz_eqb_refl. reflexivity. Qed.
Lemma hooks_eqb_refl h : hooks_eqb h h = true.
Proof. unfold hooks_eqb. rewrite !(list_eqb_refl hook_eqb hook_eqb_refl). reflexivity. Qed.
Lemma rlimit_eqb_refl r : rlimit_eqb r r = true.
Proof. unfold rlimit_eqb. rewrite String.eqb_refl, !Z.eqb_refl. reflexivity. Qed.
Lemma sval_eqb_refl v : sval_eqb v v = true.
Proof. destruct v; cbn [sval_eqb]; [apply Z.eqb_refl|destruct b; reflexivity|apply String.eqb_refl]. Qed.

Lemma kmap_eqb_intro {E} (key : E -> string) (eqb : E -> E -> bool) a b :
  (forall x, eqb x x = true) -> (forall k, kfind key k a = kfind key k b) -> kmap_eqb key eqb a b = true.
Proof.
  intros Hr H. unfold kmap_eqb, ksub. apply andb_true_iff. split; apply forallb_forall; intros e _.
  - rewrite H. apply opt_eqb_refl, Hr.
  - rewrite H. apply opt_eqb_refl, Hr.
Qed.

Theorem obs_equiv_eqb a b : obs_equiv a b -> obs_eqb a b = true.
Proof.
  intros (H1 & H2 & H3 & H4 & H5 & H6 & H7 & H8 & H9 & H10 & H11 & H12). unfold obs_eqb.
  rewrite H4, H5, H6, H11, H12.
  rewrite strs_eqb_refl, hooks_eqb_refl, (list_eqb_refl rlimit_eqb rlimit_eqb_refl), String.eqb_refl, optz_eqb_refl.
  assert (Hsm : forall x : string * string, String.eqb (snd x) (snd x) = true) by (intros x; apply String.eqb_refl).
  unfold env_eqb, res_obs_eqb, hp_eqb. unfold smap_eqb.
  rewrite (kmap_eqb_intro fst _ _ _ Hsm H1).
  rewrite (kmap_eqb_intro m_dest _ _ _ mount_eqb_refl H2).
  rewrite (kmap_eqb_intro fst _ (env_pairs (c_env a)) (env_pairs (c_env b)) Hsm)
    by (intros k; rewrite !kfind_env_pairs, H3; reflexivity).
  rewrite (kmap_eqb_intro d_path _ _ _ device_eqb_refl H7).
  rewrite (kmap_eqb_intro fst _ _ _ (fun x : string * Z => Z.eqb_refl (snd x)) H9).
  rewrite (kmap_eqb_intro fst _ _ _ Hsm H10).
  assert (Hsc : scal_eqb (r_scal (c_res a)) (r_scal (c_res b)) = true).
  { unfold scal_eqb. apply forallb_forall. intros f _. rewrite H8. apply opt_eqb_refl, sval_eqb_refl. }
  rewrite Hsc. reflexivity.
Qed.

(* ---------- well-formedness: the boolean predicate as propositions ---------- *)
Record wf_gen_P (s : spec) (a : adjustment) : Prop := {
  wfp_mounts : NoDup (r_mods m_dest (a_mounts a));
  wfp_env : NoDup (r_mods fst (a_env a));
  wfp_names : names_ok (a_env a);
  wfp_devs : NoDup (r_mods d_path (a_devices a));
  wfp_scal : NoDup (map fst (r_scal (a_res a)));
  wfp_typed : scal_typed (r_scal (a_res a));
  wfp_cenv : env_W3 (c_env (sp_c s));
  wfp_cmounts : NoDup (map m_dest (c_mounts (sp_c s)));
  wfp_cdevs : NoDup (map d_path (c_devices (sp_c s)));
  wfp_chp : NoDup (map fst (r_hp (c_res (sp_c s))))
}.

Lemma wf_gen_props s a : wf_gen s a = true -> wf_gen_P s a.
Proof.
  unfold wf_gen, wf_adj, wf_cont, scal_ok. rewrite !andb_true_iff, !nodupb_NoDup, fnodupb_NoDup.
  intros [[[[[Hm He] Hn] Hd] [Hs Ht]] [[[[Hce Hck] Hcm] Hcd] Hch]].
  constructor; try assumption.
  - intros n Hin. rewrite forallb_forall in Hn. specialize (Hn n Hin). unfold env_name_ok in Hn.
    apply andb_true_iff in Hn. destruct Hn as [Hn1 Hn2]. apply negb_true_iff in Hn1. apply String.eqb_neq in Hn1.
    apply Nat.eqb_eq in Hn2. split; assumption.
  - unfold scal_typed. destruct (flookup MemLimit (r_scal (a_res a))) as [[z|b|s']|]; try exact I; discriminate.
  - split; [|exact Hck]. intros x Hx. rewrite forallb_forall in Hce. specialize (Hce x Hx). unfold env_entry_ok in Hce.
    apply negb_true_iff in Hce. apply String.eqb_neq in Hce. exact Hce.
Qed.

(* ---------- Generator.Adjust, field by field ---------- *)
Lemma gen_adjust_c a s :
  sp_c (gen_adjust a s) =
  let c := sp_c s in
  {| c_id := c_id c;
     c_ann := gen_annotations (a_ann a) (c_ann c);
     c_mounts := gen_mounts (a_mounts a) (c_mounts c);
     c_env := gen_env (a_env a) (c_env c);
     c_args := gen_args (a_args a) (c_args c);
     c_hooks := hooks_append (c_hooks c) (a_hooks a);
     c_rlimits := c_rlimits c ++ a_rlimits a;
     c_devices := fst (gen_devices (a_devices a) (c_devices c) (sp_rules s));
     c_res := gen_resources (a_res a) (c_res c);
     c_cgroups := if String.eqb (a_cgroups a) "" then c_cgroups c else a_cgroups a;
     c_oom := match a_oom a with Some v => Some v | None => c_oom c end |}.
Proof. unfold gen_adjust. destruct (gen_devices _ _ _). reflexivity. Qed.

Lemma gen_adjust_rules a s : sp_rules (gen_adjust a s) = snd (gen_devices (a_devices a) (c_devices (sp_c s)) (sp_rules s)).
Proof. unfold gen_adjust. destruct (gen_devices _ _ _). reflexivity. Qed.

Lemma gen_adjust_cdi a s : sp_cdi (gen_adjust a s) = sp_cdi s ++ a_cdi a.
Proof. unfold gen_adjust. destruct (gen_devices _ _ _). reflexivity. Qed.

Lemma gen_args_eq args cur : gen_args args cur = apply_args cur args.
Proof.
  unfold gen_args, apply_args. destruct args as [|a0 rest]; [reflexivity|].
  destruct (String.eqb a0 ""); reflexivity.
Qed.

(* the mounts of the result are existing mounts or mounts that were set *)
Lemma del_phase_In {E} (key : E -> string) x es : forall cur, In x (del_phase key es cur) -> In x cur.
Proof.
  unfold del_phase. induction es as [|e r IH]; intros cur H; cbn [fold_left] in H; [exact H|].
  apply IH in H. destruct (marked (key e)); [apply (remove_first_In key x _ _ H)|exact H].
Qed.

Lemma mounts_set_phase_In x es : forall c1,
  In x (set_phase m_dest mount_step es c1) -> In x c1 \/ In x (r_adds m_dest es).
Proof.
  unfold set_phase, r_adds. induction es as [|e r IH]; intros c1 H; cbn [fold_left filter] in *; [left; exact H|].
  apply IH in H. destruct (marked (m_dest e)); cbn [negb]; [exact H|].
  destruct H as [H|H]; [|right; right; exact H].
  unfold mount_step in H. apply in_app_or in H. destruct H as [H|[<-|[]]].
  - left. apply (remove_first_In m_dest x _ _ H).
  - right. left. reflexivity.
Qed.

Lemma gen_mounts_In x ms cur : In x (gen_mounts ms cur) -> In x cur \/ In x (r_adds m_dest ms).
Proof.
  rewrite gen_mounts_unfold. destruct ms as [|m0 r]; [intros H; left; exact H|]. intros H.
  apply (Permutation_in x (sort_mounts_perm _)) in H. unfold mounts_unsorted in H.
  apply mounts_set_phase_In in H. destruct H as [H|H]; [left; apply (del_phase_In m_dest x _ _ H)|right; exact H].
Qed.

Lemma gen_mounts_dest_ok ms cur :
  Forall dest_ok cur -> Forall dest_ok (r_adds m_dest ms) -> Forall dest_ok (gen_mounts ms cur).
Proof.
  rewrite !Forall_forall. intros Hc Ha x Hx. destruct (gen_mounts_In x ms cur Hx) as [H|H]; [apply Hc|apply Ha]; exact H.
Qed.

(* the model refines the reference semantics on the observable projection *)
Theorem gen_refines_equiv s a :
  wf_gen_P s a -> obs_equiv (sp_c (gen_adjust a s)) (apply_adj (cleared_classes a (sp_c s)) (gen_view a)).
Proof.
  intros [Hm He Hn Hd Hs Ht Hce Hcm Hcd Hch]. rewrite gen_adjust_c. cbv zeta.
  unfold obs_equiv. repeat split.
  - intros k. exact (gen_mounts_refines _ _ k Hcm Hm).
  - intros k. exact (gen_env_refines _ _ k Hce He Hn).
  - exact (gen_args_eq _ _).
  - intros k. exact (gen_devices_refines _ _ _ k Hcd Hd).
  - intros f. exact (gen_scal_refines _ _ f Hs Ht).
  - intros k. exact (gen_hp_refines _ _ k Hch).
Qed.

Theorem gen_refines s a :
  wf_gen s a = true ->
  obs_eqb (sp_c (gen_adjust a s)) (apply_adj (cleared_classes a (sp_c s)) (gen_view a)) = true /\
  sp_cdi (gen_adjust a s) = sp_cdi s ++ a_cdi a /\
  dev_rules_ok (a_devices a) (sp_rules (gen_adjust a s)) = true /\
  (a_mounts a <> [] -> Forall dest_ok (c_mounts (sp_c s)) -> Forall dest_ok (r_adds m_dest (a_mounts a)) ->
   parents_first (c_mounts (sp_c (gen_adjust a s))) = true).
Proof.
  intros Hwf. split; [|split; [|split]].
  - apply obs_equiv_eqb, gen_refines_equiv, wf_gen_props, Hwf.
  - apply gen_adjust_cdi.
  - rewrite gen_adjust_rules. apply gen_devices_rules.
  - rewrite gen_adjust_c. cbv zeta. cbn [c_mounts]. intros Hne Hc Ha.
    apply gen_mounts_parents_first; [exact Hne|apply gen_mounts_dest_ok; assumption].
Qed.

(* ---------- order independence ---------- *)
(* the reference result, field by field *)
Section RefFields.
Variables (a : adjustment) (c : container).
Let r := apply_adj (cleared_classes a c) (gen_view a).
Lemma ref_ann : c_ann r = apply_ann (c_ann c) (a_ann a). Proof. reflexivity. Qed.
Lemma ref_mounts : c_mounts r = apply_keyed m_dest m_dest (fun m => m) (c_mounts c) (a_mounts a). Proof. reflexivity. Qed.
Lemma ref_env : c_env r = apply_keyed fst ref_env_key ref_env_oci (c_env c) (a_env a). Proof. reflexivity. Qed.
Lemma ref_args : c_args r = apply_args (c_args c) (a_args a). Proof. reflexivity. Qed.
Lemma ref_hooks : c_hooks r = hooks_append (c_hooks c) (a_hooks a). Proof. reflexivity. Qed.
Lemma ref_rlimits : c_rlimits r = c_rlimits c ++ a_rlimits a. Proof. reflexivity. Qed.
Lemma ref_devices : c_devices r = apply_keyed d_path d_path (fun d => d) (c_devices c) (a_devices a). Proof. reflexivity. Qed.
Lemma ref_scal : r_scal (c_res r) =
  apply_scal (drop_fn (r_scal (a_res a)) RdtClass (drop_fn (r_scal (a_res a)) BlockioClass (r_scal (c_res c))))
             (view_scal (r_scal (a_res a))). Proof. reflexivity. Qed.
Lemma ref_hp : r_hp (c_res r) = r_hp (c_res c) ++ r_hp (a_res a). Proof. reflexivity. Qed.
Lemma ref_uni : r_uni (c_res r) = uni_set (r_uni (a_res a)) (r_uni (c_res c)). Proof. reflexivity. Qed.
Lemma ref_cgroups : c_cgroups r = if String.eqb (a_cgroups a) "" then c_cgroups c else a_cgroups a. Proof. reflexivity. Qed.
Lemma ref_oom : c_oom r = match a_oom a with Some v => Some v | None => c_oom c end. Proof. reflexivity. Qed.
End RefFields.

Lemma NoDup_map_filter {A B} (f : A -> B) (p : A -> bool) l : NoDup (map f l) -> NoDup (map f (filter p l)).
Proof.
  induction l as [|x r IH]; cbn [map filter]; intros Hnd; [constructor|].
  inversion Hnd as [|? ? Hx Hr]; subst. destruct (p x); [|apply IH; exact Hr].
  cbn [map]. constructor; [|apply IH; exact Hr]. intros Hin. apply Hx.
  apply in_map_iff in Hin. destruct Hin as [y [Hy Hin]]. apply filter_In in Hin. apply in_map_iff. exists y. tauto.
Qed.

Record wf_maps_P (a : adjustment) : Prop := {
  wmp_ann : NoDup (map fst (a_ann a));
  wmp_uni : NoDup (map fst (r_uni (a_res a)))
}.
Lemma wf_maps_props a : wf_maps a = true -> wf_maps_P a.
Proof. unfold wf_maps. rewrite andb_true_iff, !nodupb_NoDup. intros [H1 H2]. constructor; assumption. Qed.

Lemma wf_gen_P_perm s a a' : wf_gen_P s a -> adj_perm a a' -> wf_gen_P s a'.
Proof.
  intros [Hm He Hn Hd Hs Ht Hce Hcm Hcd Hch] [Pa Pm Pe Pd Pu Ea Eh Er Ec Es Ep Eg Eo].
  constructor; try assumption.
  - exact (Permutation_NoDup (r_mods_perm m_dest _ _ Pm) Hm).
  - exact (Permutation_NoDup (r_mods_perm fst _ _ Pe) He).
  - intros n Hin. apply Hn. exact (Permutation_in n (Permutation_sym (r_mods_perm fst _ _ Pe)) Hin).
  - exact (Permutation_NoDup (r_mods_perm d_path _ _ Pd) Hd).
  - rewrite <- Es. exact Hs.
  - rewrite <- Es. exact Ht.
Qed.

(* the reference semantics does not depend on the order *)
Theorem ref_order_equiv s a a' :
  wf_gen_P s a -> wf_maps_P a -> adj_perm a a' ->
  obs_equiv (apply_adj (cleared_classes a (sp_c s)) (gen_view a)) (apply_adj (cleared_classes a' (sp_c s)) (gen_view a')).
Proof.
  intros [Hm He Hn Hd Hs Ht Hce Hcm Hcd Hch] [Wa Wu] [Pa Pm Pe Pd Pu Ea Eh Er Ec Es Ep Eg Eo].
  unfold obs_equiv.
  rewrite !ref_ann, !ref_mounts, !ref_env, !ref_args, !ref_hooks, !ref_rlimits, !ref_devices, !ref_scal, !ref_hp,
    !ref_uni, !ref_cgroups, !ref_oom.
  rewrite <- Ea, <- Eh, <- Er, <- Es, <- Ep, <- Eg, <- Eo.
  repeat split.
  - intros k. apply apply_ann_perm; [exact Pa|]. unfold r_mods, r_adds. apply NoDup_map_filter. exact Wa.
  - intros k. apply ref_keyed_perm; assumption.
  - intros k. apply ref_env_perm; assumption.
  - intros k. apply ref_keyed_perm; assumption.
  - intros k. apply uni_set_perm; assumption.
Qed.

Theorem gen_order_equiv s a a' :
  wf_gen_P s a -> wf_maps_P a -> adj_perm a a' -> obs_equiv (sp_c (gen_adjust a s)) (sp_c (gen_adjust a' s)).
Proof.
  intros Hwf Hmaps HP.
  eapply obs_equiv_trans; [apply gen_refines_equiv; exact Hwf|].
  eapply obs_equiv_trans; [apply (ref_order_equiv s a a'); assumption|].
  apply obs_equiv_sym, gen_refines_equiv. exact (wf_gen_P_perm s a a' Hwf HP).
Qed.

(* --- the sorted mount list is canonical --- *)
Lemma mle_antisym a b : mle a b -> mle b a -> m_dest a = m_dest b.
Proof.
  rewrite !mle_char. unfold sle. intros [H1|[H1 S1]] [H2|[H2 S2]]; try lia.
  apply String.compare_eq_iff. rewrite (String.compare_antisym (m_dest b) (m_dest a)) in S2.
  destruct (String.compare (m_dest a) (m_dest b)); [reflexivity|exfalso; apply S2; reflexivity|exfalso; apply S1; reflexivity].
Qed.

Lemma sorted_perm_eq l : forall l',
  Permutation l l' -> NoDup (map m_dest l) -> StronglySorted mle l -> StronglySorted mle l' -> l = l'.
Proof.
  induction l as [|x r IH]; intros l' HP Hnd Hs Hs'.
  - apply Permutation_nil in HP. subst. reflexivity.
  - destruct l' as [|y r']; [apply Permutation_sym, Permutation_nil in HP; discriminate|].
    inversion Hs as [|? ? Hsr Hx]; subst. inversion Hs' as [|? ? Hsr' Hy]; subst.
    cbn [map] in Hnd. inversion Hnd as [|? ? Hnx Hnr]; subst.
    rewrite Forall_forall in Hx, Hy.
    assert (Hxy : x = y).
    { assert (Hx' : In x (y :: r')) by (apply (Permutation_in x HP); left; reflexivity).
      assert (Hy' : In y (x :: r)) by (apply (Permutation_in y (Permutation_sym HP)); left; reflexivity).
      destruct Hx' as [->|Hx']; [reflexivity|]. destruct Hy' as [Hy'|Hy']; [exact Hy'|].
      exfalso. apply Hnx. rewrite (mle_antisym x y (Hx y Hy') (Hy x Hx')). apply in_map. exact Hy'. }
    subst y. f_equal. apply IH; try assumption. exact (Permutation_cons_inv HP).
Qed.

Theorem gen_mounts_perm_eq ms ms' cur :
  Permutation ms ms' -> NoDup (map m_dest cur) -> NoDup (r_mods m_dest ms) -> gen_mounts ms cur = gen_mounts ms' cur.
Proof.
  intros HP Hc Hm.
  assert (Hm' : NoDup (r_mods m_dest ms')) by exact (Permutation_NoDup (r_mods_perm m_dest _ _ HP) Hm).
  destruct ms as [|m0 r].
  - apply Permutation_nil in HP. subst. reflexivity.
  - destruct ms' as [|m0' r']; [apply Permutation_sym, Permutation_nil in HP; discriminate|].
    rewrite !gen_mounts_unfold.
    assert (HU : Permutation (mounts_unsorted (m0 :: r) cur) (mounts_unsorted (m0' :: r') cur)).
    { apply (kfind_eq_perm m_dest); try (apply mounts_unsorted_NoDup; exact Hc). intros k.
      unfold mounts_unsorted.
      rewrite !(two_phase_kfind m_dest mount_step mount_step_NoDup mount_step_kfind) by assumption.
      apply ref_keyed_perm; assumption. }
    apply sorted_perm_eq; try apply sort_mounts_sorted.
    + eapply Permutation_trans; [apply sort_mounts_perm|]. eapply Permutation_trans; [exact HU|].
      apply Permutation_sym, sort_mounts_perm.
    + apply (Permutation_NoDup (l := map m_dest (mounts_unsorted (m0 :: r) cur))).
      * apply Permutation_map, Permutation_sym, sort_mounts_perm.
      * apply mounts_unsorted_NoDup. exact Hc.
Qed.

Theorem gen_order_independent s a a' :
  wf_gen s a = true -> wf_maps a = true -> adj_perm a a' ->
  obs_eqb (sp_c (gen_adjust a s)) (sp_c (gen_adjust a' s)) = true /\
  c_mounts (sp_c (gen_adjust a s)) = c_mounts (sp_c (gen_adjust a' s)) /\
  sp_cdi (gen_adjust a s) = sp_cdi (gen_adjust a' s).
Proof.
  intros Hwf Hmaps HP. apply wf_gen_props in Hwf. apply wf_maps_props in Hmaps. split; [|split].
  - apply obs_equiv_eqb, gen_order_equiv; assumption.
  - rewrite !gen_adjust_c. cbv zeta. cbn [c_mounts].
    apply gen_mounts_perm_eq; [exact (ap_mounts _ _ HP)|exact (wfp_cmounts _ _ Hwf)|exact (wfp_mounts _ _ Hwf)].
  - rewrite !gen_adjust_cdi, (ap_cdi _ _ HP). reflexivity.
Qed.

(* ---------- frame: what no entry of the adjustment names keeps its value ---------- *)
Lemma named_mods {E} (key : E -> string) es k : In k (r_mods key es) -> In k (named key es).
Proof.
  unfold r_mods, r_adds, named. rewrite !in_map_iff. intros [e [Hk Hin]]. apply filter_In in Hin.
  destruct Hin as [Hin Hm]. apply negb_true_iff in Hm. exists e. split; [|exact Hin].
  rewrite (rawkey_unmarked _ Hm). exact Hk.
Qed.
Lemma named_dels {E} (key : E -> string) es k : In k (r_dels key es) -> In k (named key es).
Proof.
  unfold r_dels, named. rewrite !in_map_iff. intros [e [Hk Hin]]. apply filter_In in Hin. exists e. tauto.
Qed.

Lemma ref_keyed_frame {E} (key : E -> string) cur es k :
  ~ In k (named key es) -> kfind key k (apply_keyed key key (fun e => e) cur es) = kfind key k cur.
Proof.
  intros Hn. rewrite ref_keyed_kfind.
  assert (Ha : kfind key k (r_adds key es) = None).
  { apply kfind_None_notin. intros H. apply Hn, named_mods. exact H. }
  assert (Hd : smem k (r_dels key es) = false).
  { apply smem_false_notin. intros H. apply Hn, named_dels. exact H. }
  rewrite Ha, Hd. reflexivity.
Qed.

Lemma gen_scal_frame sc c0 f :
  ~ In f (map fst sc) -> (f = MemSwap -> ~ In MemLimit (map fst sc)) -> flookup f (gen_scal sc c0) = flookup f c0.
Proof.
  intros Hf Hsw. pose proof (flookup_notin f sc Hf) as Hnone.
  unfold gen_scal. rewrite !flookup_cls_fn, flookup_set_if, flookup_mem_fn, !flookup_set_if.
  destruct f; cbn [sfield_eqb sfield_idx Nat.eqb]; rewrite ?Hnone;
    try (rewrite (flookup_notin MemLimit sc (Hsw eq_refl)));
    repeat match goal with
           | |- context [flookup ?X sc] => destruct (flookup X sc) as [[[|?|?]|?|[|? ?]]|]
           end; cbn; reflexivity.
Qed.

Theorem gen_frame s a :
  wf_gen_P s a ->
  let c := sp_c s in let c' := sp_c (gen_adjust a s) in
  (forall k, ~ In k (named fst (a_ann a)) -> kfind fst k (c_ann c') = kfind fst k (c_ann c)) /\
  (forall k, ~ In k (named m_dest (a_mounts a)) -> kfind m_dest k (c_mounts c') = kfind m_dest k (c_mounts c)) /\
  (forall k, ~ In k (named fst (a_env a)) -> kfind ref_env_key k (c_env c') = kfind ref_env_key k (c_env c)) /\
  (forall k, ~ In k (named d_path (a_devices a)) -> kfind d_path k (c_devices c') = kfind d_path k (c_devices c)) /\
  (forall f, ~ In f (map fst (r_scal (a_res a))) -> (f = MemSwap -> ~ In MemLimit (map fst (r_scal (a_res a)))) ->
             flookup f (r_scal (c_res c')) = flookup f (r_scal (c_res c))) /\
  (forall k, ~ In k (map fst (r_hp (a_res a))) -> kfind fst k (rev (r_hp (c_res c'))) = kfind fst k (rev (r_hp (c_res c)))) /\
  (forall k, ~ In k (map fst (r_uni (a_res a))) -> kfind fst k (r_uni (c_res c')) = kfind fst k (r_uni (c_res c))) /\
  (a_args a = [] -> c_args c' = c_args c) /\
  (a_cgroups a = "" -> c_cgroups c' = c_cgroups c) /\
  (a_oom a = None -> c_oom c' = c_oom c).
Proof.
  intros [Hm He Hn Hd Hs Ht Hce Hcm Hcd Hch]. cbv zeta. rewrite gen_adjust_c. cbv zeta.
  cbn [c_ann c_mounts c_env c_devices c_res c_args c_cgroups c_oom].
  split; [|split; [|split; [|split; [|split; [|split; [|split; [|split; [|split]]]]]]]].
  - intros k Hk. rewrite gen_annotations_eq. change (apply_ann (c_ann (sp_c s)) (a_ann a)) with (ann_set (a_ann a) (ann_del (a_ann a) (c_ann (sp_c s)))).
    rewrite ann_set_kfind, ann_del_kfind.
    assert (Ha : kfind fst k (rev (r_adds fst (a_ann a))) = None).
    { apply kfind_None_notin. intros H. apply Hk, named_mods. unfold r_mods. rewrite map_rev in H. apply in_rev in H. exact H. }
    assert (Hdl : smem k (r_dels fst (a_ann a)) = false).
    { apply smem_false_notin. intros H. apply Hk, named_dels. exact H. }
    rewrite Ha, Hdl. reflexivity.
  - intros k Hk. rewrite gen_mounts_refines by assumption. apply ref_keyed_frame. exact Hk.
  - intros k Hk. rewrite gen_env_refines by assumption.
    pose proof (sem_char fst ref_env_key ref_env_oci
                  (fun e => marked (fst e) = false -> count_char "="%char (fst e) = 0)
                  (fun e Hg Hmk => ref_env_key_oci (fst e) (snd e) (Hg Hmk)) (c_env (sp_c s)) (a_env a) k) as Hsem.
    unfold sem in Hsem. rewrite Hsem.
    2:{ intros e Hin Hmk. apply Hn. unfold r_mods. apply in_map. unfold r_adds. apply filter_In.
        split; [exact Hin|rewrite Hmk; reflexivity]. }
    change (k_adds fst (a_env a)) with (r_adds fst (a_env a)). change (k_dels fst (a_env a)) with (r_dels fst (a_env a)).
    assert (Ha : kfind fst k (r_adds fst (a_env a)) = None).
    { apply kfind_None_notin. intros H. apply Hk, named_mods. exact H. }
    assert (Hdl : smem k (r_dels fst (a_env a)) = false).
    { apply smem_false_notin. intros H. apply Hk, named_dels. exact H. }
    rewrite Ha, Hdl. reflexivity.
  - intros k Hk. rewrite gen_devices_refines by assumption. apply ref_keyed_frame. exact Hk.
  - intros f Hf Hsw. rewrite gen_resources_scal. apply gen_scal_frame; assumption.
  - intros k Hk. change (r_hp (gen_resources (a_res a) (c_res (sp_c s)))) with (hp_fold (r_hp (a_res a)) (r_hp (c_res (sp_c s)))).
    rewrite !kfind_rev by (try apply hp_fold_NoDup; exact Hch). rewrite hp_fold_kfind.
    assert (Ha : kfind fst k (rev (r_hp (a_res a))) = None).
    { apply kfind_None_notin. intros H. apply Hk. rewrite map_rev in H. apply in_rev in H. exact H. }
    rewrite Ha. reflexivity.
  - intros k Hk. change (r_uni (gen_resources (a_res a) (c_res (sp_c s)))) with (uni_set (r_uni (a_res a)) (r_uni (c_res (sp_c s)))).
    rewrite uni_set_kfind.
    assert (Ha : kfind fst k (rev (r_uni (a_res a))) = None).
    { apply kfind_None_notin. intros H. apply Hk. rewrite map_rev in H. apply in_rev in H. exact H. }
    rewrite Ha. reflexivity.
  - intros Ha. rewrite Ha. reflexivity.
  - intros Ha. rewrite Ha. reflexivity.
  - intros Ha. rewrite Ha. reflexivity.
Qed.

Theorem gen_frame_b s a :
  wf_gen s a = true ->
  let c := sp_c s in let c' := sp_c (gen_adjust a s) in
  (forall k, ~ In k (named fst (a_ann a)) -> kfind fst k (c_ann c') = kfind fst k (c_ann c)) /\
  (forall k, ~ In k (named m_dest (a_mounts a)) -> kfind m_dest k (c_mounts c') = kfind m_dest k (c_mounts c)) /\
  (forall k, ~ In k (named fst (a_env a)) -> kfind ref_env_key k (c_env c') = kfind ref_env_key k (c_env c)) /\
  (forall k, ~ In k (named d_path (a_devices a)) -> kfind d_path k (c_devices c') = kfind d_path k (c_devices c)) /\
  (forall f, ~ In f (map fst (r_scal (a_res a))) -> (f = MemSwap -> ~ In MemLimit (map fst (r_scal (a_res a)))) ->
             flookup f (r_scal (c_res c')) = flookup f (r_scal (c_res c))) /\
  (forall k, ~ In k (map fst (r_hp (a_res a))) -> kfind fst k (rev (r_hp (c_res c'))) = kfind fst k (rev (r_hp (c_res c)))) /\
  (forall k, ~ In k (map fst (r_uni (a_res a))) -> kfind fst k (r_uni (c_res c')) = kfind fst k (r_uni (c_res c))) /\
  (a_args a = [] -> c_args c' = c_args c) /\
  (a_cgroups a = "" -> c_cgroups c' = c_cgroups c) /\
  (a_oom a = None -> c_oom c' = c_oom c).
Proof. intros H. apply gen_frame, wf_gen_props, H. Qed.

(* ---------- the environment as a LIST (positions) ---------- *)
Theorem gen_env_exact_b s a :
  wf_gen s a = true ->
  c_env (sp_c (gen_adjust a s)) = env_expected (a_env a) (c_env (sp_c s)) /\
  filter (env_unnamed (a_env a)) (c_env (sp_c (gen_adjust a s))) = filter (env_unnamed (a_env a)) (c_env (sp_c s)).
Proof.
  intros Hwf. apply wf_gen_props in Hwf. destruct Hwf as [Hm He Hn Hd Hs Ht Hce Hcm Hcd Hch].
  rewrite gen_adjust_c. cbv zeta. cbn [c_env]. split; [apply gen_env_exact|apply gen_env_unnamed]; assumption.
Qed.

(* ---------- the run-time predicate of Run/RunAdapt.v, evaluated on the MODEL's result, holds for all inputs ---------- *)
Theorem gen_holds_C13 s a :
  wf_gen s a = true -> Forall dest_ok (c_mounts (sp_c s)) -> Forall dest_ok (r_adds m_dest (a_mounts a)) ->
  holds_C13 {| gc_spec := s; gc_adjust := a; gc_out := gen_adjust a s; gc_deterministic := true |} = true.
Proof.
  intros Hwf Hok Hoka. destruct (gen_refines s a Hwf) as [H1 [H2 [H3 H4]]].
  unfold holds_C13. cbn [gc_spec gc_adjust gc_out gc_deterministic andb].
  rewrite H1, H2, strs_eqb_refl. cbn [andb].
  apply andb_true_iff. split; [|exact H3].
  destruct (a_mounts a) as [|m0 r] eqn:Hm; [reflexivity|]. rewrite <- Hm in *. apply H4; [rewrite Hm; discriminate|exact Hok|exact Hoka].
Qed.

(* ---------- every clause of wf_gen is needed: without it the refinement statement is false ---------- *)
Definition refines_b (s : spec) (a : adjustment) : bool :=
  obs_eqb (sp_c (gen_adjust a s)) (apply_adj (cleared_classes a (sp_c s)) (gen_view a)).

Section Witnesses.
Open Scope Z_scope.
Let c_ := {| c_id := "c"; c_ann := []; c_mounts := []; c_env := []; c_args := []; c_hooks := hooks_empty; c_rlimits := [];
             c_devices := []; c_res := res_empty; c_cgroups := ""; c_oom := None |}.
Let sp c := {| sp_c := c; sp_cdi := []; sp_rules := [] |}.
Let mt d s := {| m_dest := d; m_type := "bind"; m_source := s; m_opts := [] |}.
Let dv p mj := {| d_path := p; d_type := "c"; d_major := mj; d_minor := 1; d_mode := None; d_uid := None; d_gid := None |}.
Let a_sc sc hp := with_a_res adj_empty {| r_scal := sc; r_hp := hp; r_uni := [] |}.

Definition wf_witnesses : list (string * (spec * adjustment)) :=
  [ (* W3, environment *)
    ("existing duplicate variable: the last one wins", (sp (with_c_env c_ ["A=1"; "A=2"]), with_a_env adj_empty [("B", "x")]));
    ("existing entry with an empty name is dropped", (sp (with_c_env c_ ["=1"]), with_a_env adj_empty [("B", "x")]));
    ("existing bare entry and variable of one name: the later one overwrites the set",
     (sp (with_c_env c_ ["FOO"; "FOO=2"]), with_a_env adj_empty [("FOO", "9")]));
    (* the adjustment's environment *)
    ("a set of the empty name is ignored", (sp (with_c_env c_ ["A=1"]), with_a_env adj_empty [("", "x")]));
    ("a name containing '='", (sp (with_c_env c_ ["A=0"]), with_a_env adj_empty [("A=B", "c"); ("A", "1")]));
    ("W2: a variable set twice, the last one wins", (sp (with_c_env c_ ["A=0"]), with_a_env adj_empty [("A", "1"); ("A", "2")]));
    (* mounts *)
    ("W3: duplicate destination, RemoveMount removes the first only",
     (sp (with_c_mounts c_ [mt "/a" "x"; mt "/a" "y"]), with_a_mounts adj_empty [mt "-/a" ""]));
    ("W2: a mount set twice, the last one wins", (sp c_, with_a_mounts adj_empty [mt "/b" "1"; mt "/b" "2"]));
    (* devices *)
    ("W3: duplicate device path, RemoveDevice removes the first only",
     (sp (with_c_devices c_ [dv "/a" 1; dv "/a" 2]), with_a_devices adj_empty [dv "-/a" 0]));
    ("W2: a device set twice, the last one wins", (sp c_, with_a_devices adj_empty [dv "/b" 1; dv "/b" 2]));
    (* resources *)
    ("the scalars are a record: a field given twice", (sp c_, a_sc [(MemLimit, VZ 0); (MemLimit, VZ 5)] []));
    ("the memory limit is an integer", (sp c_, a_sc [(MemLimit, VS "x")] []));
    ("W3: duplicate hugepage size, AddLinuxResourcesHugepageLimit updates the first only",
     (sp (with_c_res c_ {| r_scal := []; r_hp := [("2M", 1); ("2M", 2)]; r_uni := [] |}), a_sc [] [("2M", 5)])) ].
End Witnesses.

Example wf_gen_clauses_needed :
  forallb (fun w => negb (wf_gen (fst (snd w)) (snd (snd w))) && negb (refines_b (fst (snd w)) (snd (snd w)))) wf_witnesses = true.
Proof. vm_compute. reflexivity. Qed.

(* what the design lists but the refinement does NOT need: W4 (args = [""]), W7 (a doubly marked key, a
   removal whose raw name contains '='), distinct existing annotation / unified keys *)
Example wf_gen_not_needed :
  let c := {| c_id := "c"; c_ann := [("k", "1"); ("k", "2"); ("-x", "3")]; c_mounts := []; c_env := ["A=0"; "-X=1"]; c_args := ["sh"];
              c_hooks := hooks_empty; c_rlimits := []; c_devices := [];
              c_res := {| r_scal := []; r_hp := []; r_uni := [("u", "1"); ("u", "2")] |}; c_cgroups := ""; c_oom := None |} in
  let a := {| a_ann := [("--x", ""); ("k", "n")]; a_mounts := [{| m_dest := "--m"; m_type := ""; m_source := ""; m_opts := [] |}];
              a_env := [("-A=B", ""); ("--X", ""); ("Z", "1")]; a_args := [""]; a_hooks := hooks_empty; a_rlimits := [];
              a_cdi := []; a_devices := []; a_res := {| r_scal := []; r_hp := []; r_uni := [("u", "3")] |};
              a_cgroups := ""; a_oom := None |} in
  wf_gen {| sp_c := c; sp_cdi := []; sp_rules := [] |} a = true.
Proof. vm_compute. reflexivity. Qed.

(* wf_maps (distinct keys of the two Go maps) is needed for order independence *)
Example wf_maps_needed :
  let c := {| c_id := "c"; c_ann := []; c_mounts := []; c_env := []; c_args := []; c_hooks := hooks_empty; c_rlimits := [];
              c_devices := []; c_res := res_empty; c_cgroups := ""; c_oom := None |} in
  let s := {| sp_c := c; sp_cdi := []; sp_rules := [] |} in
  obs_eqb (sp_c (gen_adjust (with_a_ann adj_empty [("k", "1"); ("k", "2")]) s))
          (sp_c (gen_adjust (with_a_ann adj_empty [("k", "2"); ("k", "1")]) s)) = false.
Proof. vm_compute. reflexivity. Qed.
