package main

import (
	"context"
	"fmt"
	"path/filepath"
	"strings"
	"time"

	"github.com/containerd/nri/pkg/adaptation"
	"github.com/containerd/nri/pkg/api"

	"verif/harness/internal/hx"
)

// driveStallProbe is an exploratory driver outside every check (not listed in any
// props file): a fault OUTSIDE C07's enumerated fault points.  The faulty plugin's
// peer stops reading its socket altogether (a stopped process) and the runtime
// sends it a request larger than the socket buffer: does the request time-out
// still bound the call?  Result is reported in stats.json "extra".
func driveStallProbe(c *hx.Ctx) error {
	quiet()
	adaptation.SetPluginRequestTimeout(faultT)
	e, err := newEnv(c.Out)
	if err != nil {
		return err
	}
	defer e.close()
	var plugs []*plug
	var px *proxy
	for i := 0; i < 3; i++ {
		p := newPlug(e, fIdx[i], fNames[i], api.ValidEvents)
		sock := e.sock
		if i == 1 {
			px, err = newProxy(filepath.Join(e.dir, "px.sock"), e.sock)
			if err != nil {
				return err
			}
			sock = px.path
		}
		if err := p.startStub(sock); err != nil {
			return err
		}
		plugs = append(plugs, p)
	}
	if err := e.waitSynced(10*time.Second, plugs...); err != nil {
		return err
	}
	px.stall()
	res := map[string]interface{}{}
	for _, kb := range []int{16, 1024} {
		big := strings.Repeat("x", kb*1024)
		done := make(chan error, 1)
		t0 := time.Now()
		go func() {
			_, err := e.ad.CreateContainer(context.Background(), &api.CreateContainerRequest{
				Pod:       mkPod("p000009"),
				Container: &api.Container{Id: "c000009", PodSandboxId: "p000009", Name: "big", Annotations: map[string]string{"big": big}}})
			done <- err
		}()
		select {
		case err := <-done:
			res[fmt.Sprintf("request_%dKiB", kb)] = fmt.Sprintf("returned after %v: err=%v", time.Since(t0).Round(time.Millisecond), err)
		case <-time.After(faultT*3 + 10*time.Second):
			res[fmt.Sprintf("request_%dKiB", kb)] = fmt.Sprintf("still blocked after %v (3 x time-out + 10 s)", time.Since(t0).Round(time.Millisecond))
			px.cut() // release it
			select {
			case err := <-done:
				res[fmt.Sprintf("request_%dKiB_after_cut", kb)] = fmt.Sprintf("returned after %v: err=%v", time.Since(t0).Round(time.Millisecond), err)
			case <-time.After(5 * time.Second):
				res[fmt.Sprintf("request_%dKiB_after_cut", kb)] = "still blocked 5 s after the connection was cut"
			}
		}
	}
	c.Stats.Extra = res
	c.Eval("stallprobe", true)
	c.Stats.Rule = "exploratory: peer that stops reading + request larger than the socket buffer"
	for _, p := range plugs {
		go p.stop()
	}
	return nil
}
