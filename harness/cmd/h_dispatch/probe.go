package main

import (
	"fmt"
	"os"
	"path/filepath"
	"runtime"
	"time"

	"github.com/containerd/nri/pkg/adaptation"
	"github.com/containerd/nri/pkg/api"

	"verif/harness/internal/hx"
)

// probe: throw-away exploration of cut offsets (not part of any check)
func driveProbe(c *hx.Ctx) error {
	quiet()
	if os.Getenv("PROBE_PROCS") != "" {
		runtime.GOMAXPROCS(1)
	}
	adaptation.SetPluginRequestTimeout(2 * time.Second)
	e, err := newEnv(c.Out)
	if err != nil {
		return err
	}
	defer e.close()
	A := newPlug(e, "20", "A", api.ValidEvents)
	B := newPlug(e, "40", "B", api.ValidEvents)
	if err := A.startStub(e.sock); err != nil {
		return err
	}
	if err := B.startStub(e.sock); err != nil {
		return err
	}
	if err := e.waitSynced(5*time.Second, A, B); err != nil {
		return err
	}
	k := 0
	mk := func() (*plug, *proxy, error) {
		k++
		px, err := newProxy(filepath.Join(e.dir, fmt.Sprintf("px%d.sock", k)), e.sock)
		if err != nil {
			return nil, nil, err
		}
		F := newPlug(e, "30", fmt.Sprintf("F%d", k), api.ValidEvents)
		if err := F.startStub(px.path); err != nil {
			return nil, nil, err
		}
		if err := e.waitSynced(5*time.Second, F); err != nil {
			return nil, nil, err
		}
		return F, px, nil
	}
	F, px, err := mk()
	if err != nil {
		return err
	}
	px.mark()
	r := e.fire(request{Ev: api.Event_CREATE_CONTAINER, Pod: "p000000", Ctr: "c000000"})
	x := px.measured()
	fmt.Printf("dry: %+v exchange %+v\n", r, x)
	F.stop()
	e.fire(request{Ev: api.Event_CREATE_CONTAINER, Pod: "p000000", Ctr: "c000000"})
	stats := map[string]int{}
	t0 := time.Now()
	for rep := 0; rep < 20; rep++ {
		for d := 0; d < 2; d++ {
			for n := 0; n <= x.Bytes[d]; n++ {
				if os.Getenv("PROBE_INJECT") != "" && d == p2r {
					continue
				}
				F, px, err := mk()
				if err != nil {
					return err
				}
				if os.Getenv("PROBE_INJECT") != "" {
					err = px.armInject(d, n, []byte{0, 0, 0, 2, 0, 0, 0, 50, 1, 2, 3}[:1+n%11])
				} else {
					err = px.arm(d, n)
				}
				if err != nil {
					return err
				}
				r := e.fire(request{Ev: api.Event_CREATE_CONTAINER, Pod: "p000000", Ctr: "c000000"})
				key := fmt.Sprintf("%s %v err=%q calls=%v", dirName(d), r.Tokens, r.Err, e.takeCallErrs())
				stats[key]++
				if r.Err != "" {
					fmt.Printf("rep %d %s n=%d (%s): %+v\n", rep, dirName(d), n, phase(x.Frames[d], x.Bytes[d], n), r)
				}
				F.stop()
				r2 := e.fire(request{Ev: api.Event_CREATE_CONTAINER, Pod: "p000000", Ctr: "c000000"})
				if r2.Err != "" || len(r2.Tokens) != 2 {
					fmt.Printf("follow-up: %+v\n", r2)
				}
			}
		}
	}
	fmt.Println(time.Since(t0))
	for k, v := range stats {
		fmt.Println(v, k)
	}
	return nil
}
