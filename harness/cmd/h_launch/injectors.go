package main

import "verif/harness/internal/hx"

func driveInjectors(c *hx.Ctx) error { return nil }
