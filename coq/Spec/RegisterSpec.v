(* C17 — what the property demands of a connection, stated without reference to the
   functions of Model/Register.v that decide it (check_index, register_plugin,
   configure_events), plus the boolean versions evaluated on the implementation's
   observations. *)
From Coq Require Import String Ascii List Bool ZArith.
From NRI Require Import Base.Strs Model.Consts Model.Event Model.RegConsts Model.Register.
Import ListNotations.
Open Scope string_scope.
Open Scope list_scope.
Open Scope Z_scope.

Definition digits : list ascii := ["0"; "1"; "2"; "3"; "4"; "5"; "6"; "7"; "8"; "9"]%char.

(* the 100 strings "00" .. "99" *)
Definition all_indices : list string :=
  flat_map (fun a => map (fun b => String a (String b EmptyString)) digits) digits.

Definition only_valid_bits (m : Z) : Prop :=
  forall i, 0 <= i -> Z.testbit m i = true -> Z.testbit valid_events i = true.

(* a mask containing only valid events; the empty mask means "everything the plugin handles" *)
Definition mask_ok (m : Z) : Prop := m = 0 \/ (0 < m <= valid_events /\ only_valid_bits m).

Definition mask_ok_b (m : Z) : bool :=
  (m =? 0) || ((0 <? m) && (m <=? valid_events) && (Z.land m valid_events =? m)).

(* the mask a plugin answering [raw] is subscribed with *)
Definition subscribed (raw : Z) : Z := if wrap32 raw =? 0 then valid_events else wrap32 raw.

(* registers in time with a non-empty name and a two-digit index, answers configuration with a
   mask of valid events only, and lets itself be synchronised *)
Definition well_formed (c : conn) : Prop :=
  exists name idx raw,
    c_reg c = RegNow name idx /\ name <> "" /\ In idx all_indices /\
    c_cfg c = CfgReply raw /\ mask_ok (wrap32 raw) /\ c_sync c = SyncOk.

Definition well_formed_b (c : conn) : bool :=
  match c_reg c, c_cfg c, c_sync c with
  | RegNow name idx, CfgReply raw, SyncOk =>
      negb (String.eqb name "") && smem idx all_indices && mask_ok_b (wrap32 raw)
  | _, _, _ => false
  end.

Definition plugin_of (c : conn) : plugin :=
  match c_reg c, c_cfg c with
  | RegNow name idx, CfgReply raw => {| pl_name := name; pl_idx := idx; pl_events := subscribed raw |}
  | _, _ => {| pl_name := ""; pl_idx := ""; pl_events := 0 |}
  end.

(* the plugins among a list of outcomes *)
Fixpoint goods (os : list outcome) : list plugin :=
  match os with
  | [] => []
  | OGood n i e :: r => {| pl_name := n; pl_idx := i; pl_events := e |} :: goods r
  | _ :: r => goods r
  end.

Definition umasks : list Z := map Z.of_nat (seq 0 512).

(* no permission bit for group or others *)
Definition private_mode (m : Z) : bool := Z.land m 63 =? 0.
