(* Map-iteration order does not matter for the verdict of a request (C01/C02): the annotation map of an
   adjustment and the unified map of any resources may be iterated in ANY order (Go's map iteration is
   random) — the request fails or succeeds all the same, provided no update is marked ignore-failure
   (what a dropped update leaves behind depends on where it failed: interpretation I2). *)
From Coq Require Import String Ascii List Bool ZArith Arith Lia Permutation.
From NRI Require Import Base.Lists Base.Strs Base.Assoc Model.Types Model.Result Spec.AbsLedger
  Proofs.LedgerProofs Proofs.RefineLedger.
Import ListNotations.
Open Scope string_scope.
Open Scope list_scope.

Lemma lmem_perm x a b : Permutation a b -> lmem x a = lmem x b.
Proof.
  intros H. destruct (lmem x a) eqn:Ea, (lmem x b) eqn:Eb; try reflexivity; exfalso.
  - apply lmem_In in Ea. apply lmem_false_notin in Eb. apply Eb. apply (Permutation_in _ H Ea).
  - apply lmem_In in Eb. apply lmem_false_notin in Ea. apply Ea. apply (Permutation_in _ (Permutation_sym H) Eb).
Qed.

Lemma releases_perm rs rs' a b : Permutation rs rs' -> leq a b -> leq (releases rs a) (releases rs' b).
Proof. intros Hp Hl x. rewrite !lmem_releases, Hl, (lmem_perm x _ _ Hp). reflexivity. Qed.

Lemma abs_claims_perm ks ks' a b :
  Permutation ks ks' -> leq a b ->
  fst (abs_claims ks a) = fst (abs_claims ks' b) /\
  (fst (abs_claims ks a) = true -> leq (snd (abs_claims ks a)) (snd (abs_claims ks' b))).
Proof.
  intros Hp Hl.
  assert (Hiff : fst (abs_claims ks a) = true <-> fst (abs_claims ks' b) = true).
  { rewrite !abs_claims_true_iff. split; intros [Hnd Hf]; split.
    - apply (Permutation_NoDup Hp Hnd).
    - intros k Hk. rewrite <- Hl. apply Hf. apply (Permutation_in _ (Permutation_sym Hp) Hk).
    - apply (Permutation_NoDup (Permutation_sym Hp) Hnd).
    - intros k Hk. rewrite Hl. apply Hf. apply (Permutation_in _ Hp Hk). }
  split.
  - destruct (fst (abs_claims ks a)) eqn:E1, (fst (abs_claims ks' b)) eqn:E2; try reflexivity.
    + destruct Hiff as [H _]. specialize (H eq_refl). discriminate.
    + destruct Hiff as [_ H]. specialize (H eq_refl). discriminate.
  - intros Hok. pose proof (proj1 Hiff Hok) as Hok'.
    destruct (abs_claims ks a) as [b1 o1] eqn:E1, (abs_claims ks' b) as [b2 o2] eqn:E2. cbn [fst snd] in *. subst b1 b2.
    intros x. rewrite (abs_claims_ok_mem _ _ _ E1 x), (abs_claims_ok_mem _ _ _ E2 x), Hl, (lmem_perm x _ _ Hp). reflexivity.
Qed.

(* two groups that claim and release the same keys, in any order *)
Definition group_perm (g g' : group) : Prop :=
  g_ignorable g = g_ignorable g' /\ Permutation (g_releases g) (g_releases g') /\ Permutation (g_claims g) (g_claims g').

Lemma abs_run_perm gs gs' : Forall2 group_perm gs gs' ->
  Forall (fun g => g_ignorable g = false) gs ->
  forall a b d d', leq a b ->
  (abs_run gs a d = None <-> abs_run gs' b d' = None).
Proof.
  induction 1 as [|g g' gs gs' Hg Hgs IH]; intros Hni a b d d' Hl; cbn [abs_run]; [split; discriminate|].
  inversion Hni as [|? ? Hn Hrest]; subst. destruct Hg as [Hi [Hr Hc]].
  change (fold_left (fun o k => lremove k o) ?rs ?oo) with (releases rs oo).
  destruct (abs_claims_perm _ _ _ _ Hc (releases_perm _ _ _ _ Hr Hl)) as [Hf Hs].
  destruct (abs_claims (g_claims g) (releases (g_releases g) a)) as [b1 o1].
  destruct (abs_claims (g_claims g') (releases (g_releases g') b)) as [b2 o2].
  cbn [fst snd] in Hf, Hs. subst b2. rewrite <- Hi, Hn. destruct b1.
  - apply IH; [exact Hrest|]. apply Hs. reflexivity.
  - split; reflexivity.
Qed.

(* ---- responses that differ only in the iteration order of their maps ---- *)
Definition res_perm (r r' : resources) : Prop :=
  r_scal r = r_scal r' /\ r_hp r = r_hp r' /\ Permutation (r_uni r) (r_uni r').

Definition adj_perm (a a' : adjustment) : Prop :=
  Permutation (a_ann a) (a_ann a') /\ a_mounts a = a_mounts a' /\ a_env a = a_env a' /\ a_args a = a_args a' /\
  a_hooks a = a_hooks a' /\ a_rlimits a = a_rlimits a' /\ a_cdi a = a_cdi a' /\ a_devices a = a_devices a' /\
  res_perm (a_res a) (a_res a') /\ a_cgroups a = a_cgroups a' /\ a_oom a = a_oom a'.

Definition upd_perm (u u' : update) : Prop :=
  u_id u = u_id u' /\ u_ignore u = u_ignore u' /\
  match u_res u, u_res u' with Some r, Some r' => res_perm r r' | None, None => True | _, _ => False end.

Definition resp_perm (rp rp' : response) : Prop :=
  match rp_adjust rp, rp_adjust rp' with Some a, Some a' => adj_perm a a' | None, None => True | _, _ => False end /\
  Forall2 upd_perm (rp_updates rp) (rp_updates rp').

Lemma Permutation_filter {A} (p : A -> bool) l l' : Permutation l l' -> Permutation (filter p l) (filter p l').
Proof.
  induction 1 as [|x l l' _ IH|x y l|l l' l'' _ IH1 _ IH2]; cbn [filter].
  - constructor.
  - destruct (p x); [constructor|]; exact IH.
  - destruct (p x), (p y); try apply Permutation_refl. apply perm_swap.
  - eapply Permutation_trans; eassumption.
Qed.

Lemma res_claims_perm id r r' : res_perm r r' -> Permutation (res_claims id r) (res_claims id r').
Proof.
  intros [Hs [Hh Hu]]. unfold res_claims. rewrite Hs, Hh.
  apply Permutation_app_head. apply Permutation_app_head. apply Permutation_app_tail.
  apply Permutation_map. exact Hu.
Qed.

Lemma adjust_group_perm id a a' : adj_perm a a' -> group_perm (adjust_group id a) (adjust_group id a').
Proof.
  intros [Ha [Hm [He [Hg [_ [Hr [Hc [Hd [Hres [Hcg Ho]]]]]]]]]].
  unfold group_perm, adjust_group. cbn [g_ignorable g_releases g_claims]. rewrite Hm, He, Hg, Hr, Hc, Hd, Hcg, Ho.
  split; [reflexivity|]. split.
  - apply Permutation_app_tail. apply Permutation_map. unfold marked_keys. apply Permutation_map.
    apply Permutation_filter. apply Permutation_map. exact Ha.
  - apply Permutation_app.
    + apply Permutation_map. unfold plain_keys. apply Permutation_filter. apply Permutation_map. exact Ha.
    + do 4 apply Permutation_app_head. apply Permutation_app_tail. apply res_claims_perm. exact Hres.
Qed.

Lemma update_group_perm u u' : upd_perm u u' -> group_perm (update_group u) (update_group u').
Proof.
  intros [Hid [Hi Hr]]. unfold group_perm, update_group. cbn [g_ignorable g_releases g_claims].
  split; [exact Hi|]. split; [constructor|].
  destruct (u_res u) as [r|], (u_res u') as [r'|]; try contradiction; [|constructor].
  rewrite Hid. apply res_claims_perm. exact Hr.
Qed.

Lemma groups_of_perm cr rp rp' : resp_perm rp rp' -> Forall2 group_perm (groups_of cr rp) (groups_of cr rp').
Proof.
  intros [Ha Hu]. unfold groups_of. apply Forall2_app.
  - destruct cr as [id|]; [|destruct (rp_adjust rp), (rp_adjust rp'); try contradiction; constructor].
    destruct (rp_adjust rp) as [a|], (rp_adjust rp') as [a'|]; try contradiction; [|constructor].
    constructor; [apply adjust_group_perm; exact Ha|constructor].
  - induction Hu as [|u u' us us' Hu1 _ IH]; cbn [map]; constructor; [apply update_group_perm; exact Hu1|exact IH].
Qed.

Lemma all_groups_perm cr rps rps' : Forall2 resp_perm rps rps' -> Forall2 group_perm (all_groups cr rps) (all_groups cr rps').
Proof.
  induction 1 as [|rp rp' rps rps' H1 _ IH]; unfold all_groups; cbn [map concat]; [constructor|].
  apply Forall2_app; [apply groups_of_perm; exact H1|exact IH].
Qed.

Definition no_ignore (rps : list response) : Prop :=
  Forall (fun rp => Forall (fun u => u_ignore u = false) (rp_updates rp)) rps.

Lemma all_groups_not_ignorable cr rps : no_ignore rps -> Forall (fun g => g_ignorable g = false) (all_groups cr rps).
Proof.
  induction 1 as [|rp rps H1 _ IH]; unfold all_groups; cbn [map concat]; [constructor|].
  apply Forall_app. split; [|exact IH]. unfold groups_of. apply Forall_app. split.
  - destruct cr; [destruct (rp_adjust rp)|]; repeat constructor.
  - induction H1 as [|u us Hu _ IHu]; cbn [map]; constructor; [exact Hu|exact IHu].
Qed.

Lemma self_update_perm cr rps rps' : Forall2 resp_perm rps rps' -> self_update cr rps = self_update cr rps'.
Proof.
  unfold self_update. destruct cr as [id|]; [|reflexivity].
  induction 1 as [|rp rp' rps rps' [_ Hu] _ IH]; cbn [existsb]; [reflexivity|]. rewrite IH. f_equal.
  induction Hu as [|u u' us us' [Hid _] _ IHu]; cbn [existsb]; [reflexivity|]. rewrite IHu, Hid. reflexivity.
Qed.

Lemma wf_rp_perm rp rp' : resp_perm rp rp' -> wf_rp rp -> wf_rp rp'.
Proof.
  intros [Ha _]. unfold wf_rp. destruct (rp_adjust rp) as [a|], (rp_adjust rp') as [a'|]; try contradiction; [|trivial].
  destruct Ha as [Ha _]. intros Hnd. apply (Permutation_NoDup (Permutation_map fst Ha) Hnd).
Qed.

(* the verdict of a request does not depend on the iteration order of annotation and unified maps *)
Theorem verdict_map_order_independent rq rps rps' :
  Forall wf_rp rps -> Forall2 resp_perm rps rps' -> no_ignore rps ->
  ((exists e, snd (run_request rq rps) = Err e) <-> (exists e, snd (run_request rq rps') = Err e)).
Proof.
  intros Hwf Hp Hni.
  assert (Hwf' : Forall wf_rp rps').
  { clear Hni. induction Hp as [|rp rp' rps0 rps0' H1 _ IH]; [constructor|]. inversion Hwf; subst.
    constructor; [apply (wf_rp_perm _ _ H1); assumption|apply IH; assumption]. }
  pose proof (abs_run_perm _ _ (all_groups_perm (req_created rq) _ _ Hp) (all_groups_not_ignorable _ _ Hni) [] [] [] [] (leq_refl [])) as Habs.
  pose proof (self_update_perm (req_created rq) _ _ Hp) as Hself.
  assert (Hc : abs_conflict (req_created rq) rps = abs_conflict (req_created rq) rps').
  { unfold abs_conflict. destruct (abs_run (all_groups (req_created rq) rps) [] []) eqn:E1,
      (abs_run (all_groups (req_created rq) rps') [] []) eqn:E2; try reflexivity.
    - destruct Habs as [_ H]. specialize (H eq_refl). discriminate.
    - destruct Habs as [H _]. specialize (H eq_refl). discriminate. }
  pose proof (run_request_refines_ledger rq rps Hwf) as H1. pose proof (run_request_refines_ledger rq rps' Hwf') as H2.
  split; intros [e He].
  - rewrite He in H1. destruct (snd (run_request rq rps')) as [s|e']; [|eexists; reflexivity].
    destruct H2 as [Hc2 [Hs2 _]]. rewrite <- Hc in Hc2. rewrite <- Hself in Hs2. destruct H1; congruence.
  - rewrite He in H2. destruct (snd (run_request rq rps)) as [s|e']; [|eexists; reflexivity].
    destruct H1 as [Hc1 [Hs1 _]]. rewrite Hc in Hc1. rewrite Hself in Hs1. destruct H2; congruence.
Qed.
