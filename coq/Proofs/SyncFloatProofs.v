(* C09 — the float64 arithmetic of recalcObjsPerSyncMsg.

   pkg/adaptation/plugin.go scales the per-message object counts by
       int(float64(n) * min(0.9, float64(maxLen) / float64(msgLen)))
   which Model/SyncSplit.v evaluates through Coq's Floats.SpecFloat.  This file proves,
   from the definitions of SpecFloat alone (no axioms, no external float library), what
   the termination argument of the sender needs:

     scale_factor_bounds : for 0 <= n < 2^53 and positive lengths the scaled count is
                           0 for n = 0 and lies in [0, n-1] for n >= 1 (or the factor is
                           NaN, which only a quotient inf/inf of astronomically large
                           lengths produces, and then the count is the indefinite integer).

   Route: the result of binary_round_aux is characterised through integer division
   (bra_spec), which gives "rounded value <= exact value + one unit in the last place"
   (bra_bounds) and "at most 53 mantissa digits"; float64(n) is exact below 2^53
   (of_int_pos); the cap of the factor is read from the regenerated constants. *)
From Coq Require Import ZArith Bool Lia Floats.SpecFloat.
From NRI Require Import Model.SyncConsts Model.SyncSplit.
Open Scope Z_scope.

(* lia is given powers of two as opaque atoms *)
Ltac abs_pow :=
  repeat match goal with
         | |- context [2 ^ ?x] => let a := fresh "pw" in set (a := 2 ^ x) in *; clearbody a
         | H : context [2 ^ ?x] |- _ => let a := fresh "pw" in set (a := 2 ^ x) in *; clearbody a
         end.

(* ---------- powers of two ---------- *)
Lemma pow2_pos k : 0 <= k -> 0 < 2 ^ k.
Proof. intros. apply Z.pow_pos_nonneg; lia. Qed.

Lemma pow2_split a b : 0 <= a -> 0 <= b -> 2 ^ (a + b) = 2 ^ a * 2 ^ b.
Proof. intros. apply Z.pow_add_r; assumption. Qed.

Lemma pow2_le a b : 0 <= a <= b -> 2 ^ a <= 2 ^ b.
Proof. intros. apply Z.pow_le_mono_r; lia. Qed.

Lemma pow2_lt a b : 0 <= a < b -> 2 ^ a < 2 ^ b.
Proof. intros. apply Z.pow_lt_mono_r; lia. Qed.

(* ---------- number of binary digits ---------- *)
Lemma digits2_pos_bounds p :
  2 ^ (Zpos (digits2_pos p) - 1) <= Zpos p < 2 ^ (Zpos (digits2_pos p)).
Proof.
  induction p as [p IH|p IH|]; cbn [digits2_pos].
  - rewrite Pos2Z.inj_succ. replace (Z.succ (Zpos (digits2_pos p)) - 1) with (Z.succ (Zpos (digits2_pos p) - 1)) by lia.
    rewrite !Z.pow_succ_r by lia. rewrite (Pos2Z.inj_xI p). abs_pow. lia.
  - rewrite Pos2Z.inj_succ. replace (Z.succ (Zpos (digits2_pos p)) - 1) with (Z.succ (Zpos (digits2_pos p) - 1)) by lia.
    rewrite !Z.pow_succ_r by lia. rewrite (Pos2Z.inj_xO p). abs_pow. lia.
  - cbn. lia.
Qed.

Lemma Zdigits2_upper m : 0 <= m -> m < 2 ^ (Zdigits2 m).
Proof.
  intros H. destruct m as [|p|p]; cbn [Zdigits2]; [cbn; lia| apply digits2_pos_bounds | lia].
Qed.

Lemma Zdigits2_nonneg m : 0 <= Zdigits2 m.
Proof. destruct m; cbn; lia. Qed.

Lemma Zdigits2_lower p : 2 ^ (Zdigits2 (Zpos p) - 1) <= Zpos p.
Proof. cbn [Zdigits2]. apply digits2_pos_bounds. Qed.

(* ---------- right shifts ---------- *)
Lemma shr_1_m mrs : 0 <= shr_m mrs -> shr_m (shr_1 mrs) = shr_m mrs / 2.
Proof.
  destruct mrs as [m r s]. cbn [shr_m]. intros H.
  destruct m as [|p|p]; [reflexivity| |lia].
  destruct p as [p|p|]; cbn [shr_1 shr_m].
  - rewrite (Pos2Z.inj_xI p). apply Z.div_unique with 1; lia.
  - rewrite (Pos2Z.inj_xO p). apply Z.div_unique with 0; lia.
  - reflexivity.
Qed.

Lemma iter_shr_1_m p : forall mrs, 0 <= shr_m mrs ->
  shr_m (iter_pos shr_1 p mrs) = shr_m mrs / 2 ^ (Zpos p).
Proof.
  induction p as [p IH|p IH|]; intros mrs H; cbn [iter_pos].
  - assert (H1 : 0 <= shr_m (shr_1 mrs)) by (rewrite shr_1_m by assumption; apply Z.div_pos; lia).
    assert (H2 : 0 <= shr_m (iter_pos shr_1 p (shr_1 mrs))) by (rewrite IH by assumption; apply Z.div_pos; [lia|apply pow2_pos; lia]).
    rewrite IH by assumption. rewrite IH by assumption. rewrite shr_1_m by assumption.
    rewrite !Z.div_div by (try lia; apply pow2_pos; lia).
    f_equal. rewrite (Pos2Z.inj_xI p). replace (2 * Z.pos p + 1) with (Z.pos p + Z.pos p + 1) by lia.
    rewrite !Z.pow_add_r by lia. rewrite Z.pow_1_r. ring.
  - assert (H2 : 0 <= shr_m (iter_pos shr_1 p mrs)) by (rewrite IH by assumption; apply Z.div_pos; [lia|apply pow2_pos; lia]).
    rewrite IH by assumption. rewrite IH by assumption.
    rewrite !Z.div_div by (try lia; apply pow2_pos; lia).
    f_equal. rewrite (Pos2Z.inj_xO p). replace (2 * Z.pos p) with (Z.pos p + Z.pos p) by lia.
    rewrite !Z.pow_add_r by lia. ring.
  - rewrite shr_1_m by assumption. reflexivity.
Qed.

Lemma shr_m_of_loc m l : shr_m (shr_record_of_loc m l) = m.
Proof. destruct l as [|[| |]]; reflexivity. Qed.

Lemma loc_of_loc_exact m : loc_of_shr_record (shr_record_of_loc m loc_Exact) = loc_Exact.
Proof. reflexivity. Qed.

(* shift amount K, result mantissa / exponent of [shr] *)
Definition shifted_m (m K : Z) : Z := if 0 <? K then m / 2 ^ K else m.
Definition shifted_e (e K : Z) : Z := if 0 <? K then e + K else e.

Lemma shr_spec mrs e K : 0 <= shr_m mrs ->
  shr_m (fst (shr mrs e K)) = shifted_m (shr_m mrs) K /\ snd (shr mrs e K) = shifted_e e K.
Proof.
  intros H. unfold shr, shifted_m, shifted_e. destruct K as [|p|p]; cbn [fst snd Z.ltb Z.compare]; try (split; reflexivity).
  split; [apply iter_shr_1_m; assumption|reflexivity].
Qed.

Lemma shr_exact mrs e K : K <= 0 -> shr mrs e K = (mrs, e).
Proof. intros H. destruct K; try reflexivity. lia. Qed.

Lemma shifted_m_nonneg m K : 0 <= m -> 0 <= shifted_m m K.
Proof. intros. unfold shifted_m. destruct (0 <? K) eqn:E; [|assumption]. apply Z.div_pos; [assumption|]. apply pow2_pos. lia. Qed.

Lemma round_nearest_even_bounds m l : m <= round_nearest_even m l <= m + 1.
Proof. unfold round_nearest_even. destruct l as [|[| |]]; try destruct (Z.even m); lia. Qed.

Definition fexp64 (z : Z) : Z := Z.max (z - 53) (-1074).
Lemma fexp_eq z : fexp 53 1024 z = fexp64 z.
Proof. reflexivity. Qed.

Definition bra_result (s : bool) (m2 e2 : Z) : spec_float :=
  match m2 with
  | Z0 => S754_zero s
  | Zpos p => if e2 <=? 971 then S754_finite s p e2 else S754_infinity s
  | Zneg _ => S754_nan
  end.

Lemma bra_spec s mx ex lx : 0 <= mx ->
  let K1 := fexp64 (Zdigits2 mx + ex) - ex in
  let m' := shifted_m mx K1 in
  let e' := shifted_e ex K1 in
  exists m1, m' <= m1 <= m' + 1 /\ (lx = loc_Exact -> K1 <= 0 -> m1 = mx) /\
    let K2 := fexp64 (Zdigits2 m1 + e') - e' in
    binary_round_aux 53 1024 s mx ex lx = bra_result s (shifted_m m1 K2) (shifted_e e' K2).
Proof.
  intros Hm K1 m' e'.
  unfold binary_round_aux, shr_fexp. rewrite !fexp_eq. fold K1.
  assert (H0 : 0 <= shr_m (shr_record_of_loc mx lx)) by (rewrite shr_m_of_loc; assumption).
  destruct (shr_spec (shr_record_of_loc mx lx) ex K1 H0) as [Hs1 Hs2].
  destruct (shr (shr_record_of_loc mx lx) ex K1) as [mrs1 e1] eqn:E1. cbn [fst snd] in Hs1, Hs2.
  rewrite shr_m_of_loc in Hs1. fold m' in Hs1. fold e' in Hs2. subst e1.
  set (m1 := round_nearest_even (shr_m mrs1) (loc_of_shr_record mrs1)).
  exists m1. split; [|split].
  - unfold m1. rewrite Hs1. apply round_nearest_even_bounds.
  - intros -> HK. rewrite shr_exact in E1 by assumption. inversion E1; subst mrs1. reflexivity.
  - cbv zeta. set (K2 := fexp64 (Zdigits2 m1 + e') - e').
    assert (Hm' : 0 <= m') by (apply shifted_m_nonneg; assumption).
    assert (Hm1 : 0 <= m1) by (unfold m1; pose proof (round_nearest_even_bounds (shr_m mrs1) (loc_of_shr_record mrs1)); lia).
    assert (H1 : 0 <= shr_m (shr_record_of_loc m1 loc_Exact)) by (rewrite shr_m_of_loc; assumption).
    destruct (shr_spec (shr_record_of_loc m1 loc_Exact) e' K2 H1) as [Ht1 Ht2].
    destruct (shr (shr_record_of_loc m1 loc_Exact) e' K2) as [mrs2 e2] eqn:E2. cbn [fst snd] in Ht1, Ht2.
    rewrite shr_m_of_loc in Ht1. change (fexp 53 1024 (Zdigits2 m1 + e') - e') with K2. rewrite E2, Ht1, Ht2. reflexivity.
Qed.

Lemma shifted_m_mul_le m K : 0 <= m -> shifted_m m K * 2 ^ (Z.max 0 K) <= m.
Proof.
  intros H. unfold shifted_m. destruct (0 <? K) eqn:E.
  - apply Z.ltb_lt in E. rewrite Z.max_r by lia. rewrite Z.mul_comm. apply Z.mul_div_le. apply pow2_pos; lia.
  - apply Z.ltb_ge in E. rewrite Z.max_l by lia. cbn. lia.
Qed.

Lemma shifted_m_succ_mul m K : 0 <= m -> m < (shifted_m m K + 1) * 2 ^ (Z.max 0 K).
Proof.
  intros H. unfold shifted_m. destruct (0 <? K) eqn:E.
  - apply Z.ltb_lt in E. rewrite Z.max_r by lia.
    assert (P : 0 < 2 ^ K) by (apply pow2_pos; lia).
    pose proof (Z.div_mod m (2 ^ K) ltac:(lia)). pose proof (Z.mod_pos_bound m (2 ^ K) P). nia.
  - apply Z.ltb_ge in E. rewrite Z.max_l by lia. cbn. lia.
Qed.

Lemma shifted_e_eq e K : shifted_e e K = e + Z.max 0 K.
Proof. unfold shifted_e. destruct (0 <? K) eqn:E; [apply Z.ltb_lt in E|apply Z.ltb_ge in E]; lia. Qed.

(* the mantissa produced by the last shift has at most 53 digits *)
Lemma shifted_canonical m e : 0 <= m ->
  shifted_m m (fexp64 (Zdigits2 m + e) - e) < 2 ^ 53.
Proof.
  intros H. pose proof (Zdigits2_upper m H) as Hu. pose proof (Zdigits2_nonneg m) as Hd.
  set (d := Zdigits2 m) in *. set (K := fexp64 (d + e) - e).
  assert (HK : d - 53 <= K) by (unfold K, fexp64; lia).
  unfold shifted_m. destruct (0 <? K) eqn:E.
  - apply Z.ltb_lt in E. apply Z.div_lt_upper_bound; [apply pow2_pos; lia|].
    destruct (Z.le_gt_cases K d) as [L|L].
    + apply Z.lt_le_trans with (1 := Hu). replace d with (K + (d - K)) at 1 by lia.
      rewrite pow2_split by lia. apply Z.mul_le_mono_nonneg_l; [apply Z.lt_le_incl, pow2_pos; lia|]. apply pow2_le. lia.
    + apply Z.lt_le_trans with (2 ^ K * 1); [|apply Z.mul_le_mono_nonneg_l; [apply Z.lt_le_incl, pow2_pos; lia| pose proof (pow2_pos 53); lia]].
      rewrite Z.mul_1_r. apply Z.lt_trans with (1 := Hu). apply pow2_lt. lia.
  - apply Z.ltb_ge in E. apply Z.lt_le_trans with (1 := Hu). apply pow2_le. lia.
Qed.

Lemma bra_bounds s mx ex lx : 0 <= mx -> exists m2 e2,
  binary_round_aux 53 1024 s mx ex lx = bra_result s m2 e2 /\
  0 <= m2 < 2 ^ 53 /\ ex <= e2 /\
  m2 * 2 ^ (e2 - ex) <= mx + 2 ^ (Z.max 0 (fexp64 (Zdigits2 mx + ex) - ex)).
Proof.
  intros Hm. destruct (bra_spec s mx ex lx Hm) as [m1 [[Hlo Hhi] [_ Heq]]].
  set (K1 := fexp64 (Zdigits2 mx + ex) - ex) in *.
  set (m' := shifted_m mx K1) in *. set (e' := shifted_e ex K1) in *.
  cbv zeta in Heq. set (K2 := fexp64 (Zdigits2 m1 + e') - e') in *.
  assert (Hm' : 0 <= m') by (apply shifted_m_nonneg; assumption).
  assert (Hm1 : 0 <= m1) by lia.
  exists (shifted_m m1 K2), (shifted_e e' K2). split; [exact Heq|].
  split; [split; [apply shifted_m_nonneg; assumption|apply shifted_canonical; assumption]|].
  unfold e'. rewrite !shifted_e_eq. split; [lia|].
  replace (ex + Z.max 0 K1 + Z.max 0 K2 - ex) with (Z.max 0 K2 + Z.max 0 K1) by lia.
  rewrite pow2_split by lia. rewrite Z.mul_assoc.
  pose proof (shifted_m_mul_le m1 K2 Hm1) as A.
  pose proof (shifted_m_mul_le mx K1 Hm) as B. fold m' in B.
  assert (P1 : 0 < 2 ^ Z.max 0 K1) by (apply pow2_pos; lia).
  apply Z.le_trans with (m1 * 2 ^ Z.max 0 K1); [apply Z.mul_le_mono_nonneg_r; lia|].
  apply Z.le_trans with ((m' + 1) * 2 ^ Z.max 0 K1); [apply Z.mul_le_mono_nonneg_r; lia|]. lia.
Qed.

Lemma digits2_shift k p : digits2_pos (shift_pos k p) = (digits2_pos p + k)%positive.
Proof.
  unfold shift_pos. induction k using Pos.peano_ind.
  - cbn. lia.
  - rewrite Pos.iter_succ. cbn [digits2_pos]. rewrite IHk. lia.
Qed.

Lemma Zpos_shift k p : Zpos (shift_pos k p) = Zpos p * 2 ^ Zpos k.
Proof.
  unfold shift_pos. induction k using Pos.peano_ind.
  - cbn. lia.
  - rewrite Pos.iter_succ. rewrite Pos2Z.inj_xO, IHk. rewrite Pos2Z.inj_succ, Z.pow_succ_r by lia. ring.
Qed.

Lemma bra_exact s mz ez : Zpos (digits2_pos mz) = 53 -> -1074 <= ez <= 971 ->
  binary_round_aux 53 1024 s (Zpos mz) ez loc_Exact = S754_finite s mz ez.
Proof.
  intros Hd He. destruct (bra_spec s (Zpos mz) ez loc_Exact ltac:(lia)) as [m1 [_ [Hex Heq]]].
  cbv zeta in Heq. cbn [Zdigits2] in *. rewrite Hd in *.
  assert (K0 : fexp64 (53 + ez) - ez = 0) by (unfold fexp64; lia).
  rewrite K0 in *. specialize (Hex eq_refl ltac:(lia)). subst m1.
  unfold shifted_e, shifted_m in Heq. cbn [Z.ltb Z.compare] in Heq. cbn [Zdigits2] in Heq. rewrite Hd, K0 in Heq.
  cbn [Z.ltb Z.compare] in Heq. rewrite Heq. unfold bra_result.
  destruct (ez <=? 971) eqn:E; [reflexivity|]. apply Z.leb_gt in E. lia.
Qed.

Lemma of_int_pos p : Zpos p < 2 ^ 53 ->
  exists mz k, f64_of_int (Zpos p) = S754_finite false mz (- k) /\ 0 <= k <= 52 /\ Zpos mz = Zpos p * 2 ^ k.
Proof.
  intros Hp. unfold f64_of_int, binary_normalize, binary_round, f64_prec, f64_emax.
  rewrite fexp_eq. pose proof (digits2_pos_bounds p) as [Hlo Hhi].
  set (d := digits2_pos p) in *.
  assert (Hd : Zpos d <= 53).
  { destruct (Z.le_gt_cases (Zpos d) 53); [assumption|]. exfalso.
    assert (2 ^ 53 <= 2 ^ (Zpos d - 1)) by (apply pow2_le; lia). lia. }
  assert (Hf : fexp64 (Zpos d + 0) = Zpos d - 53) by (unfold fexp64; lia).
  rewrite Hf. unfold shl_align.
  destruct (Zpos d - 53 - 0) as [|q|q] eqn:E; try lia.
  - exists p, 0. split; [|split; [lia|cbn; lia]].
    apply bra_exact; [fold d; lia|lia].
  - exists (shift_pos q p), (Zpos q). split; [|split; [lia|apply Zpos_shift]].
    replace (Zpos d - 53) with (- Zpos q) by lia.
    apply bra_exact; [rewrite digits2_shift; fold d; lia|lia].
Qed.

Lemma of_int_zero : f64_of_int 0 = S754_zero false.
Proof. reflexivity. Qed.

(* ---------- int(f) of a rounded non-negative result ---------- *)
Lemma int_of_bra m2 e2 e B : 0 <= m2 -> e <= 0 -> e <= e2 -> 1 <= B <= 2 ^ 53 ->
  m2 * 2 ^ (e2 - e) < B * 2 ^ (- e) ->
  0 <= int_of_f64 (bra_result false m2 e2) <= B - 1.
Proof.
  intros Hm He Hee HB Hlt. destruct m2 as [|p|p]; [cbn; lia| |lia].
  assert (P53 : 0 < 2 ^ 53) by (apply pow2_pos; lia).
  assert (Pe : 0 < 2 ^ (- e)) by (apply pow2_pos; lia).
  assert (He2 : e2 < 53).
  { destruct (Z.lt_ge_cases e2 53) as [L|L]; [assumption|exfalso].
    assert (2 ^ (53 - e) <= 2 ^ (e2 - e)) by (apply pow2_le; lia).
    replace (53 - e) with (53 + - e) in H by lia. rewrite pow2_split in H by lia.
    assert (2 ^ (e2 - e) <= Zpos p * 2 ^ (e2 - e)) by (assert (0 < 2 ^ (e2 - e)) by (apply pow2_pos; lia); nia).
    assert (B * 2 ^ (- e) <= 2 ^ 53 * 2 ^ (- e)) by (apply Z.mul_le_mono_nonneg_r; lia). lia. }
  unfold bra_result. destruct (e2 <=? 971) eqn:E; [|apply Z.leb_gt in E; lia].
  cbn [int_of_f64].
  assert (Ha : 0 <= Z.shiftl (Zpos p) e2 <= B - 1).
  { destruct (Z.le_gt_cases 0 e2) as [L|L].
    - rewrite Z.shiftl_mul_pow2 by assumption.
      replace (e2 - e) with (e2 + - e) in Hlt by lia. rewrite pow2_split in Hlt by lia.
      assert (0 < 2 ^ e2) by (apply pow2_pos; lia). split; [nia|].
      rewrite Z.mul_assoc in Hlt. apply Z.mul_lt_mono_pos_r in Hlt; [lia|assumption].
    - rewrite Z.shiftl_div_pow2 by lia.
      assert (P2 : 0 < 2 ^ (- e2)) by (apply pow2_pos; lia).
      split; [apply Z.div_pos; lia|].
      replace (- e) with (- e2 + (e2 - e)) in Hlt by lia. rewrite pow2_split in Hlt by lia.
      rewrite Z.mul_assoc in Hlt. apply Z.mul_lt_mono_pos_r in Hlt; [|apply pow2_pos; lia].
      assert (Zpos p / 2 ^ (- e2) < B); [|lia]. apply Z.div_lt_upper_bound; [assumption|]. lia. }
  assert (R : (- 2 ^ 63 <=? Z.shiftl (Zpos p) e2) && (Z.shiftl (Zpos p) e2 <? 2 ^ 63) = true).
  { assert (2 ^ 53 < 2 ^ 63) by (apply pow2_lt; lia). assert (0 < 2 ^ 63) by (apply pow2_pos; lia).
    apply andb_true_iff. split; [apply Z.leb_le|apply Z.ltb_lt]; lia. }
  rewrite R. exact Ha.
Qed.

(* a factor that is at most (2^53 - 3) / 2^53 *)
Definition small_factor (F : spec_float) : Prop :=
  match F with
  | S754_zero false => True
  | S754_finite false mf ef => Zpos mf < 2 ^ 53 /\ ef <= -53 /\ (ef = -53 -> Zpos mf <= 2 ^ 53 - 3)
  | _ => False
  end.

Lemma scale_small n F : 0 <= n < 2 ^ 53 -> small_factor F ->
  0 <= sync_scale n F /\ (n = 0 -> sync_scale n F = 0) /\ (1 <= n -> sync_scale n F <= n - 1).
Proof.
  intros Hn HF. unfold sync_scale.
  destruct n as [|p|p]; [| |lia].
  - (* float64(0) * F *)
    rewrite of_int_zero. destruct F as [[|]| | |[|] mf ef]; cbn in HF; try contradiction; unfold f64_mul; cbn [SFmul xorb int_of_f64]; lia.
  - destruct (of_int_pos p ltac:(lia)) as [mz [k [HX [Hk Hmz]]]]. rewrite HX.
    destruct F as [[|]| | |[|] mf ef]; cbn in HF; try contradiction.
    + unfold f64_mul. cbn [SFmul xorb int_of_f64]. lia.
    + destruct HF as [Hmf [Hef Hcap]].
      unfold f64_mul, SFmul, f64_prec, f64_emax. cbn [xorb].
      set (m := Zpos (mz * mf)). set (e := - k + ef).
      destruct (bra_bounds false m e loc_Exact ltac:(unfold m; lia)) as [m2 [e2 [Heq [[Hm2 Hc] [Hee Hb]]]]].
      rewrite Heq.
      assert (G : 0 <= int_of_f64 (bra_result false m2 e2) <= Zpos p - 1).
      { apply int_of_bra with (e := e); try assumption; try (unfold e; lia); try lia.
        apply Z.le_lt_trans with (1 := Hb).
        (* exact product plus one unit in the last place stays below n *)
        set (j := -53 - ef). assert (Hj : 0 <= j) by (unfold j; lia).
        assert (Ee : - e = k + j + 53) by (unfold e, j; lia). rewrite Ee.
        set (T := Zpos p * 2 ^ (k + j)).
        assert (Pkj : 0 < 2 ^ (k + j)) by (apply pow2_pos; lia).
        assert (HT : 1 <= T) by (unfold T; nia).
        assert (P53 : 2 ^ 53 = 9007199254740992) by reflexivity.
        assert (ET : Zpos p * 2 ^ (k + j + 53) = T * 2 ^ 53) by (unfold T; rewrite (pow2_split (k + j) 53) by lia; ring).
        rewrite ET.
        assert (Hmfj : Zpos mf <= (2 ^ 53 - 3) * 2 ^ j).
        { destruct (Z.eq_dec ef (-53)) as [E|E].
          - replace j with 0 by (unfold j; lia). cbn [Z.pow]. specialize (Hcap E). lia.
          - assert (2 ^ 1 <= 2 ^ j) by (apply pow2_le; unfold j; lia). cbn [Z.pow Z.pow_pos Pos.iter Z.mul Pos.mul] in H. lia. }
        assert (Hm : m <= T * (2 ^ 53 - 3)).
        { unfold m, T. rewrite Pos2Z.inj_mul, Hmz. rewrite (pow2_split k j) by lia.
          assert (0 < 2 ^ k) by (apply pow2_pos; lia). assert (0 < 2 ^ j) by (apply pow2_pos; lia).
          apply Z.le_trans with (Zpos p * 2 ^ k * ((2 ^ 53 - 3) * 2 ^ j)); [apply Z.mul_le_mono_nonneg_l; [nia|assumption]|]. apply Z.eq_le_incl; ring. }
        assert (HK : 2 ^ Z.max 0 (fexp64 (Zdigits2 m + e) - e) <= 2 * T).
        { set (d := Zdigits2 m). assert (Hd : 0 <= d) by apply Zdigits2_nonneg.
          assert (EK : fexp64 (d + e) - e = Z.max (d - 53) (-1074 - e)) by (unfold fexp64; lia). rewrite EK.
          destruct (Z.max_spec 0 (Z.max (d - 53) (-1074 - e))) as [[L ->]|[L ->]]; [|rewrite Z.pow_0_r; lia].
          destruct (Z.max_spec (d - 53) (-1074 - e)) as [[L2 E2]|[L2 E2]]; rewrite E2 in *.
          - (* subnormal range *)
            apply Z.le_trans with (2 ^ (k + j)); [apply pow2_le; lia|]. unfold T. nia.
          - (* normal range: one unit in the last place of the product *)
            assert (Hlow : 2 ^ (d - 1) <= m) by (unfold d, m; apply Zdigits2_lower).
            replace (d - 1) with ((d - 53) + 52) in Hlow by lia. rewrite pow2_split in Hlow by lia.
            assert (P52 : 2 ^ 52 = 4503599627370496) by reflexivity.
            assert (0 < 2 ^ (d - 53)) by (apply pow2_pos; lia). nia. }
        lia. }
      split; [lia|]. split; [lia|]. intros _. lia.
Qed.

(* ---------- classification of the operands and of the quotient ---------- *)
Definition nonneg_class (x : spec_float) : Prop :=
  match x with
  | S754_zero false | S754_infinity false | S754_finite false _ _ => True
  | _ => False
  end.

Definition quot_class (q : spec_float) : Prop :=
  match q with
  | S754_nan | S754_zero false | S754_infinity false => True
  | S754_finite false p _ => Zpos p < 2 ^ 53
  | _ => False
  end.

Lemma bra_class m e l : 0 <= m ->
  let r := binary_round_aux 53 1024 false m e l in nonneg_class r /\ quot_class r.
Proof.
  intros Hm. destruct (bra_bounds false m e l Hm) as [m2 [e2 [Heq [[H0 Hc] _]]]].
  cbv zeta. rewrite Heq. unfold bra_result. destruct m2 as [|p|p]; [cbn; auto| |lia].
  destruct (e2 <=? 971); cbn; auto.
Qed.

Lemma of_int_class p : nonneg_class (f64_of_int (Zpos p)).
Proof.
  unfold f64_of_int, binary_normalize, binary_round, f64_prec, f64_emax.
  destruct (shl_align p 0 (fexp 53 1024 (Z.pos (digits2_pos p) + 0))) as [mz ez].
  apply bra_class. lia.
Qed.

Lemma div_core_nonneg m1 e1 m2 e2 :
  0 <= fst (fst (SFdiv_core_binary 53 1024 (Zpos m1) e1 (Zpos m2) e2)).
Proof.
  unfold SFdiv_core_binary.
  set (s := e1 - e2 - _).
  set (m' := match s with Z.pos _ => Z.shiftl (Zpos m1) s | 0 => Zpos m1 | Z.neg _ => 0 end).
  assert (Hm' : 0 <= m') by (unfold m'; destruct s; try lia; apply Z.shiftl_nonneg; lia).
  destruct (Z.div_eucl m' (Zpos m2)) as [q r] eqn:E. cbn [fst].
  assert (Hq : q = m' / Zpos m2) by (unfold Z.div; rewrite E; reflexivity).
  rewrite Hq. apply Z.div_pos; lia.
Qed.

Lemma div_class x y : nonneg_class x -> nonneg_class y -> quot_class (f64_div x y).
Proof.
  intros Hx Hy. unfold f64_div, f64_prec, f64_emax.
  destruct x as [[|]|[|]| |[|] mx ex]; cbn in Hx; try contradiction;
  destruct y as [[|]|[|]| |[|] my ey]; cbn in Hy; try contradiction; cbn [SFdiv xorb quot_class]; auto.
  pose proof (div_core_nonneg mx ex my ey) as Hq.
  destruct (SFdiv_core_binary 53 1024 (Zpos mx) ex (Zpos my) ey) as [[mz ez] lz]. cbn [fst] in Hq.
  apply bra_class. assumption.
Qed.

(* ---------- the cap of the factor, as regenerated from plugin.go ---------- *)
Lemma cap_cmp_shape : exists cm, sync_cap_cmp = S754_finite false cm (-53) /\ Zpos cm <= 2 ^ 53 - 3.
Proof. unfold sync_cap_cmp. eexists. split; [reflexivity|]. assert (2 ^ 53 = 9007199254740992) by reflexivity. lia. Qed.

Lemma cap_set_small : small_factor sync_cap_set.
Proof. unfold sync_cap_set, small_factor. assert (2 ^ 53 = 9007199254740992) by reflexivity. repeat split; lia. Qed.

Lemma factor_class mx ml : 0 < mx -> 0 < ml ->
  sync_factor mx ml = S754_nan \/ small_factor (sync_factor mx ml).
Proof.
  intros Hx Hl. unfold sync_factor, f64_gt.
  destruct mx as [|px|px]; try lia. destruct ml as [|pl|pl]; try lia.
  pose proof (div_class _ _ (of_int_class px) (of_int_class pl)) as Hq.
  set (q := f64_div (f64_of_int (Zpos px)) (f64_of_int (Zpos pl))) in *.
  destruct cap_cmp_shape as [cm [Ecap Hcm]]. rewrite Ecap.
  destruct q as [[|]|[|]| |[|] p e]; cbn in Hq; try contradiction.
  - right. cbn. exact I.
  - right. cbn. apply cap_set_small.
  - left. reflexivity.
  - destruct (SFltb (S754_finite false cm (-53)) (S754_finite false p e)) eqn:E.
    + right. apply cap_set_small.
    + right. unfold small_factor. split; [assumption|].
      unfold SFltb, SFcompare in E.
      destruct (Z.compare_spec (-53) e) as [He|He|He].
      * subst e. split; [lia|]. intros _.
        change (Pos.compare_cont Eq cm p) with (Pos.compare cm p) in E.
        destruct (Pos.compare_spec cm p) as [Hc|Hc|Hc]; try discriminate; lia.
      * discriminate.
      * split; [lia|]. intros ->. lia.
Qed.

(* ---------- what recalcObjsPerSyncMsg needs ---------- *)
Lemma scale_nan n : sync_scale n S754_nan = int_indefinite.
Proof. unfold sync_scale, f64_mul. destruct (f64_of_int n); reflexivity. Qed.

Theorem scale_factor_bounds n mx ml : 0 <= n < 2 ^ 53 -> 0 < mx -> 0 < ml ->
  let F := sync_factor mx ml in
  (F = S754_nan /\ sync_scale n F = int_indefinite) \/
  (F <> S754_nan /\ 0 <= sync_scale n F /\ (n = 0 -> sync_scale n F = 0) /\ (1 <= n -> sync_scale n F <= n - 1)).
Proof.
  intros Hn Hx Hl F. destruct (factor_class mx ml Hx Hl) as [E|S]; fold F in E || fold F in S.
  - left. split; [assumption|]. rewrite E. apply scale_nan.
  - right. split; [intros E; rewrite E in S; exact S|]. apply scale_small; assumption.
Qed.
