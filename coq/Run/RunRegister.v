(* C17 — cases written by harness driver "register". *)
From Coq Require Import String Ascii List Bool ZArith NArith.
From NRI Require Import Base.Strs Model.Consts Model.Event Model.RegConsts Model.Register Spec.RegisterSpec Run.Common.
Import ListNotations.
Open Scope string_scope.
Open Scope list_scope.
Open Scope Z_scope.

(* arbitrary byte strings (names and indices outside printable ASCII) *)
Definition sb (l : list Z) : string := fold_right (fun z s => String (ascii_of_N (Z.to_N z)) s) EmptyString l.

(* --- CheckPluginIndex called directly --- *)
Record idx_case := { ix_str : string; ix_ok : bool }.
Definition corr_idx (c : idx_case) : bool := Bool.eqb (check_index (ix_str c)) (ix_ok c).
Definition holds_idx (c : idx_case) : bool := Bool.eqb (ix_ok c) (smem (ix_str c) all_indices).

(* --- scripted connections against one real Adaptation --- *)
Record reg_obs := {
  ro_reg_ok : bool;          (* its RegisterPlugin call returned without error *)
  ro_configured : bool;      (* it was sent Configure *)
  ro_syncs : Z;              (* how often it was sent Synchronize *)
  ro_events : list Z         (* the events it was sent afterwards, in order *)
}.

Record reg_case := { rc_conns : list (conn * reg_obs); rc_fired : list Z }.

Definition registered (o : outcome) : bool :=
  match o with ORegTimeout | OConnClosed | OBadName | OBadIndex => false | _ => true end.

Definition reaches_sync_o (o : outcome) : bool :=
  match o with OGood _ _ _ | OSyncFailed => true | _ => false end.

Definition expected (fired : list Z) (c : conn) : reg_obs :=
  let o := handle c in
  {| ro_reg_ok := registered o;
     ro_configured := registered o;
     ro_syncs := if reaches_sync_o o then 1 else 0;
     ro_events := match o with OGood _ _ e => delivered e fired | _ => [] end |}.

(* [reg_det]: whether the plugin's own RegisterPlugin call returns nil is determined only when the
   runtime refuses it in the handler (never registered) or keeps the plugin.  When the runtime drops the
   connection right after registration (bad mask, Configure failed or timed out, synchronisation failed),
   the answer to RegisterPlugin races with the close of the connection: the plugin may see nil or
   "ttrpc: closed".  No property speaks about it; it is not compared. *)
Definition reg_obs_eqb (reg_det : bool) (a b : reg_obs) : bool :=
  (negb reg_det || Bool.eqb (ro_reg_ok a) (ro_reg_ok b)) && Bool.eqb (ro_configured a) (ro_configured b)
  && (ro_syncs a =? ro_syncs b) && list_eqb Z.eqb (ro_events a) (ro_events b).

Definition reg_determined (o : outcome) : bool :=
  match o with OGood _ _ _ => true | _ => negb (registered o) end.

Definition corr_reg (c : reg_case) : bool :=
  forallb (fun co => reg_obs_eqb (reg_determined (handle (fst co))) (expected (rc_fired c) (fst co)) (snd co)) (rc_conns c).

(* validated: everything the property demands before synchronisation *)
Definition validated_b (c : conn) : bool :=
  match c_reg c, c_cfg c with
  | RegNow name idx, CfgReply raw => negb (String.eqb name "") && smem idx all_indices && mask_ok_b (wrap32 raw)
  | _, _ => false
  end.

Definition raw_of (c : conn) : Z := match c_cfg c with CfgReply raw => raw | _ => 0 end.
Definition is_nil {A} (l : list A) : bool := match l with [] => true | _ => false end.

(* the property on the implementation's observations: only validated connections are synchronised,
   only well-formed ones are sent events, and every well-formed one — wherever it stands in the
   queue — is synchronised once and sent exactly the fired events it subscribed to *)
Definition holds_conn (fired : list Z) (co : conn * reg_obs) : bool :=
  let '(c, o) := co in
  (ro_syncs o <=? 1)
  && (negb (0 <? ro_syncs o) || validated_b c)
  && (is_nil (ro_events o) || well_formed_b c)
  && (negb (well_formed_b c)
      || ((ro_syncs o =? 1) && list_eqb Z.eqb (ro_events o) (filter (is_set (subscribed (raw_of c))) fired))).

Definition holds_reg (c : reg_case) : bool := forallb (holds_conn (rc_fired c)) (rc_conns c).

(* --- startListener: socket directory and optional listener --- *)
Record sock_case := {
  sk_dont_listen : bool;
  sk_umask : Z;
  sk_started : bool;         (* Start returned nil *)
  sk_modes : list Z;         (* permission bits of every directory Start created *)
  sk_socket : bool;          (* the socket file exists *)
  sk_connect : bool          (* connecting to it succeeds *)
}.

Definition corr_sock (c : sock_case) : bool :=
  match start_listener (sk_dont_listen c) (sk_umask c) with
  | None => sk_started c && is_nil (sk_modes c) && negb (sk_socket c) && negb (sk_connect c)
  | Some m =>
      if sk_started c
      then negb (is_nil (sk_modes c)) && forallb (Z.eqb m) (sk_modes c) && sk_socket c && sk_connect c
      else negb (Z.land (sk_umask c) 448 =? 0)    (* only an umask that takes the owner's own bits may make Start fail *)
  end.

Definition holds_sock (c : sock_case) : bool :=
  forallb private_mode (sk_modes c)
  && (negb (sk_dont_listen c) || (negb (sk_socket c) && negb (sk_connect c))).
