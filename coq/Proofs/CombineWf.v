(* Combination theorems for C03 / C04: the well-formedness predicate (definitions only, no proofs,
   so that a run module can evaluate it on harness cases).

   wf_create c0 rps = every adjustment of the history satisfies
     W7   the key left after stripping one removal marker is itself unmarked
          (annotations, mounts, environment, devices);
     W7=  a plain (unmarked) environment name contains no '=';
     W4   args is not [""] (a removal marker with nothing set);
     W7'  args is not "" :: "" :: _ (the command line left after stripping the marker must not
          itself begin with the marker "").
   Nothing is asked of the original container c0 (W3 is not needed: all families are read as
   first-match maps), and W2 (a response names an item at most once as a set) is not needed either:
   a response violating it conflicts with itself, so it never is part of a conflict-free prefix. *)
From Coq Require Import String Ascii List Bool Arith.
From NRI Require Import Base.Strs Model.Types Model.Result.
Import ListNotations.
Open Scope string_scope.
Open Scope list_scope.

Definition key_ok (k : string) : bool := negb (marked (rawkey k)).

Definition env_ok (e : string * string) : bool :=
  key_ok (fst e) && (marked (fst e) || Nat.eqb (count_char "="%char (fst e)) 0).

Definition args_ok (args : list string) : bool :=
  match args with
  | a0 :: rest =>
      if String.eqb a0 "" then match rest with [] => false | r0 :: _ => negb (String.eqb r0 "") end else true
  | [] => true
  end.

Definition wf_adj (p : adjustment) : bool :=
  forallb (fun e => key_ok (fst e)) (a_ann p) &&
  forallb (fun m => key_ok (m_dest m)) (a_mounts p) &&
  forallb env_ok (a_env p) &&
  forallb (fun d => key_ok (d_path d)) (a_devices p) &&
  args_ok (a_args p).

(* the adjustment of a response; no adjustment = the empty one.  `adjs rps` is convertible with
   `adjs_of rps` of Run/RunAdapt.v (the property files state the theorems with the latter). *)
Definition adj_of (rp : response) : adjustment := match rp_adjust rp with Some a => a | None => adj_empty end.
Definition adjs (rps : list response) : list adjustment := map adj_of rps.

Definition wf_create (c0 : container) (rps : list response) : bool := forallb wf_adj (adjs rps).

(* C04's first theorem (what a plugin is shown = the sequential reference result) needs W4 only *)
Definition args_w4 (args : list string) : bool :=
  match args with
  | [a0] => negb (String.eqb a0 "")
  | _ => true
  end.
Definition wf_views (rps : list response) : bool := forallb (fun p => args_w4 (a_args p)) (adjs rps).
