package main

import (
	"bufio"
	"context"
	"encoding/json"
	"errors"
	"fmt"
	"io"
	"net"
	"os"
	"path/filepath"
	"strconv"
	"strings"
	"sync"
	"time"

	"github.com/containerd/nri/pkg/adaptation"
	"github.com/containerd/nri/pkg/api"
	nrilog "github.com/containerd/nri/pkg/log"
	"github.com/containerd/nri/pkg/net/multiplex"
	"github.com/containerd/nri/pkg/stub"
	"github.com/containerd/ttrpc"
	"github.com/sirupsen/logrus"
	"google.golang.org/grpc/codes"
	"google.golang.org/grpc/status"
	"google.golang.org/protobuf/proto"
)

// Spec describes one case: the runtime's state and the plugin end.
// Pod i / container i carry the id i (printed with a fixed width so that the
// encoded size of an object depends on its padding only) and Pods[i] / Ctrs[i]
// bytes of padding in a label, an annotation or an argument.
type Spec struct {
	Name    string   `json:"name"`
	Pods    []int    `json:"pods,omitempty"`
	Ctrs    []int    `json:"ctrs,omitempty"`
	PodsRLE [][2]int `json:"pods_rle,omitempty"` // [count, padding] runs, expanded into Pods on load
	CtrsRLE [][2]int `json:"ctrs_rle,omitempty"`
	Plugin  string   `json:"plugin"` // raw | stub | stubnh (a real stub.Stub around a plugin without a Synchronize handler)
	// Code: the kind of error the scripts err and errfinal answer with: "" (a plain Go error, gRPC code
	// Unknown on the wire) | resource_exhausted | unavailable | internal (a gRPC status of that code).
	// Once: errfinal fails only the FIRST message not flagged More (stub: the first invocation of the
	// handler); a runtime that wrongly sends the state again then finds a plugin that accepts it.
	Code string `json:"code,omitempty"`
	Once bool   `json:"once,omitempty"`
	// Script of the plugin end: good | badmore | earlyupd | err | errfinal.
	// badmore / earlyupd / err act on message number At (1-based); badmore and
	// earlyupd only when that message is flagged More.  errfinal fails the
	// message that is not flagged More (for a stub: the handler returns an error).
	Script    string            `json:"script"`
	At        int               `json:"at,omitempty"`
	NUpd      int               `json:"nupd"`
	Signature map[string]string `json:"signature,omitempty"`
	// Resync, when set, makes this a case of the resync stream (resync.go): one stub
	// value registering several times; the fields above are then unused.
	Resync *ResyncSpec `json:"resync,omitempty"`
	// Multi, when set, makes this a case of the multi stream: the listed plugin ends register one after
	// the other on ONE Adaptation, each against its own state; the fields above are then unused.
	Multi []*Spec `json:"multi,omitempty"`
	// StallS is set by the driver: seconds without a Synchronize message and without a result after
	// which a synchronisation counts as stalled (driver.go: stallBound).
	StallS int `json:"stall_s,omitempty"`
}

func (s *Spec) expand() {
	for _, r := range s.PodsRLE {
		for i := 0; i < r[0]; i++ {
			s.Pods = append(s.Pods, r[1])
		}
	}
	for _, r := range s.CtrsRLE {
		for i := 0; i < r[0]; i++ {
			s.Ctrs = append(s.Ctrs, r[1])
		}
	}
	s.PodsRLE, s.CtrsRLE = nil, nil
	if s.Plugin == "" {
		s.Plugin = "raw"
	}
	if s.Script == "" {
		s.Script = "good"
	}
}

// Msg is one Synchronize message as the plugin end received it.
type Msg struct {
	PodRuns [][2]int `json:"pr"` // (first id, count) runs of consecutive ascending ids, in arrival order
	CtrRuns [][2]int `json:"cr"`
	NP      int      `json:"np"`
	NC      int      `json:"nc"`
	More    bool     `json:"more"`
	Size    int      `json:"size"` // proto.Size of the request
}

// Obs is what one case showed.
type Obs struct {
	WP       []int `json:"wp"` // measured proto.Size weight of every pod / container inside a request
	WC       []int `json:"wc"`
	Hdr      int   `json:"hdr"`       // encoded ttrpc request envelope without the payload field
	MoreCost int   `json:"more_cost"` // encoded size of More=true
	Limit    int   `json:"limit"`     // ttrpc's maximum message length

	Msgs    []Msg  `json:"msgs"`
	Outcome string `json:"outcome"` // delivered | failed | crashed | livelock | stalled
	SyncErr string `json:"sync_err,omitempty"`

	HandlerCalls   int      `json:"handler_calls"` // stub plugin: invocations of the Synchronize handler
	HandlerPodRuns [][2]int `json:"hpr"`           // arguments of the first invocation
	HandlerCtrRuns [][2]int `json:"hcr"`
	Invocations    []HCall  `json:"invocations"` // stub plugin: every invocation with what it saw, in order
	GotUpd         []int    `json:"got_upd"` // updates the runtime's sync call-back was handed
	Active         bool     `json:"active"`  // the plugin received the event sent after registration
	Millis         int64    `json:"ms"`
	Crash          string   `json:"crash,omitempty"`
	// the plugin end's registration call returned an error after the runtime had already reported
	// a failed synchronisation (see errRegister)
	RegReplyLost bool `json:"reg_reply_lost,omitempty"`
	// Usable: after the registration the runtime's plugin-sync lock was free again (BlockPluginSync
	// returned within UsableBoundS seconds), i.e. the next plugin can register
	Usable       bool `json:"usable"`
	UsableBoundS int  `json:"usable_bound_s,omitempty"`
	StallS       int  `json:"stall_s,omitempty"` // stalled: the bound that was applied
	// Exit: goroutines of the implementation are left spinning or blocked in this process; the worker
	// exits after this reply and the driver starts a fresh one
	Exit bool `json:"exit,omitempty"`
}

const (
	idWidth        = 7
	requestTimeout = 1200 * time.Second // see hdrLen: keeps the encoded deadline at a fixed width
	regTimeout     = 120 * time.Second
)

var bigPad = strings.Repeat("x", 6<<20)

func podID(i int) string { return fmt.Sprintf("p%0*d", idWidth, i) }
func ctrID(i int) string { return fmt.Sprintf("c%0*d", idWidth, i) }

func parseID(prefix byte, s string) int {
	if len(s) != idWidth+1 || s[0] != prefix {
		return -1
	}
	n, err := strconv.Atoi(s[1:])
	if err != nil {
		return -1
	}
	return n
}

func buildState(sp *Spec) ([]*api.PodSandbox, []*api.Container) {
	return buildStateAt(0, sp.Pods, sp.Ctrs)
}

// buildStateAt builds a state whose pods and containers carry the ids base, base+1, ...
func buildStateAt(base int, podPads, ctrPads []int) ([]*api.PodSandbox, []*api.Container) {
	pods := make([]*api.PodSandbox, len(podPads))
	for i, pad := range podPads {
		p := &api.PodSandbox{Id: podID(base + i), Name: "pod", Uid: "u", Namespace: "ns"}
		if pad > 0 {
			if i%2 == 0 {
				p.Annotations = map[string]string{"pad": bigPad[:pad]}
			} else {
				p.Labels = map[string]string{"pad": bigPad[:pad]}
			}
		}
		pods[i] = p
	}
	ctrs := make([]*api.Container, len(ctrPads))
	for i, pad := range ctrPads {
		c := &api.Container{Id: ctrID(base + i), PodSandboxId: podID(0), Name: "ctr", State: api.ContainerState_CONTAINER_RUNNING}
		if pad > 0 {
			switch i % 3 {
			case 0:
				c.Labels = map[string]string{"pad": bigPad[:pad]}
			case 1:
				c.Annotations = map[string]string{"pad": bigPad[:pad]}
			default:
				c.Args = []string{bigPad[:pad]}
			}
		}
		ctrs[i] = c
	}
	return pods, ctrs
}

// runs compresses a list of ids into (first, count) runs of consecutive ascending ids.
func runs(ids []int) [][2]int {
	out := [][2]int{}
	for _, id := range ids {
		if n := len(out); n > 0 && out[n-1][0]+out[n-1][1] == id && id >= 0 {
			out[n-1][1]++
			continue
		}
		out = append(out, [2]int{id, 1})
	}
	return out
}

func podRuns(l []*api.PodSandbox) [][2]int {
	ids := make([]int, len(l))
	for i, p := range l {
		ids[i] = parseID('p', p.GetId())
	}
	return runs(ids)
}

func ctrRuns(l []*api.Container) [][2]int {
	ids := make([]int, len(l))
	for i, c := range l {
		ids[i] = parseID('c', c.GetId())
	}
	return runs(ids)
}

// hdrLen is the encoded length of the ttrpc request envelope of a Synchronize
// call without its payload field.  The envelope carries the remaining time of
// the call as a varint; the request time-out of the harness is chosen so that
// its width cannot change while a call is younger than 19 minutes.
func hdrLen() int {
	return proto.Size(&ttrpc.Request{Service: "nri.pkg.api.v1alpha1.Plugin", Method: "Synchronize", TimeoutNano: requestTimeout.Nanoseconds()})
}

func maxMsgLen() int { return (&ttrpc.OversizedMessageErr{}).MaximumLength() }

// recorder is shared by both plugin ends.
type recorder struct {
	sync.Mutex
	last     time.Time // arrival of the latest Synchronize message
	sp       *Spec
	bound    int
	msgs     []Msg
	livelock bool
	probe    bool
	calls    int
	hpr, hcr [][2]int
	invs     []HCall
	finals   int // raw plugin: messages not flagged More received so far
}

func (r *recorder) record(req *api.SynchronizeRequest) (n int, over bool) {
	r.Lock()
	defer r.Unlock()
	r.last = time.Now()
	if len(r.msgs) >= r.bound {
		r.livelock = true
		return len(r.msgs) + 1, true
	}
	r.msgs = append(r.msgs, Msg{PodRuns: podRuns(req.Pods), CtrRuns: ctrRuns(req.Containers),
		NP: len(req.Pods), NC: len(req.Containers), More: req.More, Size: proto.Size(req)})
	return len(r.msgs), false
}

func updates(n int) []*api.ContainerUpdate {
	var out []*api.ContainerUpdate
	for i := 0; i < n; i++ {
		out = append(out, &api.ContainerUpdate{ContainerId: ctrID(i)})
	}
	return out
}

var errScript = errors.New("verif: scripted plugin failure")

// scriptErr is the error the scripts err and errfinal answer with (Spec.Code).
func scriptErr(sp *Spec) error {
	switch sp.Code {
	case "resource_exhausted":
		return status.Error(codes.ResourceExhausted, "verif: scripted plugin failure (busy)")
	case "unavailable":
		return status.Error(codes.Unavailable, "verif: scripted plugin failure (unavailable)")
	case "internal":
		return status.Error(codes.Internal, "verif: scripted plugin failure (internal)")
	}
	return errScript
}

// errRegister: the plugin end's RegisterPlugin call (raw plugin) or Start (stub) returned an error.
// The runtime answers RegisterPlugin and goes on to configure and synchronise the plugin at once; when
// the synchronisation fails it closes the connection, and a plugin end that was slow to read the answer
// to RegisterPlugin sees "ttrpc: closed" instead.  runCase accepts this only when the runtime's sync
// call-back did report a failed synchronisation.
var errRegister = errors.New("registration call failed")
var errBound = errors.New("verif: more Synchronize messages than the proved bound")

// ---------------------------------------------------------------- raw scripted plugin

type rawPlugin struct{ rec *recorder }

func (p *rawPlugin) Configure(context.Context, *api.ConfigureRequest) (*api.ConfigureResponse, error) {
	return &api.ConfigureResponse{}, nil
}

func (p *rawPlugin) Synchronize(_ context.Context, req *api.SynchronizeRequest) (*api.SynchronizeResponse, error) {
	n, over := p.rec.record(req)
	if over {
		return nil, errBound
	}
	sp := p.rec.sp
	switch sp.Script {
	case "err":
		if n == sp.At {
			return nil, scriptErr(sp)
		}
	case "errfinal":
		if !req.More {
			p.rec.Lock()
			p.rec.finals++
			first := p.rec.finals == 1
			p.rec.Unlock()
			if first || !sp.Once {
				return nil, scriptErr(sp)
			}
		}
	case "badmore":
		if req.More && n == sp.At {
			return &api.SynchronizeResponse{More: false}, nil
		}
	case "earlyupd":
		if req.More && n == sp.At {
			return &api.SynchronizeResponse{More: true, Update: updates(1)}, nil
		}
	}
	if req.More {
		return &api.SynchronizeResponse{More: true}, nil
	}
	return &api.SynchronizeResponse{Update: updates(sp.NUpd)}, nil
}

func (p *rawPlugin) Shutdown(context.Context, *api.Empty) (*api.Empty, error) {
	return &api.Empty{}, nil
}
func (p *rawPlugin) CreateContainer(context.Context, *api.CreateContainerRequest) (*api.CreateContainerResponse, error) {
	return &api.CreateContainerResponse{}, nil
}
func (p *rawPlugin) UpdateContainer(context.Context, *api.UpdateContainerRequest) (*api.UpdateContainerResponse, error) {
	return &api.UpdateContainerResponse{}, nil
}
func (p *rawPlugin) StopContainer(context.Context, *api.StopContainerRequest) (*api.StopContainerResponse, error) {
	return &api.StopContainerResponse{}, nil
}
func (p *rawPlugin) UpdatePodSandbox(context.Context, *api.UpdatePodSandboxRequest) (*api.UpdatePodSandboxResponse, error) {
	return &api.UpdatePodSandboxResponse{}, nil
}
func (p *rawPlugin) StateChange(_ context.Context, evt *api.StateChangeEvent) (*api.Empty, error) {
	if evt.GetPod().GetId() == "probe" {
		p.rec.Lock()
		p.rec.probe = true
		p.rec.Unlock()
	}
	return &api.Empty{}, nil
}

// startRaw connects the way pkg/stub does: trunk, mux, plugin service on the
// plugin connection, runtime client on the runtime connection, RegisterPlugin.
func startRaw(sock, name string, rec *recorder) (func(), error) {
	conn, err := net.Dial("unix", sock)
	if err != nil {
		return nil, err
	}
	mux := multiplex.Multiplex(conn)
	l, err := mux.Listen(multiplex.PluginServiceConn)
	if err != nil {
		mux.Close()
		return nil, err
	}
	srv, err := ttrpc.NewServer()
	if err != nil {
		mux.Close()
		return nil, err
	}
	api.RegisterPluginService(srv, &rawPlugin{rec: rec})
	cconn, err := mux.Open(multiplex.RuntimeServiceConn)
	if err != nil {
		mux.Close()
		return nil, err
	}
	client := ttrpc.NewClient(cconn)
	go srv.Serve(context.Background(), l)
	stop := func() {
		client.Close()
		srv.Close()
		l.Close()
		mux.Close()
	}
	ctx, cancel := context.WithTimeout(context.Background(), regTimeout)
	defer cancel()
	if _, err := api.NewRuntimeClient(client).RegisterPlugin(ctx, &api.RegisterPluginRequest{PluginName: name, PluginIdx: "10"}); err != nil {
		// the caller decides: when the synchronisation has failed meanwhile, the runtime has closed
		// the connection, possibly before the answer to RegisterPlugin was read (errRegister)
		return stop, fmt.Errorf("%w: %v", errRegister, err)
	}
	return stop, nil
}

// ---------------------------------------------------------------- real stub plugin

type stubPlugin struct{ rec *recorder }

func (p *stubPlugin) Synchronize(_ context.Context, pods []*api.PodSandbox, ctrs []*api.Container) ([]*api.ContainerUpdate, error) {
	r := p.rec
	r.Lock()
	r.calls++
	first := r.calls == 1
	if first {
		r.hpr, r.hcr = podRuns(pods), ctrRuns(ctrs)
	}
	r.invs = append(r.invs, HCall{PodRuns: podRuns(pods), CtrRuns: ctrRuns(ctrs)})
	r.Unlock()
	if r.sp.Script == "errfinal" && (first || !r.sp.Once) {
		return nil, scriptErr(r.sp)
	}
	return updates(r.sp.NUpd), nil
}

// eventsOnlyPlugin implements an event handler and nothing else: a real stub.Stub around it has no
// Synchronize handler (Spec.Plugin "stubnh").
type eventsOnlyPlugin struct{ rec *recorder }

func (p *eventsOnlyPlugin) RunPodSandbox(_ context.Context, pod *api.PodSandbox) error {
	if pod.GetId() == "probe" {
		p.rec.Lock()
		p.rec.probe = true
		p.rec.Unlock()
	}
	return nil
}

func (p *stubPlugin) RunPodSandbox(_ context.Context, pod *api.PodSandbox) error {
	if pod.GetId() == "probe" {
		p.rec.Lock()
		p.rec.probe = true
		p.rec.Unlock()
	}
	return nil
}

func startStub(sock, name string, rec *recorder) (func(), error) {
	// every Synchronize message is logged before the stub sees it
	icpt := func(ctx context.Context, unmarshal ttrpc.Unmarshaler, info *ttrpc.UnaryServerInfo, method ttrpc.Method) (interface{}, error) {
		if !strings.HasSuffix(info.FullMethod, "/Synchronize") {
			return method(ctx, unmarshal)
		}
		over := false
		um := func(i interface{}) error {
			err := unmarshal(i)
			if req, ok := i.(*api.SynchronizeRequest); ok && err == nil {
				_, over = rec.record(req)
				if over {
					return errBound
				}
			}
			return err
		}
		return method(ctx, um)
	}
	var plugin interface{} = &stubPlugin{rec: rec}
	if rec.sp.Plugin == "stubnh" {
		plugin = &eventsOnlyPlugin{rec: rec} // no Synchronize handler: the stub answers the messages itself
	}
	st, err := stub.New(plugin,
		stub.WithSocketPath(sock), stub.WithPluginName(name), stub.WithPluginIdx("10"),
		stub.WithOnClose(func() {}),
		stub.WithTTRPCOptions(nil, []ttrpc.ServerOpt{ttrpc.WithUnaryServerInterceptor(icpt)}))
	if err != nil {
		return nil, err
	}
	if err := st.Start(context.Background()); err != nil {
		return st.Stop, fmt.Errorf("%w: stub start: %v", errRegister, err)
	}
	return st.Stop, nil
}

// ---------------------------------------------------------------- watching a registration

// waitSync waits for the result the runtime's sync call-back reports.  stalled = neither a result nor a
// new Synchronize message at the plugin end for the whole bound (the runtime is still inside synchronize).
func waitSync(done chan syncResult, lastMsg func() time.Time, bound time.Duration) (res syncResult, stalled bool) {
	start := time.Now()
	tick := time.NewTicker(100 * time.Millisecond)
	defer tick.Stop()
	for {
		select {
		case res = <-done:
			return res, false
		case <-tick.C:
			ref := lastMsg()
			if ref.Before(start) {
				ref = start
			}
			if time.Since(ref) > bound {
				return res, true
			}
		}
	}
}

// wedges counts, in this worker, registrations after which the plugin-sync lock was not released.
var wedges int

// usableBound: the lock is released a few instructions after the sync call-back returns; the first
// three misses get 15 s each, later ones 3 s.
func usableBound() time.Duration {
	if wedges < 3 {
		return 15 * time.Second
	}
	return 3 * time.Second
}

// syncLockFree says whether BlockPluginSync returns within the bound: registration is finished (plugin
// appended or dropped) and the next plugin can register once the sync lock is free again.  A goroutine
// stays blocked in this process when it does not (it holds nothing).
func syncLockFree(r *adaptation.Adaptation) (bool, int) {
	bound := usableBound()
	free := make(chan struct{})
	go func() {
		r.BlockPluginSync().Unblock()
		close(free)
	}()
	select {
	case <-free:
		return true, int(bound.Seconds())
	case <-time.After(bound):
		wedges++
		return false, int(bound.Seconds())
	}
}

func stallOf(s int) time.Duration {
	if s <= 0 {
		s = 240
	}
	return time.Duration(s) * time.Second
}

// ---------------------------------------------------------------- one case

type syncResult struct {
	upd []*api.ContainerUpdate
	err error
}

func runCase(dir string, k int, sp *Spec) (*Obs, error) {
	obs, err := runSeq(dir, k, []*Spec{sp})
	if err != nil {
		return nil, err
	}
	return obs[0], nil
}

// runSeq runs the registrations of specs one after the other on ONE adaptation.Adaptation, every
// plugin end staying connected until the end; registration j is synchronised against the state of
// specs[j].  The list of observations is shorter than specs when a registration stalled.
func runSeq(dir string, k int, specs []*Spec) ([]*Obs, error) {
	sock := filepath.Join(dir, fmt.Sprintf("s%d.sock", k))
	defer os.Remove(sock)
	var (
		stateLock sync.Mutex
		pods      []*api.PodSandbox
		ctrs      []*api.Container
	)
	done := make(chan syncResult, 4)
	syncFn := func(ctx context.Context, cb adaptation.SyncCB) error {
		stateLock.Lock()
		ps, cs := pods, ctrs
		stateLock.Unlock()
		upd, err := cb(ctx, ps, cs)
		done <- syncResult{upd, err}
		return err
	}
	updateFn := func(context.Context, []*api.ContainerUpdate) ([]*api.ContainerUpdate, error) { return nil, nil }
	empty := filepath.Join(dir, "empty")
	r, err := adaptation.New("verif", "1", syncFn, updateFn,
		adaptation.WithSocketPath(sock), adaptation.WithPluginPath(empty), adaptation.WithPluginConfigPath(empty))
	if err != nil {
		return nil, fmt.Errorf("adaptation.New: %w", err)
	}
	if err := r.Start(); err != nil {
		return nil, fmt.Errorf("adaptation.Start: %w", err)
	}
	poisoned := false // a goroutine of the runtime is left spinning: no orderly shutdown, the worker exits
	var stops []func()
	defer func() {
		if !poisoned {
			for i := len(stops) - 1; i >= 0; i-- {
				if stops[i] != nil {
					stops[i]()
				}
			}
			r.Stop()
		}
	}()
	// the pre-installed (none) plugins were synchronised by Start: drop that result
	select {
	case <-done:
	default:
	}

	var out []*Obs
	for j, sp := range specs {
		t0 := time.Now()
		ps, cs := buildState(sp)
		o := &Obs{Hdr: hdrLen(), Limit: maxMsgLen(), MoreCost: proto.Size(&api.SynchronizeRequest{More: true}),
			WP: make([]int, len(ps)), WC: make([]int, len(cs)), Msgs: []Msg{}, GotUpd: []int{}}
		for i, p := range ps {
			o.WP[i] = proto.Size(&api.SynchronizeRequest{Pods: []*api.PodSandbox{p}})
		}
		for i, c := range cs {
			o.WC[i] = proto.Size(&api.SynchronizeRequest{Containers: []*api.Container{c}})
		}
		stateLock.Lock()
		pods, ctrs = ps, cs
		stateLock.Unlock()
		out = append(out, o)

		rec := &recorder{sp: sp, bound: 2*(len(ps)+len(cs)) + 1}
		lastMsg := func() time.Time {
			rec.Lock()
			defer rec.Unlock()
			return rec.last
		}
		name := sp.Plugin
		if len(specs) > 1 {
			name = fmt.Sprintf("%s%d", sp.Plugin, j+1)
		}
		var stop func()
		if sp.Plugin == "stub" || sp.Plugin == "stubnh" {
			stop, err = startStub(sock, name, rec)
		} else {
			stop, err = startRaw(sock, name, rec)
		}
		var res syncResult
		if err != nil {
			if !errors.Is(err, errRegister) {
				return nil, fmt.Errorf("registration %d: plugin start: %w", j+1, err)
			}
			stops = append(stops, stop)
			select {
			case res = <-done:
				if res.err == nil {
					return nil, fmt.Errorf("registration %d: plugin start: %w (although the synchronisation succeeded)", j+1, err)
				}
				o.RegReplyLost = true
			case <-time.After(regTimeout):
				return nil, fmt.Errorf("registration %d: plugin start: %w (and no synchronisation result)", j+1, err)
			}
		} else {
			stops = append(stops, stop)
			var stalled bool
			if res, stalled = waitSync(done, lastMsg, stallOf(sp.StallS)); stalled {
				// the runtime is still inside synchronize: nothing more can be asked of it
				poisoned = true
				rec.Lock()
				o.Msgs = append(o.Msgs, rec.msgs...)
				o.HandlerCalls, o.HandlerPodRuns, o.HandlerCtrRuns, o.Invocations = rec.calls, rec.hpr, rec.hcr, append([]HCall{}, rec.invs...)
				rec.Unlock()
				o.Outcome, o.StallS, o.Exit = "stalled", int(stallOf(sp.StallS).Seconds()), true
				o.Millis = time.Since(t0).Milliseconds()
				return out, nil
			}
		}
		// registration is finished (plugin appended or dropped) once the sync lock is free again
		o.Usable, o.UsableBoundS = syncLockFree(r)
		ctx, cancel := context.WithTimeout(context.Background(), regTimeout)
		perr := r.RunPodSandbox(ctx, &api.StateChangeEvent{Pod: &api.PodSandbox{Id: "probe"}})
		cancel()
		if perr != nil {
			return nil, fmt.Errorf("registration %d: probe event: %w", j+1, perr)
		}

		rec.Lock()
		o.Msgs = append(o.Msgs, rec.msgs...)
		o.HandlerCalls, o.HandlerPodRuns, o.HandlerCtrRuns, o.Invocations = rec.calls, rec.hpr, rec.hcr, append([]HCall{}, rec.invs...)
		o.Active = rec.probe
		switch {
		case rec.livelock:
			o.Outcome = "livelock"
		case res.err != nil:
			o.Outcome = "failed"
			o.SyncErr = res.err.Error()
		default:
			o.Outcome = "delivered"
		}
		rec.Unlock()
		for _, u := range res.upd {
			o.GotUpd = append(o.GotUpd, parseID('c', u.GetContainerId()))
		}
		o.Millis = time.Since(t0).Milliseconds()
		if !o.Usable {
			break // the next registration would only block behind the plugin-sync lock
		}
	}
	return out, nil
}

type silent struct{}

func (silent) Debugf(context.Context, string, ...interface{}) {}
func (silent) Infof(context.Context, string, ...interface{})  {}
func (silent) Warnf(context.Context, string, ...interface{})  {}
func (silent) Errorf(context.Context, string, ...interface{}) {}

// workerMain: one Spec per input line, one {"obs":…} or {"error":…} per output line.
func workerMain() {
	nrilog.Set(silent{})
	logrus.SetOutput(io.Discard)
	adaptation.SetPluginRegistrationTimeout(regTimeout)
	adaptation.SetPluginRequestTimeout(requestTimeout)
	dir, err := os.MkdirTemp("", "hsync")
	if err != nil {
		fmt.Fprintln(os.Stderr, "worker:", err)
		os.Exit(4)
	}
	defer os.RemoveAll(dir)
	os.Mkdir(filepath.Join(dir, "empty"), 0o755)
	in := bufio.NewReaderSize(os.Stdin, 1<<20)
	out := bufio.NewWriter(os.Stdout)
	for k := 0; ; k++ {
		line, err := in.ReadBytes('\n')
		if len(line) == 0 && err != nil {
			break
		}
		var sp Spec
		var reply struct {
			Obs   *Obs       `json:"obs,omitempty"`
			RObs  *ResyncObs `json:"robs,omitempty"`
			MObs  []*Obs     `json:"mobs,omitempty"`
			Error string     `json:"error,omitempty"`
		}
		var probe struct {
			Resync *ResyncSpec `json:"resync"`
			Multi  []*Spec     `json:"multi"`
			StallS int         `json:"stall_s"`
		}
		if e := json.Unmarshal(line, &probe); e == nil && probe.Resync != nil {
			probe.Resync.expand()
			o, e := runResync(dir, k, probe.Resync, stallOf(probe.StallS))
			if e != nil {
				reply.Error = e.Error()
			} else {
				reply.RObs = o
			}
		} else if e == nil && len(probe.Multi) > 0 {
			for _, m := range probe.Multi {
				m.expand()
				m.StallS = probe.StallS
			}
			o, e := runSeq(dir, k, probe.Multi)
			if e != nil {
				reply.Error = e.Error()
			} else {
				reply.MObs = o
			}
		} else if e := json.Unmarshal(line, &sp); e != nil {
			reply.Error = "bad spec: " + e.Error()
		} else {
			sp.expand()
			o, e := runCase(dir, k, &sp)
			if e != nil {
				reply.Error = e.Error()
			} else {
				reply.Obs = o
			}
		}
		js, _ := json.Marshal(&reply)
		out.Write(js)
		out.WriteByte('\n')
		out.Flush()
		if (reply.Obs != nil && reply.Obs.Exit) || (reply.RObs != nil && reply.RObs.Exit) || (len(reply.MObs) > 0 && reply.MObs[len(reply.MObs)-1].Exit) {
			os.RemoveAll(dir)
			os.Exit(0)
		}
		if err != nil {
			break
		}
	}
	os.RemoveAll(dir)
}
