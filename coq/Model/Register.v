(* C17 — model of external plugin registration:
     pkg/api/plugin.go        CheckPluginIndex
     pkg/adaptation/plugin.go RegisterPlugin (name, index), start (registration raced against a
                              time-out), configure (event mask validation)
     pkg/adaptation/adaptation.go  acceptPluginConnections (the sequential accept loop),
                              startListener (optional listener, socket directory mode), sortPlugins.
   Time-outs are modelled by their outcome (a script that is silent or late runs into the
   time-out); the clock itself is observed by the harness, not modelled. *)
From Coq Require Import String Ascii List Bool ZArith NArith.
From NRI Require Import Base.Strs Model.Consts Model.Event Model.RegConsts.
Import ListNotations.
Open Scope string_scope.
Open Scope list_scope.
Open Scope Z_scope.

(* ---- api.CheckPluginIndex: len(idx) == 2 and both bytes in '0'..'9' ---- *)
Definition is_digit (c : ascii) : bool :=
  let n := N_of_ascii c in (N.leb 48 n && N.leb n 57)%bool.

Definition check_index (idx : string) : bool :=
  match idx with
  | String a (String b EmptyString) => is_digit a && is_digit b
  | _ => false
  end.

(* ---- plugin.RegisterPlugin for an external plugin: the name is checked first ---- *)
Inductive reg_error := RegEmptyName | RegBadIndex.

Definition register_plugin (name idx : string) : option reg_error :=
  if String.eqb name "" then Some RegEmptyName
  else if check_index idx then None
  else Some RegBadIndex.

(* ---- plugin.configure: events := EventMask(rpl.Events), an int32 ---- *)
Definition wrap32 (z : Z) : Z := (z + 2 ^ 31) mod 2 ^ 32 - 2 ^ 31.

(* inl = the mask the plugin is subscribed with, inr = the offending extra bits.
   [events &^ ValidEvents] on two int32 values is Z.land with the complement in two's
   complement; the result of Z.land on two values of the int32 range is in the range. *)
Definition configure_events (raw : Z) : Z + Z :=
  let events := wrap32 raw in
  if events =? 0 then inl valid_events
  else
    let extra := Z.land events (Z.lnot valid_events) in
    if extra =? 0 then inl events else inr extra.

(* ---- what a connecting peer does (the script of one connection) ---- *)
Inductive reg_script :=
| RegNever                              (* never calls RegisterPlugin *)
| RegLate (name idx : string)           (* calls it after the registration time-out has expired *)
| RegClose                              (* closes the connection without registering *)
| RegNow (name idx : string).           (* calls it at once *)

Inductive cfg_script :=
| CfgSilent                             (* never answers Configure *)
| CfgError                              (* answers with an error *)
| CfgClose                              (* closes the connection instead of answering *)
| CfgReply (events : Z).                (* answers with this raw int32 *)

Inductive sync_script :=
| SyncOk
| SyncError                             (* answers Synchronize with an error *)
| SyncSilent.                           (* never answers Synchronize *)

Record conn := { c_reg : reg_script; c_cfg : cfg_script; c_sync : sync_script }.

(* plugin.start: after unblocking the connection it waits for the registration result, a close of the
   connection, or time.After(getPluginRegistrationTimeout()).  A peer that calls RegisterPlugin [at]
   milliseconds after the runtime started serving its connection, under a registration time-out [t_reg] and
   a request time-out [t_req] (both in ms): the deadline of this phase is the REGISTRATION time-out; the
   request time-out bounds Configure, Synchronize and the requests, not this wait. *)
Definition reg_at (t_reg t_req at_ms : Z) (name idx : string) : reg_script :=
  if at_ms <? t_reg then RegNow name idx else RegLate name idx.

Definition timed_conn (t_reg t_req at_ms : Z) (name idx : string) (cfg : cfg_script) (sy : sync_script) : conn :=
  {| c_reg := reg_at t_reg t_req at_ms name idx; c_cfg := cfg; c_sync := sy |}.

Inductive outcome :=
| ORegTimeout                           (* "plugin registration timed out" *)
| OConnClosed                           (* "failed to register plugin, connection closed" *)
| OBadName                              (* "invalid (empty) plugin name" *)
| OBadIndex                             (* "invalid plugin index" *)
| OReqTimeout                           (* Configure ran into the request time-out *)
| OCfgError                             (* Configure failed *)
| OBadMask (extra : Z)                  (* "invalid plugin events" *)
| OSyncFailed                           (* syncFn returned an error: not activated *)
| OGood (name idx : string) (events : Z).

(* plugin.start followed by the synchronisation of acceptPluginConnections *)
Definition handle (c : conn) : outcome :=
  match c_reg c with
  | RegNever | RegLate _ _ => ORegTimeout
  | RegClose => OConnClosed
  | RegNow name idx =>
      match register_plugin name idx with
      | Some RegEmptyName => OBadName
      | Some RegBadIndex => OBadIndex
      | None =>
          match c_cfg c with
          | CfgSilent => OReqTimeout
          | CfgError | CfgClose => OCfgError
          | CfgReply raw =>
              match configure_events raw with
              | inr extra => OBadMask extra
              | inl events =>
                  match c_sync c with
                  | SyncOk => OGood name idx events
                  | SyncError | SyncSilent => OSyncFailed
                  end
              end
          end
      end
  end.

(* ---- the active plugins and the accept loop ---- *)
Record plugin := { pl_name : string; pl_idx : string; pl_events : Z }.

(* sortPlugins: by index (Go's sort.Slice is not stable; only Sorted + Permutation is relied upon) *)
Fixpoint insert_plugin (p : plugin) (l : list plugin) : list plugin :=
  match l with
  | [] => [p]
  | q :: r => if String.ltb (pl_idx p) (pl_idx q) then p :: l else q :: insert_plugin p r
  end.
Definition sort_plugins (l : list plugin) : list plugin := fold_right insert_plugin [] l.

Definition activate (active : list plugin) (o : outcome) : list plugin :=
  match o with
  | OGood name idx events => sort_plugins (active ++ [{| pl_name := name; pl_idx := idx; pl_events := events |}])
  | _ => active                         (* log the error; continue with the next connection *)
  end.

(* for { conn := l.Accept(); ... } over the connections in arrival order *)
Fixpoint accept_loop (active : list plugin) (conns : list conn) : list plugin * list outcome :=
  match conns with
  | [] => (active, [])
  | c :: r =>
      let o := handle c in
      let '(a, os) := accept_loop (activate active o) r in
      (a, o :: os)
  end.

Definition activated (conns : list conn) : list plugin := fst (accept_loop [] conns).
Definition outcomes (conns : list conn) : list outcome := snd (accept_loop [] conns).

(* how long the accept loop is kept busy by one connection beyond ordinary request latency *)
Definition stall (treg treq : Z) (o : outcome) : Z :=
  match o with
  | ORegTimeout => treg
  | OReqTimeout | OSyncFailed => treq
  | _ => 0
  end.

(* which of the fired events a plugin subscribed with mask [events] is sent *)
Definition delivered (events : Z) (fired : list Z) : list Z := filter (is_set events) fired.

(* ---- startListener ---- *)
(* mode of every directory os.MkdirAll(dir, socket_dir_mode) creates under the process umask *)
Definition dir_mode (umask : Z) : Z := Z.land socket_dir_mode (Z.lnot umask).

(* None: nothing is created and nothing listens *)
Definition start_listener (dont_listen : bool) (umask : Z) : option Z :=
  if (dont_listen && listener_guarded)%bool then None else Some (dir_mode umask).
