(* Proofs about Model/Result.v. *)
From Coq Require Import String Ascii List Bool ZArith Arith Lia.
From NRI Require Import Base.Lists Base.Strs Base.Assoc Model.Types Model.Result Spec.Apply Spec.AbsLedger Spec.Updates.
Import ListNotations.
Open Scope string_scope.
Open Scope list_scope.

(* the plugin loop records one view per asked plugin, the first being the runtime's own request *)
Lemma run_plugins_views rps s views :
  exists more, fst (run_plugins rps s views) = views ++ more /\
               (rps <> [] -> exists rest, more = view_of s :: rest).
Proof.
  revert s views. induction rps as [|rp r IH]; intros s views; cbn [run_plugins].
  - exists []. split; [rewrite app_nil_r; reflexivity|]. intros H; contradiction.
  - destruct (apply_response rp s) as [s'|e].
    + destruct (IH s' (views ++ [view_of s])) as [more [Hm _]].
      exists (view_of s :: more). split; [rewrite Hm, <- app_assoc; reflexivity|]. intros _. eexists; reflexivity.
    + exists [view_of s]. split; [reflexivity|]. intros _. eexists; reflexivity.
Qed.

Lemma first_view rq rp rps :
  exists rest, fst (run_request rq (rp :: rps)) = view_of (init_state rq) :: rest.
Proof.
  unfold run_request. destruct (run_plugins_views (rp :: rps) (init_state rq) []) as [more [Hm Hf]].
  destruct Hf as [rest ->]; [discriminate|]. exists rest. exact Hm.
Qed.

(* an update that targets the container being created fails the request, also when marked ignore-failure *)
Lemma self_update_rejected u s c :
  s_create s = Some c -> u_id u = c_id c -> update_one u s = Err (ESelfUpdate (u_id u)).
Proof.
  intros Hc Hid. unfold update_one. rewrite Hc, Hid, String.eqb_refl. reflexivity.
Qed.

Lemma update_all_self us1 u us2 s c :
  s_create s = Some c -> u_id u = c_id c ->
  (forall s', update_all us1 s = Ok s' -> s_create s' = Some c) ->
  exists e, update_all (us1 ++ u :: us2) s = Err e.
Proof.
  intros Hc Hid Hkeep. revert s Hc Hkeep. induction us1 as [|x r IH]; intros s Hc Hkeep; cbn [app update_all].
  - rewrite (self_update_rejected u s c Hc Hid). eexists; reflexivity.
  - destruct (update_one x s) as [s1|e] eqn:E; cbn [bind]; [|eexists; reflexivity].
    apply IH.
    + unfold update_one in E. rewrite Hc in E.
      destruct (String.eqb (c_id c) (u_id x)); [discriminate|].
      destruct (u_res x); [|inversion E; reflexivity].
      destruct (merge_resources _ _ _ _) as [[r'|e'] o']; [inversion E; reflexivity|].
      destruct (u_ignore x); inversion E; reflexivity.
    + intros s' Hs'. apply Hkeep. cbn [update_all]. rewrite E. exact Hs'.
Qed.

(* update_one never changes which container is being created *)
Lemma update_one_create u s s' : update_one u s = Ok s' -> s_create s' = s_create s.
Proof.
  unfold update_one. destruct (match s_create s with Some c => _ | None => false end); [discriminate|].
  destruct (u_res u); [|intros H; inversion H; reflexivity].
  destruct (merge_resources _ _ _ _) as [[r'|e'] o']; [intros H; inversion H; reflexivity|].
  destruct (u_ignore u); intros H; inversion H; reflexivity.
Qed.

Lemma update_all_create us s s' : update_all us s = Ok s' -> s_create s' = s_create s.
Proof.
  revert s. induction us as [|u r IH]; cbn [update_all]; intros s H; [inversion H; reflexivity|].
  destruct (update_one u s) as [s1|e] eqn:E; cbn [bind] in H; [|discriminate].
  rewrite (IH _ H). apply (update_one_create _ _ _ E).
Qed.

Theorem self_update_fails us1 u us2 s c :
  s_create s = Some c -> u_id u = c_id c -> exists e, update_all (us1 ++ u :: us2) s = Err e.
Proof.
  intros Hc Hid. apply (update_all_self us1 u us2 s c Hc Hid).
  intros s' Hs'. rewrite (update_all_create _ _ _ Hs'). exact Hc.
Qed.
