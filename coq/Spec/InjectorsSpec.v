(* Reference reading of C20's statement: which annotation applies, and what exactly it produces.
   Written directly (nested look-ups, all-or-nothing checks), not with the plugins' loops.  No proofs here. *)
From Coq Require Import String Ascii List Bool ZArith.
From NRI Require Import Base.Strs Base.Assoc Model.InjConsts Model.Injectors.
Import ListNotations.
Open Scope string_scope.

(* "the pod annotation that most specifically names that container": container-scoped before pod-scoped before
   the bare key *)
Definition spec_pick (ann : annotations) (main ctr : string) : option string :=
  match alookup (main ++ "/container." ++ ctr) ann with
  | Some v => Some v
  | None => match alookup (main ++ "/pod") ann with
            | Some v => Some v
            | None => alookup main ann
            end
  end.

(* no annotation: nothing to inject; an annotation: what it decodes to (None = malformed) *)
Definition spec_payload {P} (dec : string -> option (list P)) (sel : option string) : option (list P) :=
  match sel with None => Some [] | Some v => dec v end.

Definition spec_injector (dd : string -> option (list device)) (dc : string -> option (list string))
           (dm : string -> option (list mount)) (ctr : string) (ann : annotations) : option adjustment :=
  match spec_payload dd (spec_pick ann device_key ctr),
        spec_payload dc (spec_pick ann cdi_device_key ctr),
        spec_payload dm (spec_pick ann mount_key ctr) with
  | Some ds, Some cs, Some ms =>
      Some {| adj_devices := map device_to_nri ds; adj_cdi := cs; adj_mounts := map mount_to_nri ms; adj_rlimits := [] |}
  | _, _, _ => None      (* "fail the creation request without any partial adjustment" *)
  end.

(* "case-insensitive, optionally prefixed rlimit names normalised"; "unknown rlimit types or a hard limit below
   the soft limit fail the creation request" *)
Definition spec_ulimit_ok (u : ulimit) : bool :=
  (smem (normalise_rlimit (ul_type u)) valid_rlimits && (ul_soft u <=? ul_hard u)%Z)%bool.

Definition spec_ulimit (du : string -> option (list ulimit)) (ctr : string) (ann : annotations) : option adjustment :=
  match alookup (ulimit_key ++ "/container." ++ ctr) ann with     (* container-scoped only *)
  | None => Some empty_adjustment
  | Some v =>
      match du v with
      | None => None
      | Some us =>
          if forallb spec_ulimit_ok us
          then Some {| adj_devices := []; adj_cdi := []; adj_mounts := [];
                       adj_rlimits := map (fun u => {| rl_type := rlimit_prefix ++ normalise_rlimit (ul_type u);
                                                       rl_hard := ul_hard u; rl_soft := ul_soft u |}) us |}
          else None
      end
  end.
