(* C08 — cases written by harness driver "synclock": the API-level log of one stress run of the real
   Adaptation, the runtime's final store and what every plugin observed. *)
From Coq Require Import String List Bool Arith.
From NRI Require Import Base.Strs Base.Assoc Model.SyncLock Spec.SyncLockSpec Run.Common.
Import ListNotations.
Open Scope string_scope.
Open Scope list_scope.

Record sync_case := {
  sc_trace : list lev;
  sc_store : list cid;               (* the runtime's store at the end *)
  sc_plugins : list plugin_obs;      (* per plugin INSTANCE: registered (live at the end), snapshot ids received, create ids received (in order) *)
  sc_must : list pid                 (* instances that connected, whose synchronisation did not fail and that did not
                                        disconnect, in a run that ended with no block held: their registration must be complete *)
}.

Definition sc_obs (c : sync_case) : observation := {| ob_store := sc_store c; ob_plugins := sc_plugins c |}.

Definition find_plugin (n : pid) (l : list plugin_obs) : option plugin_obs :=
  find (fun po => String.eqb n (po_name po)) l.

Definition plugin_obs_eqb (a b : plugin_obs) : bool :=
  Bool.eqb (po_registered a) (po_registered b)
  && same_set (po_snapshot a) (po_snapshot b)
  && list_eqb String.eqb (po_creates a) (po_creates b).

Definition obs_eqb (model impl : observation) : bool :=
  same_set (ob_store model) (ob_store impl)
  && Nat.eqb (length (ob_plugins model)) (length (ob_plugins impl))
  && forallb (fun po => match find_plugin (po_name po) (ob_plugins model) with
                        | Some pm => plugin_obs_eqb pm po
                        | None => false
                        end) (ob_plugins impl).

(* the log is a run of the LTS (hidden steps inserted greedily) that ends quiescent, and the LTS
   state it ends in shows every plugin exactly the snapshot and creation requests the real one saw *)
Definition corr_sync (c : sync_case) : bool :=
  match replay (sc_trace c) with
  | inl s => quiescent s && obs_eqb (obs_of_state s) (sc_obs c)
  | inr _ => false
  end.

(* the property's predicate on the implementation's observations alone *)
Definition is_registered (l : list plugin_obs) (n : pid) : bool :=
  match find_plugin n l with Some po => po_registered po | None => false end.

(* exactly once for every live instance, and "once the last block is released pending registrations complete" *)
Definition holds_sync (c : sync_case) : bool :=
  exactly_once_b (sc_obs c) && forallb (is_registered (sc_plugins c)) (sc_must c).

(* for replay files: where the log stops being a run of the LTS *)
Definition first_rejected (c : sync_case) : option nat :=
  match replay (sc_trace c) with inl _ => None | inr i => Some i end.
