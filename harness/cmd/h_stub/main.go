// h_stub drives the real pkg/stub against a scripted runtime end (C15, C16).
package main

import (
	"io"

	"github.com/sirupsen/logrus"

	"verif/harness/internal/hx"
)

func main() {
	logrus.SetOutput(io.Discard)
	hx.Main(map[string]func(*hx.Ctx) error{
		"probe":        driveProbe,
		"stubdispatch": driveDispatch,
		"stublife":     driveLife,
	})
}
