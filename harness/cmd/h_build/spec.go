package main

import (
	"sort"
	"sync"

	rspec "github.com/opencontainers/runtime-spec/specs-go"
	rgen "github.com/opencontainers/runtime-tools/generate"

	"github.com/containerd/nri/pkg/api"
	xgen "github.com/containerd/nri/pkg/runtime-tools/generate"

	"verif/harness/internal/nm"
)

// The OCI side of the C13 part (same construction as harness/cmd/h_adapt/spec.go): a spec built from a
// neutral container, the project's generator with recording call-backs, the observable projection (I3).

// SpecObs is the observable part of an OCI spec.
type SpecObs struct {
	C   *nm.Container `json:"c"`
	CDI []string      `json:"cdi,omitempty"`
}

func buildSpec(c *nm.Container) *rspec.Spec {
	s := &rspec.Spec{
		Process: &rspec.Process{Args: append([]string(nil), c.Args...), Env: append([]string(nil), c.Env...)},
		Linux:   &rspec.Linux{CgroupsPath: c.Cgroups},
	}
	if len(c.Ann) > 0 {
		s.Annotations = map[string]string{}
		for _, e := range c.Ann {
			s.Annotations[e.K] = e.V
		}
	}
	for _, m := range c.Mounts {
		s.Mounts = append(s.Mounts, m.ToAPI().ToOCI(nil))
	}
	for _, l := range c.Rlimits {
		s.Process.Rlimits = append(s.Process.Rlimits, rspec.POSIXRlimit{Type: l.Type, Hard: l.Hard, Soft: l.Soft})
	}
	for _, d := range c.Devices {
		s.Linux.Devices = append(s.Linux.Devices, d.ToAPI().ToOCI())
	}
	if !c.Res.Empty() {
		s.Linux.Resources = c.Res.ToAPI().ToOCI()
	}
	if c.Oom != nil {
		v := int(*c.Oom)
		s.Process.OOMScoreAdj = &v
	}
	return s
}

var (
	cdiMu   sync.Mutex
	cdiSeen = map[*rspec.Spec][]string{}
)

func classIndex(c string) uint16 {
	for i, x := range classes {
		if x == c {
			return uint16(i + 1)
		}
	}
	return 999
}

func newGenerator(s *rspec.Spec) *xgen.Generator {
	rg := &rgen.Generator{Config: s}
	return xgen.SpecGenerator(rg,
		xgen.WithBlockIOResolver(func(class string) (*rspec.LinuxBlockIO, error) {
			w := classIndex(class)
			return &rspec.LinuxBlockIO{Weight: &w}, nil
		}),
		xgen.WithRdtResolver(func(class string) (*rspec.LinuxIntelRdt, error) {
			return &rspec.LinuxIntelRdt{ClosID: class}, nil
		}),
		xgen.WithCDIDeviceInjector(func(sp *rspec.Spec, names []string) error {
			cdiMu.Lock()
			cdiSeen[sp] = append(cdiSeen[sp], names...)
			cdiMu.Unlock()
			return nil
		}))
}

func sortScal(r *nm.Res) {
	idx := map[string]int{}
	for i, f := range nm.Fields {
		idx[f] = i
	}
	sort.SliceStable(r.Scal, func(i, j int) bool { return idx[r.Scal[i].F] < idx[r.Scal[j].F] })
}

func observe(s *rspec.Spec) *SpecObs {
	c := &nm.Container{Ann: nm.SortedKVs(s.Annotations)}
	if s.Process != nil {
		c.Args = append([]string(nil), s.Process.Args...)
		c.Env = append([]string(nil), s.Process.Env...)
		for _, l := range s.Process.Rlimits {
			c.Rlimits = append(c.Rlimits, nm.Rlimit{Type: l.Type, Hard: l.Hard, Soft: l.Soft})
		}
		if s.Process.OOMScoreAdj != nil {
			v := int64(*s.Process.OOMScoreAdj)
			c.Oom = &v
		}
	}
	for _, m := range api.FromOCIMounts(s.Mounts) {
		c.Mounts = append(c.Mounts, nm.MountFromAPI(m))
	}
	c.Hooks = nm.HooksFromAPI(api.FromOCIHooks(s.Hooks))
	o := &SpecObs{C: c}
	if s.Linux != nil {
		c.Cgroups = s.Linux.CgroupsPath
		for _, d := range api.FromOCILinuxDevices(s.Linux.Devices) {
			c.Devices = append(c.Devices, nm.DeviceFromAPI(d))
		}
		c.Res = nm.ResFromAPI(api.FromOCILinuxResources(s.Linux.Resources, nil))
		if r := s.Linux.Resources; r != nil {
			if r.BlockIO != nil && r.BlockIO.Weight != nil {
				cl := "?"
				if i := int(*r.BlockIO.Weight); i >= 1 && i <= len(classes) {
					cl = classes[i-1]
				}
				c.Res.Scal = append(c.Res.Scal, nm.SVal{F: "BlockioClass", S: cl})
			}
		}
		if s.Linux.IntelRdt != nil {
			c.Res.Scal = append(c.Res.Scal, nm.SVal{F: "RdtClass", S: s.Linux.IntelRdt.ClosID})
		}
		sortScal(c.Res)
	}
	if c.Res == nil {
		c.Res = &nm.Res{}
	}
	cdiMu.Lock()
	o.CDI = cdiSeen[s]
	delete(cdiSeen, s)
	cdiMu.Unlock()
	return o
}

// generate applies the real generator to a fresh spec of c; a panic or an error is returned as text.
func generate(c *nm.Container, a *api.ContainerAdjustment) (obs *SpecObs, failed string) {
	defer func() {
		if r := recover(); r != nil {
			obs, failed = nil, "panic: "+sprint(r)
		}
	}()
	s := buildSpec(c)
	if err := newGenerator(s).Adjust(a); err != nil {
		return nil, "error: " + err.Error()
	}
	return observe(s), ""
}
