import subprocess, tempfile, os, shutil
src=open('/repo/pkg/net/multiplex/mux.go').read()
PAY='''			if n != 0 || size != 0 {
				// the header of this frame is on the trunk already: without its
				// whole payload the stream has lost frame synchronisation
				m.setError(err)
				m.Close()
			}
			return 0, err'''
HDR='''			if n != 0 {
				m.setError(err)
				m.Close()
			}
			return 0, err
		}

		n, err = m.trunk.Write(data[:size])'''
READ='''		if len(buf) < len(msg) {'''
CLOSE='''	if c.mux.conns[c.id] == c {
		delete(c.mux.conns, c.id)
	}'''
OPENSEL='''		select {
		case <-m.doneC:
			// the Mux is closed already: nobody would ever wake this connection's readers
			c.close()
		default:
		}'''
DL='''func (c *conn) SetDeadline(_ time.Time) error {
	return nil
}'''
MK='''			readC: make(chan []byte, m.qlen),'''
for x in (PAY,HDR,READ,CLOSE,OPENSEL,DL,MK): assert src.count(x)==1, x
def pay(c): return PAY.replace('if n != 0 || size != 0 {', c)
V={
 'ok  reorder':        src.replace(PAY, pay('if size != 0 || n != 0 {')),
 'ok  demorgan':       src.replace(PAY, pay('if !(n == 0 && size == 0) {')),
 'ok  greater':        src.replace(PAY, pay('if n > 0 || 0 < size {')),
 'ok  switch':         src.replace(PAY, '''			switch {
			case n != 0, size != 0:
				m.setError(err)
				m.Close()
			}
			return 0, err'''),
 'ok  early return':   src.replace(PAY, '''			if n == 0 && size == 0 {
				return 0, err
			}
			m.setError(err)
			m.Close()
			return 0, err'''),
 'ok  closure':        src.replace(PAY, PAY.replace('m.setError(err)\n\t\t\t\tm.Close()','fail(err)')).replace(HDR, HDR.replace('m.setError(err)\n\t\t\t\tm.Close()','fail(err)')).replace('	m.writeLock.Lock()\n	defer m.writeLock.Unlock()\n\n	for {','	m.writeLock.Lock()\n	defer m.writeLock.Unlock()\n	fail := func(e error) {\n		m.setError(e)\n		m.Close()\n	}\n\n	for {'),
 'ok  bool helper':    src.replace(PAY, pay('if frameDamaged(n, size) {'))+'\nfunc frameDamaged(n, size int) bool { return n != 0 || size != 0 }\n',
 'ok  read swapped':   src.replace(READ, '		if len(msg) > len(buf) {'),
 'ok  read not-ge':    src.replace(READ, '		if !(len(buf) >= len(msg)) {'),
 'ok  close alias':    src.replace(CLOSE, '''	if cur, ok := c.mux.conns[c.id]; ok && cur == c {
		delete(c.mux.conns, c.id)
	}'''),
 'ok  close early ret':src.replace(CLOSE, '''	if c != c.mux.conns[c.id] {
		return c.close()
	}
	delete(c.mux.conns, c.id)'''),
 'ok  open helper':    src.replace(OPENSEL, '		m.closeIfDone(c)')+'''
func (m *mux) closeIfDone(c *conn) {
	select {
	case <-m.doneC:
		c.close()
	default:
	}
}
''',
 'ok  deadline noise': src.replace(DL, '''func (c *conn) SetDeadline(t time.Time) error {
	log.Printf("deadlines are not supported: %v", t)
	_ = t
	c.mux.ndeadline++
	return nil
}''').replace('	doneC     chan struct{}\n}','	doneC     chan struct{}\n	ndeadline int\n}'),
 'ok  qlen local':     src.replace(MK, '			readC: make(chan []byte, depth),').replace('	c, ok := m.conns[id]\n	if !ok {','	depth := m.qlen\n	c, ok := m.conns[id]\n	if !ok {'),
 'BAD and':            src.replace(PAY, pay('if n != 0 && size != 0 {')),
 'BAD size==0':        src.replace(PAY, pay('if n != 0 || size == 0 {')),
 'BAD header too':     src.replace(HDR, HDR.replace('if n != 0 {','if n != 0 || size != 0 {')),
 'BAD read <=':        src.replace(READ, '		if len(buf) <= len(msg) {'),
 'BAD read cap':       src.replace(READ, '		if len(msg) > cap(buf) {'),
 'BAD close !=':       src.replace(CLOSE, CLOSE.replace('==','!=')),
 'BAD close alias other id': src.replace(CLOSE, '''	if cur, ok := c.mux.conns[c.id]; ok && cur != nil {
		delete(c.mux.conns, c.id)
	}'''),
 'BAD open other chan':src.replace(OPENSEL, OPENSEL.replace('<-m.doneC','<-m.blockC')),
 'BAD deadline counter read': src.replace(DL, '''func (c *conn) SetDeadline(t time.Time) error {
	c.mux.ndeadline++
	if c.mux.ndeadline > 3 {
		c.mux.Close()
	}
	return nil
}''').replace('	doneC     chan struct{}\n}','	doneC     chan struct{}\n	ndeadline int\n}'),
 'BAD qlen const local': src.replace(MK, '			readC: make(chan []byte, depth),').replace('	c, ok := m.conns[id]\n	if !ok {','	depth := readQueueLen\n	c, ok := m.conns[id]\n	if !ok {'),
 'BAD early return on timeout': src.replace(PAY, """			if isTimeout(err) {
				return 0, err
			}
"""+PAY),
 'BAD latch only if timeout': src.replace(PAY, pay('if (n != 0 || size != 0) && !isTimeout(err) {')),
}
print('%-28s len open ident qcap pfatal stubs'%'')
for name,text in V.items():
    assert text!=src, name
    d=tempfile.mkdtemp(prefix='mxv'); os.makedirs(d+'/pkg/net/multiplex')
    open(d+'/pkg/net/multiplex/mux.go','w').write(text); shutil.copy('/repo/pkg/net/multiplex/ttrpc.go', d+'/pkg/net/multiplex/')
    out=subprocess.run(['/verif/build/gen_muxconsts','-noprobe','-repo',d],capture_output=True,text=True).stdout
    sw=[l.split(':=')[1].strip().rstrip('.')[0].upper() for l in out.split('\n') if l.startswith('Definition') and 'bool' in l]
    sw=['T' if ':= true.' in l else 'F' for l in out.split('\n') if l.startswith('Definition') and ': bool' in l]
    print('%-28s %s'%(name,'   '.join(sw)))
    shutil.rmtree(d)
