(* C05: the updates handed back to the runtime by the model of pkg/adaptation/result.go
   (Model/Result.v: update_one / update_all / response_updates) are exactly the reference
   of Spec/Updates.v, for EVERY request and EVERY chain of plugin responses.

   Structure:
     1. merge_resources writes apply_res (value part; the ledger part is RefineLedger.v)
     2. the reference side: dedup / targets / entry_for / changed under "one more update"
     3. the accumulated list: find_acc / put_acc
     4. the invariant UInv tying the accumulated updates and the update-request view to the
        history of flagged updates, and its preservation by update_one (the flag is the
        abstract ledger's verdict on the update's claims)
     5. update_all / apply_response / run_plugins: the dropped flags of abs_run are the model's
        drop decisions, aligned with flagged_updates
     6. the theorems of Properties/C05.v *)
From Coq Require Import String Ascii List Bool ZArith Arith Lia.
From NRI Require Import Base.Lists Base.Strs Base.Assoc Model.Types Model.Result
  Spec.Apply Spec.AbsLedger Spec.Updates
  Proofs.LedgerProofs Proofs.RefineLedger Proofs.CombineBase Proofs.CombineFamilies Proofs.ResultProofs
  Run.RunAdapt.
Import ListNotations.
Open Scope string_scope.
Open Scope list_scope.

(* ------------------------------------------------------------------ *)
(* 1. values written by updateResources                                 *)
(* ------------------------------------------------------------------ *)
(* scalars overwritten, hugepage limits appended (last wins when read as a map), unified keys
   upserted: literally the reference overlay apply_res *)
Theorem merge_resources_value id r base o r' o' :
  merge_resources id r base o = (Ok r', o') -> r' = apply_res base r.
Proof. intros H. exact (proj2 (merge_resources_spec id r base o (Ok r') o' H) r' eq_refl). Qed.

Lemma res_obs_eqb_refl r : res_obs_eqb r r = true.
Proof.
  unfold res_obs_eqb. rewrite (scal_eqb_ext _ _ (fun f => eq_refl)), hp_eqb_refl, (smap_eqb_ext _ _ (fun k => eq_refl)).
  reflexivity.
Qed.

Theorem merge_resources_obs id r base o r' o' :
  merge_resources id r base o = (Ok r', o') -> res_obs_eqb r' (apply_res base r) = true.
Proof. intros H. rewrite (merge_resources_value _ _ _ _ _ _ H). apply res_obs_eqb_refl. Qed.

Theorem merge_is_overlay id r base o r' o' :
  merge_resources id r base o = (Ok r', o') -> r' = apply_res base r /\ res_obs_eqb r' (apply_res base r) = true.
Proof. intros H. split; [exact (merge_resources_value _ _ _ _ _ _ H)|exact (merge_resources_obs _ _ _ _ _ _ H)]. Qed.

(* the model's verdict on one update = the abstract ledger's verdict on its claims *)
Lemma merge_verdict id r base o :
  match merge_resources id r base o with
  | (Ok _, _) => fst (abs_claims (res_claims id r) o) = true
  | (Err _, _) => fst (abs_claims (res_claims id r) o) = false
  end.
Proof.
  pose proof (merge_resources_abs id r base o) as H.
  destruct (merge_resources id r base o) as [[x|e] o1]; rewrite H; reflexivity.
Qed.

(* ------------------------------------------------------------------ *)
(* 2. the reference side                                                *)
(* ------------------------------------------------------------------ *)
Definition fu := (update * bool)%type.
Definition tgt (e : fu) : string := u_id (fst e).
Definition targets (h : list fu) : list string := dedup (map tgt h) [].

Lemma smem_dedup x l : forall seen, smem x (dedup l seen) = smem x l && negb (smem x seen).
Proof.
  induction l as [|y r IH]; intros seen; cbn [dedup]; [reflexivity|].
  destruct (smem y seen) eqn:Ey.
  - rewrite IH, smem_cons. destruct (String.eqb_spec x y) as [->|Hne]; cbn [orb]; [|reflexivity].
    rewrite Ey. cbn [negb]. rewrite andb_false_r. reflexivity.
  - rewrite !smem_cons, IH, smem_cons. destruct (String.eqb_spec x y) as [->|Hne]; cbn [orb]; [|reflexivity].
    rewrite Ey. reflexivity.
Qed.

Lemma dedup_snoc x l : forall seen,
  dedup (l ++ [x]) seen = dedup l seen ++ (if smem x seen || smem x l then [] else [x]).
Proof.
  induction l as [|y r IH]; intros seen; cbn [app dedup].
  - rewrite orb_false_r. destruct (smem x seen); reflexivity.
  - destruct (smem y seen) eqn:Ey.
    + rewrite IH, smem_cons. destruct (String.eqb_spec x y) as [->|Hne]; cbn [orb]; [|reflexivity].
      rewrite Ey. reflexivity.
    + rewrite IH. cbn [app]. rewrite !smem_cons.
      assert (Hb : (String.eqb x y || smem x seen) || smem x r = smem x seen || (String.eqb x y || smem x r))
        by (destruct (String.eqb x y), (smem x seen), (smem x r); reflexivity).
      rewrite Hb. reflexivity.
Qed.

Lemma NoDup_dedup l : forall seen, NoDup (dedup l seen).
Proof.
  induction l as [|y r IH]; intros seen; cbn [dedup]; [constructor|].
  destruct (smem y seen); [apply IH|]. constructor; [|apply IH].
  intros Hin. apply smem_In in Hin. rewrite smem_dedup, smem_cons, String.eqb_refl in Hin.
  cbn [orb negb] in Hin. rewrite andb_false_r in Hin. discriminate.
Qed.

Lemma smem_targets t h : smem t (targets h) = smem t (map tgt h).
Proof. unfold targets. rewrite smem_dedup. cbn. apply andb_true_r. Qed.

Lemma targets_snoc h e :
  targets (h ++ [e]) = targets h ++ (if smem (tgt e) (targets h) then [] else [tgt e]).
Proof.
  unfold targets. rewrite map_app. cbn [map]. rewrite dedup_snoc. cbn [smem existsb orb].
  rewrite smem_dedup. cbn [smem existsb negb]. rewrite andb_true_r. reflexivity.
Qed.

Lemma NoDup_targets h : NoDup (targets h).
Proof. apply NoDup_dedup. Qed.

(* one more flagged update *)
Lemma entry_for_snoc start t h e :
  entry_for start t (h ++ [e]) =
  if String.eqb (tgt e) t then overlay (entry_for start t h) e else entry_for start t h.
Proof.
  unfold entry_for. rewrite filter_app. cbn [filter]. fold (tgt e).
  destruct (String.eqb (tgt e) t); [rewrite fold_left_app; reflexivity|rewrite app_nil_r; reflexivity].
Qed.

Definition contributes (e : fu) : bool :=
  negb (snd e) && match u_res (fst e) with Some _ => true | None => false end.

Lemma changed_snoc t h e :
  changed t (h ++ [e]) = changed t h || (String.eqb (tgt e) t && contributes e).
Proof.
  unfold changed, contributes. rewrite existsb_app. cbn [existsb]. rewrite orb_false_r, andb_assoc. reflexivity.
Qed.

Lemma overlay_inert base e : contributes e = false -> overlay base e = base.
Proof.
  destruct e as [u b]. unfold contributes, overlay. cbn [fst snd].
  destruct b; [reflexivity|]. destruct (u_res u); [discriminate|reflexivity].
Qed.

Lemma no_mention_filter t (h : list fu) :
  smem t (map tgt h) = false -> filter (fun u => String.eqb (u_id (fst u)) t) h = [].
Proof.
  induction h as [|e r IH]; cbn [map filter]; [reflexivity|]. rewrite smem_cons. intros H.
  apply orb_false_iff in H. destruct H as [H1 H2]. fold (tgt e). rewrite String.eqb_sym, H1. apply IH. exact H2.
Qed.

Lemma entry_for_no_mention start t h : smem t (map tgt h) = false -> entry_for start t h = start.
Proof. intros H. unfold entry_for. rewrite (no_mention_filter t h H). reflexivity. Qed.

Lemma changed_no_mention t h : smem t (map tgt h) = false -> changed t h = false.
Proof.
  unfold changed. induction h as [|e r IH]; cbn [map existsb]; [reflexivity|]. rewrite smem_cons. intros H.
  apply orb_false_iff in H. destruct H as [H1 H2]. fold (tgt e). rewrite String.eqb_sym, H1. cbn [andb orb]. apply IH. exact H2.
Qed.

(* the reference entry of target t after the history h; own = the updated container and the
   resources the runtime requested for it *)
Definition is_own (own : option (string * resources)) (t : string) : bool :=
  match own with Some (id, _) => String.eqb t id | None => false end.
Definition start_of (own : option (string * resources)) (t : string) : resources :=
  match own with Some (id, req) => if String.eqb t id then req else res_empty | None => res_empty end.
(* everything overlaid so far, on the request for the own container and on nothing otherwise *)
Definition full (own : option (string * resources)) (t : string) (h : list fu) : resources :=
  entry_for (start_of own t) t h.
(* the entry handed to the runtime: the own container's is an empty placeholder until changed *)
Definition ent (own : option (string * resources)) (t : string) (h : list fu) : resources :=
  if is_own own t && negb (changed t h) then res_empty else full own t h.

Lemma full_snoc_other own t h e : tgt e <> t -> full own t (h ++ [e]) = full own t h.
Proof.
  intros Hne. unfold full. rewrite entry_for_snoc. destruct (String.eqb_spec (tgt e) t); [contradiction|reflexivity].
Qed.

Lemma changed_snoc_other t h e : tgt e <> t -> changed t (h ++ [e]) = changed t h.
Proof.
  intros Hne. rewrite changed_snoc. destruct (String.eqb_spec (tgt e) t); [contradiction|]. apply orb_false_r.
Qed.

Lemma ent_snoc_other own t h e : tgt e <> t -> ent own t (h ++ [e]) = ent own t h.
Proof. intros Hne. unfold ent. rewrite (full_snoc_other own t h e Hne), (changed_snoc_other t h e Hne). reflexivity. Qed.

Lemma full_snoc_inert own t h e : contributes e = false -> full own t (h ++ [e]) = full own t h.
Proof.
  intros Hi. unfold full. rewrite entry_for_snoc, (overlay_inert _ e Hi). destruct (String.eqb (tgt e) t); reflexivity.
Qed.

Lemma changed_snoc_inert t h e : contributes e = false -> changed t (h ++ [e]) = changed t h.
Proof. intros Hi. rewrite changed_snoc, Hi, andb_false_r. apply orb_false_r. Qed.

Lemma ent_snoc_inert own t h e : contributes e = false -> ent own t (h ++ [e]) = ent own t h.
Proof. intros Hi. unfold ent. rewrite (full_snoc_inert own t h e Hi), (changed_snoc_inert t h e Hi). reflexivity. Qed.

Lemma full_snoc_set own h u r :
  u_res u = Some r -> full own (u_id u) (h ++ [(u, false)]) = apply_res (full own (u_id u) h) r.
Proof.
  intros Hr. unfold full. rewrite entry_for_snoc. unfold tgt. cbn [fst]. rewrite String.eqb_refl.
  unfold overlay. rewrite Hr. reflexivity.
Qed.

Lemma ent_snoc_set own h u r :
  u_res u = Some r -> ent own (u_id u) (h ++ [(u, false)]) = apply_res (full own (u_id u) h) r.
Proof.
  intros Hr. unfold ent. rewrite changed_snoc. unfold tgt, contributes. cbn [fst snd]. rewrite String.eqb_refl, Hr.
  cbn [negb andb]. rewrite orb_true_r. cbn [negb]. rewrite andb_false_r. apply full_snoc_set. exact Hr.
Qed.

Lemma ent_no_mention own t h : smem t (targets h) = false -> ent own t h = res_empty.
Proof.
  rewrite smem_targets. intros H. unfold ent, full. rewrite (changed_no_mention t h H), (entry_for_no_mention _ t h H).
  unfold is_own, start_of. destruct own as [[id req]|]; [|reflexivity]. destruct (String.eqb t id); reflexivity.
Qed.

Lemma ent_not_own own t h : is_own own t = false -> ent own t h = full own t h.
Proof. intros H. unfold ent. rewrite H. reflexivity. Qed.

(* ------------------------------------------------------------------ *)
(* 3. the accumulated list                                              *)
(* ------------------------------------------------------------------ *)
Lemma find_acc_spec id l :
  match find_acc id l with
  | Some a => In a l /\ au_id a = id /\ smem id (map au_id l) = true
  | None => smem id (map au_id l) = false
  end.
Proof.
  induction l as [|b r IH]; cbn [find_acc map]; [reflexivity|]. rewrite smem_cons.
  destruct (String.eqb_spec id (au_id b)) as [E|Hne]; cbn [orb].
  - split; [left; reflexivity|]. split; [symmetry; exact E|reflexivity].
  - destruct (find_acc id r) as [a|]; [|exact IH]. destruct IH as [H1 [H2 H3]].
    split; [right; exact H1|]. split; [exact H2|exact H3].
Qed.

Lemma map_id_put_acc a l :
  map au_id (put_acc a l) = if smem (au_id a) (map au_id l) then map au_id l else map au_id l ++ [au_id a].
Proof.
  induction l as [|b r IH]; cbn [put_acc map]; [reflexivity|]. rewrite smem_cons.
  destruct (String.eqb_spec (au_id a) (au_id b)) as [E|Hne]; cbn [orb map].
  - rewrite E. reflexivity.
  - rewrite IH. destruct (smem (au_id a) (map au_id r)); reflexivity.
Qed.

Lemma In_put_acc a l x :
  In x (put_acc a l) -> x = a \/ (In x l /\ (NoDup (map au_id l) -> au_id x <> au_id a)).
Proof.
  induction l as [|b r IH]; cbn [put_acc].
  - intros [H|[]]. left. symmetry. exact H.
  - destruct (String.eqb_spec (au_id a) (au_id b)) as [E|Hne].
    + intros [H|H]; [left; symmetry; exact H|]. right. split; [right; exact H|].
      cbn [map]. intros Hnd Heq. inversion Hnd as [|? ? Hn _]; subst. apply Hn. rewrite <- E, <- Heq. apply in_map. exact H.
    + intros [H|H].
      * subst x. right. split; [left; reflexivity|]. intros _ Heq. apply Hne. symmetry. exact Heq.
      * destruct (IH H) as [Hx|[Hx Hd]]; [left; exact Hx|]. right. split; [right; exact Hx|].
        cbn [map]. intros Hnd. inversion Hnd; subst. apply Hd. assumption.
Qed.

Lemma map_filter_id (p : string -> bool) (l : list acc_update) :
  map au_id (filter (fun a => p (au_id a)) l) = filter p (map au_id l).
Proof.
  induction l as [|b r IH]; cbn [filter map]; [reflexivity|]. destruct (p (au_id b)); cbn [map]; rewrite IH; reflexivity.
Qed.

(* ------------------------------------------------------------------ *)
(* 4. the invariant                                                     *)
(* ------------------------------------------------------------------ *)
Record UInv (own : option (string * resources)) (h : list fu) (s : st) : Prop := {
  ui_ids : map au_id (s_updates s) = targets h;
  ui_res : forall a, In a (s_updates s) -> au_res a = ent own (au_id a) h;
  ui_view : s_update s = match own with Some (id, _) => Some (id, full own id h) | None => None end
}.

Lemma UInv_ext own h s1 s2 :
  s_updates s2 = s_updates s1 -> s_update s2 = s_update s1 -> UInv own h s1 -> UInv own h s2.
Proof. intros E1 E2 [H1 H2 H3]. split; rewrite ?E1, ?E2; assumption. Qed.

Lemma UInv_init rq : UInv (own_of rq) [] (init_state rq).
Proof.
  destruct rq as [c|id r|id]; split; cbn; try reflexivity; try (intros a []).
  unfold full, start_of, entry_for. rewrite String.eqb_refl. reflexivity.
Qed.

(* the resources an update is staged on: the request view for the updated container, the
   accumulated entry otherwise — in both cases everything overlaid so far *)
Definition base_of (u : update) (s : st) : resources :=
  let acc_res := match find_acc (u_id u) (s_updates s) with Some a => au_res a | None => res_empty end in
  match s_update s with
  | Some (oid, rr) => if String.eqb oid (u_id u) then rr else acc_res
  | None => acc_res
  end.

(* did the model drop this update?  (ignore-failure swallowed a refused claim) *)
Definition model_drops (u : update) (s : st) : bool :=
  match u_res u with
  | Some r => match merge_resources (u_id u) r (base_of u s) (s_own s) with (Err _, _) => true | (Ok _, _) => false end
  | None => false
  end.

(* update_one, case by case *)
Lemma update_one_cases u s s' :
  update_one u s = Ok s' ->
  exists acc,
    au_id acc = u_id u /\
    au_res acc = match find_acc (u_id u) (s_updates s) with Some a => au_res a | None => res_empty end /\
    ((model_drops u s = true \/ u_res u = None) /\
      s_updates s' = put_acc acc (s_updates s) /\ s_update s' = s_update s
     \/
     exists r r' o' acc',
      u_res u = Some r /\ model_drops u s = false /\
      merge_resources (u_id u) r (base_of u s) (s_own s) = (Ok r', o') /\
      au_id acc' = u_id u /\ au_res acc' = r' /\
      s_updates s' = put_acc acc' (put_acc acc (s_updates s)) /\
      s_update s' = match s_update s with
                    | Some (oid, rr) => if String.eqb oid (u_id u) then Some (oid, r') else Some (oid, rr)
                    | None => None
                    end).
Proof.
  unfold update_one, model_drops, base_of.
  destruct (match s_create s with Some c => String.eqb (c_id c) (u_id u) | None => false end); [discriminate|].
  set (acc := match find_acc (u_id u) (s_updates s) with
              | Some a => {| au_id := u_id u; au_res := au_res a; au_ignore := au_ignore a && u_ignore u |}
              | None => {| au_id := u_id u; au_res := res_empty; au_ignore := u_ignore u |}
              end).
  assert (Hid : au_id acc = u_id u) by (unfold acc; destruct (find_acc (u_id u) (s_updates s)); reflexivity).
  assert (Hres : au_res acc = match find_acc (u_id u) (s_updates s) with Some a => au_res a | None => res_empty end)
    by (unfold acc; destruct (find_acc (u_id u) (s_updates s)); reflexivity).
  rewrite <- Hres. clearbody acc.
  destruct (u_res u) as [r|].
  - assert (Hbase : (if match s_update s with Some (oid, _) => String.eqb oid (u_id u) | None => false end
                     then match s_update s with Some (_, rr) => rr | None => res_empty end else au_res acc)
                    = match s_update s with Some (oid, rr) => if String.eqb oid (u_id u) then rr else au_res acc | None => au_res acc end).
    { destruct (s_update s) as [[oid rr]|]; reflexivity. }
    rewrite Hbase. clear Hbase.
    destruct (merge_resources (u_id u) r _ (s_own s)) as [[r'|e] o'] eqn:Em.
    + intros H. inversion H; subst s'; clear H. exists acc. split; [exact Hid|]. split; [reflexivity|]. right.
      exists r, r', o', {| au_id := u_id u; au_res := r'; au_ignore := au_ignore acc |}.
      cbn [s_updates s_update au_id au_res].
      split; [reflexivity|]. split; [reflexivity|]. split; [exact Em|]. do 3 (split; [reflexivity|]).
      destruct (s_update s) as [[oid rr]|]; [|reflexivity]. destruct (String.eqb oid (u_id u)); reflexivity.
    + destruct (u_ignore u); [|discriminate]. intros H. inversion H; subst s'; clear H.
      exists acc. split; [exact Hid|]. split; [reflexivity|]. left. cbn [s_updates s_update]. repeat split. left. reflexivity.
  - intros H. inversion H; subst s'; clear H. exists acc. split; [exact Hid|]. split; [reflexivity|]. left.
    cbn [s_updates s_update]. repeat split. right. reflexivity.
Qed.

Lemma acc_res_ent own h u s :
  UInv own h s ->
  match find_acc (u_id u) (s_updates s) with Some a => au_res a | None => res_empty end = ent own (u_id u) h.
Proof.
  intros [Hids Hres _]. pose proof (find_acc_spec (u_id u) (s_updates s)) as Hf.
  destruct (find_acc (u_id u) (s_updates s)) as [a|].
  - destruct Hf as [Hin [Hid _]]. rewrite (Hres a Hin), Hid. reflexivity.
  - rewrite Hids in Hf. symmetry. apply ent_no_mention. exact Hf.
Qed.

(* whatever the target, an update is staged on everything overlaid for it so far *)
Lemma base_of_full own h u s : UInv own h s -> base_of u s = full own (u_id u) h.
Proof.
  intros HU. pose proof (acc_res_ent own h u s HU) as Ha. destruct HU as [_ _ Hview].
  unfold base_of. rewrite Ha, Hview. destruct own as [[oid req]|].
  - destruct (String.eqb_spec oid (u_id u)) as [->|Hne]; [reflexivity|]. apply ent_not_own. cbn [is_own].
    destruct (String.eqb_spec (u_id u) oid); [congruence|reflexivity].
  - apply ent_not_own. reflexivity.
Qed.

Lemma update_one_UInv own u s s' h :
  UInv own h s -> update_one u s = Ok s' -> UInv own (h ++ [(u, model_drops u s)]) s'.
Proof.
  intros HU Hu. pose proof (base_of_full own h u s HU) as Hb. pose proof (acc_res_ent own h u s HU) as Ha.
  destruct HU as [Hids Hres Hview].
  destruct (update_one_cases u s s' Hu) as [acc [Hid [Hr Hc]]]. rewrite Ha in Hr.
  set (e := (u, model_drops u s)).
  assert (Hids1 : map au_id (put_acc acc (s_updates s)) = targets (h ++ [e])).
  { rewrite map_id_put_acc, Hid, Hids, targets_snoc. unfold e, tgt. cbn [fst].
    destruct (smem (u_id u) (targets h)); [rewrite app_nil_r|]; reflexivity. }
  destruct Hc as [[Hin [Hups Hv]]|[r [r' [o' [acc' [Hur [Hd [Hm [Hid' [Hr' [Hups Hv]]]]]]]]]]].
  - (* dropped, or nothing requested: the update contributes nothing *)
    assert (Hi : contributes e = false).
    { unfold contributes, e. cbn [fst snd]. destruct Hin as [-> | ->]; [reflexivity|apply andb_false_r]. }
    split.
    + rewrite Hups. exact Hids1.
    + intros a Hin'. rewrite Hups in Hin'. destruct (In_put_acc _ _ _ Hin') as [->|[Hl _]].
      * rewrite Hr, Hid. symmetry. apply ent_snoc_inert. exact Hi.
      * rewrite (Hres a Hl). symmetry. apply ent_snoc_inert. exact Hi.
    + rewrite Hv, Hview. destruct own as [[oid req]|]; [|reflexivity]. rewrite (full_snoc_inert _ _ _ _ Hi). reflexivity.
  - (* committed *)
    pose proof (merge_resources_value _ _ _ _ _ _ Hm) as Hval. rewrite Hb in Hval.
    unfold e in *. rewrite Hd in *. clear e.
    split.
    + rewrite Hups, map_id_put_acc, Hid'.
      assert (Hs : smem (u_id u) (map au_id (put_acc acc (s_updates s))) = true).
      { rewrite Hids1, smem_targets, map_app, smem_app. cbn [map tgt fst smem existsb]. rewrite String.eqb_refl. apply orb_true_r. }
      rewrite Hs. exact Hids1.
    + intros a Hin'. rewrite Hups in Hin'. destruct (In_put_acc _ _ _ Hin') as [->|[Hl Hne]].
      * rewrite Hr', Hid', Hval. symmetry. apply ent_snoc_set. exact Hur.
      * assert (Hnd : NoDup (map au_id (put_acc acc (s_updates s)))) by (rewrite Hids1; apply NoDup_targets).
        specialize (Hne Hnd). rewrite Hid' in Hne.
        destruct (In_put_acc _ _ _ Hl) as [->|[Hl2 _]]; [contradiction (Hne Hid)|].
        rewrite (Hres a Hl2). symmetry. apply ent_snoc_other. unfold tgt. cbn [fst]. intros E. apply Hne. symmetry. exact E.
    + rewrite Hv, Hview. destruct own as [[oid req]|]; [|reflexivity].
      destruct (String.eqb_spec oid (u_id u)) as [E|Hne].
      * subst oid. rewrite (full_snoc_set _ _ _ _ Hur), Hval. reflexivity.
      * rewrite full_snoc_other; [reflexivity|]. unfold tgt. cbn [fst]. intros E. apply Hne. symmetry. exact E.
Qed.

(* ------------------------------------------------------------------ *)
(* 5. flags alignment: the model drops an update exactly when the      *)
(*    abstract ledger flags it                                          *)
(* ------------------------------------------------------------------ *)
Lemma model_drops_abs cr u s oa :
  SInv cr s oa -> model_drops u s = negb (fst (abs_claims (g_claims (update_group u)) oa)).
Proof.
  intros [Hl _]. unfold model_drops, update_group. cbn [g_claims]. destruct (u_res u) as [r|]; [|reflexivity].
  pose proof (merge_verdict (u_id u) r (base_of u s) (s_own s)) as Hv.
  destruct (abs_claims_leq (res_claims (u_id u) r) (s_own s) oa Hl) as [Hf _]. rewrite <- Hf.
  destruct (merge_resources (u_id u) r (base_of u s) (s_own s)) as [[x|e] o1]; rewrite Hv; reflexivity.
Qed.

(* the drop decisions of the model along a list of updates / a response / a chain of responses *)
Fixpoint update_all_drops (us : list update) (s : st) : list bool :=
  match us with
  | [] => []
  | u :: r => model_drops u s :: match update_one u s with Ok s1 => update_all_drops r s1 | Err _ => [] end
  end.

Definition apply_adjust (rp : response) (s : st) : res st :=
  match s_create s, rp_adjust rp with
  | Some c, Some p =>
      match adjust p (c, s_adjust s, s_own s) with
      | Err e => Err e
      | Ok (c', a', o') => Ok {| s_create := Some c'; s_update := s_update s; s_adjust := a'; s_updates := s_updates s; s_own := o' |}
      end
  | _, _ => Ok s
  end.

Lemma apply_response_eq rp s : apply_response rp s = bind (apply_adjust rp s) (update_all (rp_updates rp)).
Proof. reflexivity. Qed.

Definition response_drops (rp : response) (s : st) : list bool :=
  match apply_adjust rp s with Ok s1 => update_all_drops (rp_updates rp) s1 | Err _ => [] end.

Fixpoint run_drops (rps : list response) (s : st) : list bool :=
  match rps with
  | [] => []
  | rp :: r => response_drops rp s ++ match apply_response rp s with Ok s1 => run_drops r s1 | Err _ => [] end
  end.

Lemma update_all_flags cr own us : forall s oa d h s',
  SInv cr s oa -> UInv own h s -> update_all us s = Ok s' ->
  exists oa',
    abs_run (map update_group us) oa d = Some (oa', d ++ update_all_drops us s) /\
    length (update_all_drops us s) = length us /\
    SInv cr s' oa' /\ UInv own (h ++ combine us (update_all_drops us s)) s'.
Proof.
  induction us as [|u r IH]; intros s oa d h s' HI HU Hrun; cbn [update_all] in Hrun.
  - inversion Hrun; subst s'. exists oa. cbn [map abs_run update_all_drops combine]. rewrite !app_nil_r.
    split; [reflexivity|]. split; [reflexivity|]. split; [exact HI|exact HU].
  - destruct (update_one u s) as [s1|e] eqn:E1; cbn [bind] in Hrun; [|discriminate].
    pose proof (update_one_ledger cr u s oa HI) as H1. rewrite E1 in H1. destruct H1 as [_ [Hv HI1]].
    pose proof (update_one_UInv own u s s1 h HU E1) as HU1.
    pose proof (model_drops_abs cr u s oa HI) as Hd.
    cbn [map abs_run update_all_drops]. rewrite E1.
    cbn [update_group g_releases g_claims g_ignorable fold_left] in *.
    destruct (abs_claims match u_res u with Some r0 => res_claims (u_id u) r0 | None => [] end oa) as [b o2].
    cbn [fst snd] in *. rewrite Hd in *.
    destruct (IH s1 o2 (d ++ [negb b]) (h ++ [(u, negb b)]) s' HI1 HU1 Hrun) as [oa' [Hr [Hlen [HI' HU']]]].
    exists oa'. rewrite <- !app_assoc in *. cbn [app combine length] in *.
    split; [|split; [rewrite Hlen; reflexivity|split; [exact HI'|exact HU']]].
    destruct b; cbn [negb] in *; [exact Hr|]. destruct Hv as [Hv|Hv]; [discriminate|]. rewrite Hv. exact Hr.
Qed.

(* the group of the adjustment, when there is one, precedes the groups of the updates *)
Definition adjust_groups (cr : option string) (rp : response) : list group :=
  match cr, rp_adjust rp with Some id, Some a => [adjust_group id a] | _, _ => [] end.
Definition adjust_flags (cr : option string) (rp : response) : list bool :=
  match cr, rp_adjust rp with Some _, Some _ => [false] | _, _ => [] end.

Lemma groups_of_eq cr rp : groups_of cr rp = adjust_groups cr rp ++ map update_group (rp_updates rp).
Proof. reflexivity. Qed.

(* distinct annotation keys matter only where an adjustment is processed: in a creation request *)
Definition wf_for (cr : option string) (rp : response) : Prop := cr = None \/ wf_rp rp.

Lemma apply_adjust_flags cr rp s oa d s1 :
  wf_for cr rp -> SInv cr s oa -> apply_adjust rp s = Ok s1 ->
  s_updates s1 = s_updates s /\ s_update s1 = s_update s /\
  exists o2, SInv cr s1 o2 /\ abs_run (adjust_groups cr rp) oa d = Some (o2, d ++ adjust_flags cr rp).
Proof.
  intros Hwf HI. unfold apply_adjust, adjust_groups, adjust_flags. destruct HI as [Hl Hc].
  destruct (s_create s) as [c|] eqn:Ec.
  - destruct Hc as [-> HP]. destruct (rp_adjust rp) as [p|] eqn:Ep.
    + destruct Hwf as [Hwf|Hwf]; [discriminate|]. unfold wf_rp in Hwf. rewrite Ep in Hwf.
      pose proof (adjust_ledger p c (s_adjust s) (s_own s) oa Hwf HP Hl) as Ha.
      cbn [abs_run adjust_group g_ignorable].
      change (fold_left (fun o k => lremove k o) ?rs oa) with (releases rs oa).
      fold (abs_step (g_releases (adjust_group (c_id c) p)) (g_claims (adjust_group (c_id c) p)) oa).
      destruct (adjust p (c, s_adjust s, s_own s)) as [[[c' a'] o']|e]; [|discriminate].
      intros H. inversion H; subst s1; clear H. cbn [s_updates s_update]. split; [reflexivity|]. split; [reflexivity|].
      destruct Ha as [Hok [Hle [Hid HP']]].
      destruct (abs_step _ _ oa) as [b o2]. cbn [fst snd] in Hok, Hle. subst b.
      exists o2. split; [|reflexivity].
      split; [exact Hle|]. cbn [s_create s_adjust s_own]. rewrite Hid. split; [reflexivity|exact HP'].
    + intros H. inversion H; subst s1; clear H. split; [reflexivity|]. split; [reflexivity|].
      exists oa. cbn [abs_run]. rewrite app_nil_r. split; [|reflexivity]. split; [exact Hl|]. rewrite Ec. split; [reflexivity|exact HP].
  - subst cr. intros H. inversion H; subst s1; clear H. split; [reflexivity|]. split; [reflexivity|].
    exists oa. cbn [abs_run]. rewrite app_nil_r. split; [|reflexivity]. split; [exact Hl|]. rewrite Ec. reflexivity.
Qed.

(* the flags of one response's groups, read as flagged_updates reads them *)
Definition resp_flagged (cr : option string) (rp : response) (fl : list bool) : list fu :=
  combine (rp_updates rp) (match cr, rp_adjust rp with Some _, Some _ => tl fl | _, _ => fl end).

Lemma firstn_length_app {A} (a b : list A) : firstn (length a) (a ++ b) = a.
Proof. induction a as [|x r IH]; cbn [length app firstn]; [destruct b; reflexivity|rewrite IH; reflexivity]. Qed.
Lemma skipn_length_app {A} (a b : list A) : skipn (length a) (a ++ b) = b.
Proof. induction a as [|x r IH]; cbn [length app skipn]; [reflexivity|exact IH]. Qed.

Lemma flagged_updates_cons cr rp r fl1 fl2 :
  length fl1 = length (groups_of cr rp) ->
  flagged_updates cr (rp :: r) (fl1 ++ fl2) = resp_flagged cr rp fl1 ++ flagged_updates cr r fl2.
Proof.
  intros Hlen. cbn [flagged_updates]. unfold resp_flagged. rewrite groups_of_eq, app_length, map_length in Hlen.
  unfold adjust_groups in Hlen.
  assert (Hgen : forall f1 : list bool, length f1 = length (rp_updates rp) ->
            combine (rp_updates rp) (firstn (length (rp_updates rp)) (f1 ++ fl2)) ++
            flagged_updates cr r (skipn (length (rp_updates rp)) (f1 ++ fl2)) =
            combine (rp_updates rp) f1 ++ flagged_updates cr r fl2).
  { intros f1 H1. rewrite <- H1, firstn_length_app, skipn_length_app. reflexivity. }
  destruct cr as [id|]; [destruct (rp_adjust rp) as [p|]|]; cbn [length plus] in Hlen.
  - destruct fl1 as [|b f1]; [discriminate|]. cbn [length] in Hlen. cbn [app tl]. apply Hgen. lia.
  - apply Hgen. exact Hlen.
  - apply Hgen. exact Hlen.
Qed.

Lemma apply_response_flags cr own rp s oa d h s' :
  wf_for cr rp -> SInv cr s oa -> UInv own h s -> apply_response rp s = Ok s' ->
  exists oa' fl,
    abs_run (groups_of cr rp) oa d = Some (oa', d ++ fl) /\ length fl = length (groups_of cr rp) /\
    SInv cr s' oa' /\
    resp_flagged cr rp fl = combine (rp_updates rp) (response_drops rp s) /\
    length (response_drops rp s) = length (rp_updates rp) /\
    UInv own (h ++ resp_flagged cr rp fl) s'.
Proof.
  intros Hwf HI HU. rewrite apply_response_eq. unfold response_drops.
  destruct (apply_adjust rp s) as [s1|e] eqn:E1; cbn [bind]; [|discriminate]. intros Hrun.
  destruct (apply_adjust_flags cr rp s oa d s1 Hwf HI E1) as [Hu1 [Hu2 [o2 [HI1 Hr1]]]].
  pose proof (UInv_ext own h s s1 Hu1 Hu2 HU) as HU1.
  destruct (update_all_flags cr own (rp_updates rp) s1 o2 (d ++ adjust_flags cr rp) h s' HI1 HU1 Hrun)
    as [oa' [Hr [Hlen [HI' HU']]]].
  exists oa', (adjust_flags cr rp ++ update_all_drops (rp_updates rp) s1).
  assert (Hrf : resp_flagged cr rp (adjust_flags cr rp ++ update_all_drops (rp_updates rp) s1)
                = combine (rp_updates rp) (update_all_drops (rp_updates rp) s1)).
  { unfold resp_flagged, adjust_flags. destruct cr; [destruct (rp_adjust rp)|]; reflexivity. }
  rewrite Hrf. split; [|split; [|split; [exact HI'|split; [reflexivity|split; [exact Hlen|exact HU']]]]].
  - rewrite groups_of_eq, abs_run_app, Hr1, Hr, app_assoc. reflexivity.
  - rewrite groups_of_eq, !app_length, map_length, Hlen. unfold adjust_flags, adjust_groups.
    destruct cr; [destruct (rp_adjust rp)|]; reflexivity.
Qed.

Lemma combine_app_len {A B} (l1 l1' : list A) (l2 l2' : list B) :
  length l1 = length l2 -> combine l1 l2 ++ combine l1' l2' = combine (l1 ++ l1') (l2 ++ l2').
Proof.
  revert l2. induction l1 as [|x l1 IH]; intros [|y l2] Hlen; cbn [length] in Hlen; try discriminate; cbn [app combine]; [reflexivity|].
  rewrite (IH l2) by lia. reflexivity.
Qed.

Lemma all_groups_cons cr rp rps : all_groups cr (rp :: rps) = groups_of cr rp ++ all_groups cr rps.
Proof. reflexivity. Qed.

Lemma run_plugins_flags cr own rps : forall s oa d views h s',
  Forall (wf_for cr) rps -> SInv cr s oa -> UInv own h s ->
  snd (run_plugins rps s views) = Ok s' ->
  exists oa' fl,
    abs_run (all_groups cr rps) oa d = Some (oa', d ++ fl) /\
    SInv cr s' oa' /\
    flagged_updates cr rps fl = combine (concat (map rp_updates rps)) (run_drops rps s) /\
    length (run_drops rps s) = length (concat (map rp_updates rps)) /\
    UInv own (h ++ flagged_updates cr rps fl) s'.
Proof.
  induction rps as [|rp r IH]; intros s oa d views h s' Hwf HI HU Hrun; cbn [run_plugins snd] in Hrun.
  - inversion Hrun; subst s'. exists oa, []. cbn [all_groups map concat abs_run flagged_updates run_drops combine]. rewrite !app_nil_r.
    split; [reflexivity|]. split; [exact HI|]. split; [reflexivity|]. split; [reflexivity|exact HU].
  - inversion Hwf as [|? ? Hw Hr]; subst.
    destruct (apply_response rp s) as [s1|e] eqn:E1; cbn [snd] in Hrun; [|discriminate].
    destruct (apply_response_flags cr own rp s oa d h s1 Hw HI HU E1) as [oa1 [fl1 [Hr1 [Hl1 [HI1 [Hf1 [Hlen HU1]]]]]]].
    destruct (IH s1 oa1 (d ++ fl1) (views ++ [view_of s]) (h ++ resp_flagged cr rp fl1) s' Hr HI1 HU1 Hrun)
      as [oa' [fl2 [Hr2 [HI' [Hf2 [Hlen2 HU']]]]]].
    exists oa', (fl1 ++ fl2). rewrite (flagged_updates_cons cr rp r fl1 fl2 Hl1).
    split; [|split; [exact HI'|split; [|split]]].
    + rewrite all_groups_cons, abs_run_app, Hr1, Hr2, app_assoc. reflexivity.
    + cbn [map concat run_drops]. rewrite E1, Hf1, Hf2.
      apply combine_app_len. symmetry. exact Hlen.
    + cbn [map concat run_drops]. rewrite E1, !app_length, Hlen, Hlen2. reflexivity.
    + rewrite app_assoc. exact HU'.
Qed.

(* ------------------------------------------------------------------ *)
(* 6. the theorems                                                      *)
(* ------------------------------------------------------------------ *)
(* what the harness observes of an entry handed to the runtime *)
Definition out_of (o : option acc_update) : option (string * resources) :=
  match o with Some a => Some (au_id a, au_res a) | None => None end.

Lemma req_created_eq rq : created_of rq = req_created rq.
Proof. destruct rq; reflexivity. Qed.

(* (i) flags alignment for a whole request: the flagged updates of the reference are the updates of
   the history, in order, each with the model's own drop decision *)
Theorem flags_alignment_gen rq rps s :
  Forall (wf_for (req_created rq)) rps -> snd (run_request rq rps) = Ok s ->
  exists oa fl,
    abs_run (all_groups (req_created rq) rps) [] [] = Some (oa, fl) /\
    flagged_updates (req_created rq) rps fl = combine (concat (map rp_updates rps)) (run_drops rps (init_state rq)) /\
    length (run_drops rps (init_state rq)) = length (concat (map rp_updates rps)) /\
    UInv (own_of rq) (flagged_updates (req_created rq) rps fl) s.
Proof.
  intros Hwf Hrun. unfold run_request in Hrun.
  destruct (run_plugins_flags (req_created rq) (own_of rq) rps (init_state rq) [] [] [] [] s Hwf (SInv_init rq) (UInv_init rq) Hrun)
    as [oa [fl [Hr [_ [Hf [Hl HU]]]]]].
  exists oa, fl. cbn [app] in *. split; [exact Hr|]. split; [exact Hf|]. split; [exact Hl|exact HU].
Qed.

Theorem flags_alignment rq rps s :
  Forall wf_rp rps -> snd (run_request rq rps) = Ok s ->
  exists oa fl,
    abs_run (all_groups (req_created rq) rps) [] [] = Some (oa, fl) /\
    flagged_updates (req_created rq) rps fl = combine (concat (map rp_updates rps)) (run_drops rps (init_state rq)) /\
    length (run_drops rps (init_state rq)) = length (concat (map rp_updates rps)) /\
    UInv (own_of rq) (flagged_updates (req_created rq) rps fl) s.
Proof.
  intros Hwf. apply flags_alignment_gen. apply (Forall_impl _ (fun rp H => or_intror H) Hwf).
Qed.

(* update and stop requests process no adjustment: nothing at all is assumed of the responses *)
Theorem flags_alignment_no_create rq rps s :
  req_created rq = None -> snd (run_request rq rps) = Ok s ->
  exists oa fl,
    abs_run (all_groups None rps) [] [] = Some (oa, fl) /\
    flagged_updates None rps fl = combine (concat (map rp_updates rps)) (run_drops rps (init_state rq)) /\
    length (run_drops rps (init_state rq)) = length (concat (map rp_updates rps)) /\
    UInv (own_of rq) (flagged_updates None rps fl) s.
Proof.
  intros Hn Hrun. rewrite <- Hn. apply flags_alignment_gen; [|exact Hrun].
  apply Forall_forall. intros rp _. left. exact Hn.
Qed.

(* the exact statement: the reference IS the model's output, entry by entry, value by value *)
Theorem updates_exact_eq rq rps s :
  Forall wf_rp rps -> snd (run_request rq rps) = Ok s ->
  spec_updates (req_created rq) (own_of rq) rps = Some (map out_of (response_updates rq s)).
Proof.
  intros Hwf Hrun. destruct (flags_alignment rq rps s Hwf Hrun) as [oa [fl [Hr [_ [_ [Hids Hres _]]]]]].
  unfold spec_updates. rewrite Hr. set (us := flagged_updates (req_created rq) rps fl) in *.
  change (dedup (map (fun u : update * bool => u_id (fst u)) us) []) with (targets us). rewrite <- Hids.
  assert (Hplain : forall l : list acc_update,
            (forall a, In a l -> In a (s_updates s) /\ is_own (own_of rq) (au_id a) = false) ->
            map (fun t => Some (t, entry_for res_empty t us)) (map au_id l) = map out_of (map Some l)).
  { intros l Hl. rewrite !map_map. apply map_ext_in. intros a Ha. destruct (Hl a Ha) as [Hin Hno].
    cbn [out_of]. rewrite (Hres a Hin), (ent_not_own _ _ _ Hno). unfold full, start_of. unfold is_own in Hno.
    destruct (own_of rq) as [[oid req]|]; [rewrite Hno|]; reflexivity. }
  destruct rq as [c|id req|id]; cbn [own_of response_updates].
  - f_equal. apply Hplain. intros a Ha. split; [exact Ha|reflexivity].
  - f_equal. rewrite map_app. f_equal.
    + rewrite (filter_ext (fun a => negb (String.eqb id (au_id a))) (fun a => (fun t => negb (String.eqb t id)) (au_id a)))
        by (intros a; rewrite String.eqb_sym; reflexivity).
      rewrite <- map_filter_id. apply Hplain. intros a Ha. apply filter_In in Ha. destruct Ha as [Ha Hne].
      split; [exact Ha|]. cbn [own_of is_own]. apply negb_true_iff. exact Hne.
    + cbn [map]. f_equal. pose proof (find_acc_spec id (s_updates s)) as Hf.
      destruct (find_acc id (s_updates s)) as [a|].
      * destruct Hf as [Hin [Hid Hs]]. rewrite Hs. cbn [out_of]. rewrite (Hres a Hin), Hid.
        unfold ent, full, is_own, start_of. cbn [own_of]. rewrite String.eqb_refl.
        destruct (changed id us); reflexivity.
      * rewrite Hf. reflexivity.
  - f_equal. apply Hplain. intros a Ha. split; [exact Ha|reflexivity].
Qed.

Lemma out_update_eqb_refl x : out_update_eqb res_obs_eqb x x = true.
Proof.
  destruct x as [[i r]|]; [|reflexivity]. cbn [out_update_eqb opt_eqb fst snd].
  rewrite String.eqb_refl, res_obs_eqb_refl. reflexivity.
Qed.

Lemma out_update_obs_eqb_refl x : out_update_obs_eqb x x = true.
Proof. destruct x as [[i r]|]; [|reflexivity]. apply (out_update_eqb_refl (Some (i, r))). Qed.

Lemma updates_obs_eqb_refl own l : updates_obs_eqb own l l = true.
Proof.
  induction l as [|x r IH]; [reflexivity|]. destruct r as [|y r'].
  - cbn [updates_obs_eqb]. destruct own; [apply out_update_obs_eqb_refl|apply out_update_eqb_refl].
  - change (out_update_eqb res_obs_eqb x x && updates_obs_eqb own (y :: r') (y :: r') = true).
    rewrite out_update_eqb_refl, IH. reflexivity.
Qed.

(* C05_updates_exact: the success conjunct of holds_C05 (Run/RunAdapt.v), with the model's output in
   place of the implementation's, for ALL requests and ALL chains of responses *)
Theorem updates_exact rq rps s :
  Forall wf_rp rps -> snd (run_request rq rps) = Ok s ->
  exists us,
    spec_updates (created_of rq) (own_of rq) rps = Some us /\
    updates_obs_eqb (match rq with RUpdate _ _ => true | _ => false end) us
      (map (fun o => match o with Some a => Some (au_id a, au_res a) | None => None end) (response_updates rq s)) = true.
Proof.
  intros Hwf Hrun. exists (map out_of (response_updates rq s)). split.
  - rewrite req_created_eq. apply updates_exact_eq; assumption.
  - apply updates_obs_eqb_refl.
Qed.

(* the run-time predicate itself: any observation that carries the model's error class and the
   model's updates satisfies holds_C05 (success AND failure) *)
Theorem model_satisfies_holds_C05 c :
  Forall wf_rp (ac_resps c) ->
  match snd (run_request (ac_req c) (ac_resps c)) with
  | Ok s => ac_err c = 0 /\ ac_updates c = map out_of (response_updates (ac_req c) s)
  | Err e => ac_err c = err_class e
  end ->
  holds_C05 c = true.
Proof.
  intros Hwf H. unfold holds_C05.
  pose proof (run_request_refines_ledger (ac_req c) (ac_resps c) Hwf) as Hl.
  destruct (snd (run_request (ac_req c) (ac_resps c))) as [s|e] eqn:Hrun.
  - destruct H as [He Hu]. destruct Hl as [_ [Hself _]]. rewrite req_created_eq, Hself, He. cbn [implb andb orb Nat.eqb].
    rewrite (updates_exact_eq _ _ _ Hwf Hrun), Hu. apply updates_obs_eqb_refl.
  - rewrite H.
    assert (Hne : Nat.eqb (err_class e) 0 = false) by (destruct e; reflexivity).
    rewrite Hne. cbn [negb]. rewrite implb_true_r. cbn [andb].
    rewrite <- req_created_eq in Hl.
    unfold spec_updates. unfold abs_conflict in Hl.
    destruct (abs_run (all_groups (created_of (ac_req c)) (ac_resps c)) [] []) as [[oa fl]|]; [|reflexivity].
    destruct Hl as [Hl|Hl]; [discriminate|]. rewrite Hl. cbn [orb andb].
    destruct (own_of (ac_req c)) as [[id req]|]; destruct (err_class e); try reflexivity; destruct e; discriminate.
Qed.

(* (iii) copy-then-commit: an ignore-failure update whose claims are refused does not fail the
   request and leaves every accumulated entry's resources and the update-request view as they
   were (a target mentioned for the first time gets an entry without values) *)
Lemma find_acc_put_acc t a l :
  find_acc t (put_acc a l) = if String.eqb t (au_id a) then Some a else find_acc t l.
Proof.
  induction l as [|b r IH]; cbn [put_acc find_acc]; [reflexivity|].
  destruct (String.eqb_spec (au_id a) (au_id b)) as [E|Hne]; cbn [find_acc].
  - rewrite <- E. destruct (String.eqb t (au_id a)); reflexivity.
  - rewrite IH. destruct (String.eqb_spec t (au_id b)) as [->|_]; [|reflexivity].
    destruct (String.eqb_spec (au_id b) (au_id a)) as [E|_]; [symmetry in E; contradiction|reflexivity].
Qed.

Theorem ignored_conflict_dropped u s :
  u_ignore u = true -> model_drops u s = true ->
  (forall c, s_create s = Some c -> c_id c <> u_id u) ->
  exists s',
    update_one u s = Ok s' /\
    s_update s' = s_update s /\ s_create s' = s_create s /\ s_adjust s' = s_adjust s /\
    forall t, option_map au_res (find_acc t (s_updates s')) =
              if String.eqb t (u_id u)
              then Some (match find_acc t (s_updates s) with Some a => au_res a | None => res_empty end)
              else option_map au_res (find_acc t (s_updates s)).
Proof.
  intros Hig Hd Hself.
  assert (Hok : exists s', update_one u s = Ok s').
  { clear Hd. unfold update_one. rewrite Hig.
    assert (Hns : match s_create s with Some c => String.eqb (c_id c) (u_id u) | None => false end = false).
    { destruct (s_create s) as [c|]; [|reflexivity]. destruct (String.eqb_spec (c_id c) (u_id u)) as [E|_]; [|reflexivity].
      exfalso. apply (Hself c eq_refl E). }
    rewrite Hns. destruct (u_res u) as [r|]; [|eexists; reflexivity].
    destruct (merge_resources _ _ _ _) as [[x|e] o1]; eexists; reflexivity. }
  destruct Hok as [s' Hu]. exists s'. split; [exact Hu|].
  pose proof (update_one_create u s s' Hu) as Hcr.
  assert (Hadj : s_adjust s' = s_adjust s).
  { revert Hu. unfold update_one. destruct (match s_create s with Some c => _ | None => false end); [discriminate|].
    destruct (u_res u); [|intros H; inversion H; reflexivity].
    destruct (merge_resources _ _ _ _) as [[x|e] o1]; [intros H; inversion H; reflexivity|].
    destruct (u_ignore u); intros H; inversion H; reflexivity. }
  destruct (update_one_cases u s s' Hu) as [acc [Hid [Hr Hc]]].
  destruct Hc as [[_ [Hups Hv]]|[r [r' [o' [acc' [_ [Hnd _]]]]]]]; [|congruence].
  split; [exact Hv|]. split; [exact Hcr|]. split; [exact Hadj|].
  intros t. rewrite Hups, find_acc_put_acc, Hid. destruct (String.eqb_spec t (u_id u)) as [->|_]; [|reflexivity].
  cbn [option_map]. rewrite Hr. reflexivity.
Qed.

(* (iv) one entry per distinct target, in order of first mention; the updated container's entry last *)
Lemma map_fst_combine {A B} (l1 : list A) (l2 : list B) : length l2 = length l1 -> map fst (combine l1 l2) = l1.
Proof.
  revert l2. induction l1 as [|x l1 IH]; intros [|y l2] H; cbn [length] in H; try discriminate; cbn [combine map fst]; [reflexivity|].
  rewrite IH by lia. reflexivity.
Qed.

Theorem one_entry_per_target rq rps s :
  Forall wf_rp rps -> snd (run_request rq rps) = Ok s ->
  let mentioned := dedup (map u_id (concat (map rp_updates rps))) [] in
  NoDup mentioned /\
  map au_id (s_updates s) = mentioned /\
  map (option_map au_id) (response_updates rq s) =
  match rq with
  | RUpdate id _ => map Some (filter (fun t => negb (String.eqb t id)) mentioned) ++ [if smem id mentioned then Some id else None]
  | _ => map Some mentioned
  end.
Proof.
  intros Hwf Hrun mentioned. destruct (flags_alignment rq rps s Hwf Hrun) as [oa [fl [_ [Hf [Hlen [Hids _ _]]]]]].
  assert (Hm : map au_id (s_updates s) = mentioned).
  { rewrite Hids. unfold targets, mentioned. f_equal. rewrite Hf.
    transitivity (map u_id (map fst (combine (concat (map rp_updates rps)) (run_drops rps (init_state rq))))).
    - symmetry. apply map_map.
    - rewrite (map_fst_combine _ _ Hlen). reflexivity. }
  split; [apply NoDup_dedup|]. split; [exact Hm|]. rewrite <- Hm.
  destruct rq as [c|id req|id]; cbn [response_updates].
  - rewrite !map_map. reflexivity.
  - rewrite map_app, !map_map. cbn [map option_map]. f_equal.
    + rewrite (filter_ext (fun a => negb (String.eqb id (au_id a))) (fun a => (fun t => negb (String.eqb t id)) (au_id a)))
        by (intros a; rewrite String.eqb_sym; reflexivity).
      rewrite <- map_filter_id, map_map. reflexivity.
    + f_equal. pose proof (find_acc_spec id (s_updates s)) as Hfa. destruct (find_acc id (s_updates s)) as [a|].
      * destruct Hfa as [_ [Hid Hs]]. rewrite Hs. cbn [option_map]. rewrite Hid. reflexivity.
      * rewrite Hfa. reflexivity.
  - rewrite !map_map. reflexivity.
Qed.
