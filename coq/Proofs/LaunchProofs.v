(* Proofs about Model/Launch.v (C18). *)
From Coq Require Import String Ascii List Bool Arith NArith ZArith Lia Permutation Sorted Relations.
From NRI Require Import Base.Strs Base.Assoc Model.Consts Model.Launch Spec.LaunchSpec.
Import ListNotations.
Open Scope string_scope.

(* ------------------------------------------------------------------ strings: cut at the first separator *)

Fixpoint has_char (c : ascii) (s : string) : bool :=
  match s with
  | EmptyString => false
  | String d r => (Ascii.eqb d c || has_char c r)%bool
  end.

Lemma cut_no_sep sep k v : has_char sep k = false -> cut sep (k ++ String sep v) = (k, Some v).
Proof.
  induction k as [|c k IH]; intros H; cbn [append cut].
  - rewrite Ascii.eqb_refl. reflexivity.
  - cbn [has_char] in H. apply orb_false_elim in H. destruct H as [Hc Hk].
    rewrite Hc. rewrite (IH Hk). reflexivity.
Qed.

Lemma cut_Some_inv sep s a b : cut sep s = (a, Some b) -> s = a ++ String sep b /\ has_char sep a = false.
Proof.
  revert a b. induction s as [|c s IH]; intros a b H; cbn [cut] in H.
  - discriminate.
  - destruct (Ascii.eqb_spec c sep) as [->|Hne].
    + inversion H; subst. split; reflexivity.
    + destruct (cut sep s) as [a' b'] eqn:E. inversion H; subst.
      destruct (IH a' b eq_refl) as [-> Hn]. split; [reflexivity|].
      cbn [has_char]. rewrite Hn. destruct (Ascii.eqb_spec c sep); [contradiction|reflexivity].
Qed.

Lemma cut_None_inv sep s a : cut sep s = (a, None) -> a = s /\ has_char sep s = false.
Proof.
  revert a. induction s as [|c s IH]; intros a H; cbn [cut] in H.
  - inversion H. split; reflexivity.
  - destruct (Ascii.eqb_spec c sep) as [->|Hne]; [discriminate|].
    destruct (cut sep s) as [a' b'] eqn:E. inversion H; subst.
    destruct (IH a' eq_refl) as [-> Hn]. split; [reflexivity|].
    cbn [has_char]. rewrite Hn. destruct (Ascii.eqb_spec c sep); [contradiction|reflexivity].
Qed.

Lemma cut_has_sep sep s : has_char sep s = true -> exists a b, cut sep s = (a, Some b).
Proof.
  induction s as [|c s IH]; cbn [has_char cut]; intros H; [discriminate|].
  destruct (Ascii.eqb c sep) eqn:E.
  - eexists _, _. reflexivity.
  - cbn [orb] in H. destruct (IH H) as [a [b ->]]. eexists _, _. reflexivity.
Qed.

Lemma has_char_app c a b : has_char c (a ++ b) = (has_char c a || has_char c b)%bool.
Proof. induction a as [|d a IH]; cbn [append has_char]; [reflexivity|]. rewrite IH, orb_assoc. reflexivity. Qed.

(* ------------------------------------------------------------------ indices *)

Lemma is_digit_not_dash c : is_digit c = true -> Ascii.eqb c "-" = false.
Proof.
  intros H. destruct (Ascii.eqb_spec c "-") as [->|]; [|reflexivity]. vm_compute in H. discriminate.
Qed.

Lemma check_index_shape i : check_index i = true ->
  exists a b, i = String a (String b EmptyString) /\ is_digit a = true /\ is_digit b = true.
Proof.
  destruct i as [|a [|b [|c r]]]; cbn [check_index]; intros H; try discriminate.
  apply andb_true_iff in H. exists a, b. tauto.
Qed.

Lemma check_index_no_dash i : check_index i = true -> has_char "-" i = false.
Proof.
  intros H. destruct (check_index_shape i H) as [a [b [-> [Ha Hb]]]].
  cbn [has_char]. rewrite (is_digit_not_dash a Ha), (is_digit_not_dash b Hb). reflexivity.
Qed.

Lemma check_index_nonempty i : check_index i = true -> i <> "".
Proof. intros H ->. discriminate. Qed.

(* C18_name_roundtrip: the index contains no dash, so SplitN cuts at the right place whatever the base *)
Theorem name_roundtrip i b : check_index i = true -> parse_plugin_name (i ++ "-" ++ b) = Some (i, b).
Proof.
  intros H. unfold parse_plugin_name.
  change (i ++ "-" ++ b) with (i ++ String "-" b).
  rewrite (cut_no_sep "-" i b (check_index_no_dash i H)). rewrite H. reflexivity.
Qed.

Theorem name_roundtrip_conv n i b :
  parse_plugin_name n = Some (i, b) -> n = i ++ "-" ++ b /\ check_index i = true.
Proof.
  unfold parse_plugin_name. destruct (cut "-" n) as [a [b'|]] eqn:E; [|discriminate].
  destruct (check_index a) eqn:C; [|discriminate]. intros H. inversion H; subst.
  destruct (cut_Some_inv _ _ _ _ E) as [-> _]. split; [reflexivity|exact C].
Qed.

Theorem name_malformed_iff n :
  parse_plugin_name n = None <-> ~ exists i b, check_index i = true /\ n = i ++ "-" ++ b.
Proof.
  split.
  - intros H [i [b [Hi ->]]]. rewrite (name_roundtrip i b Hi) in H. discriminate.
  - intros H. destruct (parse_plugin_name n) as [[i b]|] eqn:E; [|reflexivity].
    exfalso. apply H. destruct (name_roundtrip_conv n i b E) as [-> Hi]. exists i, b. split; [exact Hi|reflexivity].
Qed.

(* string order of two valid indices = numeric order: all 100 x 100 pairs, by complete evaluation *)
Definition digit_chars : list ascii := ["0"; "1"; "2"; "3"; "4"; "5"; "6"; "7"; "8"; "9"]%char.
Definition all_indices : list string :=
  flat_map (fun a => map (fun b => String a (String b EmptyString)) digit_chars) digit_chars.

Definition idx_num (s : string) : Z :=
  match s with
  | String a (String b EmptyString) => 10 * (Z.of_N (N_of_ascii a) - 48) + (Z.of_N (N_of_ascii b) - 48)
  | _ => -1
  end%Z.

Lemma is_digit_in c : is_digit c = true -> In c digit_chars.
Proof.
  unfold is_digit. intros H. apply andb_true_iff in H. destruct H as [H1 H2].
  apply N.leb_le in H1. apply N.leb_le in H2.
  rewrite <- (ascii_N_embedding c).
  assert (E : (N_of_ascii c = 48 \/ N_of_ascii c = 49 \/ N_of_ascii c = 50 \/ N_of_ascii c = 51 \/
               N_of_ascii c = 52 \/ N_of_ascii c = 53 \/ N_of_ascii c = 54 \/ N_of_ascii c = 55 \/
               N_of_ascii c = 56 \/ N_of_ascii c = 57)%N) by lia.
  repeat (destruct E as [E|E]; [rewrite E; cbn; tauto|]). rewrite E. cbn. tauto.
Qed.

Lemma check_index_in s : check_index s = true -> In s all_indices.
Proof.
  intros H. destruct (check_index_shape s H) as [a [b [-> [Ha Hb]]]].
  unfold all_indices. apply in_flat_map. exists a. split; [apply is_digit_in; exact Ha|].
  apply (in_map (fun b0 => String a (String b0 EmptyString))). apply is_digit_in. exact Hb.
Qed.

Lemma all_indices_length : length all_indices = 100.
Proof. reflexivity. Qed.

Definition order_table_ok : bool :=
  forallb (fun i => forallb (fun j =>
    (Bool.eqb (String.leb i j) (idx_num i <=? idx_num j)%Z &&
     Bool.eqb (String.ltb i j) (idx_num i <? idx_num j)%Z &&
     ((0 <=? idx_num i) && (idx_num i <? 100))%Z)%bool) all_indices) all_indices.

Lemma order_table : order_table_ok = true.
Proof. vm_compute. reflexivity. Qed.

Lemma order_table_at i j : check_index i = true -> check_index j = true ->
  String.leb i j = (idx_num i <=? idx_num j)%Z /\ String.ltb i j = (idx_num i <? idx_num j)%Z /\
  (0 <= idx_num i < 100)%Z.
Proof.
  intros Hi Hj. pose proof order_table as T. unfold order_table_ok in T.
  rewrite forallb_forall in T. specialize (T i (check_index_in i Hi)).
  rewrite forallb_forall in T. specialize (T j (check_index_in j Hj)).
  apply andb_true_iff in T. destruct T as [T T3]. apply andb_true_iff in T. destruct T as [T1 T2].
  apply Bool.eqb_prop in T1. apply Bool.eqb_prop in T2. apply andb_true_iff in T3.
  destruct T3 as [T3 T4]. apply Z.leb_le in T3. apply Z.ltb_lt in T4. repeat split; assumption.
Qed.

Theorem index_order_is_numeric i j : check_index i = true -> check_index j = true ->
  String.leb i j = (idx_num i <=? idx_num j)%Z /\ String.ltb i j = (idx_num i <? idx_num j)%Z.
Proof. intros Hi Hj. destruct (order_table_at i j Hi Hj) as [A [B _]]. split; assumption. Qed.

(* ------------------------------------------------------------------ sorting *)

Section Sorting.
Context {A : Type} (le : A -> A -> bool).
Hypothesis le_total : forall a b, le a b = true \/ le b a = true.
Let R (a b : A) : Prop := le a b = true.

Lemma insert_by_perm x l : Permutation (x :: l) (insert_by le x l).
Proof.
  induction l as [|y r IH]; cbn [insert_by]; [apply Permutation_refl|].
  destruct (le x y); [apply Permutation_refl|].
  eapply Permutation_trans; [apply perm_swap|]. apply perm_skip. exact IH.
Qed.

Lemma sort_by_perm l : Permutation l (sort_by le l).
Proof.
  induction l as [|x r IH]; cbn [sort_by fold_right]; [apply Permutation_refl|].
  eapply Permutation_trans; [apply perm_skip; exact IH|]. apply insert_by_perm.
Qed.

Lemma insert_by_hdrel a x l : R a x -> HdRel R a l -> HdRel R a (insert_by le x l).
Proof.
  intros Hax H. destruct l as [|y r]; cbn [insert_by]; [constructor; exact Hax|].
  destruct (le x y); constructor; [exact Hax|]. inversion H; assumption.
Qed.

Lemma insert_by_sorted x l : Sorted R l -> Sorted R (insert_by le x l).
Proof.
  induction 1 as [|y r Hs IH Hh]; cbn [insert_by]; [repeat constructor|].
  destruct (le x y) eqn:E.
  - constructor; [constructor; assumption|constructor; exact E].
  - constructor; [exact IH|]. apply insert_by_hdrel; [|exact Hh].
    destruct (le_total x y) as [H|H]; [rewrite H in E; discriminate|exact H].
Qed.

Lemma sort_by_sorted l : Sorted R (sort_by le l).
Proof.
  induction l as [|x r IH]; cbn [sort_by fold_right]; [constructor|]. apply insert_by_sorted. exact IH.
Qed.
End Sorting.

Lemma Sorted_weaken {A} (R R' : A -> A -> Prop) (l : list A) :
  (forall a b, In a l -> In b l -> R a b -> R' a b) -> Sorted R l -> Sorted R' l.
Proof.
  intros H S. induction S as [|x r Hs IH Hh]; [constructor|].
  constructor.
  - apply IH. intros a b Ha Hb. apply H; right; assumption.
  - destruct Hh as [|y r' Hxy]; constructor. apply H; [left; reflexivity|right; left; reflexivity|exact Hxy].
Qed.

Lemma StronglySorted_filter {A} (R : A -> A -> Prop) (f : A -> bool) (l : list A) :
  StronglySorted R l -> StronglySorted R (filter f l).
Proof.
  induction 1 as [|x r Hs IH Hf]; cbn [filter]; [constructor|].
  destruct (f x); [|exact IH]. constructor; [exact IH|].
  rewrite Forall_forall in *. intros y Hy. apply filter_In in Hy. apply Hf. tauto.
Qed.

Lemma filter_filter {A} (f g : A -> bool) (l : list A) :
  filter g (filter f l) = filter (fun x => (f x && g x)%bool) l.
Proof.
  induction l as [|x r IH]; cbn [filter]; [reflexivity|].
  destruct (f x); cbn [filter andb]; [destruct (g x); rewrite IH; reflexivity|exact IH].
Qed.

Lemma name_le_total a b : name_le a b = true \/ name_le b a = true.
Proof. unfold name_le. apply String.leb_total. Qed.

Lemma idx_le_total a b : idx_le a b = true \/ idx_le b a = true.
Proof. unfold idx_le. apply String.leb_total. Qed.

(* os.ReadDir: the same entries, sorted by file name *)
Lemma read_dir_perm es : Permutation es (read_dir es).
Proof. apply sort_by_perm. Qed.

Lemma read_dir_sorted es : Sorted (fun a b => String.leb (de_name a) (de_name b) = true) (read_dir es).
Proof. apply (sort_by_sorted name_le name_le_total). Qed.

(* ------------------------------------------------------------------ discovery *)

(* launch candidates: not a directory and at least one execute bit *)
Definition candidate (e : dirent) : bool := (negb (de_is_dir e) && executable e)%bool.

(* what makes discovery fail on a candidate: malformed name, or unreadable drop-in *)
Definition offending (d : dropin_dir) (e : dirent) : Prop :=
  candidate e = true /\
  (parse_plugin_name (de_name e) = None \/
   exists i b, parse_plugin_name (de_name e) = Some (i, b) /\ get_plugin_config d i b = None).

Definition discovered_ok (d : dropin_dir) (p : discovered) : Prop :=
  check_index (d_idx p) = true /\ get_plugin_config d (d_idx p) (d_base p) = Some (d_cfg p).

Lemma discover_loop_Some d es l : discover_loop d es = Some l ->
  map d_name l = map de_name (filter candidate es) /\ Forall (discovered_ok d) l.
Proof.
  revert l. induction es as [|e r IH]; intros l H; cbn [discover_loop] in H.
  - inversion H. split; [reflexivity|constructor].
  - unfold candidate at 1. cbn [filter].
    destruct (de_is_dir e) eqn:Ed; cbn [negb andb].
    + apply IH. exact H.
    + destruct (executable e) eqn:Ex; cbn [negb] in H |- *.
      2:{ apply IH. exact H. }
      destruct (parse_plugin_name (de_name e)) as [[i b]|] eqn:Ep; [|discriminate].
      destruct (get_plugin_config d i b) as [cfg|] eqn:Ec; [|discriminate].
      destruct (discover_loop d r) as [l'|] eqn:El; [|discriminate].
      inversion H; subst. destruct (IH l' eq_refl) as [Hm Hf].
      destruct (name_roundtrip_conv _ _ _ Ep) as [Hn Hi].
      split.
      * cbn [map]. unfold d_name at 1. cbn [d_idx d_base]. rewrite <- Hn.
        unfold candidate in Hm. rewrite Hm. reflexivity.
      * constructor; [|exact Hf]. split; cbn [d_idx d_base d_cfg]; assumption.
Qed.

Lemma discover_loop_None d es : discover_loop d es = None <-> Exists (offending d) es.
Proof.
  induction es as [|e r IH]; cbn [discover_loop].
  - split; [discriminate|]. intros H. inversion H.
  - split.
    + intros H. destruct (de_is_dir e) eqn:Ed.
      { apply Exists_cons_tl. apply IH. exact H. }
      destruct (executable e) eqn:Ex; cbn [negb] in H.
      2:{ apply Exists_cons_tl. apply IH. exact H. }
      assert (Hc : candidate e = true) by (unfold candidate; rewrite Ed, Ex; reflexivity).
      destruct (parse_plugin_name (de_name e)) as [[i b]|] eqn:Ep.
      2:{ apply Exists_cons_hd. split; [exact Hc|left; exact Ep]. }
      destruct (get_plugin_config d i b) as [cfg|] eqn:Ec.
      2:{ apply Exists_cons_hd. split; [exact Hc|right; exists i, b; split; [exact Ep|exact Ec]]. }
      destruct (discover_loop d r) as [l'|] eqn:El; [discriminate|].
      apply Exists_cons_tl. apply IH. reflexivity.
    + intros H. apply Exists_cons in H. destruct H as [[Hc Ho]|H].
      * unfold candidate in Hc. apply andb_true_iff in Hc. destruct Hc as [Hd Hx].
        apply negb_true_iff in Hd. rewrite Hd, Hx. cbn [negb].
        destruct Ho as [Ho|[i [b [Hp Hg]]]]; [rewrite Ho; reflexivity|].
        rewrite Hp, Hg. reflexivity.
      * apply IH in H. destruct (de_is_dir e); [exact H|].
        destruct (negb (executable e)); [exact H|].
        destruct (parse_plugin_name (de_name e)) as [[i b]|]; [|reflexivity].
        destruct (get_plugin_config d i b); [|reflexivity]. rewrite H. reflexivity.
Qed.

(* C18_discovery_exact, success: the discovered plugins are exactly the launch candidates, in directory
   (file-name) order; each carries a valid index, the rest of the name and its drop-in configuration *)
Theorem discovery_exact_ok es d l : discover_plugins es d = Some l ->
  map d_name l = map de_name (filter candidate (read_dir es)) /\ Forall (discovered_ok d) l.
Proof. unfold discover_plugins. apply discover_loop_Some. Qed.

(* … failure: exactly when some candidate has a malformed name (I6) or an unreadable drop-in *)
Theorem discovery_exact_err es d :
  discover_plugins es d = None <-> exists e, In e es /\ offending d e.
Proof.
  unfold discover_plugins. rewrite discover_loop_None, Exists_exists.
  split; intros [e [Hi Ho]]; exists e; (split; [|exact Ho]).
  - eapply Permutation_in; [apply Permutation_sym; apply read_dir_perm|exact Hi].
  - eapply Permutation_in; [apply read_dir_perm|exact Hi].
Qed.

Theorem discovery_total es d :
  (exists l, discover_plugins es d = Some l) \/ discover_plugins es d = None.
Proof. destruct (discover_plugins es d); [left; eexists; reflexivity|right; reflexivity]. Qed.

(* distinct file names (a directory) give distinct discovered plugins: each is launched once *)
Lemma NoDup_filter {A} (f : A -> bool) l : NoDup l -> NoDup (filter f l).
Proof.
  induction 1 as [|x r Hn Hd IH]; cbn [filter]; [constructor|].
  destruct (f x); [|exact IH]. constructor; [|exact IH]. intros Hi. apply filter_In in Hi. tauto.
Qed.

Lemma map_filter_names (f : dirent -> bool) l : NoDup (map de_name l) -> NoDup (map de_name (filter f l)).
Proof.
  induction l as [|x r IH]; cbn [map filter]; intros H; [constructor|].
  inversion H as [|? ? Hn Hd]; subst. destruct (f x); cbn [map]; [|apply IH; exact Hd].
  constructor; [|apply IH; exact Hd]. intros Hi. apply Hn.
  apply in_map_iff in Hi. destruct Hi as [y [Hy Hi]]. apply filter_In in Hi.
  apply in_map_iff. exists y. tauto.
Qed.

Theorem discovery_nodup es d l : NoDup (map de_name es) -> discover_plugins es d = Some l ->
  NoDup (map d_name l).
Proof.
  intros Hn H. destruct (discovery_exact_ok es d l H) as [-> _].
  apply map_filter_names. eapply Permutation_NoDup; [|exact Hn].
  apply Permutation_map. apply read_dir_perm.
Qed.

(* ------------------------------------------------------------------ drop-in precedence *)

Theorem dropin_precedence d idx base :
  get_plugin_config d idx base =
  match read_file d (idx ++ "-" ++ base ++ ".conf") with
  | RData s => Some s
  | RError => None
  | RMissing =>
      match read_file d (base ++ ".conf") with
      | RData s => Some s
      | RError => None
      | RMissing => Some ""
      end
  end.
Proof. reflexivity. Qed.

(* ------------------------------------------------------------------ environment *)

(* side conditions on the regenerated names: no '=' inside, pairwise distinct *)
Definition env_names_ok : bool :=
  (negb (has_char "=" PluginNameEnvVar) && negb (has_char "=" PluginIdxEnvVar) &&
   negb (has_char "=" PluginSocketEnvVar) &&
   negb (String.eqb PluginIdxEnvVar PluginNameEnvVar) && negb (String.eqb PluginSocketEnvVar PluginNameEnvVar) &&
   negb (String.eqb PluginSocketEnvVar PluginIdxEnvVar))%bool.

Lemma env_names_ok_true : env_names_ok = true.
Proof. vm_compute. reflexivity. Qed.

Lemma env_names_facts :
  has_char "=" PluginNameEnvVar = false /\ has_char "=" PluginIdxEnvVar = false /\
  has_char "=" PluginSocketEnvVar = false /\
  String.eqb PluginIdxEnvVar PluginNameEnvVar = false /\ String.eqb PluginSocketEnvVar PluginNameEnvVar = false /\
  String.eqb PluginSocketEnvVar PluginIdxEnvVar = false.
Proof.
  pose proof env_names_ok_true as H. unfold env_names_ok in H.
  repeat (apply andb_true_iff in H; destruct H as [H ?]).
  repeat match goal with X : negb _ = true |- _ => apply negb_true_iff in X end.
  repeat split; assumption.
Qed.

Lemma cut_env k v : has_char "=" k = false -> cut "=" (k ++ "=" ++ v) = (k, Some v).
Proof. intros H. change (k ++ "=" ++ v) with (k ++ String "=" v). apply cut_no_sep. exact H. Qed.

Theorem getenv_child idx base :
  getenv (child_env idx base) PluginNameEnvVar = base /\
  getenv (child_env idx base) PluginIdxEnvVar = idx /\
  getenv (child_env idx base) PluginSocketEnvVar = "3".
Proof.
  destruct env_names_facts as [N1 [N2 [N3 [D1 [D2 D3]]]]].
  change (child_env idx base) with
    [PluginNameEnvVar ++ String "=" base; PluginIdxEnvVar ++ String "=" idx; PluginSocketEnvVar ++ String "=" "3"].
  split; [|split]; cbn [getenv]; rewrite (cut_no_sep "=" _ _ N1); cbn beta iota.
  - rewrite String.eqb_refl. reflexivity.
  - rewrite D1, (cut_no_sep "=" _ _ N2). cbn beta iota. rewrite String.eqb_refl. reflexivity.
  - rewrite D2, (cut_no_sep "=" _ _ N2). cbn beta iota. rewrite D3, (cut_no_sep "=" _ _ N3). cbn beta iota.
    rewrite String.eqb_refl. reflexivity.
Qed.

(* the stub's side of the hand-over: it finds its index and name … *)
Theorem stub_identity_child idx base argv0 : idx <> "" -> base <> "" ->
  stub_identity (child_env idx base) argv0 = Some (idx, base).
Proof.
  intros Hi Hb. unfold stub_identity. destruct (getenv_child idx base) as [-> [-> _]].
  destruct (String.eqb_spec idx ""); [contradiction|]. destruct (String.eqb_spec base ""); [contradiction|].
  reflexivity.
Qed.

(* … with an empty name (a file called "NN-") it falls back to the file name for the name *)
Theorem stub_identity_child_empty_base idx argv0 : idx <> "" ->
  stub_identity (child_env idx "") argv0 = Some (idx, path_base argv0).
Proof.
  intros Hi. unfold stub_identity. destruct (getenv_child idx "") as [-> [-> _]].
  destruct (String.eqb_spec idx ""); [contradiction|]. reflexivity.
Qed.

(* … and the pre-connected socket *)
Theorem stub_connect_child idx base : stub_connect (child_env idx base) = ConnFd 3.
Proof.
  unfold stub_connect. destruct (getenv_child idx base) as [_ [_ ->]]. reflexivity.
Qed.

Theorem env_exact idx base : check_index idx = true -> base <> "" ->
  child_env idx base =
    [PluginNameEnvVar ++ "=" ++ base; PluginIdxEnvVar ++ "=" ++ idx; PluginSocketEnvVar ++ "=3"] /\
  child_fds = [0; 1; 2; 3]%N /\
  (forall argv0, stub_identity (child_env idx base) argv0 = Some (idx, base)) /\
  (forall argv0, stub_name (child_env idx base) argv0 = Some (idx ++ "-" ++ base)) /\
  stub_connect (child_env idx base) = ConnFd 3.
Proof.
  intros Hi Hb. pose proof (check_index_nonempty idx Hi) as Hne.
  split; [reflexivity|]. split; [reflexivity|]. split; [|split].
  - intros a. apply stub_identity_child; assumption.
  - intros a. unfold stub_name. rewrite stub_identity_child by assumption. reflexivity.
  - apply stub_connect_child.
Qed.

(* ------------------------------------------------------------------ failures are skipped *)

Lemma started_synced oc ds :
  synced oc (started oc ds) = filter (fun p => active (oc p)) ds.
Proof. unfold synced, started, active. apply filter_filter. Qed.

Theorem start_plugins_perm oc ds :
  Permutation (filter (fun p => active (oc p)) ds) (start_plugins oc ds).
Proof. unfold start_plugins, sort_plugins. rewrite started_synced. apply sort_by_perm. Qed.

(* C18_failures_skipped: over any list of discovered plugins and any assignment of outcomes, a plugin is
   in the active list iff it was discovered and its own start, registration, configuration and
   synchronisation succeeded; nothing else matters *)
Theorem failures_skipped oc ds p :
  In p (start_plugins oc ds) <-> In p ds /\ active (oc p) = true.
Proof.
  split; intros H.
  - apply (Permutation_in _ (Permutation_sym (start_plugins_perm oc ds))) in H.
    apply filter_In in H. exact H.
  - apply (Permutation_in _ (start_plugins_perm oc ds)). apply filter_In. exact H.
Qed.

Theorem others_unaffected oc oc' ds p : oc p = oc' p ->
  (In p (start_plugins oc ds) <-> In p (start_plugins oc' ds)).
Proof. intros H. rewrite !failures_skipped, H. tauto. Qed.

Lemma active_cases o : active o = true <-> o = OGood \/ o = ODieLater \/ o = OHangLater.
Proof. destruct o; cbn; split; intros H; try discriminate; try tauto; destruct H as [H|[H|H]]; discriminate. Qed.

(* ------------------------------------------------------------------ a plugin's start depends on its own behaviour only *)

(* C18_start_depends_on_own_behaviour: with a request time-out T and answer times tm, whether p ends up in r.plugins
   is decided by p's own outcome and p's own answer time; the other plugins' outcomes and times (a hanging one
   before it included), their number and their order are irrelevant *)
Theorem start_depends_on_own_behaviour T tm tm' oc oc' ds p : oc p = oc' p -> tm p = tm' p ->
  (In p (start_plugins (timed_outcome T tm oc) ds) <-> In p (start_plugins (timed_outcome T tm' oc') ds)).
Proof. intros Ho Ht. apply others_unaffected. unfold timed_outcome. rewrite Ho, Ht. reflexivity. Qed.

(* C18_slow_plugins_do_not_affect_others: a discovered plugin that is healthy and answers within the time-out is kept,
   whatever time every other plugin takes *)
Theorem timely_plugin_kept T tm oc ds p : In p ds -> active (oc p) = true -> (tm p <= T)%Z ->
  In p (start_plugins (timed_outcome T tm oc) ds).
Proof.
  intros Hi Ha Ht. apply failures_skipped. split; [exact Hi|]. unfold timed_outcome.
  apply Z.leb_le in Ht. destruct (oc p); cbn in Ha; try discriminate; rewrite Ht; reflexivity.
Qed.

(* … and one that does not answer in time is dropped and killed like any plugin refusing to synchronise *)
Theorem late_plugin_dropped T tm oc ds p : (T < tm p)%Z ->
  ~ In p (start_plugins (timed_outcome T tm oc) ds) /\
  (launches (oc p) = true -> state_after_start (timed_outcome T tm oc p) = Some PGone).
Proof.
  intros Ht. assert (E : (tm p <=? T)%Z = false) by (apply Z.leb_gt; exact Ht).
  split.
  - intros H. apply failures_skipped in H. destruct H as [_ Ha]. unfold timed_outcome in Ha. rewrite E in Ha.
    destruct (oc p); cbn in Ha; discriminate.
  - unfold timed_outcome. rewrite E. destruct (oc p); cbn; intros; try discriminate; reflexivity.
Qed.

(* the process-level account: start_world is the plugin-wise image of start_record *)
Theorem start_world_pointwise calls fails oc ds :
  start_world calls fails oc ds = map (fun p => start_record calls fails (oc p) p) (filter (fun p => launches (oc p)) ds).
Proof.
  unfold start_world, failed_start_world, attempt_world, stop_plugins, start_record. destruct fails.
  - rewrite map_map. apply map_ext. intros p. unfold stop_step. cbn.
    destruct (starts (oc p) && (negb calls || syncs (oc p)))%bool; reflexivity.
  - reflexivity.
Qed.

(* The variant in which ONE deadline T is shared by the whole synchronisation loop — the time an earlier plugin takes
   (at most until the deadline) is charged to the later ones — is refuted: a healthy, prompt plugin after a hanging
   one is dropped *)
Fixpoint synced_shared_deadline (T : Z) (tm : discovered -> Z) (oc : discovered -> outcome) (elapsed : Z)
    (l : list discovered) : list discovered :=
  match l with
  | [] => []
  | p :: r =>
      if (syncs (oc p) && (elapsed + tm p <=? T)%Z)%bool
      then p :: synced_shared_deadline T tm oc (elapsed + tm p)%Z r
      else synced_shared_deadline T tm oc (Z.min T (elapsed + tm p))%Z r
  end.

Theorem shared_deadline_refuted : exists T tm oc ds p,
  In p ds /\ active (oc p) = true /\ (tm p <= T)%Z /\ ~ In p (synced_shared_deadline T tm oc 0 (started oc ds)).
Proof.
  exists 10%Z, (fun q => if String.eqb (d_base q) "hang" then 1000%Z else 1%Z), (fun _ => OGood),
    [ {| d_idx := "10"; d_base := "hang"; d_cfg := "" |}; {| d_idx := "20"; d_base := "ok"; d_cfg := "" |} ],
    {| d_idx := "20"; d_base := "ok"; d_cfg := "" |}.
  split; [right; left; reflexivity|]. split; [reflexivity|]. split; [cbn; lia|]. cbn. intros H. exact H.
Qed.

(* ------------------------------------------------------------------ the spelling of the plugin directory *)

(* C18_executes_what_it_discovered: whatever the plugin directory is called — absolute or relative to the runtime's
   working directory — the file started is the file discovery looked at *)
Theorem executes_what_it_discovered cwd dir name : executed_file cwd "" dir name = discovered_file cwd dir name.
Proof. reflexivity. Qed.

(* with cmd.Dir set to the plugin directory a relative directory is applied twice *)
Theorem cmd_dir_refuted : exists cwd dir name, executed_file cwd dir dir name <> discovered_file cwd dir name.
Proof. exists "/run", "plugins", "10-a". cbn. discriminate. Qed.

(* ------------------------------------------------------------------ inherited descriptors *)

Lemma exec_fds_all_cloexec n parent : Forall (fun f => fd_cloexec f = true) parent ->
  exec_fds n parent = ([0; 1; 2]%N ++ extra_fds n 3)%list.
Proof.
  intros H. unfold exec_fds.
  assert (E : filter (fun f => (negb (fd_cloexec f) && (3 + N.of_nat n <=? fd_num f)%N)%bool) parent = []).
  { induction parent as [|f r IH]; [reflexivity|]. inversion H; subst. cbn [filter]. rewrite H2. cbn. apply IH. assumption. }
  rewrite E. cbn [map]. rewrite app_nil_r. reflexivity.
Qed.

(* C18_inherits_only_its_socket: whatever the runtime has open (any number of descriptors, any numbers — other plugins'
   sockets, listeners, files), as long as they carry the close-on-exec flag the way Go and pkg/net open them, and
   wherever the socket pair sits: the launched process starts with exactly 0, 1, 2 and 3 *)
Theorem launched_fds_exact others a b : Forall (fun f => fd_cloexec f = true) others ->
  launched_fds others a b = child_fds.
Proof.
  intros H. unfold launched_fds. rewrite exec_fds_all_cloexec; [reflexivity|].
  apply Forall_app. split; [exact H|]. repeat constructor.
Qed.

(* the variant whose peer end is left inheritable is refuted: the plugin also gets the peer end at its old number *)
Theorem inheritable_peer_refuted : exists others a b,
  Forall (fun f => fd_cloexec f = true) others /\
  exec_fds 1 (others ++ socketpair_fds true false a b)%list <> child_fds.
Proof.
  exists [ {| fd_num := 5; fd_cloexec := true |} ], 7%N, 8%N. split; [repeat constructor|]. cbn. discriminate.
Qed.

(* ------------------------------------------------------------------ identity = file name, whatever is declared *)

Lemma registered_is_started decl oc ds : registered false decl oc ds = started oc ds.
Proof.
  unfold registered, started, register_plugin. induction ds as [|p r IH]; [reflexivity|].
  cbn [flat_map filter]. rewrite IH. destruct (launches (oc p) && starts (oc p))%bool; reflexivity.
Qed.

(* C18_identity_is_file_name: whatever name and index each launched plugin declares when it registers (another valid
   index, an empty name, a malformed index), r.plugins after Start is what the file names alone determine *)
Theorem declared_identity_irrelevant decl oc ds : start_plugins_declared decl oc ds = start_plugins oc ds.
Proof. unfold start_plugins_declared, start_plugins. rewrite registered_is_started. reflexivity. Qed.

(* C18_invocation_order_by_file_name: the plugins an event reaches, and their order, are the same function of the
   directory for any two assignments of declared identities *)
Theorem invocation_independent_of_declared decl decl' oc ds alive :
  invoked alive (start_plugins_declared decl oc ds) = invoked alive (start_plugins_declared decl' oc ds).
Proof. rewrite !declared_identity_irrelevant. reflexivity. Qed.

(* The variant that treats every registering plugin like an external one is refuted: a plugin declaring another
   index moves in the order, and one declaring an empty name or a malformed index is lost *)
Definition start_plugins_all_validated (decl : discovered -> string * string) (oc : discovered -> outcome)
    (ds : list discovered) : list discovered :=
  sort_plugins (synced oc (registered true decl oc ds)).

Theorem all_validated_refuted : exists decl oc ds,
  map d_name (start_plugins oc ds) = ["10-x"; "20-y"; "30-z"; "40-w"] /\
  map d_name (start_plugins_all_validated decl oc ds) = ["20-y"; "30-z"; "90-x"].
Proof.
  exists (fun p => if String.eqb (d_base p) "x" then ("x", "90")
                   else if String.eqb (d_base p) "w" then ("w", "9") else (d_base p, d_idx p)),
         (fun _ => OGood),
         [ {| d_idx := "10"; d_base := "x"; d_cfg := "" |}; {| d_idx := "20"; d_base := "y"; d_cfg := "" |};
           {| d_idx := "30"; d_base := "z"; d_cfg := "" |}; {| d_idx := "40"; d_base := "w"; d_cfg := "" |} ].
  split; reflexivity.
Qed.

(* ------------------------------------------------------------------ invocation order *)

Definition num_le (a b : discovered) : Prop := (idx_num (d_idx a) <= idx_num (d_idx b))%Z.

Theorem start_plugins_sorted_str oc ds :
  Sorted (fun a b => String.leb (d_idx a) (d_idx b) = true) (start_plugins oc ds).
Proof. unfold start_plugins, sort_plugins. apply (sort_by_sorted idx_le idx_le_total). Qed.

Lemma num_le_trans : forall x y z, num_le x y -> num_le y z -> num_le x z.
Proof. unfold num_le. intros. lia. Qed.

(* sorted by numeric index, strongly (every earlier plugin has an index <= every later one) *)
Theorem start_plugins_sorted oc ds : Forall (fun p => check_index (d_idx p) = true) ds ->
  StronglySorted num_le (start_plugins oc ds).
Proof.
  intros Hv. apply Sorted_StronglySorted; [exact num_le_trans|].
  eapply Sorted_weaken; [|apply start_plugins_sorted_str].
  intros a b Ha Hb Hab. apply failures_skipped in Ha. apply failures_skipped in Hb.
  rewrite Forall_forall in Hv. unfold num_le.
  destruct (index_order_is_numeric (d_idx a) (d_idx b) (Hv a (proj1 Ha)) (Hv b (proj1 Hb))) as [E _].
  cbv beta in Hab. rewrite E in Hab. apply Z.leb_le. exact Hab.
Qed.

(* every event walks the list in that order and reaches exactly the plugins that are alive, once *)
Theorem invocation_order oc ds alive : Forall (fun p => check_index (d_idx p) = true) ds ->
  let ps := start_plugins oc ds in
  StronglySorted num_le (invoked alive ps) /\
  (forall p, In p (invoked alive ps) <-> In p ds /\ active (oc p) = true /\ alive p = true) /\
  (NoDup ds -> NoDup (invoked alive ps)).
Proof.
  intros Hv ps. split; [|split].
  - apply StronglySorted_filter. apply start_plugins_sorted. exact Hv.
  - intros p. unfold invoked. rewrite filter_In. unfold ps. rewrite failures_skipped. tauto.
  - intros Hn. unfold invoked. apply NoDup_filter.
    eapply Permutation_NoDup; [apply start_plugins_perm|]. apply NoDup_filter. exact Hn.
Qed.

(* a plugin found dead is dropped; the survivors stay in the same relative order *)
Theorem dropped_after_event oc ds alive :
  after_event alive (start_plugins oc ds) = filter alive (start_plugins oc ds).
Proof. reflexivity. Qed.

(* discovery only yields valid indices, so the hypotheses above hold for what Start works on *)
Lemma discovered_indices_valid es d l : discover_plugins es d = Some l ->
  Forall (fun p => check_index (d_idx p) = true) l.
Proof.
  intros H. destruct (discovery_exact_ok es d l H) as [_ Hf].
  eapply Forall_impl; [|exact Hf]. intros p [Hp _]. exact Hp.
Qed.

(* ------------------------------------------------------------------ kill and reap *)

(* every launched process that is not kept is dead and waited for when Start returns … *)
Theorem skipped_is_killed o : launches o = true -> active o = false -> state_after_start o = Some PGone.
Proof. destruct o; cbn; intros; try discriminate; reflexivity. Qed.

(* … the kept ones run … *)
Theorem kept_is_running o : active o = true -> state_after_start o = Some PRunning.
Proof. destruct o; cbn; intros; try discriminate; reflexivity. Qed.

(* ------------------------------------------------------------------ the plugin table over time: drop and stop *)

(* every launched process is gone: not running, not a zombie *)
Definition all_gone (w : list rplugin) : Prop := Forall (fun p => rp_proc p = PGone) w.
(* the invariant of the runtime: a launched plugin that is not (or no longer) in r.plugins has been killed and
   waited for *)
Definition dropped_gone (w : list rplugin) : Prop := Forall (fun p => rp_listed p = false -> rp_proc p = PGone) w.

Lemma step_keeps_plugins w a : map rp_d (step w a) = map rp_d w.
Proof.
  destruct a as [n ex|n| |]; cbn [step]; unfold stop_plugins; rewrite map_map; apply map_ext; intros p.
  - unfold conn_lost. destruct (String.eqb (rp_name p) n); reflexivity.
  - unfold notice. destruct (String.eqb (rp_name p) n && negb (rp_conn p))%bool; reflexivity.
  - unfold event_step. destruct (rp_listed p); [|reflexivity].
    destruct (negb (rp_closed p) && negb (rp_conn p))%bool; cbn; [reflexivity|].
    destruct (rp_closed p); reflexivity.
  - unfold stop_step. destruct (rp_listed p); reflexivity.
Qed.

Lemma run_keeps_plugins h : forall w, map rp_d (run h w) = map rp_d w.
Proof.
  induction h as [|a h IH]; intros w; [reflexivity|].
  unfold run in *. cbn [fold_left]. rewrite IH. apply step_keeps_plugins.
Qed.

Lemma run_app h1 h2 w : run (h1 ++ h2)%list w = run h2 (run h1 w).
Proof. unfold run. apply fold_left_app. Qed.

(* C18_killed_on_stop.  stopPlugins on ANY plugin table — whatever the closed flags, the state of the connections
   and of the processes (running, already exited): when every process outside r.plugins was gone before, every
   launched process is gone afterwards, r.plugins is empty, and no plugin was lost from the books *)
Theorem stop_kills_all w : dropped_gone w ->
  all_gone (stop_plugins w) /\ r_plugins (stop_plugins w) = [] /\ map rp_d (stop_plugins w) = map rp_d w.
Proof.
  intros Hd. split; [|split].
  - unfold all_gone, stop_plugins. apply Forall_forall. intros q Hq. apply in_map_iff in Hq.
    destruct Hq as [p [<- Hp]]. unfold dropped_gone in Hd. rewrite Forall_forall in Hd. specialize (Hd p Hp).
    unfold stop_step. destruct (rp_listed p); [reflexivity|]. apply Hd. reflexivity.
  - unfold r_plugins, stop_plugins. induction w as [|p r IH]; [reflexivity|].
    cbn [map filter]. inversion Hd; subst.
    assert (E : rp_listed (stop_step p) = false).
    { unfold stop_step. destruct (rp_listed p) eqn:L; [reflexivity|exact L]. }
    rewrite E. apply IH. assumption.
  - exact (step_keeps_plugins w AStop).
Qed.

(* the special case the statement names: the list is r.plugins itself, with arbitrary flags and process states *)
Theorem stop_kills_listed ps : Forall (fun p => rp_listed p = true) ps -> all_gone (stop_plugins ps).
Proof.
  intros Hl. apply stop_kills_all. unfold dropped_gone. eapply Forall_impl; [|exact Hl].
  intros p L F. rewrite L in F. discriminate.
Qed.

Lemma world_after_start_dropped_gone oc ds : dropped_gone (world_after_start oc ds).
Proof.
  unfold dropped_gone, world_after_start. apply Forall_forall. intros q Hq. apply in_map_iff in Hq.
  destruct Hq as [p [<- Hp]]. apply filter_In in Hp. destruct Hp as [_ Hl]. cbn.
  destruct (oc p); cbn in *; intros; try discriminate; reflexivity.
Qed.

(* no action of the plugin or of the runtime breaks the invariant *)
Lemma step_dropped_gone w a : dropped_gone w -> dropped_gone (step w a).
Proof.
  unfold dropped_gone. intros Hd. rewrite Forall_forall in Hd. apply Forall_forall. intros q Hq.
  destruct a as [n ex|n| |]; cbn [step] in Hq; unfold stop_plugins in Hq; apply in_map_iff in Hq;
    destruct Hq as [p [<- Hp]]; specialize (Hd p Hp).
  - unfold conn_lost. destruct (String.eqb (rp_name p) n); [|exact Hd]. cbn. intros L. rewrite (Hd L). reflexivity.
  - unfold notice. destruct (String.eqb (rp_name p) n && negb (rp_conn p))%bool; exact Hd.
  - unfold event_step. destruct (rp_listed p) eqn:L; [|rewrite L; exact Hd].
    destruct (negb (rp_closed p) && negb (rp_conn p))%bool; cbn; [reflexivity|].
    destruct (rp_closed p); cbn; [reflexivity|]. rewrite L. discriminate.
  - unfold stop_step. destruct (rp_listed p) eqn:L; cbn; [reflexivity|]. rewrite L. exact Hd.
Qed.

Lemma run_dropped_gone h : forall w, dropped_gone w -> dropped_gone (run h w).
Proof.
  induction h as [|a h IH]; intros w Hd; [exact Hd|].
  unfold run in *. cbn [fold_left]. apply IH. apply step_dropped_gone. exact Hd.
Qed.

(* the ordinary start-up is the attempt in which the SyncFn calls the closure *)
Lemma attempt_world_called oc ds : attempt_world true oc ds = world_after_start oc ds.
Proof.
  unfold attempt_world, world_after_start. apply map_ext_in. intros p Hp. apply filter_In in Hp.
  destruct Hp as [_ Hl]. destruct (oc p); cbn in *; try discriminate; reflexivity.
Qed.

Lemma attempt_world_dropped_gone calls oc ds : dropped_gone (attempt_world calls oc ds).
Proof.
  unfold dropped_gone, attempt_world. apply Forall_forall. intros q Hq. apply in_map_iff in Hq.
  destruct Hq as [p [<- _]]. cbn. destruct (starts (oc p) && (negb calls || syncs (oc p)))%bool; [discriminate|reflexivity].
Qed.

(* C18_failed_start_kills_all.  Start fails because the runtime's SyncFn returns an error — before it ever called
   the synchronisation closure, or after it: whatever stage each launched plugin had reached (could not register,
   Configure failed, configured and waiting, synchronised, refused to synchronise), every process launched by the
   attempt is gone when Start returns, nothing is kept in r.plugins, and they are all accounted for *)
Theorem failed_start_kills_all calls oc ds :
  all_gone (failed_start_world calls oc ds) /\ r_plugins (failed_start_world calls oc ds) = [] /\
  map rp_d (failed_start_world calls oc ds) = filter (fun p => launches (oc p)) ds.
Proof.
  unfold failed_start_world.
  destruct (stop_kills_all _ (attempt_world_dropped_gone calls oc ds)) as [G [R M]].
  split; [exact G|split; [exact R|]]. rewrite M. unfold attempt_world. rewrite map_map. cbn. apply map_id.
Qed.

Lemma start_world_dropped_gone calls fails oc ds : dropped_gone (start_world calls fails oc ds).
Proof.
  unfold start_world. destruct fails; [|apply attempt_world_dropped_gone].
  change (failed_start_world calls oc ds) with (step (attempt_world calls oc ds) AStop).
  apply step_dropped_gone. apply attempt_world_dropped_gone.
Qed.

(* The variant whose clean-up walks only the plugins the closure synchronised (an empty slice when the closure never
   ran) is refuted: a configured plugin is left running *)
Definition failed_start_world_synced_only (calls : bool) (oc : discovered -> outcome) (ds : list discovered) : list rplugin :=
  if calls then stop_plugins (attempt_world calls oc ds) else attempt_world calls oc ds.

Theorem failed_start_synced_only_refuted : exists oc ds, ~ all_gone (failed_start_world_synced_only false oc ds).
Proof.
  exists (fun _ => OGood), [ {| d_idx := "10"; d_base := "a"; d_cfg := "" |} ].
  intros H. inversion H as [|x l Hx _]; subst. cbn in Hx. discriminate.
Qed.

(* getPluginConfig: an existing, readable, EMPTY idx-base.conf is the configuration; base.conf is not consulted *)
Theorem empty_specific_shadows d idx base :
  read_file d (idx ++ "-" ++ base ++ ".conf") = RData "" -> get_plugin_config d idx base = Some "".
Proof. intros H. unfold get_plugin_config, dropin_paths. cbn [first_config]. rewrite H. reflexivity. Qed.

(* the variant that goes on to the next file while the content is empty is refuted *)
Fixpoint first_nonempty_config (d : dropin_dir) (paths : list string) : option string :=
  match paths with
  | [] => Some ""
  | p :: r =>
      match read_file d p with
      | RData s => if String.eqb s "" then first_nonempty_config d r else Some s
      | RMissing => first_nonempty_config d r
      | RError => None
      end
  end.

Theorem first_nonempty_refuted : exists d idx base,
  read_file d (idx ++ "-" ++ base ++ ".conf") = RData "" /\ first_nonempty_config d (dropin_paths idx base) <> Some "".
Proof.
  exists [("10-a.conf", DContent ""); ("a.conf", DContent "general")], "10", "a". split; [reflexivity|]. cbn. discriminate.
Qed.

Lemma step_all_gone w a : all_gone w -> all_gone (step w a).
Proof.
  unfold all_gone. intros Hg. rewrite Forall_forall in Hg. apply Forall_forall. intros q Hq.
  destruct a as [n ex|n| |]; cbn [step] in Hq; unfold stop_plugins in Hq; apply in_map_iff in Hq;
    destruct Hq as [p [<- Hp]]; specialize (Hg p Hp).
  - unfold conn_lost. destruct (String.eqb (rp_name p) n); [|exact Hg]. cbn. rewrite Hg. reflexivity.
  - unfold notice. destruct (String.eqb (rp_name p) n && negb (rp_conn p))%bool; exact Hg.
  - unfold event_step. destruct (rp_listed p); [|exact Hg].
    destruct (negb (rp_closed p) && negb (rp_conn p))%bool; cbn; [reflexivity|].
    destruct (rp_closed p); cbn; [reflexivity|exact Hg].
  - unfold stop_step. destruct (rp_listed p); [reflexivity|exact Hg].
Qed.

Lemma run_all_gone h : forall w, all_gone w -> all_gone (run h w).
Proof.
  induction h as [|a h IH]; intros w Hg; [exact Hg|].
  unfold run in *. cbn [fold_left]. apply IH. apply step_all_gone. exact Hg.
Qed.

(* C18_killed_on_stop_any_history.  Whatever the plugins did and whatever the runtime noticed or processed
   before Stop (any list of actions h: connections lost by exit or by closing, close handlers run or not yet run,
   events in between or none), and whatever comes after it (h'): once Stop has run, every process ever launched
   from the directory is gone, and they are all still accounted for *)
Theorem stop_kills_any_history oc ds h h' :
  let w := run (h ++ AStop :: h')%list (world_after_start oc ds) in
  all_gone w /\ map rp_d w = filter (fun p => launches (oc p)) ds.
Proof.
  cbv zeta. split.
  - rewrite run_app. change (AStop :: h') with ([AStop] ++ h')%list. rewrite run_app. apply run_all_gone.
    change (run [AStop] ?x) with (stop_plugins x).
    apply stop_kills_all. apply run_dropped_gone. apply world_after_start_dropped_gone.
  - rewrite run_keeps_plugins. unfold world_after_start. rewrite map_map. cbn. apply map_id.
Qed.

(* C18_killed_when_dropped_later.  One event or request on any plugin table satisfying the invariant: every plugin
   whose connection is lost or that is marked closed is out of r.plugins and its process is gone; a healthy plugin
   is left exactly as it was *)
Theorem event_drops_and_kills w : dropped_gone w ->
  Forall (fun q => rp_conn q = false \/ rp_closed q = true -> rp_listed q = false /\ rp_proc q = PGone) (step w AEvent) /\
  (forall p, In p w -> rp_listed p = true -> rp_conn p = true -> rp_closed p = false -> event_step p = p).
Proof.
  intros Hd. split.
  - unfold dropped_gone in Hd. rewrite Forall_forall in Hd. apply Forall_forall. intros q Hq.
    cbn [step] in Hq. apply in_map_iff in Hq. destruct Hq as [p [<- Hp]]. specialize (Hd p Hp).
    unfold event_step. destruct (rp_listed p) eqn:L.
    + destruct (rp_closed p) eqn:C; destruct (rp_conn p) eqn:K; cbn; rewrite ?C, ?K, ?L; cbn; intros H; try (split; reflexivity).
      destruct H; discriminate.
    + intros _. rewrite L. split; [reflexivity|]. apply Hd. reflexivity.
  - intros p _ L K C. unfold event_step. rewrite L, C, K. cbn. rewrite C. reflexivity.
Qed.

(* The variant of stopPlugins that passes over plugins already marked closed (and closes the others first) is NOT
   a model of the statement: the theorem above fails for it, see the witnesses in Properties/C18.v *)
Definition stop_step_skipping_closed (p : rplugin) : rplugin :=
  if rp_listed p
  then if rp_closed p then unlist p else unlist (plugin_stop (plugin_close p))
  else p.
Definition stop_plugins_skipping_closed (w : list rplugin) : list rplugin := map stop_step_skipping_closed w.

Theorem skipping_closed_refuted : exists ps,
  Forall (fun p => rp_listed p = true) ps /\ ~ all_gone (stop_plugins_skipping_closed ps).
Proof.
  exists [ {| rp_d := {| d_idx := "10"; d_base := "a"; d_cfg := "" |}; rp_listed := true; rp_conn := false;
              rp_closed := true; rp_proc := PRunning |} ].
  split; [repeat constructor|]. intros H. inversion H as [|x l Hx _]; subst. cbn in Hx. discriminate.
Qed.

(* ------------------------------------------------------------------ the code's helpers compute the statement's reading *)

(* SplitN + CheckPluginIndex accept exactly "two digits, a dash, anything" and split it there *)
Theorem parse_is_wf_name n : parse_plugin_name n = wf_name n.
Proof.
  destruct (wf_name n) as [[i b]|] eqn:W.
  - destruct n as [|a [|b0 [|c rest]]]; cbn [wf_name] in W; try discriminate.
    destruct (is_digit a) eqn:Ha; cbn [andb] in W; [|discriminate].
    destruct (is_digit b0) eqn:Hb; cbn [andb] in W; [|discriminate].
    destruct (Ascii.eqb_spec c "-") as [->|]; [|discriminate]. inversion W; subst.
    change (String a (String b0 (String "-" b))) with (String a (String b0 EmptyString) ++ "-" ++ b).
    apply name_roundtrip. cbn [check_index]. rewrite Ha, Hb. reflexivity.
  - apply name_malformed_iff. intros [i [b [Hi ->]]].
    destruct (check_index_shape i Hi) as [a [b0 [-> [Ha Hb]]]].
    cbn in W. rewrite Ha, Hb in W. cbn in W. discriminate.
Qed.

Theorem candidate_is_spec e : candidate e = spec_candidate e.
Proof. reflexivity. Qed.

(* getPluginConfig returns the first existing of idx-name.conf, name.conf; it fails iff that file is unreadable *)
Theorem config_is_spec d idx base :
  get_plugin_config d idx base =
  if spec_config_ok d idx base then Some (spec_config d idx base) else None.
Proof.
  unfold get_plugin_config, dropin_paths, spec_config_ok, spec_config. cbn [first_config]. unfold read_file.
  destruct (alookup (idx ++ "-" ++ base ++ ".conf") d) as [[s|]|]; try reflexivity.
  destruct (alookup (base ++ ".conf") d) as [[s|]|]; reflexivity.
Qed.
