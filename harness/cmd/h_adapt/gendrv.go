package main

import (
	"encoding/json"
	"fmt"
	"reflect"
	"strings"

	"github.com/containerd/nri/pkg/api"
	rspec "github.com/opencontainers/runtime-spec/specs-go"

	"verif/harness/internal/coqfmt"
	"verif/harness/internal/hx"
	"verif/harness/internal/nm"
)

// GenCase is one application of the real generator.
type GenCase struct {
	Stream        string        `json:"stream"`
	Spec          *nm.Container `json:"spec"`
	Adjust        *nm.Adjust    `json:"adjust"`
	Out           *SpecObs      `json:"out"`
	Deterministic bool          `json:"deterministic"`
	Runs          int           `json:"runs"`
}

func (c *GenCase) Coq() string {
	in := &SpecObs{C: c.Spec}
	return fmt.Sprintf("{| gc_spec := %s;\n     gc_adjust := %s;\n     gc_out := %s; gc_deterministic := %s |}",
		in.Coq(), c.Adjust.Coq(), c.Out.Coq(), coqfmt.Bool(c.Deterministic))
}

var nastyDsts = []string{"/m0/", "/m1//a", "/m2/./x", "/m0/sub/../z", "/", "/m1/a/b/c/d", "/m9"}

// genAdjust builds one adjustment mixing sets, removals, remove-then-set and set-then-remove
// over all adjustable fields.
func (g *G) genAdjust(stream string) *nm.Adjust {
	a := &nm.Adjust{}
	n := 1 + g.r.Intn(8)
	used := map[string]bool{}
	for _, it := range g.randomItems(allItems(), n) {
		if used[it.String()] {
			continue
		}
		used[it.String()] = true
		op := OpSet
		if markable[it.Kind] {
			op = []Op{OpSet, OpRemove, OpRemoveSet, OpSetRemove}[g.r.Intn(4)]
			if (it.Kind == "ann" || it.Kind == "args") && op == OpSetRemove {
				op = OpRemoveSet
			}
		}
		g.applyAction(a, Action{it, op}, 1+g.r.Intn(5))
	}
	if stream == "mounts" {
		for _, d := range g.randomItems(itemsOf("mount", append(append([]string{}, mountDsts...), nastyDsts...)), 1+g.r.Intn(5)) {
			if !used[d.String()] {
				used[d.String()] = true
				g.applyAction(a, Action{d, []Op{OpSet, OpSet, OpRemoveSet, OpSetRemove, OpRemove}[g.r.Intn(5)]}, 1+g.r.Intn(5))
			}
		}
	}
	if g.r.Intn(3) == 0 {
		a.Hooks = g.hooks(1 + g.r.Intn(5))
	}
	return a
}

func itemsOf(kind string, keys []string) []Item {
	var out []Item
	for _, k := range keys {
		out = append(out, Item{kind, k})
	}
	return out
}

func driveGen(c *hx.Ctx) error {
	g := &G{r: c.Rand("gen")}
	sh := c.NewShardV("gen", imports, "gen_case", "verdict_gen", []string{"corr_gen", "holds_C13"}, c.Pick(150, 500))
	runs := c.Pick(8, 32)
	total := c.Pick(1200, 20000)
	for i := 0; i < total; i++ {
		stream := []string{"mixed", "mixed", "mounts"}[i%3]
		spec := g.container("", i%2 == 0)
		g.echoC, g.echoRes = spec, spec.Res
		cs := &GenCase{Stream: stream, Spec: spec, Adjust: g.genAdjust(stream), Deterministic: true, Runs: runs}
		if stream == "mounts" && g.r.Intn(2) == 0 {
			cs.Spec.Mounts = append(cs.Spec.Mounts, g.mount(nastyDsts[g.r.Intn(len(nastyDsts))], 0))
		}
		cs.Spec.ID = ""
		var first interface{}
		for k := 0; k < runs; k++ {
			obs, err := applyAll(cs.Spec, []*api.ContainerAdjustment{cs.Adjust.ToAPI()})
			if err != nil {
				return fmt.Errorf("generator failed on case %d: %v", i, err)
			}
			if k == 0 {
				cs.Out, first = obs, obs
			} else if !reflect.DeepEqual(first, obs) {
				cs.Deterministic = false
			}
		}
		sh.Add(cs.Coq(), cs)
		js, _ := json.Marshal([]interface{}{cs.Spec, cs.Adjust})
		c.Eval(string(js), true)
		c.Count("stream."+stream, 1)
		if !cs.Deterministic {
			c.ImplFail("gen", "C13: the same spec and adjustment gave different specs on repetition", cs)
		}
		if i < 2 {
			c.Sample(cs, 2)
		}
	}
	// implementation-only stream (the CDI injector is a runtime call-back outside the model): an injector that
	// itself adds a mount — the parent directory of a mount the adjustment sets — and a device; after
	// Generator.Adjust every mount must still come after the mounts of its parent directories, the adjusted
	// mount must be present, and repetitions must agree
	for i := 0; i < c.Pick(40, 600); i++ {
		spec := g.container("", i%2 == 0)
		spec.ID = ""
		child := fmt.Sprintf("/cdi/v%d/data/cache%d", g.r.Intn(3), i)
		parent := child[:strings.LastIndex(child, "/")]
		adj := &nm.Adjust{CDI: []string{fmt.Sprintf("vendor.com/dev=inj%d", i)}, Mounts: []nm.Mount{g.mount(child, 1+g.r.Intn(5))}}
		if g.r.Intn(2) == 0 {
			adj.Mounts = append(adj.Mounts, g.mount(mountDsts[g.r.Intn(len(mountDsts))], 2))
		}
		var first []string
		for k := 0; k < 4; k++ {
			sp := buildSpec(spec)
			gen := xgenWithInjector(sp, func(s *rspec.Spec, names []string) error {
				s.Mounts = append(s.Mounts, rspec.Mount{Destination: parent, Type: "bind", Source: "/host" + parent, Options: []string{"ro"}})
				return nil
			})
			if err := gen.Adjust(adj.ToAPI()); err != nil {
				return fmt.Errorf("generator failed on cdi-mount case %d: %v", i, err)
			}
			var dests []string
			for _, m := range sp.Mounts {
				dests = append(dests, m.Destination)
			}
			raw := map[string]interface{}{"spec": spec, "adjust": adj, "injected_mount": parent, "mounts_after": dests}
			pi, ci := -1, -1
			for x, d := range dests {
				if d == parent {
					pi = x
				}
				if d == child {
					ci = x
				}
			}
			switch {
			case pi < 0 || ci < 0:
				c.ImplFail("gen", fmt.Sprintf("C13: after Adjust with a CDI injector the mount %q or the injected %q is missing", child, parent), raw)
			case ci < pi:
				c.ImplFail("gen", fmt.Sprintf("C13: mount %q (#%d) comes before the mount of its parent directory %q (#%d) injected by the CDI call-back", child, ci, parent, pi), raw)
			}
			if k == 0 {
				first = dests
			} else if !reflect.DeepEqual(first, dests) {
				c.ImplFail("gen", "C13: the same spec, adjustment and CDI injector gave different mount lists on repetition", raw)
			}
		}
		c.Eval(fmt.Sprintf("cdimount/%d/%s", i, child), true)
		c.Count("stream.cdimounts", 1)
	}
	c.Stats.Rule = fmt.Sprintf("gen: random OCI specs (process and linux sections) x random adjustments mixing set / removal / remove-then-set / set-then-remove over all adjustable fields, a mounts stream with unclean and nested destinations; each case executed %d times on fresh specs to expose map-order dependence; all are non-trivial; distinct by full input", runs)
	return nil
}
