(* C18 — Pre-installed plugins are launched, configured and reaped as documented.
   Only statements closed by [exact]; the model is Model/Launch.v, the statement's reading Spec/LaunchSpec.v,
   the proofs Proofs/LaunchProofs.v.  What the operating system does (exec, descriptor inheritance, kill, wait)
   is observed on the implementation by the correspondence run, not proved (partial). *)
From Coq Require Import String Ascii List Bool NArith ZArith Permutation Sorted.
From NRI Require Import Base.Strs Base.Assoc Model.Consts Model.Launch Spec.LaunchSpec Proofs.LaunchProofs.
Import ListNotations.
Open Scope string_scope.

(* --- naming -------------------------------------------------------------------------------------- *)

(* a valid index (exactly two ASCII digits) contains no dash: the file name idx-base is split where it was
   joined, whatever the base (it may contain dashes or be empty) *)
Theorem C18_name_roundtrip : forall i b, check_index i = true -> parse_plugin_name (i ++ "-" ++ b) = Some (i, b).
Proof. exact name_roundtrip. Qed.
Print Assumptions C18_name_roundtrip.

Theorem C18_name_roundtrip_conv : forall n i b,
  parse_plugin_name n = Some (i, b) -> n = i ++ "-" ++ b /\ check_index i = true.
Proof. exact name_roundtrip_conv. Qed.
Print Assumptions C18_name_roundtrip_conv.

Theorem C18_name_malformed_iff : forall n,
  parse_plugin_name n = None <-> ~ exists i b, check_index i = true /\ n = i ++ "-" ++ b.
Proof. exact name_malformed_iff. Qed.
Print Assumptions C18_name_malformed_iff.

(* ParsePluginName is the statement's "two-digit index, a dash and a name" *)
Theorem C18_parse_is_wf_name : forall n, parse_plugin_name n = wf_name n.
Proof. exact parse_is_wf_name. Qed.
Print Assumptions C18_parse_is_wf_name.

Example C18_name_examples :
  parse_plugin_name "10-a-b" = Some ("10", "a-b") /\ parse_plugin_name "05--x" = Some ("05", "-x") /\
  parse_plugin_name "10-" = Some ("10", "") /\ parse_plugin_name "1-a" = None /\
  parse_plugin_name "100-a" = None /\ parse_plugin_name "1a-b" = None /\ parse_plugin_name "10_a" = None.
Proof. repeat split; reflexivity. Qed.

(* string order of valid indices is numeric order: all 100 x 100 pairs, evaluated completely *)
Theorem C18_index_order_is_numeric : forall i j, check_index i = true -> check_index j = true ->
  String.leb i j = (idx_num i <=? idx_num j)%Z /\ String.ltb i j = (idx_num i <? idx_num j)%Z.
Proof. exact index_order_is_numeric. Qed.
Print Assumptions C18_index_order_is_numeric.

Example C18_index_domain : length all_indices = 100 /\ idx_num "09" = 9%Z /\ String.ltb "09" "10" = true.
Proof. repeat split; reflexivity. Qed.

(* --- discovery ----------------------------------------------------------------------------------- *)

(* os.ReadDir order: the same entries sorted by file name *)
Theorem C18_directory_order : forall es,
  Permutation es (read_dir es) /\ Sorted (fun a b => String.leb (de_name a) (de_name b) = true) (read_dir es).
Proof. exact (fun es => conj (read_dir_perm es) (read_dir_sorted es)). Qed.
Print Assumptions C18_directory_order.

(* success: exactly the non-directories with an execute bit, in directory order, each split into a valid
   index and the rest of its name and paired with its drop-in configuration *)
Theorem C18_discovery_exact : forall es d l, discover_plugins es d = Some l ->
  map d_name l = map de_name (filter candidate (read_dir es)) /\ Forall (discovered_ok d) l.
Proof. exact discovery_exact_ok. Qed.
Print Assumptions C18_discovery_exact.

(* failure (I6: Start fails as a whole): exactly when an executable non-directory has a malformed name or its
   first existing drop-in cannot be read *)
Theorem C18_discovery_fails_iff : forall es d,
  discover_plugins es d = None <-> exists e, In e es /\ offending d e.
Proof. exact discovery_exact_err. Qed.
Print Assumptions C18_discovery_fails_iff.

(* distinct file names: every discovered plugin appears once, so it is launched once *)
Theorem C18_launched_once : forall es d l, NoDup (map de_name es) -> discover_plugins es d = Some l ->
  NoDup (map d_name l).
Proof. exact discovery_nodup. Qed.
Print Assumptions C18_launched_once.

Example C18_discovery_example :
  let es := [ {| de_name := "20-b"; de_is_dir := false; de_mode := 493 |};      (* 0755 *)
              {| de_name := "10-a"; de_is_dir := false; de_mode := 8 |};        (* 0010: group execute only *)
              {| de_name := "05-dir"; de_is_dir := true; de_mode := 493 |};
              {| de_name := "README"; de_is_dir := false; de_mode := 420 |} ] in (* 0644, malformed, ignored *)
  discover_plugins es [("a.conf", DContent "A")] =
    Some [ {| d_idx := "10"; d_base := "a"; d_cfg := "A" |}; {| d_idx := "20"; d_base := "b"; d_cfg := "" |} ] /\
  discover_plugins ({| de_name := "README"; de_is_dir := false; de_mode := 493 |} :: es) [] = None.
Proof. split; reflexivity. Qed.

(* --- drop-in configuration ----------------------------------------------------------------------- *)

Theorem C18_dropin_precedence : forall d idx base,
  get_plugin_config d idx base =
  match read_file d (idx ++ "-" ++ base ++ ".conf") with
  | RData s => Some s
  | RError => None
  | RMissing =>
      match read_file d (base ++ ".conf") with
      | RData s => Some s
      | RError => None
      | RMissing => Some ""
      end
  end.
Proof. exact dropin_precedence. Qed.
Print Assumptions C18_dropin_precedence.

Theorem C18_config_is_spec : forall d idx base,
  get_plugin_config d idx base = if spec_config_ok d idx base then Some (spec_config d idx base) else None.
Proof. exact config_is_spec. Qed.
Print Assumptions C18_config_is_spec.

(* existence decides, not content: an existing, readable but EMPTY index-name drop-in is the plugin's configuration
   (the empty string) whatever name.conf contains *)
Theorem C18_dropin_empty_specific_shadows : forall d idx base,
  read_file d (idx ++ "-" ++ base ++ ".conf") = RData "" -> get_plugin_config d idx base = Some "".
Proof. exact empty_specific_shadows. Qed.
Print Assumptions C18_dropin_empty_specific_shadows.

(* not vacuous: a loop that goes on while the content is empty violates it *)
Theorem C18_dropin_first_nonempty_refuted : exists d idx base,
  read_file d (idx ++ "-" ++ base ++ ".conf") = RData "" /\ first_nonempty_config d (dropin_paths idx base) <> Some "".
Proof. exact first_nonempty_refuted. Qed.
Print Assumptions C18_dropin_first_nonempty_refuted.

(* the four combinations of empty / non-empty contents of the two files *)
Example C18_dropin_empty_example :
  get_plugin_config [("a.conf", DContent "general"); ("10-a.conf", DContent "")] "10" "a" = Some "" /\
  get_plugin_config [("a.conf", DContent ""); ("10-a.conf", DContent "specific")] "10" "a" = Some "specific" /\
  get_plugin_config [("a.conf", DContent ""); ("10-a.conf", DContent "")] "10" "a" = Some "" /\
  get_plugin_config [("a.conf", DContent "general"); ("10-a.conf", DContent "specific")] "10" "a" = Some "specific" /\
  spec_config [("a.conf", DContent "general"); ("10-a.conf", DContent "")] "10" "a" = "" /\
  first_nonempty_config [("a.conf", DContent "general"); ("10-a.conf", DContent "")] (dropin_paths "10" "a") = Some "general".
Proof. repeat split; reflexivity. Qed.

Example C18_dropin_example :
  get_plugin_config [("a.conf", DContent "general"); ("10-a.conf", DContent "specific")] "10" "a" = Some "specific" /\
  get_plugin_config [("a.conf", DContent "general"); ("10-a.conf", DContent "specific")] "20" "a" = Some "general" /\
  get_plugin_config [("b.conf", DContent "other")] "10" "a" = Some "" /\
  get_plugin_config [("a.conf", DContent "general"); ("10-a.conf", DUnreadable)] "10" "a" = None.
Proof. repeat split; reflexivity. Qed.

(* --- environment, descriptors, the stub's side --------------------------------------------------- *)

(* the child gets exactly three variables (names from the regenerated Consts.v) and descriptors 0-3; the real
   stub's look-up of them yields the index, the name and descriptor 3 *)
Theorem C18_env_exact : forall idx base, check_index idx = true -> base <> "" ->
  child_env idx base =
    [PluginNameEnvVar ++ "=" ++ base; PluginIdxEnvVar ++ "=" ++ idx; PluginSocketEnvVar ++ "=3"] /\
  child_fds = [0; 1; 2; 3]%N /\
  (forall argv0, stub_identity (child_env idx base) argv0 = Some (idx, base)) /\
  (forall argv0, stub_name (child_env idx base) argv0 = Some (idx ++ "-" ++ base)) /\
  stub_connect (child_env idx base) = ConnFd 3.
Proof. exact env_exact. Qed.
Print Assumptions C18_env_exact.

(* the launch does not depend on how the plugin directory is spelled: for every working directory of the runtime,
   every directory path (absolute or relative) and every file name, the file executed is the file discovery saw *)
Theorem C18_executes_what_it_discovered : forall cwd dir name,
  executed_file cwd "" dir name = discovered_file cwd dir name.
Proof. exact executes_what_it_discovered. Qed.
Print Assumptions C18_executes_what_it_discovered.

(* not vacuous: with cmd.Dir = the plugin directory a relative directory is applied twice *)
Theorem C18_cmd_dir_refuted : exists cwd dir name, executed_file cwd dir dir name <> discovered_file cwd dir name.
Proof. exact cmd_dir_refuted. Qed.
Print Assumptions C18_cmd_dir_refuted.

Example C18_path_example :
  discovered_file "/run" "plugins" "10-a" = "/run/plugins/10-a" /\ executed_file "/run" "" "plugins" "10-a" = "/run/plugins/10-a" /\
  executed_file "/run" "plugins" "plugins" "10-a" = "/run/plugins/plugins/10-a" /\
  executed_file "/run" "/opt/p" "/opt/p" "10-a" = discovered_file "/run" "/opt/p" "10-a".
Proof. repeat split; reflexivity. Qed.

(* "inherits no other open descriptor of the runtime or of other plugins": for ANY set of descriptors the runtime has
   open (other plugins' connections, listeners, files, at any numbers) that carry the close-on-exec flag, and wherever
   the socket pair sits, the launched process starts with exactly stdin, stdout, stderr and the one socket *)
Theorem C18_inherits_only_its_socket : forall others a b, Forall (fun f => fd_cloexec f = true) others ->
  launched_fds others a b = [0; 1; 2; 3]%N.
Proof. exact launched_fds_exact. Qed.
Print Assumptions C18_inherits_only_its_socket.

(* not vacuous: with the peer end of the pair left inheritable the plugin also gets it at its original number *)
Theorem C18_inheritable_peer_refuted : exists others a b,
  Forall (fun f => fd_cloexec f = true) others /\
  exec_fds 1 (others ++ socketpair_fds true false a b)%list <> child_fds.
Proof. exact inheritable_peer_refuted. Qed.
Print Assumptions C18_inheritable_peer_refuted.

Example C18_fds_example :
  let others := [ {| fd_num := 4; fd_cloexec := true |}; {| fd_num := 9; fd_cloexec := true |} ] in
  launched_fds others 12 13 = [0; 1; 2; 3]%N /\
  exec_fds 1 (others ++ socketpair_fds true false 12 13)%list = [0; 1; 2; 3; 13]%N /\
  exec_fds 1 ({| fd_num := 6; fd_cloexec := false |} :: others ++ socketpair_fds true true 12 13)%list = [0; 1; 2; 3; 6]%N.
Proof. repeat split; reflexivity. Qed.

Theorem C18_env_lookup : forall idx base,
  getenv (child_env idx base) PluginNameEnvVar = base /\
  getenv (child_env idx base) PluginIdxEnvVar = idx /\
  getenv (child_env idx base) PluginSocketEnvVar = "3".
Proof. exact getenv_child. Qed.
Print Assumptions C18_env_lookup.

(* a file called "NN-" has an empty name: the stub then takes the whole file name as its name *)
Theorem C18_env_empty_name : forall idx argv0, idx <> "" ->
  stub_identity (child_env idx "") argv0 = Some (idx, path_base argv0).
Proof. exact stub_identity_child_empty_base. Qed.
Print Assumptions C18_env_empty_name.

Example C18_env_example :
  child_env "10" "a-b" = ["NRI_PLUGIN_NAME=a-b"; "NRI_PLUGIN_IDX=10"; "NRI_PLUGIN_SOCKET=3"] /\
  stub_name (child_env "10" "a-b") "/opt/nri/plugins/10-a-b" = Some "10-a-b" /\
  stub_name (child_env "10" "") "/opt/nri/plugins/10-" = Some "10-10-" /\ env_names_ok = true.
Proof. repeat split; reflexivity. Qed.

(* --- failing plugins are skipped, the others are unaffected -------------------------------------- *)

(* for any list of discovered plugins and any assignment of outcomes (cannot be executed, exits at once, closes
   its socket, never registers, Configure fails, Synchronize fails, healthy, exits later, closes its connection
   later and keeps running) *)
Theorem C18_failures_skipped : forall oc ds p,
  In p (start_plugins oc ds) <-> In p ds /\ active (oc p) = true.
Proof. exact failures_skipped. Qed.
Print Assumptions C18_failures_skipped.

Theorem C18_active_iff_healthy : forall o, active o = true <-> o = OGood \/ o = ODieLater \/ o = OHangLater.
Proof. exact active_cases. Qed.
Print Assumptions C18_active_iff_healthy.

Theorem C18_others_unaffected : forall oc oc' ds p, oc p = oc' p ->
  (In p (start_plugins oc ds) <-> In p (start_plugins oc' ds)).
Proof. exact others_unaffected. Qed.
Print Assumptions C18_others_unaffected.

(* with a request time-out T and answer times tm (a hanging plugin: any time above T): whether p is kept depends on
   p's own outcome and p's own answer time only — not on the other plugins' outcomes, times, number or order *)
Theorem C18_start_depends_on_own_behaviour : forall T tm tm' oc oc' ds p, oc p = oc' p -> tm p = tm' p ->
  (In p (start_plugins (timed_outcome T tm oc) ds) <-> In p (start_plugins (timed_outcome T tm' oc') ds)).
Proof. exact start_depends_on_own_behaviour. Qed.
Print Assumptions C18_start_depends_on_own_behaviour.

(* a healthy discovered plugin answering within the time-out is kept whatever time every other plugin takes … *)
Theorem C18_slow_plugins_do_not_affect_others : forall T tm oc ds p,
  In p ds -> active (oc p) = true -> (tm p <= T)%Z -> In p (start_plugins (timed_outcome T tm oc) ds).
Proof. exact timely_plugin_kept. Qed.
Print Assumptions C18_slow_plugins_do_not_affect_others.

(* … and one that does not answer in time is skipped and killed *)
Theorem C18_late_plugin_dropped : forall T tm oc ds p, (T < tm p)%Z ->
  ~ In p (start_plugins (timed_outcome T tm oc) ds) /\
  (launches (oc p) = true -> state_after_start (timed_outcome T tm oc p) = Some PGone).
Proof. exact late_plugin_dropped. Qed.
Print Assumptions C18_late_plugin_dropped.

(* process level: what Start leaves of each launched plugin is a function of the SyncFn's behaviour and of that
   plugin's own outcome *)
Theorem C18_start_world_pointwise : forall calls fails oc ds,
  start_world calls fails oc ds = map (fun p => start_record calls fails (oc p) p) (filter (fun p => launches (oc p)) ds).
Proof. exact start_world_pointwise. Qed.
Print Assumptions C18_start_world_pointwise.

(* not vacuous: with ONE deadline shared by the whole synchronisation loop a prompt healthy plugin after a hanging
   one is dropped *)
Theorem C18_shared_deadline_refuted : exists T tm oc ds p,
  In p ds /\ active (oc p) = true /\ (tm p <= T)%Z /\ ~ In p (synced_shared_deadline T tm oc 0 (started oc ds)).
Proof. exact shared_deadline_refuted. Qed.
Print Assumptions C18_shared_deadline_refuted.

Example C18_sync_timeout_example :
  let p i b := {| d_idx := i; d_base := b; d_cfg := "" |} in
  let ds := [p "05" "a"; p "10" "hang"; p "20" "b"; p "30" "slow"; p "40" "c"] in
  let tm q := if String.eqb (d_base q) "hang" then 100000%Z else if String.eqb (d_base q) "slow" then 900%Z else 5%Z in
  let oc (_ : discovered) := OGood in
  map d_name (start_plugins (timed_outcome 1000 tm oc) ds) = ["05-a"; "20-b"; "30-slow"; "40-c"] /\
  map d_name (synced_shared_deadline 1000 tm oc 0 (started oc ds)) = ["05-a"] /\
  map d_name (synced_shared_deadline 1000 tm oc 0 (started oc [p "05" "a"; p "20" "b"; p "30" "slow"; p "31" "slow"; p "40" "c"]))
    = ["05-a"; "20-b"; "30-slow"].
Proof. repeat split; reflexivity. Qed.

Theorem C18_active_is_permutation : forall oc ds,
  Permutation (filter (fun p => active (oc p)) ds) (start_plugins oc ds).
Proof. exact start_plugins_perm. Qed.
Print Assumptions C18_active_is_permutation.

(* --- invocation order ---------------------------------------------------------------------------- *)

(* every event reaches exactly the discovered, healthy, still living plugins, each once, in numeric index order *)
Theorem C18_invocation_order : forall oc ds alive, Forall (fun p => check_index (d_idx p) = true) ds ->
  let ps := start_plugins oc ds in
  StronglySorted num_le (invoked alive ps) /\
  (forall p, In p (invoked alive ps) <-> In p ds /\ active (oc p) = true /\ alive p = true) /\
  (NoDup ds -> NoDup (invoked alive ps)).
Proof. exact invocation_order. Qed.
Print Assumptions C18_invocation_order.

(* a launched plugin's identity is its file name: whatever name and index it declares in its RegisterPlugin request
   (another valid index, an empty name, a malformed index), r.plugins after Start is the same list … *)
Theorem C18_identity_is_file_name : forall decl oc ds, start_plugins_declared decl oc ds = start_plugins oc ds.
Proof. exact declared_identity_irrelevant. Qed.
Print Assumptions C18_identity_is_file_name.

(* … so which plugins an event reaches, and in which order, is a function of the file names (and of the plugins'
   health) only: equal for any two assignments of declared identities *)
Theorem C18_invocation_order_by_file_name : forall decl decl' oc ds alive,
  invoked alive (start_plugins_declared decl oc ds) = invoked alive (start_plugins_declared decl' oc ds).
Proof. exact invocation_independent_of_declared. Qed.
Print Assumptions C18_invocation_order_by_file_name.

(* not vacuous: when launched plugins are validated and named by their request like external ones, a plugin declaring
   index 90 moves behind the others and one declaring the malformed index "9" is lost *)
Theorem C18_all_validated_refuted : exists decl oc ds,
  map d_name (start_plugins oc ds) = ["10-x"; "20-y"; "30-z"; "40-w"] /\
  map d_name (start_plugins_all_validated decl oc ds) = ["20-y"; "30-z"; "90-x"].
Proof. exact all_validated_refuted. Qed.
Print Assumptions C18_all_validated_refuted.

Example C18_register_example :
  let p := {| d_idx := "10"; d_base := "x"; d_cfg := "c" |} in
  register_plugin false p "other" "90" = Some p /\ register_plugin false p "" "ab" = Some p /\
  register_plugin true p "other" "90" = Some {| d_idx := "90"; d_base := "other"; d_cfg := "c" |} /\
  register_plugin true p "" "90" = None /\ register_plugin true p "x" "9" = None.
Proof. repeat split; reflexivity. Qed.

Theorem C18_discovered_indices_valid : forall es d l, discover_plugins es d = Some l ->
  Forall (fun p => check_index (d_idx p) = true) l.
Proof. exact discovered_indices_valid. Qed.
Print Assumptions C18_discovered_indices_valid.

Example C18_order_example :
  let p i b := {| d_idx := i; d_base := b; d_cfg := "" |} in
  let oc q := if String.eqb (d_base q) "bad" then ONoReg else if String.eqb (d_base q) "late" then ODieLater else OGood in
  map d_name (start_plugins oc [p "90" "z"; p "10" "bad"; p "09" "late"; p "10" "a"]) = ["09-late"; "10-a"; "90-z"] /\
  map d_name (invoked (fun q => survives (oc q)) (start_plugins oc [p "90" "z"; p "10" "bad"; p "09" "late"; p "10" "a"]))
    = ["10-a"; "90-z"].
Proof. split; reflexivity. Qed.

(* --- kill and reap (the model's account of plugin.start / stop; the processes are observed) ------- *)

Theorem C18_killed_when_dropped : forall o, launches o = true -> active o = false -> state_after_start o = Some PGone.
Proof. exact skipped_is_killed. Qed.
Print Assumptions C18_killed_when_dropped.

Theorem C18_kept_is_running : forall o, active o = true -> state_after_start o = Some PRunning.
Proof. exact kept_is_running. Qed.
Print Assumptions C18_kept_is_running.

(* Start fails as a whole because the runtime's SyncFn returns an error, having called the synchronisation closure
   (calls = true) or not: for every directory and every assignment of outcomes — every combination of stages the
   launched plugins reached — every launched process is gone when Start returns, r.plugins is empty, and the
   processes are exactly the launchable discovered plugins *)
Theorem C18_failed_start_kills_all : forall calls oc ds,
  all_gone (failed_start_world calls oc ds) /\ r_plugins (failed_start_world calls oc ds) = [] /\
  map rp_d (failed_start_world calls oc ds) = filter (fun p => launches (oc p)) ds.
Proof. exact failed_start_kills_all. Qed.
Print Assumptions C18_failed_start_kills_all.

(* the ordinary start-up is the attempt in which the closure is called and no error is returned *)
Theorem C18_start_world_ordinary : forall oc ds, start_world true false oc ds = world_after_start oc ds.
Proof. exact attempt_world_called. Qed.
Print Assumptions C18_start_world_ordinary.

(* not vacuous: a clean-up that walks only the plugins the closure synchronised leaves a configured plugin running
   when the closure was never called *)
Theorem C18_failed_start_synced_only_refuted : exists oc ds, ~ all_gone (failed_start_world_synced_only false oc ds).
Proof. exact failed_start_synced_only_refuted. Qed.
Print Assumptions C18_failed_start_synced_only_refuted.

Example C18_failed_start_example :
  let p i b := {| d_idx := i; d_base := b; d_cfg := "" |} in
  let oc q := if String.eqb (d_base q) "cfg" then OCfgErr else if String.eqb (d_base q) "sync" then OSyncFail else OGood in
  let ds := [p "10" "ok"; p "20" "cfg"; p "30" "sync"] in
  map rp_proc (attempt_world false oc ds) = [PRunning; PGone; PRunning] /\
  map rp_proc (attempt_world true oc ds) = [PRunning; PGone; PGone] /\
  map rp_proc (failed_start_world false oc ds) = [PGone; PGone; PGone] /\
  map rp_proc (failed_start_world true oc ds) = [PGone; PGone; PGone] /\
  map rp_proc (failed_start_world_synced_only false oc ds) = [PRunning; PGone; PRunning] /\
  map rp_proc (failed_start_world_synced_only true oc ds) = [PGone; PGone; PGone].
Proof. repeat split; reflexivity. Qed.

(* stopPlugins on ANY plugin table: arbitrary closed flags (a plugin already marked closed but not yet pruned by an
   event included), arbitrary connection states, arbitrary process states (running, exited and not yet waited for).
   Provided the processes outside r.plugins were gone before (the invariant, below), after Stop every launched
   process is gone — neither running nor a zombie —, r.plugins is empty and no plugin has been forgotten *)
Theorem C18_killed_on_stop : forall w, dropped_gone w ->
  all_gone (stop_plugins w) /\ r_plugins (stop_plugins w) = [] /\ map rp_d (stop_plugins w) = map rp_d w.
Proof. exact stop_kills_all. Qed.
Print Assumptions C18_killed_on_stop.

(* … in particular when the list is r.plugins itself *)
Theorem C18_killed_on_stop_listed : forall ps, Forall (fun p => rp_listed p = true) ps -> all_gone (stop_plugins ps).
Proof. exact stop_kills_listed. Qed.
Print Assumptions C18_killed_on_stop_listed.

(* for every directory, every assignment of failure modes, every history h before Stop (connections lost by exit or
   by closing, the runtime's close handler run or not yet run, any number of events — or none — in between) and
   every history h' after it: all processes launched at start-up are gone, and they are exactly the launchable
   discovered plugins *)
Theorem C18_killed_on_stop_any_history : forall oc ds h h',
  let w := run (h ++ AStop :: h')%list (world_after_start oc ds) in
  all_gone w /\ map rp_d w = filter (fun p => launches (oc p)) ds.
Proof. exact stop_kills_any_history. Qed.
Print Assumptions C18_killed_on_stop_any_history.

(* "killed when NRI drops it", later than start-up: after any event or request every plugin whose connection is
   lost or that is marked closed is out of r.plugins and its process is gone; healthy plugins are untouched *)
Theorem C18_killed_when_dropped_later : forall w, dropped_gone w ->
  Forall (fun q => rp_conn q = false \/ rp_closed q = true -> rp_listed q = false /\ rp_proc q = PGone) (step w AEvent) /\
  (forall p, In p w -> rp_listed p = true -> rp_conn p = true -> rp_closed p = false -> event_step p = p).
Proof. exact event_drops_and_kills. Qed.
Print Assumptions C18_killed_when_dropped_later.

(* … and the same for any behaviour of the SyncFn at start-up *)
Theorem C18_dropped_are_gone_any_start : forall calls fails oc ds h, dropped_gone (run h (start_world calls fails oc ds)).
Proof. exact (fun calls fails oc ds h => run_dropped_gone h _ (start_world_dropped_gone calls fails oc ds)). Qed.
Print Assumptions C18_dropped_are_gone_any_start.

(* the invariant holds when Start returns and is kept by every action *)
Theorem C18_dropped_are_gone : forall oc ds h, dropped_gone (run h (world_after_start oc ds)).
Proof. exact (fun oc ds h => run_dropped_gone h _ (world_after_start_dropped_gone oc ds)). Qed.
Print Assumptions C18_dropped_are_gone.

(* not vacuous: a stopPlugins that passes over plugins already marked closed does not satisfy C18_killed_on_stop_listed *)
Theorem C18_stop_skipping_closed_refuted : exists ps,
  Forall (fun p => rp_listed p = true) ps /\ ~ all_gone (stop_plugins_skipping_closed ps).
Proof. exact skipping_closed_refuted. Qed.
Print Assumptions C18_stop_skipping_closed_refuted.

Example C18_kill_example : state_after_start OCloseFd = Some PGone /\ state_after_start OExit = Some PGone /\
  state_after_start OHangLater = Some PRunning.
Proof. repeat split; reflexivity. Qed.

(* "dies later, then Stop with nothing in between": three plugins; 10-hang closes its connection and keeps running,
   20-exit exits, the runtime has noticed both, no event is processed, Stop.  The model leaves nothing; the variant
   that skips closed plugins leaves one running process and one zombie (and still kills the healthy 30-ok) *)
Example C18_silent_stop_example :
  let p i b := {| d_idx := i; d_base := b; d_cfg := "" |} in
  let oc q := if String.eqb (d_base q) "hang" then OHangLater else if String.eqb (d_base q) "exit" then ODieLater else OGood in
  let w := run [AConnLost "10-hang" false; AConnLost "20-exit" true; ANotice "10-hang"; ANotice "20-exit"]
               (world_after_start oc [p "10" "hang"; p "20" "exit"; p "30" "ok"]) in
  map rp_proc w = [PRunning; PZombie; PRunning] /\ map rp_closed w = [true; true; false] /\
  map rp_listed w = [true; true; true] /\
  map rp_proc (stop_plugins w) = [PGone; PGone; PGone] /\
  map rp_proc (stop_plugins_skipping_closed w) = [PRunning; PZombie; PGone] /\
  map rp_proc (stop_plugins_skipping_closed (step w AEvent)) = [PGone; PGone; PGone].
Proof. repeat split; reflexivity. Qed.
