(* C12 — proofs, part 1: varints and the wire level of Model/Proto.v.
   varint_roundtrip (every n < 2^64, whatever follows), sov_is_length (every n),
   wire_roundtrip (every well-formed field list), ld_roundtrip. *)
From Coq Require Import String Ascii List Bool ZArith NArith Lia.
From NRI Require Import Model.Proto.
Import ListNotations.
Local Open Scope N_scope.

(* ------------------------------------------------------------------ varints *)

Lemma pow2_succ_nat f : 2 ^ N.of_nat (S f) = 2 * 2 ^ N.of_nat f.
Proof. rewrite Nat2N.inj_succ. apply N.pow_succ_r'. Qed.

Lemma div128_lt n m : n < 2 * m -> n / 128 < m.
Proof.
  intros H. apply N.div_lt_upper_bound; lia.
Qed.

Lemma enc_varint_aux_fuel f1 : forall f2 n,
  n < 2 ^ N.of_nat f1 -> n < 2 ^ N.of_nat f2 -> enc_varint_aux f1 n = enc_varint_aux f2 n.
Proof.
  induction f1 as [|f1 IH]; intros f2 n H1 H2.
  - cbn in H1. assert (n = 0) by lia. subst n. destruct f2; reflexivity.
  - cbn [enc_varint_aux]. destruct (n <? 128) eqn:Hn.
    + destruct f2; cbn [enc_varint_aux]; rewrite ?Hn; reflexivity.
    + apply N.ltb_ge in Hn. destruct f2 as [|f2].
      * cbn in H2. lia.
      * cbn [enc_varint_aux]. apply N.ltb_ge in Hn. rewrite Hn. f_equal.
        rewrite pow2_succ_nat in H1, H2. apply IH; apply div128_lt; assumption.
Qed.

Lemma size_fuel_ok n : n < 2 ^ N.of_nat (N.to_nat (N.size n)).
Proof. rewrite N2Nat.id. apply N.size_gt. Qed.

Lemma enc_varint_small n : n < 128 -> enc_varint n = [ascii_of_N n].
Proof.
  intros H. unfold enc_varint. destruct (N.to_nat (N.size n)); cbn [enc_varint_aux]; [reflexivity|].
  apply N.ltb_lt in H. rewrite H. reflexivity.
Qed.

Lemma enc_varint_big n : 128 <= n ->
  enc_varint n = ascii_of_N (n mod 128 + 128) :: enc_varint (n / 128).
Proof.
  intros H. unfold enc_varint. pose proof (size_fuel_ok n) as Hs.
  destruct (N.to_nat (N.size n)) as [|f] eqn:Hf.
  - cbn in Hs. lia.
  - cbn [enc_varint_aux]. assert (Hn : (n <? 128) = false) by (apply N.ltb_ge; exact H).
    rewrite Hn. f_equal. rewrite pow2_succ_nat in Hs.
    apply enc_varint_aux_fuel; [apply div128_lt; exact Hs | apply size_fuel_ok].
Qed.

Lemma enc_varint_nonempty n : exists a l, enc_varint n = a :: l.
Proof.
  destruct (N.lt_ge_cases n 128) as [H|H].
  - rewrite (enc_varint_small n H). eauto.
  - rewrite (enc_varint_big n H). eauto.
Qed.

Lemma pow128_succ k : 128 ^ N.of_nat (S k) = 128 * 128 ^ N.of_nat k.
Proof. rewrite Nat2N.inj_succ. apply N.pow_succ_r'. Qed.

Lemma dec_varint_aux_cons f b r :
  dec_varint_aux (S f) (b :: r) =
  if N_of_ascii b <? 128 then Some (N_of_ascii b, r)
  else match dec_varint_aux f r with
       | Some (v, r') => Some ((N_of_ascii b - 128) + 128 * v, r')
       | None => None
       end.
Proof. reflexivity. Qed.

Lemma dec_varint_aux_enc k : forall n rest, n < 128 ^ N.of_nat (S k) ->
  dec_varint_aux (S k) (enc_varint n ++ rest) = Some (n, rest).
Proof.
  induction k as [|k IH]; intros n rest H.
  - change (128 ^ N.of_nat 1) with 128 in H. rewrite (enc_varint_small n H).
    cbn [app]. rewrite dec_varint_aux_cons. rewrite N_ascii_embedding by lia.
    apply N.ltb_lt in H. rewrite H. reflexivity.
  - destruct (N.lt_ge_cases n 128) as [Hs|Hb].
    + rewrite (enc_varint_small n Hs). cbn [app]. rewrite dec_varint_aux_cons.
      rewrite N_ascii_embedding by lia.
      apply N.ltb_lt in Hs. rewrite Hs. reflexivity.
    + rewrite (enc_varint_big n Hb). cbn [app]. rewrite dec_varint_aux_cons.
      pose proof (N.div_mod n 128) as Hdm.
      assert (Hm : n mod 128 < 128) by (apply N.mod_lt; lia).
      assert (Hq : n / 128 < 128 ^ N.of_nat (S k)).
      { rewrite pow128_succ in H. apply N.div_lt_upper_bound; lia. }
      set (m := n mod 128) in *. set (q := n / 128) in *. clearbody m q.
      rewrite N_ascii_embedding by lia.
      assert (Hx : (m + 128 <? 128) = false) by (apply N.ltb_ge; lia).
      rewrite Hx. rewrite (IH q rest Hq).
      f_equal. f_equal. lia.
Qed.

(* every uint64 survives; negative int32/int64 are their 64-bit two's complement (to_u64) *)
Lemma varint_roundtrip n rest : n < two64 -> dec_varint (enc_varint n ++ rest) = Some (n, rest).
Proof.
  intros H. unfold dec_varint. rewrite dec_varint_aux_enc.
  - rewrite N.mod_small by exact H. reflexivity.
  - eapply N.lt_trans; [exact H|]. vm_compute. reflexivity.
Qed.

(* ---- sov is the length of the varint ---- *)

Lemma size_lor1 n : n <> 0 -> N.size (N.lor n 1) = N.succ (N.log2 n).
Proof.
  intros H. rewrite N.size_log2.
  - rewrite N.log2_lor. change (N.log2 1) with 0. rewrite N.max_l by lia. reflexivity.
  - intros E. apply N.lor_eq_0_iff in E. lia.
Qed.

Lemma sov_small n : n < 128 -> sov n = 1.
Proof.
  intros H. unfold sov. destruct (N.eq_dec n 0) as [->|Hn]; [reflexivity|].
  rewrite size_lor1 by exact Hn.
  assert (HL : N.log2 n < 7) by (apply N.log2_lt_pow2; [lia| exact H]).
  replace (N.succ (N.log2 n) + 6) with (N.log2 n + 1 * 7) by lia.
  rewrite N.div_add by lia. rewrite N.div_small by exact HL. reflexivity.
Qed.

Lemma sov_big n : 128 <= n -> sov n = 1 + sov (n / 128).
Proof.
  intros H. unfold sov.
  assert (Hd : n / 128 <> 0).
  { intros E. apply N.div_small_iff in E; lia. }
  rewrite !size_lor1 by lia.
  assert (HL : 7 <= N.log2 n) by (apply N.log2_le_pow2; [lia| exact H]).
  replace (n / 128) with (N.shiftr n 7) by (rewrite N.shiftr_div_pow2; reflexivity).
  rewrite N.log2_shiftr.
  replace (N.succ (N.log2 n) + 6) with (N.succ (N.log2 n - 7) + 6 + 1 * 7) by lia.
  rewrite N.div_add by lia. lia.
Qed.

Lemma enc_varint_length k : forall n, n < 128 ^ N.of_nat (S k) -> blen (enc_varint n) = sov n.
Proof.
  induction k as [|k IH]; intros n H.
  - change (128 ^ N.of_nat 1) with 128 in H. rewrite enc_varint_small, sov_small by exact H. reflexivity.
  - destruct (N.lt_ge_cases n 128) as [Hs|Hb].
    + rewrite enc_varint_small, sov_small by exact Hs. reflexivity.
    + rewrite enc_varint_big, sov_big by exact Hb. unfold blen in *. cbn [length].
      rewrite Nat2N.inj_succ. rewrite pow128_succ in H.
      rewrite IH by (apply N.div_lt_upper_bound; lia). lia.
Qed.

Lemma pow128_unbounded n : exists k, n < 128 ^ N.of_nat (S k).
Proof.
  exists (N.to_nat n). rewrite Nat2N.inj_succ, N2Nat.id.
  eapply N.lt_le_trans; [apply (N.pow_gt_lin_r 2 n); lia|].
  eapply N.le_trans; [apply (N.pow_le_mono_r 2 n (N.succ n)); lia|].
  apply N.pow_le_mono_l. lia.
Qed.

(* for every n (no bound): the encoder writes exactly sov n bytes *)
Lemma sov_is_length n : blen (enc_varint n) = sov n.
Proof. destruct (pow128_unbounded n) as [k Hk]. exact (enc_varint_length k n Hk). Qed.

(* ------------------------------------------------------------------ wire level *)

Lemma blen_app a b : blen (a ++ b) = blen a + blen b.
Proof. unfold blen. rewrite app_length. lia. Qed.

Lemma enc_wire_app a b : enc_wire (a ++ b) = enc_wire a ++ enc_wire b.
Proof. unfold enc_wire. apply flat_map_app. Qed.

Lemma enc_wire_cons w r : enc_wire (w :: r) = enc_wfield w ++ enc_wire r.
Proof. reflexivity. Qed.

Lemma enc_wire_single w : enc_wire [w] = enc_wfield w.
Proof. unfold enc_wire. cbn [flat_map]. apply app_nil_r. Qed.

Lemma dec_wire_aux_step fu a bs :
  dec_wire_aux (S fu) (a :: bs) =
  match dec_varint (a :: bs) with
  | None => None
  | Some (tag, r) =>
      if tag / 8 =? 0 then None
      else if tag mod 8 =? 0 then
        match dec_varint r with
        | None => None
        | Some (v, r') => option_map (cons (tag / 8, WVarint v)) (dec_wire_aux fu r')
        end
      else if tag mod 8 =? 2 then
        match dec_varint r with
        | None => None
        | Some (l, r') =>
            if blen r' <? l then None
            else option_map (cons (tag / 8, WBytes (firstn (N.to_nat l) r')))
                            (dec_wire_aux fu (skipn (N.to_nat l) r'))
        end
      else None
  end.
Proof. reflexivity. Qed.

Lemma tag_div num wt : wt < 8 -> tag_of num wt / 8 = num.
Proof.
  intros H. unfold tag_of. rewrite N.div_add_l by lia.
  rewrite N.div_small by exact H. lia.
Qed.
Lemma tag_mod num wt : wt < 8 -> tag_of num wt mod 8 = wt.
Proof.
  intros H. unfold tag_of. rewrite N.add_comm. rewrite N.mod_add by lia.
  apply N.mod_small. exact H.
Qed.

Lemma firstn_blen (b rest : bytes) : firstn (N.to_nat (blen b)) (b ++ rest) = b.
Proof.
  unfold blen. rewrite Nat2N.id. rewrite firstn_app, Nat.sub_diag, firstn_all. cbn [firstn]. apply app_nil_r.
Qed.
Lemma skipn_blen (b rest : bytes) : skipn (N.to_nat (blen b)) (b ++ rest) = rest.
Proof.
  unfold blen. rewrite Nat2N.id. rewrite skipn_app, Nat.sub_diag, skipn_all. reflexivity.
Qed.

Lemma wf_wfield_inv num w : wf_wfield (num, w) = true ->
  0 < num /\ num <= max_field_number /\ wf_wval w = true.
Proof.
  unfold wf_wfield. cbn [fst snd]. intros H.
  apply andb_prop in H. destruct H as [H H3]. apply andb_prop in H. destruct H as [H1 H2].
  apply N.ltb_lt in H1. apply N.leb_le in H2. auto.
Qed.

Lemma tag_lt_two64 num wt : num <= max_field_number -> wt < 8 -> tag_of num wt < two64.
Proof. unfold tag_of, max_field_number, two64. lia. Qed.

(* one field followed by anything *)
Lemma dec_wire_aux_field fu w rest :
  wf_wfield w = true ->
  dec_wire_aux (S fu) (enc_wfield w ++ rest) = option_map (cons w) (dec_wire_aux fu rest).
Proof.
  destruct w as [num w]. intros Hw. apply wf_wfield_inv in Hw. destruct Hw as [Hpos [Hmax Hv]].
  assert (Hnz : (num =? 0) = false) by (apply N.eqb_neq; lia).
  destruct w as [n|b]; cbn [enc_wfield wf_wval] in *.
  - destruct (enc_varint_nonempty (tag_of num 0)) as [a [l E]].
    rewrite <- !app_assoc. rewrite E. cbn [app]. rewrite dec_wire_aux_step.
    change (a :: l ++ enc_varint n ++ rest) with ((a :: l) ++ enc_varint n ++ rest). rewrite <- E.
    rewrite varint_roundtrip by (apply tag_lt_two64; [exact Hmax|lia]).
    rewrite tag_div, tag_mod by lia. rewrite Hnz. cbn [N.eqb].
    apply N.ltb_lt in Hv. rewrite varint_roundtrip by exact Hv. reflexivity.
  - destruct (enc_varint_nonempty (tag_of num 2)) as [a [l E]].
    rewrite <- !app_assoc. rewrite E. cbn [app]. rewrite dec_wire_aux_step.
    change (a :: l ++ enc_varint (blen b) ++ b ++ rest) with ((a :: l) ++ enc_varint (blen b) ++ b ++ rest).
    rewrite <- E.
    rewrite varint_roundtrip by (apply tag_lt_two64; [exact Hmax|lia]).
    rewrite tag_div, tag_mod by lia. rewrite Hnz. cbn [N.eqb Pos.eqb].
    apply N.ltb_lt in Hv. rewrite varint_roundtrip by exact Hv.
    assert (Hl : (blen (b ++ rest) <? blen b) = false) by (apply N.ltb_ge; rewrite blen_app; lia).
    rewrite Hl. rewrite firstn_blen, skipn_blen. reflexivity.
Qed.

Lemma enc_wfield_length_pos w : (0 < length (enc_wfield w))%nat.
Proof.
  destruct w as [num [n|b]]; cbn [enc_wfield];
  match goal with |- context [enc_varint (tag_of ?a ?b)] => destruct (enc_varint_nonempty (tag_of a b)) as [x [l E]]; rewrite E end;
  cbn [app length]; lia.
Qed.

Lemma dec_wire_aux_enc ws : forall fuel, wf_wire ws = true ->
  (length (enc_wire ws) <= fuel)%nat -> dec_wire_aux fuel (enc_wire ws) = Some ws.
Proof.
  induction ws as [|w r IH]; intros fuel Hwf Hlen.
  - destruct fuel; reflexivity.
  - cbn [wf_wire forallb] in Hwf. apply andb_prop in Hwf. destruct Hwf as [Hw Hr].
    rewrite enc_wire_cons in *. rewrite app_length in Hlen.
    pose proof (enc_wfield_length_pos w) as Hp.
    destruct fuel as [|fu]; [lia|].
    rewrite dec_wire_aux_field by exact Hw.
    rewrite IH; [reflexivity| exact Hr | lia].
Qed.

(* wire level: decoding the encoding of any well-formed field list returns the list *)
Lemma wire_roundtrip ws : wf_wire ws = true -> dec_wire (enc_wire ws) = Some ws.
Proof. intros H. unfold dec_wire. apply dec_wire_aux_enc; [exact H| lia]. Qed.

(* length-delimited round trip: one payload, whatever follows *)
Lemma ld_roundtrip num (b rest : bytes) fu :
  0 < num -> num <= max_field_number -> blen b < two64 ->
  dec_wire_aux (S fu) (enc_wfield (num, WBytes b) ++ rest)
  = option_map (cons (num, WBytes b)) (dec_wire_aux fu rest).
Proof.
  intros H1 H2 H3. apply dec_wire_aux_field. unfold wf_wfield. cbn [fst snd wf_wval].
  apply N.ltb_lt in H1, H3. apply N.leb_le in H2. rewrite H1, H2, H3. reflexivity.
Qed.

Lemma enc_wfield_length w :
  blen (enc_wfield w) =
  match w with
  | (num, WVarint n) => sov (tag_of num 0) + sov n
  | (num, WBytes b) => sov (tag_of num 2) + sov (blen b) + blen b
  end.
Proof.
  destruct w as [num [n|b]]; cbn [enc_wfield]; rewrite !blen_app, !sov_is_length; lia.
Qed.
