(* C12 — executable model of the proto3 wire codec used by the NRI plugin protocol.

   Anchors: /repo/pkg/api/api_vtproto.pb.go (MarshalVT / MarshalToSizedBufferVT, SizeVT, UnmarshalVT,
   encodeVarint, sov) and the reflection codec of google.golang.org/protobuf driven by the descriptors
   in /repo/pkg/api/api.pb.go.  Both Go codecs are tied to THIS one model by the correspondence run
   (Run/RunProto.v): they produce the same bytes, so there is one encoder and one decoder here.

   Two levels (DESIGN.md 3.12):
     wire level   list (field number, payload)  <->  bytes          no descriptors, no nesting
     typed level  message value                 <->  wire fields    by descriptor lookup in a schema;
                  nested messages are length-delimited byte payloads, decoded recursively with fuel
                  (the rank of the message in the acyclic schema bounds the nesting depth).

   The schema is a parameter of every typed-level function; Model/Schema.v (regenerated from the
   compiled descriptor on every run) supplies the NRI instance.  No proofs in this file. *)
From Coq Require Import String Ascii List Bool ZArith NArith.
Import ListNotations.
Local Open Scope N_scope.

(* ------------------------------------------------------------------ bytes *)

Definition bytes := list ascii.
Definition bytes_of_string (s : string) : bytes := list_ascii_of_string s.
Definition string_of_bytes (b : bytes) : string := string_of_list_ascii b.
Definition blen (b : bytes) : N := N.of_nat (length b).
Definition slen (s : string) : N := N.of_nat (String.length s).

Definition two64 : N := 18446744073709551616.    (* 2^64 *)
Definition two63 : N := 9223372036854775808.
Definition two32 : N := 4294967296.
Definition two31 : N := 2147483648.
Definition max_field_number : N := 536870911.    (* 2^29 - 1 *)

(* ------------------------------------------------------------------ varints *)

(* encodeVarint (api_vtproto.pb.go): for v >= 1<<7 { emit v&0x7f|0x80; v >>= 7 }; emit v.
   The fuel is the bit length of n, which is always enough (each step removes 7 bits), so the
   function is the Go loop for every n; Go calls it with uint64 arguments only. *)
Fixpoint enc_varint_aux (fuel : nat) (n : N) : bytes :=
  match fuel with
  | O => [ascii_of_N n]
  | S f => if n <? 128 then [ascii_of_N n]
           else ascii_of_N (n mod 128 + 128) :: enc_varint_aux f (n / 128)
  end.
Definition enc_varint (n : N) : bytes := enc_varint_aux (N.to_nat (N.size n)) n.

(* sov: (bits.Len64(x|1) + 6) / 7 *)
Definition sov (n : N) : N := (N.size (N.lor n 1) + 6) / 7.

(* UnmarshalVT's varint loop: at most 10 bytes (shift < 64), the accumulated value wraps to 64 bits.
   Result: value and the remaining bytes; None = truncated input or more than 10 bytes. *)
Fixpoint dec_varint_aux (fuel : nat) (bs : bytes) : option (N * bytes) :=
  match fuel, bs with
  | S f, b :: r =>
      let x := N_of_ascii b in
      if x <? 128 then Some (x, r)
      else match dec_varint_aux f r with
           | Some (v, r') => Some ((x - 128) + 128 * v, r')
           | None => None
           end
  | _, _ => None
  end.
Definition dec_varint (bs : bytes) : option (N * bytes) :=
  match dec_varint_aux 10 bs with
  | Some (v, r) => Some (v mod two64, r)
  | None => None
  end.

(* ------------------------------------------------------------------ wire level *)

(* The schema uses wire types 0 (varint) and 2 (length-delimited) only. *)
Inductive wval :=
| WVarint (n : N)
| WBytes (b : bytes).
Definition wfield := (N * wval)%type.      (* field number, payload *)

Definition tag_of (num : N) (wt : N) : N := num * 8 + wt.

Definition enc_wfield (f : wfield) : bytes :=
  match f with
  | (num, WVarint n) => enc_varint (tag_of num 0) ++ enc_varint n
  | (num, WBytes b) => enc_varint (tag_of num 2) ++ enc_varint (blen b) ++ b
  end.
Definition enc_wire (fs : list wfield) : bytes := flat_map enc_wfield fs.

(* The decoders' outer loop.  Fuel = number of input bytes (every field consumes at least one).
   Field number 0 is refused ("illegal tag"), a length beyond the input is refused
   (io.ErrUnexpectedEOF); wire types other than 0 and 2 never occur for this schema and are refused. *)
Fixpoint dec_wire_aux (fuel : nat) (bs : bytes) : option (list wfield) :=
  match bs with
  | [] => Some []
  | _ :: _ =>
    match fuel with
    | O => None
    | S fu =>
      match dec_varint bs with
      | None => None
      | Some (tag, r) =>
        let num := tag / 8 in
        let wt := tag mod 8 in
        if num =? 0 then None
        else if wt =? 0 then
          match dec_varint r with
          | None => None
          | Some (v, r') => option_map (cons (num, WVarint v)) (dec_wire_aux fu r')
          end
        else if wt =? 2 then
          match dec_varint r with
          | None => None
          | Some (l, r') =>
              if blen r' <? l then None
              else option_map (cons (num, WBytes (firstn (N.to_nat l) r')))
                              (dec_wire_aux fu (skipn (N.to_nat l) r'))
          end
        else None
      end
    end
  end.
Definition dec_wire (bs : bytes) : option (list wfield) := dec_wire_aux (length bs) bs.

(* what the wire-level round trip needs: numbers and payloads fit the 64-bit arithmetic of the code *)
Definition wf_wval (w : wval) : bool :=
  match w with
  | WVarint n => n <? two64
  | WBytes b => blen b <? two64
  end.
Definition wf_wfield (f : wfield) : bool :=
  (0 <? fst f) && (fst f <=? max_field_number) && wf_wval (snd f).
Definition wf_wire (fs : list wfield) : bool := forallb wf_wfield fs.

(* ------------------------------------------------------------------ descriptors *)

Inductive scalar_kind := KInt32 | KInt64 | KUInt32 | KUInt64 | KBool | KEnum.

Inductive ftype :=
| TScalar (k : scalar_kind)          (* varint scalar without presence *)
| TString
| TMsg (target : string)             (* optional sub-message (presence = pointer non-nil) *)
| TRepString
| TRepMsg (target : string)
| TMapSS                             (* map<string,string> *)
| TUnsupported (why : string).       (* anything the model does not cover: makes schema_wf false *)

Record field_desc := { fd_num : N; fd_name : string; fd_type : ftype }.
Definition msg_desc := list field_desc.
Definition schema_t := list (string * msg_desc).

(* first entry of that name, with its rank = number of entries after it *)
Fixpoint find_msg (name : string) (sch : schema_t) : option (msg_desc * nat) :=
  match sch with
  | [] => None
  | (n, fds) :: r => if String.eqb name n then Some (fds, length r) else find_msg name r
  end.

Definition target_of (t : ftype) : option string :=
  match t with
  | TMsg T | TRepMsg T => Some T
  | _ => None
  end.

(* ------------------------------------------------------------------ values *)

(* One value per field, positionally (the i-th value belongs to the i-th field of the descriptor):
     TScalar    VScalar z        the Go field's numeric value (bool: 0/1; enum: its int32)
     TString    VString s
     TMsg       VNone | VMsg fs  nil pointer | pointer to a message with field values fs
     TRepString VRepStr l
     TRepMsg    VRep [VMsg ..]
     TMapSS     VMap l           the entries in the iteration order used by the encoder, keys distinct
   A whole message is VMsg fs. *)
Inductive value :=
| VScalar (z : Z)
| VString (s : string)
| VNone
| VMsg (fs : list value)
| VRepStr (l : list string)
| VRep (l : list value)
| VMap (l : list (string * string)).

(* Go's conversions around the varint: uint64(m.X) sign-extends int32/int64/enum *)
Definition to_u64 (z : Z) : N := Z.to_N (z mod 18446744073709551616)%Z.

Definition of_u64 (k : scalar_kind) (n : N) : Z :=
  match k with
  | KInt32 | KEnum => let m := n mod two32 in
                      if m <? two31 then Z.of_N m else (Z.of_N m - 4294967296)%Z
  | KInt64 => let m := n mod two64 in
              if m <? two63 then Z.of_N m else (Z.of_N m - 18446744073709551616)%Z
  | KUInt32 => Z.of_N (n mod two32)
  | KUInt64 => Z.of_N (n mod two64)
  | KBool => if n =? 0 then 0%Z else 1%Z
  end.

Definition in_range (k : scalar_kind) (z : Z) : bool :=
  match k with
  | KInt32 | KEnum => ((-2147483648 <=? z) && (z <=? 2147483647))%Z
  | KInt64 => ((-9223372036854775808 <=? z) && (z <=? 9223372036854775807))%Z
  | KUInt32 => ((0 <=? z) && (z <=? 4294967295))%Z
  | KUInt64 => ((0 <=? z) && (z <=? 18446744073709551615))%Z
  | KBool => ((0 <=? z) && (z <=? 1))%Z
  end.

Definition map_entry_wire (e : string * string) : list wfield :=
  [(1, WBytes (bytes_of_string (fst e))); (2, WBytes (bytes_of_string (snd e)))].

Section WithSchema.
Variable sch : schema_t.

Definition fields_of (T : string) : msg_desc :=
  match find_msg T sch with Some (fds, _) => fds | None => [] end.

(* ------------------------------------------------------------------ typed encoder *)

(* MarshalToSizedBufferVT of one field (the Go code writes back to front; the result is the same
   front-to-back concatenation in field-number order):
     scalars are elided when 0 / false, strings when empty, sub-messages when nil (an empty
     non-nil sub-message is written with length 0), every element of a repeated field and every
     map entry is written, a map entry always carries key (1) and value (2). *)
Fixpoint enc_field (num : N) (t : ftype) (v : value) {struct v} : list wfield :=
  match v with
  | VScalar z =>
      match t with
      | TScalar _ => if (z =? 0)%Z then [] else [(num, WVarint (to_u64 z))]
      | _ => []
      end
  | VString s =>
      match t with
      | TString => match s with EmptyString => [] | _ => [(num, WBytes (bytes_of_string s))] end
      | _ => []
      end
  | VNone => []
  | VMsg fs =>
      match t with
      | TMsg T =>
          [(num, WBytes (enc_wire
             ((fix zip (fds : msg_desc) (xs : list value) {struct xs} : list wfield :=
                 match xs, fds with
                 | x :: xr, f :: fr => enc_field (fd_num f) (fd_type f) x ++ zip fr xr
                 | _, _ => []
                 end) (fields_of T) fs)))]
      | _ => []
      end
  | VRepStr l =>
      match t with
      | TRepString => map (fun s => (num, WBytes (bytes_of_string s))) l
      | _ => []
      end
  | VRep l =>
      match t with
      | TRepMsg T => flat_map (enc_field num (TMsg T)) l
      | _ => []
      end
  | VMap l =>
      match t with
      | TMapSS => map (fun e => (num, WBytes (enc_wire (map_entry_wire e)))) l
      | _ => []
      end
  end.

Fixpoint enc_fields (fds : msg_desc) (xs : list value) {struct xs} : list wfield :=
  match xs, fds with
  | x :: xr, f :: fr => enc_field (fd_num f) (fd_type f) x ++ enc_fields fr xr
  | _, _ => []
  end.

(* ------------------------------------------------------------------ SizeVT *)

(* n += <tag bytes> + l + sov(l) *)
Definition ld_size (num l : N) : N := sov (tag_of num 2) + l + sov l.

Definition map_entry_size (e : string * string) : N :=
  1 + slen (fst e) + sov (slen (fst e)) + 1 + slen (snd e) + sov (slen (snd e)).

Definition sum_N (l : list N) : N := fold_right N.add 0 l.

(* the arithmetic of SizeVT, field by field; never looks at encoded bytes *)
Fixpoint size_field (num : N) (t : ftype) (v : value) {struct v} : N :=
  match v with
  | VScalar z =>
      match t with
      | TScalar _ => if (z =? 0)%Z then 0 else sov (tag_of num 0) + sov (to_u64 z)
      | _ => 0
      end
  | VString s =>
      match t with
      | TString => match s with EmptyString => 0 | _ => ld_size num (slen s) end
      | _ => 0
      end
  | VNone => 0
  | VMsg fs =>
      match t with
      | TMsg T =>
          ld_size num
            ((fix zip (fds : msg_desc) (xs : list value) {struct xs} : N :=
                match xs, fds with
                | x :: xr, f :: fr => size_field (fd_num f) (fd_type f) x + zip fr xr
                | _, _ => 0
                end) (fields_of T) fs)
      | _ => 0
      end
  | VRepStr l =>
      match t with
      | TRepString => sum_N (map (fun s => ld_size num (slen s)) l)
      | _ => 0
      end
  | VRep l =>
      match t with
      | TRepMsg T => sum_N (map (size_field num (TMsg T)) l)
      | _ => 0
      end
  | VMap l =>
      match t with
      | TMapSS => sum_N (map (fun e => ld_size num (map_entry_size e)) l)
      | _ => 0
      end
  end.

Fixpoint size_fields (fds : msg_desc) (xs : list value) {struct xs} : N :=
  match xs, fds with
  | x :: xr, f :: fr => size_field (fd_num f) (fd_type f) x + size_fields fr xr
  | _, _ => 0
  end.

(* ------------------------------------------------------------------ typed decoder *)

(* occurrences of one field number, in wire order *)
Definition occs (num : N) (ws : list wfield) : list wval :=
  map snd (filter (fun w => fst w =? num) ws).

(* a known field with the wrong wire type is an error ("proto: wrong wireType") *)
Fixpoint all_varints (l : list wval) : option (list N) :=
  match l with
  | [] => Some []
  | WVarint n :: r => option_map (cons n) (all_varints r)
  | WBytes _ :: _ => None
  end.
Fixpoint all_bytes (l : list wval) : option (list bytes) :=
  match l with
  | [] => Some []
  | WBytes b :: r => option_map (cons b) (all_bytes r)
  | WVarint _ :: _ => None
  end.

Fixpoint map_opt {A B} (f : A -> option B) (l : list A) : option (list B) :=
  match l with
  | [] => Some []
  | x :: r => match f x, map_opt f r with
              | Some y, Some ys => Some (y :: ys)
              | _, _ => None
              end
  end.

(* Go map assignment m[k] = v on the association-list view *)
Fixpoint map_insert (k v : string) (l : list (string * string)) : list (string * string) :=
  match l with
  | [] => [(k, v)]
  | (k', v') :: r => if String.eqb k k' then (k, v) :: r else (k', v') :: map_insert k v r
  end.

(* one map entry: key and value default to "", the last occurrence wins, other fields are skipped *)
Definition dec_map_entry (b : bytes) : option (string * string) :=
  match dec_wire b with
  | None => None
  | Some ws =>
      match all_bytes (occs 1 ws), all_bytes (occs 2 ws) with
      | Some ks, Some vs => Some (string_of_bytes (last ks []), string_of_bytes (last vs []))
      | _, _ => None
      end
  end.

(* One field from all its occurrences (fields are independent of each other, so decoding field by
   field is the decoders' single left-to-right pass):
     scalar / string   last occurrence wins, default 0 / ""
     sub-message       absent when there is no occurrence; several occurrences are merged, which
                       is decoding the concatenation of their payloads
     repeated          every occurrence, in order
     map               entries assigned in order
   [rec] decodes a nested message of the given descriptor. *)
Definition dec_field (rec : msg_desc -> bytes -> option value) (t : ftype) (os : list wval) : option value :=
  match t with
  | TScalar k => option_map (fun ns => VScalar (of_u64 k (last ns 0))) (all_varints os)
  | TString => option_map (fun bs => VString (string_of_bytes (last bs []))) (all_bytes os)
  | TMsg T =>
      match all_bytes os with
      | None => None
      | Some [] => Some VNone
      | Some bs => match find_msg T sch with
                   | Some (fds, _) => rec fds (concat bs)
                   | None => None
                   end
      end
  | TRepString => option_map (fun bs => VRepStr (map string_of_bytes bs)) (all_bytes os)
  | TRepMsg T =>
      match all_bytes os, find_msg T sch with
      | Some bs, Some (fds, _) => option_map VRep (map_opt (rec fds) bs)
      | _, _ => None
      end
  | TMapSS =>
      match all_bytes os with
      | None => None
      | Some bs =>
          option_map (fun es => VMap (fold_left (fun acc e => map_insert (fst e) (snd e) acc) es []))
                     (map_opt dec_map_entry bs)
      end
  | TUnsupported _ => None
  end.

(* fuel = remaining nesting depth; out of fuel = None (excluded by the theorems: the rank of the
   message in a well-formed schema is enough) *)
Fixpoint dec_msg (fuel : nat) (fds : msg_desc) (bs : bytes) {struct fuel} : option value :=
  match fuel with
  | O => None
  | S fu =>
      match dec_wire bs with
      | None => None
      | Some ws =>
          option_map VMsg
            (map_opt (fun f => dec_field (dec_msg fu) (fd_type f) (occs (fd_num f) ws)) fds)
      end
  end.

(* ------------------------------------------------------------------ whole messages, by name *)

Definition encode (name : string) (v : value) : bytes :=
  match find_msg name sch, v with
  | Some (fds, _), VMsg fs => enc_wire (enc_fields fds fs)
  | _, _ => []
  end.

Definition size (name : string) (v : value) : N :=
  match find_msg name sch, v with
  | Some (fds, _), VMsg fs => size_fields fds fs
  | _, _ => 0
  end.

Definition decode (name : string) (bs : bytes) : option value :=
  match find_msg name sch with
  | Some (fds, r) => dec_msg (S r) fds bs
  | None => None
  end.

(* ------------------------------------------------------------------ well-formed values *)

Fixpoint nodup_keys (l : list (string * string)) : bool :=
  match l with
  | [] => true
  | (k, _) :: r => negb (existsb (fun e => String.eqb k (fst e)) r) && nodup_keys r
  end.

(* The value has the shape of the descriptor, integers are in the range of their Go type, map keys
   are distinct (a Go map), and every length that the encoder writes fits its uint64 arithmetic. *)
Fixpoint wf_field (t : ftype) (v : value) {struct v} : bool :=
  match v with
  | VScalar z => match t with TScalar k => in_range k z | _ => false end
  | VString s => match t with TString => slen s <? two64 | _ => false end
  | VNone => match t with TMsg _ => true | _ => false end
  | VMsg fs =>
      match t with
      | TMsg T =>
          match find_msg T sch with
          | Some (fds, _) =>
              ((fix zip (fds : msg_desc) (xs : list value) {struct xs} : bool :=
                  match xs, fds with
                  | x :: xr, f :: fr => wf_field (fd_type f) x && zip fr xr
                  | [], [] => true
                  | _, _ => false
                  end) fds fs)
              && (size_fields fds fs <? two64)
          | None => false
          end
      | _ => false
      end
  | VRepStr l => match t with TRepString => forallb (fun s => slen s <? two64) l | _ => false end
  | VRep l =>
      match t with
      | TRepMsg T => forallb (fun m => match m with VMsg _ => wf_field (TMsg T) m | _ => false end) l
      | _ => false
      end
  | VMap l =>
      match t with
      | TMapSS => nodup_keys l && forallb (fun e => (slen (fst e) <? two64) && (slen (snd e) <? two64)
                                                    && (map_entry_size e <? two64)) l
      | _ => false
      end
  end.

Fixpoint wf_fields (fds : msg_desc) (xs : list value) {struct xs} : bool :=
  match xs, fds with
  | x :: xr, f :: fr => wf_field (fd_type f) x && wf_fields fr xr
  | [], [] => true
  | _, _ => false
  end.

Definition wf_value (name : string) (v : value) : bool :=
  match find_msg name sch, v with
  | Some (fds, _), VMsg fs => wf_fields fds fs
  | _, _ => false
  end.

(* ------------------------------------------------------------------ well-formed schemas *)

Fixpoint increasing (l : list N) : bool :=
  match l with
  | a :: (b :: _) as r => (a <? b) && increasing r
  | _ => true
  end.

(* a message of rank rk: field numbers strictly increasing and legal, every construct supported,
   every referenced message resolvable and of strictly smaller rank (hence no cycles) *)
Definition desc_ok (fds : msg_desc) (rk : nat) : bool :=
  increasing (map fd_num fds)
  && forallb (fun f => (0 <? fd_num f) && (fd_num f <=? max_field_number)) fds
  && forallb (fun f => match fd_type f with
                       | TMsg T | TRepMsg T =>
                           match find_msg T sch with
                           | Some (_, rT) => Nat.ltb rT rk
                           | None => false
                           end
                       | TUnsupported _ => false
                       | _ => true
                       end) fds.

Fixpoint schema_ok_from (rest : schema_t) : bool :=
  match rest with
  | [] => true
  | (_, fds) :: r => desc_ok fds (length r) && schema_ok_from r
  end.

End WithSchema.

Fixpoint nodup_names (l : list string) : bool :=
  match l with
  | [] => true
  | n :: r => negb (existsb (String.eqb n) r) && nodup_names r
  end.

Definition schema_wf (sch : schema_t) : bool :=
  schema_ok_from sch sch && nodup_names (map fst sch).
