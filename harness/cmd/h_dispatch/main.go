package main

import "verif/harness/internal/hx"

func main() {
	hx.Main(map[string]func(*hx.Ctx) error{
		"events":  driveEvents,
		"faults":  driveFaults,
		"updates": driveUpdates,
	})
}
