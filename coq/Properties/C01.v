(* C01 — two plugins setting the same container item is always flagged as a conflict.
   Only statements here; proofs are in Proofs/LedgerProofs.v and Proofs/RefineLedger.v.

   Reading (DESIGN.md I1): a response is abstracted to GROUPS (one for its adjustment, one per
   container update) of releases and claims on keys (container id x item); Spec/AbsLedger.v is the
   30-line reference: releases first, a claim on a key still held is a conflict.  The theorems are
   about Model/Result.v's [run_request], the executable model of pkg/adaptation/result.go that the
   correspondence check runs against the real code on every invocation. *)
From Coq Require Import String List Bool ZArith.
From NRI Require Import Model.Types Model.Result Spec.AbsLedger Proofs.LedgerProofs Proofs.RefineLedger Proofs.LedgerOrder.
Import ListNotations.

(* (1) The abstract ledger: if a group claims a key, a later group claims the same key, neither is an
   ignore-failure update, and no group after the first up to and including the later one marks the
   key for removal, the history is a conflict — whatever else any plugin does, for any number of
   plugins, any key kind, any target container. *)
Theorem C01_abs_collision_conflicts :
  forall k pre1 g1 pre g2 post o d,
    g_ignorable g1 = false -> g_ignorable g2 = false ->
    In k (g_claims g1) -> In k (g_claims g2) ->
    (forall g, In g (pre ++ [g2]) -> ~ In k (g_releases g)) ->
    abs_run (pre1 ++ g1 :: pre ++ g2 :: post) o d = None.
Proof. exact abs_collision_conflicts. Qed.
Print Assumptions C01_abs_collision_conflicts.

(* (2) Refinement: for EVERY request (create / update / stop), EVERY original container or requested
   resources and EVERY chain of plugin responses, the model of result.go fails whenever the abstract
   ledger reports a conflict.  [wf_rp]: the annotation map of an adjustment has distinct keys (it is
   a Go map). *)
Theorem C01_conflict_fails_request :
  forall rq rps, Forall wf_rp rps ->
    abs_conflict (req_created rq) rps = true -> exists e, snd (run_request rq rps) = Err e.
Proof. exact conflict_fails. Qed.
Print Assumptions C01_conflict_fails_request.

(* (1)+(2): a colliding pair fails the request — every item kind, every position of the two plugins
   (adjacent or not), adjustment against adjustment, update against update, or mixed *)
Theorem C01_colliding_pair_fails_request :
  forall rq rps k pre1 g1 pre g2 post,
    Forall wf_rp rps ->
    all_groups (req_created rq) rps = pre1 ++ g1 :: pre ++ g2 :: post ->
    g_ignorable g1 = false -> g_ignorable g2 = false ->
    In k (g_claims g1) -> In k (g_claims g2) ->
    (forall g, In g (pre ++ [g2]) -> ~ In k (g_releases g)) ->
    exists e, snd (run_request rq rps) = Err e.
Proof. exact colliding_pair_fails_request. Qed.
Print Assumptions C01_colliding_pair_fails_request.

(* (3) The full correspondence of verdicts and ledgers, from which (2) and C02 follow: on success the
   model's ledger holds exactly the keys of the abstract ledger *)
Theorem C01_model_refines_ledger :
  forall rq rps, Forall wf_rp rps ->
    match snd (run_request rq rps) with
    | Ok s => abs_conflict (req_created rq) rps = false /\ self_update (req_created rq) rps = false /\
              exists oa d, abs_run (all_groups (req_created rq) rps) [] [] = Some (oa, d) /\ leq (s_own s) oa
    | Err _ => abs_conflict (req_created rq) rps = true \/ self_update (req_created rq) rps = true
    end.
Proof. exact run_request_refines_ledger. Qed.
Print Assumptions C01_model_refines_ledger.

(* one adjustment: result.adjust against the abstract group of the adjustment *)
Theorem C01_adjust_refines_group :
  forall p c a o oa, NoDup (map fst (a_ann p)) -> P3 (c, a, o) -> leq o oa ->
    match adjust p (c, a, o) with
    | Err _ => fst (abs_step (g_releases (adjust_group (c_id c) p)) (g_claims (adjust_group (c_id c) p)) oa) = false
    | Ok (c', a', o') =>
        fst (abs_step (g_releases (adjust_group (c_id c) p)) (g_claims (adjust_group (c_id c) p)) oa) = true /\
        leq o' (snd (abs_step (g_releases (adjust_group (c_id c) p)) (g_claims (adjust_group (c_id c) p)) oa)) /\
        c_id c' = c_id c /\ P3 (c', a', o')
    end.
Proof. exact adjust_ledger. Qed.
Print Assumptions C01_adjust_refines_group.

(* (4) "every internal iteration order": the annotation map of an adjustment and the unified map of any
   resources may be iterated in ANY order (Go's map iteration is random): the request fails or succeeds all
   the same — provided no update is marked ignore-failure (what a dropped update leaves behind depends on
   where it failed: interpretation I2) *)
Theorem C01_map_order_independent :
  forall rq rps rps',
    Forall wf_rp rps -> Forall2 resp_perm rps rps' -> no_ignore rps ->
    ((exists e, snd (run_request rq rps) = Err e) <-> (exists e, snd (run_request rq rps') = Err e)).
Proof. exact verdict_map_order_independent. Qed.
Print Assumptions C01_map_order_independent.

(* non-vacuity: two plugins both setting annotation "k" of container "c": an abstract conflict, the
   hypotheses of (2) hold, and the model fails *)
Definition ex_c : container :=
  {| c_id := "c"; c_ann := []; c_mounts := []; c_env := []; c_args := []; c_hooks := hooks_empty; c_rlimits := [];
     c_devices := []; c_res := res_empty; c_cgroups := ""; c_oom := None |}%string.
Definition ex_rps : list response :=
  [ {| rp_adjust := Some (with_a_ann adj_empty [("k", "A")]%string); rp_updates := [] |};
    {| rp_adjust := Some (with_a_ann adj_empty [("k", "B")]%string); rp_updates := [] |} ].
Example C01_example : abs_conflict (Some "c"%string) ex_rps = true.
Proof. reflexivity. Qed.
Example C01_example_wf : Forall wf_rp ex_rps.
Proof. repeat constructor; cbn; intros []; try discriminate; contradiction. Qed.
Example C01_example_fails : exists e, snd (run_request (RCreate ex_c) ex_rps) = Err e.
Proof. eexists. vm_compute. reflexivity. Qed.
(* three plugins, non-adjacent collision on a scalar field of a third-party container via updates *)
Example C01_example_update :
  let u v := {| u_id := "other"; u_res := Some {| r_scal := [(CpuShares, VZ v)]; r_hp := []; r_uni := [] |}; u_ignore := false |}%string in
  let rps := [ {| rp_adjust := None; rp_updates := [u 1%Z] |}; {| rp_adjust := None; rp_updates := [] |};
               {| rp_adjust := None; rp_updates := [u 2%Z] |} ] in
  abs_conflict None rps = true /\ exists e, snd (run_request (RStop "x"%string) rps) = Err e.
Proof. split; [reflexivity|eexists; vm_compute; reflexivity]. Qed.
