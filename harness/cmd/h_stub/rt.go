package main

// The scripted runtime end: what pkg/adaptation/plugin.go connect()/start() do
// for an external plugin, reduced to the handshake and with every step under
// the control of the driver.  One runtime owns one unix socket in a scratch
// directory; every accepted connection becomes a session whose behaviour is
// taken from the script that is current at accept time.

import (
	"context"
	"errors"
	"fmt"
	"net"
	"os"
	"path/filepath"
	"sync"
	"sync/atomic"
	"time"

	"github.com/containerd/nri/pkg/api"
	"github.com/containerd/nri/pkg/net/multiplex"
	"github.com/containerd/ttrpc"
)

// script says what the runtime end does with the next connection.
type script struct {
	Register string // "ok" | "refuse" | "drop" (close without answering) | "silent" (never answer)
	// AfterReg: what follows a successful registration:
	//   "configure"  send Configure (then AfterCfg applies)
	//   "drop"       close the connection as soon as the RegisterPlugin response is on the wire
	//   "silent"     keep the connection, never configure
	AfterReg string
	// AfterCfg: "sync" (Synchronize, session stays) | "drop" (close once the Configure response arrived)
	AfterCfg string
	// DropDuringCfgMs > 0: the connection is closed that many ms after Configure was SENT (the plugin's hook is
	// made slow by the driver, so this is while the hook runs)
	DropDuringCfgMs int64
	// AfterCfgErr: what follows a Configure call that the stub answered with an error:
	//   ""      keep the connection open (the session stays until the runtime is shut down)
	//   "drop"  close the connection 50 ms later (what pkg/adaptation does)
	AfterCfgErr string
	// byte-level cuts (cutting proxy on the runtime side of the socket); -1 = none.
	// CutW: close the connection after this many bytes were sent to the plugin;
	// CutR: close it after this many bytes were received from the plugin.
	CutW, CutR int64

	RegistrationTimeoutMs int64
	RequestTimeoutMs      int64

	// DropAtAccept: the connection is closed as soon as it is accepted (byte offset 0), no handshake
	DropAtAccept bool
	// OnConfigured runs (in the runtime end's goroutine) as soon as Configure was answered without error,
	// before Synchronize is sent: what a runtime does with a plugin it now considers ready
	OnConfigured func(*session)
}

func healthyScript() script {
	return script{Register: "ok", AfterReg: "configure", AfterCfg: "sync", CutW: -1, CutR: -1,
		RegistrationTimeoutMs: 400, RequestTimeoutMs: 400}
}

// cutConn is the runtime's end of the socket with byte accounting, mux frame
// accounting (8-byte header: id, length) and optional cuts.
type cutConn struct {
	net.Conn
	mu       sync.Mutex
	cutW     int64
	cutR     int64
	sent     int64
	rcvd     int64
	wBounds  []int64 // offsets at which a complete frame sent to the plugin ends
	rBounds  []int64
	wp, rp   frameParser
	closed   atomic.Bool
	onFrameW func(n int) // called (without lock) when the n-th frame to the plugin is complete
	onFrameR func(n int)
}

type frameParser struct {
	hdr  [8]byte
	nh   int
	left int64
}

// feed advances the parser over b and returns the offsets (relative to b) at which frames end.
func (p *frameParser) feed(b []byte) (ends []int) {
	i := 0
	for i < len(b) {
		if p.nh < 8 {
			n := copy(p.hdr[p.nh:], b[i:])
			p.nh += n
			i += n
			if p.nh == 8 {
				p.left = int64(uint32(p.hdr[4])<<24 | uint32(p.hdr[5])<<16 | uint32(p.hdr[6])<<8 | uint32(p.hdr[7]))
				if p.left == 0 {
					ends = append(ends, i)
					p.nh = 0
				}
			}
			continue
		}
		n := int64(len(b) - i)
		if n > p.left {
			n = p.left
		}
		p.left -= n
		i += int(n)
		if p.left == 0 {
			ends = append(ends, i)
			p.nh = 0
		}
	}
	return ends
}

func (c *cutConn) Write(b []byte) (int, error) {
	if c.closed.Load() {
		return 0, net.ErrClosed
	}
	c.mu.Lock()
	allow := int64(len(b))
	cut := false
	if c.cutW >= 0 && c.sent+allow >= c.cutW {
		allow = c.cutW - c.sent
		if allow < 0 {
			allow = 0
		}
		cut = true
	}
	c.mu.Unlock()
	n := 0
	var err error
	if allow > 0 {
		n, err = c.Conn.Write(b[:allow])
	}
	c.mu.Lock()
	base := c.sent
	c.sent += int64(n)
	ends := c.wp.feed(b[:n])
	first := len(c.wBounds)
	for _, e := range ends {
		c.wBounds = append(c.wBounds, base+int64(e))
	}
	cb := c.onFrameW
	c.mu.Unlock()
	if cut {
		c.kill()
		if err == nil && int64(n) < int64(len(b)) {
			err = net.ErrClosed
		}
	}
	if cb != nil {
		for i := range ends {
			cb(first + i + 1)
		}
	}
	return n, err
}

func (c *cutConn) Read(b []byte) (int, error) {
	c.mu.Lock()
	if c.cutR >= 0 {
		rem := c.cutR - c.rcvd
		if rem <= 0 {
			c.mu.Unlock()
			c.kill()
			return 0, net.ErrClosed
		}
		if int64(len(b)) > rem {
			b = b[:rem]
		}
	}
	c.mu.Unlock()
	n, err := c.Conn.Read(b)
	c.mu.Lock()
	base := c.rcvd
	c.rcvd += int64(n)
	ends := c.rp.feed(b[:n])
	first := len(c.rBounds)
	for _, e := range ends {
		c.rBounds = append(c.rBounds, base+int64(e))
	}
	hit := c.cutR >= 0 && c.rcvd >= c.cutR
	cb := c.onFrameR
	c.mu.Unlock()
	if hit {
		c.kill()
	}
	if cb != nil {
		for i := range ends {
			cb(first + i + 1)
		}
	}
	return n, err
}

func (c *cutConn) kill() {
	if c.closed.CompareAndSwap(false, true) {
		c.Conn.Close()
	}
}

func (c *cutConn) Close() error {
	c.kill()
	return nil
}

func (c *cutConn) bounds() (w, r []int64) {
	c.mu.Lock()
	defer c.mu.Unlock()
	return append([]int64(nil), c.wBounds...), append([]int64(nil), c.rBounds...)
}

// session is one accepted connection.
type session struct {
	rt     *runtime
	id     int
	sc     script
	cc     *cutConn
	mux    multiplex.Mux
	rpcc   *ttrpc.Client
	rpcs   *ttrpc.Server
	plugin api.PluginService

	registered   chan struct{} // RegisterPlugin request seen
	regOnce      sync.Once
	configured   chan struct{} // Configure answered (cfgResp/cfgErr valid)
	synchronized chan struct{} // Synchronize answered
	closed       chan struct{} // the runtime's ttrpc client saw the connection go away
	closeOnce    sync.Once

	regName, regIdx string
	cfgResp         *api.ConfigureResponse
	cfgErr          error
	syncErr         error
}

func (s *session) RegisterPlugin(ctx context.Context, req *api.RegisterPluginRequest) (*api.Empty, error) {
	s.regName, s.regIdx = req.PluginName, req.PluginIdx
	s.regOnce.Do(func() { close(s.registered) })
	switch s.sc.Register {
	case "refuse":
		return nil, errors.New("registration refused by the scripted runtime")
	case "configure-then-refuse":
		// the runtime end configures the plugin before it answers RegisterPlugin, then refuses the registration
		cctx, cancel := context.WithTimeout(context.Background(), 60*time.Second)
		s.cfgResp, s.cfgErr = s.plugin.Configure(cctx, &api.ConfigureRequest{
			Config: s.rt.config, RuntimeName: "scripted", RuntimeVersion: "v0",
			RegistrationTimeout: s.sc.RegistrationTimeoutMs, RequestTimeout: s.sc.RequestTimeoutMs,
		})
		cancel()
		return nil, errors.New("registration refused by the scripted runtime (after Configure)")
	case "drop":
		s.cc.kill()
		return nil, errors.New("dropped")
	case "silent":
		<-s.closed
		return nil, errors.New("silent")
	}
	return &api.Empty{}, nil
}

func (s *session) UpdateContainers(ctx context.Context, req *api.UpdateContainersRequest) (*api.UpdateContainersResponse, error) {
	return &api.UpdateContainersResponse{}, nil
}

// afterRegister runs when the RegisterPlugin response is completely on the wire.
func (s *session) afterRegister() {
	switch s.sc.AfterReg {
	case "drop":
		// Give the stub time to consume the RegisterPlugin response: a drop that overtakes the
		// response makes RegisterPlugin itself fail, which is the other behaviour (Register "drop").
		time.Sleep(50 * time.Millisecond)
		s.cc.kill()
		return
	case "silent":
		return
	}
	// far above twice the driver's "still blocked" bound: a Configure handler that hangs must stay hung for the
	// whole observation (a time-out of this call would release the stub and make the observation depend on the bound)
	ctx, cancel := context.WithTimeout(context.Background(), 60*time.Second)
	defer cancel()
	if ms := s.sc.DropDuringCfgMs; ms > 0 {
		go func() {
			time.Sleep(time.Duration(ms) * time.Millisecond)
			s.cc.kill()
		}()
	}
	s.cfgResp, s.cfgErr = s.plugin.Configure(ctx, &api.ConfigureRequest{
		Config: s.rt.config, RuntimeName: "scripted", RuntimeVersion: "v0",
		RegistrationTimeout: s.sc.RegistrationTimeoutMs, RequestTimeout: s.sc.RequestTimeoutMs,
	})
	close(s.configured)
	if s.sc.AfterCfg == "drop" {
		// As above: not before the stub has consumed what was sent so far.  A drop that follows the
		// responses immediately can overtake the RegisterPlugin response inside the stub's multiplexer
		// (a multiplexed conn's Read selects at random between "closed" and queued data), and then
		// RegisterPlugin fails although it was answered (seen once in ~300 runs).
		time.Sleep(50 * time.Millisecond)
		s.cc.kill()
		return
	}
	if s.cfgErr == nil && s.sc.OnConfigured != nil {
		s.sc.OnConfigured(s)
	}
	if s.cfgErr != nil {
		if s.sc.AfterCfgErr == "drop" {
			time.Sleep(50 * time.Millisecond)
			s.cc.kill()
		}
		return
	}
	_, s.syncErr = s.plugin.Synchronize(ctx, &api.SynchronizeRequest{})
	close(s.synchronized)
}

func (s *session) drop() { s.cc.kill() }

func (s *session) shutdown() {
	s.cc.kill()
	if s.rpcc != nil {
		s.rpcc.Close()
	}
	if s.rpcs != nil {
		s.rpcs.Close()
	}
	if s.mux != nil {
		s.mux.Close()
	}
}

func waitC(c chan struct{}, d time.Duration) bool {
	select {
	case <-c:
		return true
	case <-time.After(d):
		return false
	}
}

// runtime is the listening end.
type runtime struct {
	dir    string
	sock   string
	l      net.Listener
	config string

	mu       sync.Mutex
	sc       script
	sessions []*session
	accepted chan *session
}

func newRuntime(config string) (*runtime, error) {
	dir, err := os.MkdirTemp("", "hstub")
	if err != nil {
		return nil, err
	}
	rt := &runtime{dir: dir, sock: filepath.Join(dir, "nri.sock"), sc: healthyScript(), config: config,
		accepted: make(chan *session, 64)}
	l, err := net.Listen("unix", rt.sock)
	if err != nil {
		os.RemoveAll(dir)
		return nil, err
	}
	rt.l = l
	go rt.acceptLoop()
	return rt, nil
}

func (rt *runtime) setScript(sc script) {
	rt.mu.Lock()
	rt.sc = sc
	rt.mu.Unlock()
}

func (rt *runtime) nSessions() int {
	rt.mu.Lock()
	defer rt.mu.Unlock()
	return len(rt.sessions)
}

func (rt *runtime) last() *session {
	rt.mu.Lock()
	defer rt.mu.Unlock()
	if len(rt.sessions) == 0 {
		return nil
	}
	return rt.sessions[len(rt.sessions)-1]
}

func (rt *runtime) acceptLoop() {
	for {
		conn, err := rt.l.Accept()
		if err != nil {
			return
		}
		rt.mu.Lock()
		if rt.sc.DropAtAccept {
			rt.mu.Unlock()
			conn.Close()
			continue
		}
		sc := rt.sc
		s := &session{rt: rt, id: len(rt.sessions) + 1, sc: sc,
			registered: make(chan struct{}), configured: make(chan struct{}),
			synchronized: make(chan struct{}), closed: make(chan struct{})}
		rt.sessions = append(rt.sessions, s)
		rt.mu.Unlock()
		s.cc = &cutConn{Conn: conn, cutW: sc.CutW, cutR: sc.CutR}
		// frame 1 towards the plugin is the RegisterPlugin response
		s.cc.onFrameW = func(n int) {
			if n == 1 && sc.Register == "ok" {
				go s.afterRegister()
			}
		}
		if err := s.connect(); err != nil {
			fmt.Fprintln(os.Stderr, "scripted runtime: connect:", err)
			conn.Close()
			continue
		}
		select {
		case rt.accepted <- s:
		default:
		}
	}
}

// connect mirrors pkg/adaptation/plugin.go connect() + the Serve part of start().
func (s *session) connect() error {
	mux := multiplex.Multiplex(s.cc, multiplex.WithBlockedRead())
	pconn, err := mux.Open(multiplex.PluginServiceConn)
	if err != nil {
		mux.Close()
		return err
	}
	rpcc := ttrpc.NewClient(pconn, ttrpc.WithOnClose(func() {
		s.closeOnce.Do(func() { close(s.closed) })
	}))
	rpcs, err := ttrpc.NewServer()
	if err != nil {
		rpcc.Close()
		mux.Close()
		return err
	}
	rpcl, err := mux.Listen(multiplex.RuntimeServiceConn)
	if err != nil {
		rpcs.Close()
		rpcc.Close()
		mux.Close()
		return err
	}
	s.mux, s.rpcc, s.rpcs = mux, rpcc, rpcs
	s.plugin = api.NewPluginClient(rpcc)
	api.RegisterRuntimeService(rpcs, s)
	go rpcs.Serve(context.Background(), rpcl)
	mux.Unblock()
	return nil
}

func (rt *runtime) close() {
	rt.l.Close()
	rt.mu.Lock()
	ss := append([]*session(nil), rt.sessions...)
	rt.mu.Unlock()
	for _, s := range ss {
		s.shutdown()
	}
	os.RemoveAll(rt.dir)
}
