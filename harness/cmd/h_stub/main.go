// h_stub drives the real pkg/stub against a scripted runtime end (C15, C16).
package main

import (
	"io"
	"strings"
	"sync/atomic"
	"time"

	"github.com/sirupsen/logrus"

	"verif/harness/internal/hx"
)

func main() {
	logrus.SetOutput(io.Discard)
	logrus.AddHook(startDelayHook{})
	hx.Main(map[string]func(*hx.Ctx) error{
		"probe":           driveProbe,
		"stubdispatch":    driveDispatch,
		"stublife":        driveLife,
		"stublife-worker": lifeWorker,
	})
}

// startDelayMs > 0 makes the stub's Start linger at its "Started plugin" log line — the point between having
// received the configuration result and marking itself started — so that a driver can deliver events in
// that gap deterministically (the stub logs through logrus; output is discarded, hooks still run).
var startDelayMs atomic.Int64

type startDelayHook struct{}

func (startDelayHook) Levels() []logrus.Level { return []logrus.Level{logrus.InfoLevel} }

func (startDelayHook) Fire(e *logrus.Entry) error {
	if d := startDelayMs.Load(); d > 0 && strings.HasPrefix(e.Message, "Started plugin") {
		time.Sleep(time.Duration(d) * time.Millisecond)
	}
	return nil
}
