package main

// Run-time probes: the fallback for a switch whose source shape the static reading (sem.go) does not understand.
// The translator is built against the same tree it reads (the harness module replaces containerd/nri by it), so it
// can run the compiled multiplexer on the one input that separates the two behaviours the switch stands for.
// A probe is weaker evidence than the static reading — one point, not every path — and MuxConsts.v says for each
// switch which way it was obtained.  Every wait is bounded; a probe that cannot run, times out in its set-up or
// sees something else than one of the two expected behaviours says false.

import (
	"encoding/binary"
	"errors"
	"io"
	"net"
	"os"
	"os/exec"
	"sync"
	"syscall"
	"time"

	"github.com/containerd/nri/pkg/net/multiplex"
)

const probeWait = 1500 * time.Millisecond

var errProbe = errors.New("probe: trunk write fails")

// the failing trunk write may also return an error that implements net.Error (an expired write deadline, a
// transient condition): a frame that is half out is fatal whatever the error's type
type probeNetErr struct{ timeout bool }

func (e *probeNetErr) Error() string   { return "probe: trunk write: i/o timeout" }
func (e *probeNetErr) Timeout() bool   { return e.timeout }
func (e *probeNetErr) Temporary() bool { return true }

var probeErrs = []error{errProbe, &probeNetErr{timeout: true}, &probeNetErr{timeout: false}}

// failTrunk: a trunk whose Write fails once: after `after` bytes have gone out the next non-empty Write passes `n`
// bytes on and returns (n, errProbe); everything is discarded at the other end.
type failTrunk struct {
	net.Conn
	mu      sync.Mutex
	after   int
	n       int
	failed  bool
	err     error
	closedC chan struct{}
	once    sync.Once
}

func newFailTrunk(after, n int, err error) *failTrunk {
	a, b := net.Pipe()
	go io.Copy(io.Discard, b)
	return &failTrunk{Conn: a, after: after, n: n, err: err, closedC: make(chan struct{})}
}

func (t *failTrunk) Write(p []byte) (int, error) {
	t.mu.Lock()
	defer t.mu.Unlock()
	if !t.failed && t.after == 0 && len(p) > 0 {
		t.failed = true
		k := t.n
		if k > len(p) {
			k = len(p)
		}
		if k > 0 {
			t.Conn.Write(p[:k])
		}
		return k, t.err
	}
	n, err := t.Conn.Write(p)
	if !t.failed {
		t.after -= n
		if t.after < 0 {
			t.after = 0
		}
	}
	return n, err
}

func (t *failTrunk) Close() error {
	t.once.Do(func() { close(t.closedC) })
	return t.Conn.Close()
}

func (t *failTrunk) closedSoon() bool {
	select {
	case <-t.closedC:
		return true
	case <-time.After(300 * time.Millisecond):
		return false
	}
}

func within(f func()) bool {
	done := make(chan struct{})
	go func() { defer func() { recover(); close(done) }(); f() }()
	select {
	case <-done:
		return true
	case <-time.After(probeWait):
		return false
	}
}

// writeFailsAt: a Write of 3 bytes on a trunk that fails after `after` bytes with n bytes of the failing call out:
// did the Mux close its trunk?  If it did not: is its error slot still free (after an orderly Close a Read returns
// end-of-file, not the write's error)?
func writeFailsAt(after, n int, e error) (closed, ok bool) {
	t := newFailTrunk(after, n, e)
	m := multiplex.Multiplex(t)
	defer m.Close()
	c, err := m.Open(1)
	if err != nil {
		return false, false
	}
	var werr error
	if !within(func() { _, werr = c.Write([]byte("abc")) }) || werr == nil {
		return false, false
	}
	if t.closedSoon() {
		return true, true
	}
	m.Close()
	var rerr error
	if !within(func() { _, rerr = c.Read(make([]byte, 8)) }) || rerr != io.EOF {
		return false, false // the harmless failure was latched, or the Read hangs
	}
	return false, true
}

// probePayloadFatal: header out (8 bytes), the payload write fails with n = 0: is the Mux closed?  (Sanity: a header
// that fails with n = 0 leaves it open, one that fails with n = 3 closes it.)
func probePayloadFatal() bool {
	for _, e := range probeErrs {
		h0, ok0 := writeFailsAt(0, 0, e)
		h3, ok3 := writeFailsAt(0, 3, e)
		p0, okp := writeFailsAt(8, 0, e)
		p2, okq := writeFailsAt(8, 2, e)
		if !(ok0 && ok3 && okp && okq && !h0 && h3 && p0 && p2) {
			return false
		}
	}
	return true
}

func muxPair(optsB ...multiplex.Option) (multiplex.Mux, multiplex.Mux) {
	a, b := net.Pipe()
	return multiplex.Multiplex(a), multiplex.Multiplex(b, optsB...)
}

// probeReadLen: a 50-byte frame read with a buffer of length 10, capacity 100: ENOMEM?
func probeReadLen() bool {
	ma, mb := muxPair()
	defer ma.Close()
	defer mb.Close()
	ca, e1 := ma.Open(5)
	cb, e2 := mb.Open(5)
	if e1 != nil || e2 != nil {
		return false
	}
	go ca.Write(make([]byte, 50))
	var n int
	var err error
	if !within(func() { n, err = cb.Read(make([]byte, 10, 100)) }) {
		return false
	}
	return n == 0 && errors.Is(err, syscall.ENOMEM)
}

// probeOpenClosed: Open on a closed Mux: does a Read on the new connection return?
func probeOpenClosed() bool {
	ma, mb := muxPair()
	defer mb.Close()
	ma.Close()
	c, err := ma.Open(6)
	if err != nil || c == nil {
		return false
	}
	var rerr error
	return within(func() { _, rerr = c.Read(make([]byte, 8)) }) && rerr != nil
}

// probeIdentity: open 1, close it, open 1 again, close the OLD handle once more, close the Mux: is the replacement woken?
func probeIdentity() bool {
	ma, mb := muxPair()
	defer mb.Close()
	old, err := ma.Open(1)
	if err != nil {
		return false
	}
	old.Close()
	repl, err := ma.Open(1)
	if err != nil || repl == old {
		return false
	}
	old.Close()
	res := make(chan error, 1)
	go func() { _, err := repl.Read(make([]byte, 8)); res <- err }()
	time.Sleep(20 * time.Millisecond)
	ma.Close()
	select {
	case err := <-res:
		return err != nil
	case <-time.After(probeWait):
		return false
	}
}

// probeQueueCap: a queue configured to 300 holds 290 unread frames.
func probeQueueCap() bool {
	ma, mb := muxPair(multiplex.WithReadQueueLength(300))
	defer ma.Close()
	defer mb.Close()
	ca, e1 := ma.Open(1)
	cb, e2 := mb.Open(1)
	if e1 != nil || e2 != nil {
		return false
	}
	if !within(func() {
		for i := 0; i < 290; i++ {
			if _, err := ca.Write([]byte{byte(i)}); err != nil {
				return
			}
		}
		ca.Write([]byte("end")) // goes through the reader after the 290th frame has been queued (or refused)
	}) {
		return false
	}
	var n int
	var err error
	buf := make([]byte, 8)
	if !within(func() { n, err = cb.Read(buf) }) {
		return false
	}
	return err == nil && n == 1 && buf[0] == 0
}

func socketPair() (net.Conn, net.Conn, error) {
	fds, err := syscall.Socketpair(syscall.AF_UNIX, syscall.SOCK_STREAM|syscall.SOCK_CLOEXEC, 0)
	if err != nil {
		return nil, nil, err
	}
	var cs [2]net.Conn
	for i := 0; i < 2; i++ {
		f := os.NewFile(uintptr(fds[i]), "probe")
		c, err := net.FileConn(f)
		f.Close()
		if err != nil {
			return nil, nil, err
		}
		cs[i] = c
	}
	return cs[0], cs[1], nil
}

// probeDeadlines: expired deadlines armed on connection 1 (all three setters) over a socket, which honours deadlines:
// does a frame on connection 2 still arrive, in both directions?
func probeDeadlines() bool {
	a, b, err := socketPair()
	if err != nil {
		return false
	}
	ma, mb := multiplex.Multiplex(a), multiplex.Multiplex(b)
	defer ma.Close()
	defer mb.Close()
	a1, e1 := ma.Open(1)
	a2, e2 := ma.Open(2)
	b2, e3 := mb.Open(2)
	if e1 != nil || e2 != nil || e3 != nil {
		return false
	}
	past := time.Now().Add(-time.Second)
	if a1.SetDeadline(past) != nil || a1.SetReadDeadline(past) != nil || a1.SetWriteDeadline(past) != nil {
		return false
	}
	time.Sleep(10 * time.Millisecond)
	okAB, okBA := false, false
	if !within(func() {
		if _, err := b2.Write([]byte("x")); err != nil {
			return
		}
		buf := make([]byte, 4)
		if n, err := a2.Read(buf); err == nil && n == 1 {
			okBA = true
		}
		if _, err := a2.Write([]byte("y")); err != nil {
			return
		}
		if n, err := b2.Read(buf); err == nil && n == 1 {
			okAB = true
		}
	}) {
		return false
	}
	return okAB && okBA
}

// probeHugeLen: a peer sends a header that announces 0x80000000 and one that announces 0xffffffff bytes.  A reader
// that panics on it takes the process down, so the probe runs in a re-executed child of the translator
// (-probechild hugelen): exit status 0 = the reader allocated and waited, and failed stop when the trunk ended.
func probeHugeLen() bool {
	cmd := exec.Command(os.Args[0], "-probechild", "hugelen")
	done := make(chan error, 1)
	if err := cmd.Start(); err != nil {
		return false
	}
	go func() { done <- cmd.Wait() }()
	select {
	case err := <-done:
		return err == nil
	case <-time.After(20 * time.Second):
		cmd.Process.Kill()
		return false
	}
}

func probeChild(which string) int {
	if which != "hugelen" {
		return 2
	}
	for _, ln := range []uint32{0x80000000, 0xffffffff} {
		a, b := net.Pipe()
		m := multiplex.Multiplex(b)
		c, err := m.Open(1)
		if err != nil {
			return 1
		}
		hdr := make([]byte, 8)
		binary.BigEndian.PutUint32(hdr, 1)
		binary.BigEndian.PutUint32(hdr[4:], ln)
		if !within(func() { a.Write(hdr) }) {
			return 1
		}
		time.Sleep(50 * time.Millisecond)
		a.Close()
		var rerr error
		if !within(func() { _, rerr = c.Read(make([]byte, 8)) }) || rerr == nil {
			return 1
		}
		m.Close()
	}
	return 0
}

// timeoutOnce: a trunk whose Read returns os.ErrDeadlineExceeded once, at offset `at` of the incoming stream, and
// carries on afterwards.
type timeoutOnce struct {
	net.Conn
	mu      sync.Mutex
	at, n   int
	failed  bool
	closedC chan struct{}
	once    sync.Once
}

func (t *timeoutOnce) Read(p []byte) (int, error) {
	t.mu.Lock()
	if !t.failed {
		if t.n == t.at && len(p) > 0 {
			t.failed = true
			t.mu.Unlock()
			return 0, os.ErrDeadlineExceeded
		}
		if left := t.at - t.n; len(p) > left {
			p = p[:left]
		}
	}
	t.mu.Unlock()
	n, err := t.Conn.Read(p)
	t.mu.Lock()
	t.n += n
	t.mu.Unlock()
	return n, err
}

func (t *timeoutOnce) Close() error {
	t.once.Do(func() { close(t.closedC) })
	return t.Conn.Close()
}

// probeReadErrorFinal: the trunk Read times out once inside a header (offset 4) / inside a payload (offset 10) and
// delivers the rest of a good frame afterwards: does the Mux close itself, and is nothing delivered?
func probeReadErrorFinal() bool {
	for _, at := range []int{4, 10, 8} {
		a, b := net.Pipe()
		t := &timeoutOnce{Conn: b, at: at, closedC: make(chan struct{})}
		m := multiplex.Multiplex(t)
		c, err := m.Open(1)
		if err != nil {
			return false
		}
		frame := []byte{0, 0, 0, 1, 0, 0, 0, 3, 7, 8, 9}
		go func() { a.Write(frame); a.Write(frame) }()
		closed := false
		select {
		case <-t.closedC:
			closed = true
		case <-time.After(400 * time.Millisecond):
		}
		var n int
		var rerr error
		got := within(func() { n, rerr = c.Read(make([]byte, 8)) })
		a.Close()
		m.Close()
		if !closed || !got || rerr == nil || n != 0 {
			return false
		}
	}
	return true
}
