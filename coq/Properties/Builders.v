(* The plugin-facing builder API (pkg/api/adjustment.go, update.go, helpers.go) — statements only.
   These are the methods by which a plugin "marks an item for removal" and "sets an item" in C02, C03,
   C13 and by which it builds the updates of C05.  Theorems are named after the property they support:
   C02_build_*, C05_build_*, C13_build_*.

   Vocabulary.  Model/Builders.v: bop / rop / uop have one constructor per method (the eighteen scalar
   SetLinux* setters, AddLinuxHugepageLimit and AddLinuxUnified exist on both receivers and are the
   constructors of rop, wrapped by BRes / URes); build_adj ops is a fresh ContainerAdjustment after the
   methods ops, build_upd id ops a fresh ContainerUpdate after SetContainerId id and the methods ops.
   Spec/BuildersSpec.v: per method, the ledger items released / claimed (op_releases, op_claims,
   args_effect, rop_write ...), and the documented effect on the container (op_expect).
   Spec/AbsLedger.v: adjust_group / update_group, the abstraction of a response the ledger of C01 / C02 runs on.
   Spec/Apply.v: apply_adj, the reference semantics of one adjustment. *)
From Coq Require Import String List Bool ZArith.
From NRI Require Import Base.Strs Base.Assoc Model.Types Model.Builders Spec.Apply Spec.AbsLedger Spec.BuildersSpec
  Proofs.BuildersProofs.
From NRI Require Model.Convert.
Import ListNotations.
Open Scope string_scope.

(* ====================================================================== helpers.go: the '-' marker *)

(* IsMarkedForRemoval(MarkForRemoval(k)) = (k, true) for EVERY key — the empty key and keys that are
   themselves "-" or begin with '-' included *)
Theorem C02_build_marker_roundtrip : forall k, is_marked (mark k) = (k, true).
Proof. exact marker_roundtrip. Qed.
Print Assumptions C02_build_marker_roundtrip.

(* a key that is not MarkForRemoval of anything is returned unchanged, unmarked *)
Theorem C02_build_unmarked_unchanged : forall k, (forall r, k <> mark r) -> is_marked k = (k, false).
Proof. exact unmarked_unchanged. Qed.
Print Assumptions C02_build_unmarked_unchanged.

(* marked = "is MarkForRemoval of something" *)
Theorem C02_build_marked_iff : forall k, marked k = true <-> exists r, k = mark r.
Proof. exact marked_iff_mark. Qed.
Print Assumptions C02_build_marked_iff.

(* the per-type methods of mount.go / device.go / env.go recognise what RemoveMount / RemoveDevice / RemoveEnv write *)
Theorem C13_build_typed_markers : forall d p k,
  mount_is_marked (removal_mount d) = (d, true) /\
  device_is_marked (removal_device p) = (p, true) /\
  env_is_marked (mark k, "") = (k, true).
Proof. exact typed_markers. Qed.
Print Assumptions C13_build_typed_markers.

Example C02_build_marker_examples :
  is_marked (mark "") = ("", true) /\ is_marked "-" = ("", true) /\ is_marked (mark "-") = ("-", true) /\
  is_marked "" = ("", false) /\ is_marked "a-" = ("a-", false) /\ is_marked "--x" = ("-x", true).
Proof. repeat split. Qed.

(* ====================================================================== C02: the ledger group of a built adjustment *)

(* For EVERY sequence of builder methods, the group on which the ownership ledger runs releases exactly
   the items the table says the methods release and claims exactly the items the table says they claim
   (as sets): Remove* -> release of that key; Add* of a key -> claim of that key (an Add of a key that itself
   begins with '-' IS a removal); AddRlimit / AddCDIDevice / AddLinuxHugepageLimit / AddLinuxUnified -> claims;
   the command line, each scalar resource field, the cgroups path and the OOM score according to the LAST
   method that wrote that slot *)
Theorem C02_build_groups : forall id ops x,
  (In x (g_releases (adjust_group id (build_adj ops))) <-> In x (spec_releases id ops)) /\
  (In x (g_claims (adjust_group id (build_adj ops))) <-> In x (spec_claims id ops)).
Proof. exact build_groups. Qed.
Print Assumptions C02_build_groups.

Example C02_build_groups_example :
  let ops := [BRemoveEnv "E"; BAddEnv "E" "1"; BRemoveMount "/m"; BAddAnnotation "k" "v"; BAddAnnotation "k" "w";
              BRes (RCPUShares 5); BRes (RCPUSetCPUs "0-3"); BRes (RCPUSetCPUs ""); BUpdateArgs ["sh"]; BSetArgs ["ls"]] in
  g_releases (adjust_group "c" (build_adj ops)) = [("c", IMount "/m"); ("c", IEnv "E")] /\
  g_claims (adjust_group "c" (build_adj ops)) = [("c", IAnn "k"); ("c", IEnv "E"); ("c", IArgs); ("c", IScal CpuShares)] /\
  spec_releases "c" ops = [("c", IEnv "E"); ("c", IMount "/m")].
Proof. repeat split. Qed.

(* a Remove method anywhere in a sequence releases its key, whatever else the sequence does *)
Theorem C02_build_remove_releases : forall id ops op it,
  In op ops -> In it (op_releases op) -> In (id, it) (g_releases (adjust_group id (build_adj ops))).
Proof. exact remove_releases. Qed.
Print Assumptions C02_build_remove_releases.

(* ... and a claim on an annotation / mount / environment variable / device only ever comes from an Add of
   that very key: a Remove method contributes nothing to the claims *)
Theorem C02_build_claims_only_from_adds : forall id ops it,
  In (id, it) (g_claims (adjust_group id (build_adj ops))) ->
  match it with
  | IAnn k => exists v, In (BAddAnnotation k v) ops /\ marked k = false
  | IMount d => exists m, In (BAddMount m) ops /\ m_dest m = d /\ marked d = false
  | IEnv k => exists v, In (BAddEnv k v) ops /\ marked k = false
  | IDev p => exists d, In (BAddDevice d) ops /\ d_path d = p /\ marked p = false
  | _ => True
  end.
Proof. exact claims_only_from_adds. Qed.
Print Assumptions C02_build_claims_only_from_adds.

(* one Remove method alone: exactly that release, no claim (RemoveMount d: releases [(id, IMount d)]) *)
Theorem C02_build_single_remove : forall id op,
  is_remove op = true ->
  g_releases (adjust_group id (build_adj [op])) = map (pair id) (op_releases op) /\
  g_claims (adjust_group id (build_adj [op])) = [].
Proof. exact single_remove. Qed.
Print Assumptions C02_build_single_remove.

Example C02_build_single_remove_example :
  g_releases (adjust_group "c" (build_adj [BRemoveMount "/m"])) = [("c", IMount "/m")] /\
  g_releases (adjust_group "c" (build_adj [BRemoveDevice ""])) = [("c", IDev "")].
Proof. split; reflexivity. Qed.

(* [Remove k; Add k ...] of the same key (the Add's key not itself marked): releases AND claims exactly k's item *)
Theorem C02_build_remove_then_add : forall id add rem,
  remove_of add = Some rem -> add_ok add = true ->
  exists it, op_releases rem = [it] /\ op_claims add = [it] /\
    g_releases (adjust_group id (build_adj [rem; add])) = [(id, it)] /\
    g_claims (adjust_group id (build_adj [rem; add])) = [(id, it)].
Proof. exact remove_then_add. Qed.
Print Assumptions C02_build_remove_then_add.

Example C02_build_remove_then_add_example :
  remove_of (BAddEnv "E" "1") = Some (BRemoveEnv "E") /\ add_ok (BAddEnv "E" "1") = true /\
  g_releases (adjust_group "c" (build_adj [BRemoveEnv "E"; BAddEnv "E" "1"])) = [("c", IEnv "E")] /\
  g_claims (adjust_group "c" (build_adj [BRemoveEnv "E"; BAddEnv "E" "1"])) = [("c", IEnv "E")].
Proof. repeat split. Qed.

(* UpdateArgs l releases and claims the command line; SetArgs of a real command line only claims; SetArgs(nil) nothing *)
Theorem C02_build_args : forall id l a0,
  (g_releases (adjust_group id (build_adj [BUpdateArgs l])) = [(id, IArgs)] /\
   g_claims (adjust_group id (build_adj [BUpdateArgs l])) = [(id, IArgs)]) /\
  (a0 <> "" ->
   g_releases (adjust_group id (build_adj [BSetArgs (a0 :: l)])) = [] /\
   g_claims (adjust_group id (build_adj [BSetArgs (a0 :: l)])) = [(id, IArgs)]) /\
  (g_releases (adjust_group id (build_adj [BSetArgs []])) = [] /\ g_claims (adjust_group id (build_adj [BSetArgs []])) = []).
Proof. exact args_groups. Qed.
Print Assumptions C02_build_args.

(* the table of scalar setters: a setter that leaves field f set claims exactly (id, IScal f) and releases nothing;
   rop_write (Spec/BuildersSpec.v) is the table; C02_build_scalar_table_complete: it covers every sfield *)
Theorem C02_build_scalar_table : forall id r f v,
  rop_write r = Some (f, Some v) ->
  g_claims (adjust_group id (build_adj [BRes r])) = [(id, IScal f)] /\ g_releases (adjust_group id (build_adj [BRes r])) = [].
Proof. exact scalar_setter_claims. Qed.
Print Assumptions C02_build_scalar_table.

Theorem C02_build_scalar_table_complete : forall f, exists v, rop_write (setter_of f) = Some (f, Some v).
Proof. exact every_scalar_has_setter. Qed.
Print Assumptions C02_build_scalar_table_complete.

(* SetLinuxCPUSetCPUs("") / SetLinuxCPUSetMems(""): the field stays unset, nothing is claimed *)
Theorem C02_build_scalar_unset : forall id r f,
  rop_write r = Some (f, None) ->
  g_claims (adjust_group id (build_adj [BRes r])) = [] /\ g_releases (adjust_group id (build_adj [BRes r])) = [].
Proof. exact scalar_setter_unset. Qed.
Print Assumptions C02_build_scalar_unset.

Example C02_build_scalar_table_example :
  rop_write (RCPUQuota 7) = Some (CpuQuota, Some (VZ 7)) /\
  rop_write (RCPUPeriod (-1)) = Some (CpuPeriod, Some (VZ 18446744073709551615)) /\
  g_claims (adjust_group "c" (build_adj [BRes (RRDTClass "")])) = [("c", IScal RdtClass)] /\
  rop_write (RCPUSetMems "") = Some (CpuMems, None).
Proof. repeat split. Qed.

Theorem C02_build_hp_uni : forall id s v k w,
  g_claims (adjust_group id (build_adj [BRes (RHugepageLimit s v)])) = [(id, IHp s)] /\
  g_claims (adjust_group id (build_adj [BRes (RUnified k w)])) = [(id, IUni k)].
Proof. exact hp_uni_claims. Qed.
Print Assumptions C02_build_hp_uni.

Theorem C02_build_other_claims : forall id s v t hard soft n,
  (s <> "" -> g_claims (adjust_group id (build_adj [BSetLinuxCgroupsPath s])) = [(id, ICgroups)]) /\
  g_claims (adjust_group id (build_adj [BSetLinuxCgroupsPath ""])) = [] /\
  g_claims (adjust_group id (build_adj [BSetLinuxOomScoreAdj (Some v)])) = [(id, IOom)] /\
  g_claims (adjust_group id (build_adj [BSetLinuxOomScoreAdj None])) = [] /\
  g_claims (adjust_group id (build_adj [BAddRlimit t hard soft])) = [(id, IRlimit t)] /\
  g_claims (adjust_group id (build_adj [BAddCDIDevice n])) = [(id, ICdi n)].
Proof. exact other_claims. Qed.
Print Assumptions C02_build_other_claims.

(* ====================================================================== C13: the reference effect of the built adjustment *)

(* Applying (reference semantics) the adjustment built by ONE method to ANY container does what the method's
   documentation says: Remove* -> the key is absent; Add* -> the key is present with exactly the value given
   (an Add of a '-'key removes); SetArgs / UpdateArgs -> the command line is the one given; AddHooks /
   AddRlimit -> appended; every SetLinux* -> its field holds the value and no other scalar changes;
   AddLinuxHugepageLimit / AddLinuxUnified -> the size / key reads as the value; cgroups path, OOM score set.
   single_ok: an environment variable that is set has no '=' in its name. *)
Theorem C13_build_reference : forall c op,
  single_ok op = true -> op_expect op c (apply_adj c (build_adj [op])) = true.
Proof. exact single_reference. Qed.
Print Assumptions C13_build_reference.

Example C13_build_reference_example :
  let c := {| c_id := "c"; c_ann := [("k", "old")]; c_mounts := []; c_env := ["E=0"; "F=1"]; c_args := ["sh"];
              c_hooks := hooks_empty; c_rlimits := []; c_devices := []; c_res := res_empty; c_cgroups := "/cg"; c_oom := None |} in
  single_ok (BAddEnv "E" "1") = true /\
  c_env (apply_adj c (build_adj [BAddEnv "E" "1"])) = ["F=1"; "E=1"] /\
  c_env (apply_adj c (build_adj [BRemoveEnv "E"])) = ["F=1"] /\
  c_ann (apply_adj c (build_adj [BRemoveAnnotation "k"])) = [] /\
  c_args (apply_adj c (build_adj [BUpdateArgs ["ls"; "-l"]])) = ["ls"; "-l"].
Proof. repeat split. Qed.

(* remove-then-add AND add-then-remove of one key within one adjustment: the set wins *)
Theorem C13_build_remove_then_add : forall c add rem,
  remove_of add = Some rem -> add_ok add = true ->
  op_expect add c (apply_adj c (build_adj [rem; add])) = true /\
  op_expect add c (apply_adj c (build_adj [add; rem])) = true.
Proof. exact pair_reference. Qed.
Print Assumptions C13_build_remove_then_add.

(* ... and everything outside the method's own family of the container is left exactly as it was *)
Theorem C13_build_frame : forall c op, same_outside (op_family op) c (apply_adj c (build_adj [op])).
Proof. exact single_frame. Qed.
Print Assumptions C13_build_frame.

(* CDI device names are handed on as given, in call order, for every sequence *)
Theorem C13_build_cdi : forall ops, a_cdi (build_adj ops) = flat_map op_cdi ops.
Proof. exact cdi_reference. Qed.
Print Assumptions C13_build_cdi.

(* ====================================================================== C05: updates built by the setters *)

(* the target is the id given, unless SetContainerId was called again (then the last one) *)
Theorem C05_build_update_id : forall id ops, u_id (build_upd id ops) = spec_uid id ops.
Proof. exact upd_id. Qed.
Print Assumptions C05_build_update_id.

Theorem C05_build_update_id_plain : forall id ops,
  (forall i, ~ In (USetContainerId i) ops) -> u_id (build_upd id ops) = id.
Proof. exact upd_id_plain. Qed.
Print Assumptions C05_build_update_id_plain.

(* the flag is set iff SetIgnoreFailure was called; no other method touches it *)
Theorem C05_build_update_ignore : forall id ops, u_ignore (build_upd id ops) = true <-> In USetIgnoreFailure ops.
Proof. exact upd_ignore. Qed.
Print Assumptions C05_build_update_ignore.

(* resources are present iff some resource setter was called *)
Theorem C05_build_update_presence : forall id ops, u_res (build_upd id ops) = None <-> rops_of_u ops = [].
Proof. exact upd_res_presence. Qed.
Print Assumptions C05_build_update_presence.

(* exactly the fields set: every scalar field holds what its LAST setter left (unset when it has none), the
   hugepage limits are those added, in order, every unified key holds the value assigned last (absent when none) *)
Theorem C05_build_update : forall id ops r,
  u_res (build_upd id ops) = Some r ->
  (forall f, flookup f (r_scal r) = spec_scal f (rops_of_u ops)) /\
  r_hp r = flat_map rop_hp (rops_of_u ops) /\
  (forall k, alookup k (r_uni r) = last_some (rop_uni_to k) (rops_of_u ops)).
Proof. exact upd_fields. Qed.
Print Assumptions C05_build_update.

(* one setter sets its own field, with the value of the table, and no other *)
Theorem C05_build_update_single : forall id r f w,
  rop_write r = Some (f, w) ->
  exists res, u_res (build_upd id [URes r]) = Some res /\
    flookup f (r_scal res) = w /\ (forall g, g <> f -> flookup g (r_scal res) = None) /\ r_hp res = [] /\ r_uni res = [].
Proof. exact upd_single_setter. Qed.
Print Assumptions C05_build_update_single.

(* setting a field again keeps the last value, whatever was set before *)
Theorem C05_build_update_last_wins : forall id pre post r f w res,
  rop_write r = Some (f, w) ->
  (forall r', In (URes r') post -> rop_writes_to f r' = None) ->
  u_res (build_upd id (pre ++ [URes r] ++ post)) = Some res ->
  flookup f (r_scal res) = w.
Proof. exact upd_last_setter_wins. Qed.
Print Assumptions C05_build_update_last_wins.

(* the ledger group of the built update: claims exactly the fields left set (on the target), releases nothing,
   ignorable iff SetIgnoreFailure *)
Theorem C05_build_update_group : forall id ops x,
  In x (g_claims (update_group (build_upd id ops))) <-> In x (spec_uclaims id ops).
Proof. exact upd_group_claims. Qed.
Print Assumptions C05_build_update_group.

Theorem C05_build_update_group_flags : forall id ops,
  g_ignorable (update_group (build_upd id ops)) = spec_uignore ops /\ g_releases (update_group (build_upd id ops)) = [].
Proof. exact upd_group_flags. Qed.
Print Assumptions C05_build_update_group_flags.

Example C05_build_update_example :
  let ops := [URes (RCPUQuota 5); URes (RMemoryLimit 100); URes (RCPUQuota 7); USetIgnoreFailure; URes (RHugepageLimit "2M" 1)] in
  build_upd "t" ops =
    {| u_id := "t";
       u_res := Some {| r_scal := [(CpuQuota, VZ 7); (MemLimit, VZ 100)]; r_hp := [("2M", 1%Z)]; r_uni := [] |};
       u_ignore := true |} /\
  g_claims (update_group (build_upd "t" ops)) = [("t", IScal MemLimit); ("t", IScal CpuQuota); ("t", IHp "2M")] /\
  u_res (build_upd "t" [USetIgnoreFailure]) = None.
Proof. repeat split. Qed.
