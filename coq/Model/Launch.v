(* Model of how NRI discovers, launches, configures, orders and reaps pre-installed plugins (C18).
   Mirrors, function by function:
     pkg/api/plugin.go           CheckPluginIndex, ParsePluginName
     pkg/adaptation/adaptation.go discoverPlugins, startPlugins, sortPlugins, removeClosedPlugins, stopPlugins
     pkg/adaptation/plugin.go     newLaunchedPlugin (environment, extra file), getPluginConfig, start, stop
     pkg/stub/stub.go             New / ensureIdentity / connect (the plugin's side of the hand-over)
   The three environment-variable names come from the regenerated Model/Consts.v.
   No proofs here (Proofs/LaunchProofs.v). *)
From Coq Require Import String Ascii List Bool Arith NArith ZArith.
From NRI Require Import Base.Strs Base.Assoc Model.Consts.
Import ListNotations.
Open Scope string_scope.   (* ++ is string append; lists are built with :: and [..] *)

(* ------------------------------------------------------------------ pkg/api/plugin.go *)

Definition is_digit (c : ascii) : bool :=
  let n := N_of_ascii c in (N.leb 48 n && N.leb n 57)%bool.

(* CheckPluginIndex: len(idx) == 2 and both bytes in '0'..'9' *)
Definition check_index (s : string) : bool :=
  match s with
  | String a (String b EmptyString) => (is_digit a && is_digit b)%bool
  | _ => false
  end.

(* ParsePluginName: strings.SplitN(name, "-", 2), then CheckPluginIndex on the first part; None = error *)
Definition parse_plugin_name (name : string) : option (string * string) :=
  match cut "-" name with
  | (i, Some b) => if check_index i then Some (i, b) else None
  | (_, None) => None
  end.

(* ------------------------------------------------------------------ the plugin directory *)

(* what discoverPlugins reads of a directory entry: name, IsDir() of the entry's own type (a symbolic
   link is not a directory), permission bits of Info() (lstat) *)
Record dirent := { de_name : string; de_is_dir : bool; de_mode : N }.

Fixpoint insert_by {A} (le : A -> A -> bool) (x : A) (l : list A) : list A :=
  match l with
  | [] => [x]
  | y :: r => if le x y then x :: l else y :: insert_by le x r
  end.
Definition sort_by {A} (le : A -> A -> bool) (l : list A) : list A := fold_right (insert_by le) [] l.

Definition name_le (a b : dirent) : bool := String.leb (de_name a) (de_name b).
(* os.ReadDir returns the entries sorted by file name; the argument is the directory content in any order *)
Definition read_dir (es : list dirent) : list dirent := sort_by name_le es.

(* info.Mode() & 0o111 != 0 *)
Definition executable (e : dirent) : bool := negb (N.eqb (N.land (de_mode e) 73) 0).

(* ------------------------------------------------------------------ drop-in configuration *)

(* a file of the drop-in directory: readable with this content, or present but unreadable
   (os.ReadFile fails with something else than "not exist"); files not listed do not exist *)
Inductive dropin_file := DContent (s : string) | DUnreadable.
Definition dropin_dir := list (string * dropin_file).

Inductive read_result := RMissing | RData (s : string) | RError.
Definition read_file (d : dropin_dir) (f : string) : read_result :=
  match alookup f d with
  | None => RMissing
  | Some (DContent s) => RData s
  | Some DUnreadable => RError
  end.

(* the loop of getPluginConfig: first readable wins, a missing file is skipped, any other error aborts; None = error *)
Fixpoint first_config (d : dropin_dir) (paths : list string) : option string :=
  match paths with
  | [] => Some ""
  | p :: r =>
      match read_file d p with
      | RData s => Some s
      | RMissing => first_config d r
      | RError => None
      end
  end.

Definition dropin_paths (idx base : string) : list string :=
  [idx ++ "-" ++ base ++ ".conf"; base ++ ".conf"].

Definition get_plugin_config (d : dropin_dir) (idx base : string) : option string :=
  first_config d (dropin_paths idx base).

(* ------------------------------------------------------------------ discoverPlugins *)

Record discovered := { d_idx : string; d_base : string; d_cfg : string }.
Definition d_name (p : discovered) : string := d_idx p ++ "-" ++ d_base p.

(* the loop over the entries; None = error (Start fails as a whole, I6) *)
Fixpoint discover_loop (d : dropin_dir) (es : list dirent) : option (list discovered) :=
  match es with
  | [] => Some []
  | e :: r =>
      if de_is_dir e then discover_loop d r
      else if negb (executable e) then discover_loop d r
      else match parse_plugin_name (de_name e) with
           | None => None
           | Some (idx, base) =>
               match get_plugin_config d idx base with
               | None => None
               | Some cfg =>
                   match discover_loop d r with
                   | None => None
                   | Some l => Some ({| d_idx := idx; d_base := base; d_cfg := cfg |} :: l)
                   end
               end
           end
  end.

Definition discover_plugins (es : list dirent) (d : dropin_dir) : option (list discovered) :=
  discover_loop d (read_dir es).

(* ------------------------------------------------------------------ newLaunchedPlugin: what the child gets *)

(* cmd.Env *)
Definition child_env (idx base : string) : list string :=
  [PluginNameEnvVar ++ "=" ++ base; PluginIdxEnvVar ++ "=" ++ idx; PluginSocketEnvVar ++ "=3"].

(* stdin, stdout, stderr (os/exec opens /dev/null for them) and cmd.ExtraFiles = [peer end] *)
Definition child_fds : list N := [0; 1; 2; 3]%N.

(* Where that comes from.  A descriptor of the runtime process: its number and its close-on-exec flag.  fork + execve
   as os/exec drives them: the child has 0, 1, 2, then cmd.ExtraFiles dup2()ed to 3, 4, … (without the flag), and
   keeps, at its own number, every other descriptor of the parent that does NOT carry the flag *)
Record rfd := { fd_num : N; fd_cloexec : bool }.
Fixpoint extra_fds (n : nat) (from : N) : list N :=
  match n with O => [] | S k => from :: extra_fds k (from + 1)%N end.
Definition exec_fds (n_extra : nat) (parent : list rfd) : list N :=
  ([0; 1; 2]%N ++ extra_fds n_extra 3 ++
   map fd_num (filter (fun f => (negb (fd_cloexec f) && (3 + N.of_nat n_extra <=? fd_num f)%N)%bool) parent))%list.

(* pkg/net.NewSocketPair: socketpair(AF_UNIX, SOCK_STREAM|SOCK_CLOEXEC) — BOTH ends carry the flag; the peer end
   reaches the plugin only as ExtraFiles[0] *)
Definition socketpair_fds (local_cloexec peer_cloexec : bool) (a b : N) : list rfd :=
  [ {| fd_num := a; fd_cloexec := local_cloexec |}; {| fd_num := b; fd_cloexec := peer_cloexec |} ].
(* descriptors a plugin starts with when the runtime has `others` open and the pair sits at a, b *)
Definition launched_fds (others : list rfd) (a b : N) : list N :=
  exec_fds 1 (others ++ socketpair_fds true true a b)%list.

(* Which file is executed.  discoverPlugins reads the directory `dir` as the runtime sees it (a relative path is
   resolved against the runtime's working directory); newLaunchedPlugin executes filepath.Join(dir, name) and leaves
   cmd.Dir empty, so the child — and the resolution of a relative executable path — use the runtime's working
   directory too.  resolve cwd p: how the kernel reads path p in a process whose working directory is cwd *)
Definition is_absolute (p : string) : bool := match p with String "/" _ => true | _ => false end.
Definition resolve (cwd p : string) : string := if is_absolute p then p else cwd ++ "/" ++ p.
Definition exec_path (dir name : string) : string := dir ++ "/" ++ name.
(* file looked at by discovery, file started by exec with cmd.Dir = cmd_dir ("" = unset) *)
Definition discovered_file (cwd dir name : string) : string := resolve cwd (exec_path dir name).
Definition executed_file (cwd cmd_dir dir name : string) : string :=
  resolve (if String.eqb cmd_dir "" then cwd else resolve cwd cmd_dir) (exec_path dir name).

(* ------------------------------------------------------------------ the stub's side (pkg/stub/stub.go) *)

(* os.Getenv over an environment block: first entry with this key; entries without '=' are skipped *)
Fixpoint getenv (env : list string) (k : string) : string :=
  match env with
  | [] => ""
  | e :: r =>
      match cut "=" e with
      | (k', Some v) => if String.eqb k k' then v else getenv r k
      | (_, None) => getenv r k
      end
  end.

(* filepath.Base *)
Definition last_nonempty (l : list string) : option string :=
  fold_left (fun acc s => if String.eqb s "" then acc else Some s) l None.
Definition path_base (p : string) : string :=
  if String.eqb p "" then "."
  else match last_nonempty (split_on "/" p) with Some s => s | None => "/" end.

(* stub.New: name and idx from the environment, then ensureIdentity; None = error *)
Definition stub_identity (env : list string) (argv0 : string) : option (string * string) :=
  let name := getenv env PluginNameEnvVar in
  let idx := getenv env PluginIdxEnvVar in
  if (negb (String.eqb idx "") && negb (String.eqb name ""))%bool then Some (idx, name)
  else if negb (String.eqb idx "") then Some (idx, path_base argv0)
  else parse_plugin_name (path_base argv0).

(* stub.Name() *)
Definition stub_name (env : list string) (argv0 : string) : option string :=
  match stub_identity env argv0 with
  | Some (i, n) => Some (i ++ "-" ++ n)
  | None => None
  end.

(* strconv.Atoi on what the model needs: optional sign, decimal digits, int64 range *)
Fixpoint digits_val (s : string) (acc : Z) : option Z :=
  match s with
  | EmptyString => Some acc
  | String c r => if is_digit c then digits_val r (acc * 10 + (Z.of_N (N_of_ascii c) - 48))%Z else None
  end.
Definition atoi (s : string) : option Z :=
  let in_range (v : Z) := if ((- 9223372036854775808 <=? v) && (v <=? 9223372036854775807))%Z%bool then Some v else None in
  match s with
  | EmptyString => None
  | String "+" r => if String.eqb r "" then None else match digits_val r 0 with Some v => in_range v | None => None end
  | String "-" r => if String.eqb r "" then None else match digits_val r 0 with Some v => in_range (- v)%Z | None => None end
  | _ => match digits_val s 0 with Some v => in_range v | None => None end
  end.

(* stub.connect (no connection given by option): descriptor from the environment, else dial the socket path *)
Inductive stub_conn := ConnFd (fd : Z) | ConnDial | ConnError.
Definition stub_connect (env : list string) : stub_conn :=
  let s := getenv env PluginSocketEnvVar in
  if String.eqb s "" then ConnDial
  else match atoi s with Some fd => ConnFd fd | None => ConnError end.

(* ------------------------------------------------------------------ startPlugins *)

(* what a launched process does (the fault model of the property):
   OExecFail  cmd.Start fails (not an executable format, dangling link, …)
   OExit      the process exits at once           OCloseFd  it closes its socket and keeps running
   ONoReg     it never registers (time-out)       OCfgErr   Configure fails
   OSyncFail  Synchronize fails                   ODieLater healthy, exits some time after start-up
   OHangLater healthy, some time after start-up it closes its connection and keeps running *)
Inductive outcome := OGood | OExecFail | OExit | ONoReg | OCloseFd | OCfgErr | OSyncFail | ODieLater | OHangLater.

(* newLaunchedPlugin returns a plugin (a process exists) *)
Definition launches (o : outcome) : bool := match o with OExecFail => false | _ => true end.
(* RegisterPlugin arrives, so Configure is sent *)
Definition configured (o : outcome) : bool :=
  match o with OGood | OCfgErr | OSyncFail | ODieLater | OHangLater => true | _ => false end.
(* p.start returns nil *)
Definition starts (o : outcome) : bool :=
  match o with OGood | OSyncFail | ODieLater | OHangLater => true | _ => false end.
(* plugin.synchronize returns nil *)
Definition syncs (o : outcome) : bool := match o with OSyncFail => false | _ => true end.
(* the plugin still serves requests once the "later" of its outcome has come *)
Definition survives (o : outcome) : bool := match o with OGood => true | _ => false end.

(* Time.  plugin.synchronize wraps every call in its OWN context.WithTimeout(getPluginRequestTimeout()): a plugin
   that would otherwise be kept but takes longer than the time-out T to answer Synchronize (tm p, any value above T
   for one that hangs) fails its synchronisation — and nothing else changes; the time another plugin takes enters
   nowhere *)
Definition timed_outcome (T : Z) (tm : discovered -> Z) (oc : discovered -> outcome) (p : discovered) : outcome :=
  match oc p with
  | OGood | ODieLater | OHangLater => if (tm p <=? T)%Z then oc p else OSyncFail
  | o => o
  end.

(* first loop of startPlugins: launch + start, failures are logged and skipped (continue) *)
Definition started (oc : discovered -> outcome) (ds : list discovered) : list discovered :=
  filter (fun p => (launches (oc p) && starts (oc p))%bool) ds.
(* syncPlugins: failures are stopped and left out *)
Definition synced (oc : discovered -> outcome) (l : list discovered) : list discovered :=
  filter (fun p => syncs (oc p)) l.
(* sortPlugins: sort.Slice with idx_i < idx_j; the theorems only use Sorted + Permutation *)
Definition idx_le (a b : discovered) : bool := String.leb (d_idx a) (d_idx b).
Definition sort_plugins (l : list discovered) : list discovered := sort_by idx_le l.

Definition start_plugins (oc : discovered -> outcome) (ds : list discovered) : list discovered :=
  sort_plugins (synced oc (started oc ds)).

(* plugin.RegisterPlugin.  Only an EXTERNAL plugin (one that connected to the socket) is validated and named by its
   request — empty name or malformed index: the registration fails —; a plugin launched by the runtime keeps the
   identity taken from its file name whatever name and index its request declares, and its registration succeeds *)
Definition register_plugin (external : bool) (p : discovered) (req_name req_idx : string) : option discovered :=
  if external
  then if String.eqb req_name "" then None
       else if check_index req_idx then Some {| d_idx := req_idx; d_base := req_name; d_cfg := d_cfg p |} else None
  else Some p.

(* startPlugins with the declared identities made explicit: decl p = (name, index) of p's RegisterPlugin request;
   `external` is false for every launched plugin (the parameter exists for the refuted variant) *)
Definition registered (external : bool) (decl : discovered -> string * string) (oc : discovered -> outcome)
    (ds : list discovered) : list discovered :=
  flat_map (fun p => if (launches (oc p) && starts (oc p))%bool
                     then match register_plugin external p (fst (decl p)) (snd (decl p)) with Some q => [q] | None => [] end
                     else []) ds.
Definition start_plugins_declared (decl : discovered -> string * string) (oc : discovered -> outcome)
    (ds : list discovered) : list discovered :=
  sort_plugins (synced oc (registered false decl oc ds)).

(* Adaptation.Start restricted to pre-installed plugins: None = Start failed *)
Definition adaptation_start (es : list dirent) (d : dropin_dir) (oc : discovered -> outcome)
  : option (list discovered) :=
  match discover_plugins es d with
  | None => None
  | Some ds => Some (start_plugins oc ds)
  end.

(* one event/request: the list is walked in order; a plugin whose process is dead answers with a closed
   connection, is closed, contributes nothing and is removed afterwards (removeClosedPlugins) *)
Definition invoked (alive : discovered -> bool) (ps : list discovered) : list discovered := filter alive ps.
Definition after_event (alive : discovered -> bool) (ps : list discovered) : list discovered := filter alive ps.

(* ------------------------------------------------------------------ kill and reap *)

Inductive pstate := PGone | PZombie | PRunning.

(* plugin.start: every failing branch ("connection closed" — since fix fb81f56 —, "registration timed out",
   "configure failed") calls p.close(); p.stop(), i.e. Kill + Wait; syncPlugins stops a plugin whose
   synchronisation fails.  State of the launched process when Start has returned; None: no process was
   ever created *)
Definition state_after_start (o : outcome) : option pstate :=
  match o with
  | OExecFail => None
  | OGood | ODieLater | OHangLater => Some PRunning
  | OExit | OCloseFd | ONoReg | OCfgErr | OSyncFail => Some PGone            (* Kill + Wait *)
  end.

(* in r.plugins after Start (healthy or not yet dead) *)
Definition active (o : outcome) : bool := (launches o && starts o && syncs o)%bool.

(* ------------------------------------------------------------------ the plugin table and the process table over time *)

(* One launched process together with what the runtime holds about it:
     rp_listed  the plugin is an element of r.plugins
     rp_conn    its connection is still usable (false once the process has exited or closed its end)
     rp_closed  plugin.closed: set by plugin.close(), which the connection's close handler calls
                asynchronously some time after the connection was lost, or a failing call during an event
     rp_proc    the process table entry of cmd.Process *)
Record rplugin := { rp_d : discovered; rp_listed : bool; rp_conn : bool; rp_closed : bool; rp_proc : pstate }.

Definition rp_name (p : rplugin) : string := d_name (rp_d p).

(* plugin.stop(): Process.Kill, Process.Wait, Process.Release — whatever the state of the connection and whatever
   the process did meanwhile (a live process is killed, a zombie is reaped): the entry is gone *)
Definition plugin_stop (p : rplugin) : rplugin :=
  {| rp_d := rp_d p; rp_listed := rp_listed p; rp_conn := false; rp_closed := rp_closed p; rp_proc := PGone |}.

(* plugin.close() *)
Definition plugin_close (p : rplugin) : rplugin :=
  {| rp_d := rp_d p; rp_listed := rp_listed p; rp_conn := false; rp_closed := true; rp_proc := rp_proc p |}.

(* taken out of r.plugins *)
Definition unlist (p : rplugin) : rplugin :=
  {| rp_d := rp_d p; rp_listed := false; rp_conn := rp_conn p; rp_closed := rp_closed p; rp_proc := rp_proc p |}.

(* all launched processes when Start has returned: the active ones are listed, open and running; the others
   were closed and stopped by plugin.start / syncPlugins and never entered r.plugins *)
Definition world_after_start (oc : discovered -> outcome) (ds : list discovered) : list rplugin :=
  map (fun p => let o := oc p in
                {| rp_d := p; rp_listed := active o; rp_conn := active o; rp_closed := negb (active o);
                   rp_proc := match state_after_start o with Some s => s | None => PGone end |})
      (filter (fun p => launches (oc p)) ds).

(* startPlugins in general.  The runtime's SyncFn is handed the closure syncPlugins and may or may not call it
   (calls) and may or may not return an error (Start then fails as a whole).  attempt_world = all launched processes
   when r.syncFn has returned and before the deferred function runs; rp_listed = element of the local slice `plugins`:
   a plugin whose start failed never entered it (and was closed and stopped by plugin.start); the closure replaces
   the slice by the plugins it synchronised and stops the others; when the closure never ran the slice still holds
   every started plugin *)
Definition attempt_world (calls : bool) (oc : discovered -> outcome) (ds : list discovered) : list rplugin :=
  map (fun p => let o := oc p in
                let kept := (starts o && (negb calls || syncs o))%bool in
                {| rp_d := p; rp_listed := kept; rp_conn := kept; rp_closed := negb kept;
                   rp_proc := if kept then PRunning else PGone |})
      (filter (fun p => launches (oc p)) ds).

(* what start_world holds about one plugin: a function of the SyncFn's behaviour and of the plugin's OWN outcome *)
Definition start_record (calls fails : bool) (o : outcome) (p : discovered) : rplugin :=
  let kept := (starts o && (negb calls || syncs o))%bool in
  if fails
  then {| rp_d := p; rp_listed := false; rp_conn := if kept then false else kept; rp_closed := negb kept; rp_proc := PGone |}
  else {| rp_d := p; rp_listed := kept; rp_conn := kept; rp_closed := negb kept; rp_proc := if kept then PRunning else PGone |}.

(* r.plugins *)
Definition r_plugins (w : list rplugin) : list rplugin := filter rp_listed w.

(* the plugin's side: its connection is lost because the process exits (a zombie until somebody waits for it) or
   because it closes its end and keeps running; the runtime has not noticed anything yet *)
Definition conn_lost (n : string) (exits : bool) (p : rplugin) : rplugin :=
  if String.eqb (rp_name p) n
  then {| rp_d := rp_d p; rp_listed := rp_listed p; rp_conn := false; rp_closed := rp_closed p;
          rp_proc := match rp_proc p with PRunning => if exits then PZombie else PRunning | s => s end |}
  else p.

(* the runtime's side: the ttrpc client's close handler runs (plugin.connect: close(p.closeC); p.close()) *)
Definition notice (n : string) (p : rplugin) : rplugin :=
  if (String.eqb (rp_name p) n && negb (rp_conn p))%bool then plugin_close p else p.

(* one event or request: the listed plugins are walked; one already closed is passed over, a call on a dead
   connection fails with a fatal error and closes the plugin; then removeClosedPlugins takes every closed plugin
   out of r.plugins and stops it (in a goroutine; the model takes the state after it has run) *)
Definition event_step (p : rplugin) : rplugin :=
  if rp_listed p
  then let q := if (negb (rp_closed p) && negb (rp_conn p))%bool then plugin_close p else p in
       if rp_closed q then unlist (plugin_stop q) else q
  else p.

(* stopPlugins: for _, p := range r.plugins { p.stop() }; r.plugins = nil — no test of p.closed *)
Definition stop_step (p : rplugin) : rplugin := if rp_listed p then unlist (plugin_stop p) else p.
Definition stop_plugins (w : list rplugin) : list rplugin := map stop_step w.

(* startPlugins when r.syncFn returned an error: the deferred function, `for _, p := range plugins { p.stop() }`,
   and r.plugins stays empty — the same loop as stopPlugins over the local slice *)
Definition failed_start_world (calls : bool) (oc : discovered -> outcome) (ds : list discovered) : list rplugin :=
  stop_plugins (attempt_world calls oc ds).

(* all launched processes when Adaptation.Start has returned, whatever the SyncFn did *)
Definition start_world (calls fails : bool) (oc : discovered -> outcome) (ds : list discovered) : list rplugin :=
  if fails then failed_start_world calls oc ds else attempt_world calls oc ds.

Inductive action :=
| AConnLost (n : string) (exits : bool)      (* plugin n exits / closes its end *)
| ANotice (n : string)                       (* the runtime's close handler for plugin n runs *)
| AEvent                                     (* any event or request goes through the plugins *)
| AStop.                                     (* Adaptation.Stop *)

Definition step (w : list rplugin) (a : action) : list rplugin :=
  match a with
  | AConnLost n exits => map (conn_lost n exits) w
  | ANotice n => map (notice n) w
  | AEvent => map event_step w
  | AStop => stop_plugins w
  end.

Definition run (h : list action) (w : list rplugin) : list rplugin := fold_left step h w.

(* process table entry of the plugin called n (PGone when there never was such a process) *)
Definition proc_of (w : list rplugin) (n : string) : pstate :=
  match find (fun p => String.eqb (rp_name p) n) w with Some p => rp_proc p | None => PGone end.
