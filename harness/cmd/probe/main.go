package main

import (
	"fmt"

	"github.com/containerd/nri/pkg/api"
)

func main() {
	fmt.Println(api.EventMask(5).PrettyString())
}
