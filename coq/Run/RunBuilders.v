(* Correspondence and property predicates for the cases written by harness/cmd/h_build (driver "builders"):
   sequences of the REAL builder methods of pkg/api applied to fresh messages, compared with
   Model/Builders.v, and the predicates of C02 / C05 / C13 evaluated on the implementation's result. *)
From Coq Require Import String Ascii List Bool ZArith Arith.
From NRI Require Import Base.Strs Base.Assoc Model.Types Model.Builders Model.Generate Spec.Apply Spec.AbsLedger
  Spec.BuildersSpec Spec.GenSpec.
Import ListNotations.
Open Scope string_scope.
Open Scope list_scope.

Record build_case := {
  bc_id : string;                  (* id of the container the adjustment is for *)
  bc_ops : list bop;               (* builder methods called on a fresh ContainerAdjustment, in order *)
  bc_adj : adjustment;             (* IMPLEMENTATION: the message they left (maps sorted, nil = empty) *)
  bc_uid : string;                 (* id given to SetContainerId first *)
  bc_uops : list uop;              (* builder methods called on the ContainerUpdate afterwards *)
  bc_upd : update;                 (* IMPLEMENTATION: the message they left *)
  bc_spec : container;             (* a small OCI spec ... *)
  bc_gen : option (container * list string)
                                   (* IMPLEMENTATION: ... after the real generator applied the real bc_adj: observable
                                      container and the CDI names handed to the injector (None: generator not run) *)
}.

(* ---------- exact comparison (lists in order; maps by lookup and size) ---------- *)
Definition kv_eqb (x y : string * string) : bool := String.eqb (fst x) (fst y) && String.eqb (snd x) (snd y).
Definition hp_entry_eqb (x y : string * Z) : bool := String.eqb (fst x) (fst y) && Z.eqb (snd x) (snd y).
Definition map_exact_eqb (a b : list (string * string)) : bool := smap_eqb a b && Nat.eqb (length a) (length b).
Definition res_exact_eqb (a b : resources) : bool :=
  scal_eqb (r_scal a) (r_scal b) && Nat.eqb (length (r_scal a)) (length (r_scal b)) &&
  list_eqb hp_entry_eqb (r_hp a) (r_hp b) && map_exact_eqb (r_uni a) (r_uni b).
Definition adj_exact_eqb (a b : adjustment) : bool :=
  map_exact_eqb (a_ann a) (a_ann b) &&
  list_eqb mount_eqb (a_mounts a) (a_mounts b) &&
  list_eqb kv_eqb (a_env a) (a_env b) &&
  list_eqb String.eqb (a_args a) (a_args b) &&
  hooks_eqb (a_hooks a) (a_hooks b) &&
  list_eqb rlimit_eqb (a_rlimits a) (a_rlimits b) &&
  list_eqb String.eqb (a_cdi a) (a_cdi b) &&
  list_eqb device_eqb (a_devices a) (a_devices b) &&
  res_exact_eqb (a_res a) (a_res b) &&
  String.eqb (a_cgroups a) (a_cgroups b) &&
  opt_eqb Z.eqb (a_oom a) (a_oom b).
Definition upd_exact_eqb (a b : update) : bool :=
  String.eqb (u_id a) (u_id b) && opt_eqb res_exact_eqb (u_res a) (u_res b) && Bool.eqb (u_ignore a) (u_ignore b).

(* ---------- correspondence ---------- *)
Definition corr_build (c : build_case) : bool :=
  adj_exact_eqb (build_adj (bc_ops c)) (bc_adj c) && upd_exact_eqb (build_upd (bc_uid c) (bc_uops c)) (bc_upd c).

(* ---------- C02: the ledger group of the IMPLEMENTATION's adjustment is the one the method table specifies ---------- *)
Definition lset_eqb (a b : list lkey) : bool := forallb (fun k => lmem k b) a && forallb (fun k => lmem k a) b.

Definition holds_C02 (c : build_case) : bool :=
  let g := adjust_group (bc_id c) (bc_adj c) in
  lset_eqb (g_releases g) (spec_releases (bc_id c) (bc_ops c)) &&
  lset_eqb (g_claims g) (spec_claims (bc_id c) (bc_ops c)) &&
  negb (g_ignorable g).

(* ---------- C05: the IMPLEMENTATION's update carries exactly the fields set ---------- *)
Definition uni_keys (rops : list rop) : list string :=
  flat_map (fun r => match r with RUnified k _ => [k] | _ => [] end) rops.

Definition holds_C05 (c : build_case) : bool :=
  let u := bc_upd c in
  let rops := rops_of_u (bc_uops c) in
  String.eqb (u_id u) (spec_uid (bc_uid c) (bc_uops c)) &&
  Bool.eqb (u_ignore u) (spec_uignore (bc_uops c)) &&
  (match u_res u with
   | None => negb (existsb is_res_uop (bc_uops c))
   | Some r =>
       existsb is_res_uop (bc_uops c) &&
       forallb (fun f => opt_eqb sval_eqb (flookup f (r_scal r)) (spec_scal f rops)) all_scalars &&
       Nat.eqb (length (r_scal r)) (length (filter (fun f => is_some (spec_scal f rops)) all_scalars)) &&
       list_eqb hp_entry_eqb (r_hp r) (flat_map rop_hp rops) &&
       forallb (fun k => opt_eqb String.eqb (alookup k (r_uni r)) (last_some (rop_uni_to k) rops)) (map fst (r_uni r) ++ uni_keys rops)
   end) &&
  lset_eqb (g_claims (update_group u)) (spec_uclaims (bc_uid c) (bc_uops c)) &&
  Bool.eqb (g_ignorable (update_group u)) (spec_uignore (bc_uops c)).

(* ---------- C13: the real generator applied to the real built adjustment ---------- *)
(* what the generator is documented to apply of the scalar setters (C13: CPU, memory limit, pids, classes);
   the memory limit 0 is "no request" (W6) and the swap limit follows the limit; an empty class clears *)
Definition gen_rop_expect (r : rop) (c c' : container) : bool :=
  let sc' := r_scal (c_res c') in
  match r with
  | RMemoryLimit v =>
      Z.eqb v 0 || (opt_eqb sval_eqb (flookup MemLimit sc') (Some (VZ v)) && opt_eqb sval_eqb (flookup MemSwap sc') (Some (VZ v)))
  | RMemoryReservation _ | RMemorySwap _ | RMemoryKernel _ | RMemoryKernelTCP _ | RMemorySwappiness _
  | RMemoryDisableOomKiller | RMemoryUseHierarchy => true
  | RBlockIOClass s => opt_eqb sval_eqb (flookup BlockioClass sc') (if String.eqb s "" then None else Some (VS s))
  | RRDTClass s => opt_eqb sval_eqb (flookup RdtClass sc') (if String.eqb s "" then None else Some (VS s))
  | _ => rop_expect r c c'
  end.

Definition gen_expect (op : bop) (c c' : container) : bool :=
  match op with
  | BRes r => gen_rop_expect r c c'
  | _ => op_expect op c c'
  end.

Definition eqb_key (a b : string) : bool := String.eqb a b.
(* [Remove k; Add k ..] or [Add k ..; Remove k]: the Add whose effect must be visible *)
Definition pair_add (o1 o2 : bop) : option bop :=
  let pick (add rem : bop) :=
    match add, rem with
    | BAddAnnotation k _, BRemoveAnnotation k' => if eqb_key k k' then Some add else None
    | BAddMount m, BRemoveMount d => if eqb_key (m_dest m) d then Some add else None
    | BAddEnv k _, BRemoveEnv k' => if eqb_key k k' then Some add else None
    | BAddDevice d, BRemoveDevice p => if eqb_key (d_path d) p then Some add else None
    | _, _ => None
    end in
  match pick o2 o1 with Some a => Some a | None => pick o1 o2 end.

Definition holds_C13 (c : build_case) : bool :=
  match bc_gen c with
  | None => true
  | Some (out, cdi) =>
      let a := build_adj (bc_ops c) in                      (* the MODEL's reading of the method calls *)
      let s := {| sp_c := bc_spec c; sp_cdi := []; sp_rules := [] |} in
      (* outside wf_gen / wf_maps (a key set twice, an unsettable variable name ...) C13's refinement is silent *)
      negb (wf_gen s a && wf_maps a) ||
      (obs_eqb out (apply_adj (cleared_classes a (bc_spec c)) (gen_view a)) &&
       list_eqb String.eqb cdi (flat_map op_cdi (bc_ops c)) &&
       match bc_ops c with
       | [op] => negb (add_ok op) || gen_expect op (bc_spec c) out
       | [o1; o2] => match pair_add o1 o2 with Some add => negb (add_ok add) || gen_expect add (bc_spec c) out | None => true end
       | _ => true
       end)
  end.

Definition verdict_build (c : build_case) : list bool := [corr_build c; holds_C02 c; holds_C13 c; holds_C05 c].

(* ---------- helpers.go ---------- *)
Record mark_case := {
  mk_key : string;
  mk_mark : string;                 (* MarkForRemoval(key) *)
  mk_is : string * bool;            (* IsMarkedForRemoval(key) *)
  mk_rt : string * bool;            (* IsMarkedForRemoval(MarkForRemoval(key)) *)
  mk_clear : string                 (* ClearRemovalMarker(key) *)
}.
Definition sb_eqb (x y : string * bool) : bool := String.eqb (fst x) (fst y) && Bool.eqb (snd x) (snd y).
Definition corr_marks (c : mark_case) : bool :=
  let k := mk_key c in
  String.eqb (mk_mark c) (mark k) && sb_eqb (mk_is c) (is_marked k) && sb_eqb (mk_rt c) (is_marked (mark k)) &&
  String.eqb (mk_clear c) (rawkey k).
(* the round trip (C02_build_marker_roundtrip) and "an unmarked key is returned unchanged" on the implementation *)
Definition holds_C02_marks (c : mark_case) : bool :=
  let k := mk_key c in
  sb_eqb (mk_rt c) (k, true) &&
  match k with
  | String "-" rest => sb_eqb (mk_is c) (rest, true)
  | _ => sb_eqb (mk_is c) (k, false)
  end.
Definition verdict_marks (c : mark_case) : list bool := [corr_marks c; holds_C02_marks c].

(* ---------- mount.go / device.go / env.go: the per-type IsMarkedForRemoval methods ---------- *)
Record typed_case := {
  tk_key : string;
  tk_mount : string * bool;         (* (&Mount{Destination: key}).IsMarkedForRemoval() *)
  tk_dev : string * bool;           (* (&LinuxDevice{Path: key}).IsMarkedForRemoval() *)
  tk_env : string * bool            (* (&KeyValue{Key: key}).IsMarkedForRemoval() *)
}.
Definition corr_typed_marks (c : typed_case) : bool :=
  let k := tk_key c in
  sb_eqb (tk_mount c) (mount_is_marked {| m_dest := k; m_type := ""; m_source := ""; m_opts := [] |}) &&
  sb_eqb (tk_dev c) (device_is_marked {| d_path := k; d_type := ""; d_major := 0; d_minor := 0; d_mode := None; d_uid := None; d_gid := None |}) &&
  sb_eqb (tk_env c) (env_is_marked (k, "")).
(* the generator recognises removals through the per-type methods: each reads its key field with the '-' convention *)
Definition holds_C13_typed (c : typed_case) : bool :=
  let want := match tk_key c with String "-" rest => (rest, true) | k => (k, false) end in
  sb_eqb (tk_mount c) want && sb_eqb (tk_dev c) want && sb_eqb (tk_env c) want.
Definition verdict_typed (c : typed_case) : list bool := [corr_typed_marks c; holds_C13_typed c].
