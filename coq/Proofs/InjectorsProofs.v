(* Proofs about Model/Injectors.v (C20). *)
From Coq Require Import String Ascii List Bool Arith ZArith Lia.
From NRI Require Import Base.Strs Base.Assoc Model.InjConsts Model.Injectors Spec.InjectorsSpec.
Import ListNotations.
Open Scope string_scope.

(* ------------------------------------------------------------------ strings *)

Lemma append_inj_l a b c : a ++ b = a ++ c -> b = c.
Proof. induction a as [|x a IH]; cbn [append]; intros H; [exact H|]. inversion H. apply IH. assumption. Qed.

Lemma append_nil_r a : a ++ "" = a.
Proof. induction a as [|x a IH]; cbn [append]; [reflexivity|]. rewrite IH. reflexivity. Qed.

Lemma append_assoc a b c : (a ++ b) ++ c = a ++ b ++ c.
Proof. induction a as [|x a IH]; cbn [append]; [reflexivity|]. rewrite IH. reflexivity. Qed.

Lemma append_length a b : String.length (a ++ b) = String.length a + String.length b.
Proof. induction a as [|x a IH]; cbn [append String.length]; [reflexivity|]. rewrite IH. reflexivity. Qed.

Lemma prefix_nil s : String.prefix "" s = true.
Proof. destruct s; reflexivity. Qed.

Lemma prefix_cons c a d b : String.prefix (String c a) (String d b) = (Ascii.eqb c d && String.prefix a b)%bool.
Proof.
  cbn [String.prefix]. destruct (ascii_dec c d) as [->|Hne].
  - rewrite Ascii.eqb_refl. reflexivity.
  - destruct (Ascii.eqb_spec c d); [contradiction|reflexivity].
Qed.

Lemma prefix_app a s : String.prefix a (a ++ s) = true.
Proof.
  induction a as [|c a IH]; cbn [append]; [apply prefix_nil|].
  rewrite prefix_cons, Ascii.eqb_refl, IH. reflexivity.
Qed.

(* two decompositions of one string: one head is a prefix of the other *)
Lemma app_eq_prefix a x b y : a ++ x = b ++ y -> String.prefix a b = true \/ String.prefix b a = true.
Proof.
  revert b. induction a as [|c a IH]; intros b H.
  - left. apply prefix_nil.
  - destruct b as [|d b]; [right; apply prefix_nil|].
    cbn [append] in H. inversion H; subst. rewrite !prefix_cons, Ascii.eqb_refl. cbn [andb].
    apply IH. assumption.
Qed.

Lemma substring_skip p n s : String.substring (String.length p) n (p ++ s) = String.substring 0 n s.
Proof. induction p as [|c p IH]; cbn [append String.length String.substring]; [reflexivity|exact IH]. Qed.

Lemma substring_all s : String.substring 0 (String.length s) s = s.
Proof. induction s as [|c s IH]; cbn [String.length String.substring]; [reflexivity|]. rewrite IH. reflexivity. Qed.

Lemma trim_prefix_app p s : trim_prefix p (p ++ s) = s.
Proof.
  unfold trim_prefix. rewrite prefix_app, append_length.
  replace (String.length p + String.length s - String.length p) with (String.length s) by lia.
  rewrite substring_skip. apply substring_all.
Qed.

Lemma trim_prefix_none p s : String.prefix p s = false -> trim_prefix p s = s.
Proof. unfold trim_prefix. intros ->. reflexivity. Qed.

Lemma smap_app f a b : smap f (a ++ b) = smap f a ++ smap f b.
Proof. induction a as [|c a IH]; cbn [append smap]; [reflexivity|]. rewrite IH. reflexivity. Qed.

Lemma upper_upper c : upper_ascii (upper_ascii c) = upper_ascii c.
Proof. destruct c as [[] [] [] [] [] [] [] []]; reflexivity. Qed.
Lemma upper_lower c : upper_ascii (lower_ascii c) = upper_ascii c.
Proof. destruct c as [[] [] [] [] [] [] [] []]; reflexivity. Qed.

Lemma to_upper_idem s : to_upper (to_upper s) = to_upper s.
Proof. unfold to_upper. induction s as [|c s IH]; cbn [smap]; [reflexivity|]. rewrite upper_upper, IH. reflexivity. Qed.
Lemma to_upper_lower s : to_upper (to_lower s) = to_upper s.
Proof. unfold to_upper, to_lower. induction s as [|c s IH]; cbn [smap]; [reflexivity|]. rewrite upper_lower, IH. reflexivity. Qed.

(* ------------------------------------------------------------------ most specific key *)

Theorem most_specific_key ann main ctr :
  get_annotation ann main ctr =
  match alookup (main ++ "/container." ++ ctr) ann with
  | Some v => Some v
  | None => match alookup (main ++ "/pod") ann with
            | Some v => Some v
            | None => alookup main ann
            end
  end.
Proof.
  unfold get_annotation, annotation_keys. cbn [first_present].
  destruct (alookup (main ++ "/container." ++ ctr) ann); [reflexivity|].
  destruct (alookup (main ++ "/pod") ann); [reflexivity|].
  destruct (alookup main ann); reflexivity.
Qed.

(* ------------------------------------------------------------------ the keys never coincide *)

(* side condition on the regenerated constants: no main key is a proper or improper prefix of another one
   (the ulimit key is included so that the two plugins' annotations cannot be confused either) *)
Definition main_keys : list string := [device_key; cdi_device_key; mount_key; ulimit_key].
Definition main_keys_ok : bool :=
  forallb (fun a => forallb (fun b => (String.eqb a b || negb (String.prefix a b))%bool) main_keys) main_keys.
Lemma main_keys_ok_true : main_keys_ok = true.
Proof. vm_compute. reflexivity. Qed.

Lemma main_keys_no_prefix a b : In a main_keys -> In b main_keys -> a <> b -> String.prefix a b = false.
Proof.
  intros Ha Hb Hne. pose proof main_keys_ok_true as T. unfold main_keys_ok in T.
  rewrite forallb_forall in T. specialize (T a Ha). rewrite forallb_forall in T. specialize (T b Hb).
  apply orb_true_iff in T. destruct T as [T|T].
  - apply String.eqb_eq in T. contradiction.
  - apply negb_true_iff in T. exact T.
Qed.

Lemma main_keys_disjoint a b x y : In a main_keys -> In b main_keys -> a <> b -> a ++ x <> b ++ y.
Proof.
  intros Ha Hb Hne E. destruct (app_eq_prefix _ _ _ _ E) as [P|P].
  - rewrite (main_keys_no_prefix a b Ha Hb Hne) in P. discriminate.
  - rewrite (main_keys_no_prefix b a Hb Ha (fun e => Hne (eq_sym e))) in P. discriminate.
Qed.

(* the key addressed to container c' under main key m' is none of the keys looked up for container c under m,
   unless it is the very same container and main key — also when one name is a prefix of the other *)
Theorem container_key_injective m m' c c' : In m main_keys -> In m' main_keys ->
  In (m' ++ "/container." ++ c') (annotation_keys m c) -> m' = m /\ c' = c.
Proof.
  intros Hm Hm' H. destruct (String.eqb_spec m' m) as [->|Hne].
  - split; [reflexivity|]. unfold annotation_keys in H. cbn [In] in H. destruct H as [H|[H|[H|[]]]].
    + apply append_inj_l in H. apply (append_inj_l "/container.") in H. symmetry. exact H.
    + apply append_inj_l in H. discriminate.
    + rewrite <- (append_nil_r m) in H at 1. apply append_inj_l in H. discriminate.
  - exfalso. unfold annotation_keys in H. cbn [In] in H. destruct H as [H|[H|[H|[]]]].
    + symmetry in H. exact (main_keys_disjoint m' m _ _ Hm' Hm Hne H).
    + symmetry in H. exact (main_keys_disjoint m' m _ _ Hm' Hm Hne H).
    + rewrite <- (append_nil_r m) in H. symmetry in H. exact (main_keys_disjoint m' m _ _ Hm' Hm Hne H).
Qed.

Theorem ulimit_key_injective c c' : ulimit_annotation_key c' = ulimit_annotation_key c -> c' = c.
Proof.
  unfold ulimit_annotation_key. intros H. apply append_inj_l in H. apply (append_inj_l "/container.") in H. exact H.
Qed.

(* ------------------------------------------------------------------ non-interference *)

Lemma first_present_ext ann1 ann2 keys :
  (forall k, In k keys -> alookup k ann1 = alookup k ann2) -> first_present ann1 keys = first_present ann2 keys.
Proof.
  induction keys as [|k r IH]; intros H; cbn [first_present]; [reflexivity|].
  rewrite (H k (or_introl eq_refl)). rewrite IH; [reflexivity|]. intros k' Hk. apply H. right. exact Hk.
Qed.

(* every key the device injector reads for this container *)
Definition injector_keys (ctr : string) : list string :=
  (annotation_keys device_key ctr ++ annotation_keys cdi_device_key ctr ++ annotation_keys mount_key ctr)%list.

Section DeviceInjector.
Variable decode_devices : string -> option (list device).
Variable decode_cdi : string -> option (list string).
Variable decode_mounts : string -> option (list mount).
Let create := injector_create decode_devices decode_cdi decode_mounts.

(* two annotation maps that agree on this container's keys give the same result *)
Theorem injector_non_interference ctr ann1 ann2 :
  (forall k, In k (injector_keys ctr) -> alookup k ann1 = alookup k ann2) ->
  create ctr ann1 = create ctr ann2.
Proof.
  intros H. unfold create, injector_create, parse_devices, parse_cdi, parse_mounts, get_annotation.
  rewrite (first_present_ext ann1 ann2 (annotation_keys device_key ctr)).
  2:{ intros k Hk. apply H. unfold injector_keys. apply in_or_app. left. exact Hk. }
  rewrite (first_present_ext ann1 ann2 (annotation_keys cdi_device_key ctr)).
  2:{ intros k Hk. apply H. unfold injector_keys. apply in_or_app. right. apply in_or_app. left. exact Hk. }
  rewrite (first_present_ext ann1 ann2 (annotation_keys mount_key ctr)).
  2:{ intros k Hk. apply H. unfold injector_keys. apply in_or_app. right. apply in_or_app. right. exact Hk. }
  reflexivity.
Qed.

(* frame: adding, changing or deleting any other annotation changes nothing *)
Theorem injector_frame_set ctr ann k v : ~ In k (injector_keys ctr) -> create ctr (aset k v ann) = create ctr ann.
Proof.
  intros Hn. apply injector_non_interference. intros k' Hk'. apply alookup_aset_other.
  intros ->. contradiction.
Qed.
Theorem injector_frame_remove ctr ann k : ~ In k (injector_keys ctr) -> create ctr (aremove k ann) = create ctr ann.
Proof.
  intros Hn. apply injector_non_interference. intros k' Hk'. apply alookup_aremove_other.
  intros ->. contradiction.
Qed.

Lemma foreign_key_not_read m ctr ctr' : In m main_keys -> ctr' <> ctr ->
  ~ In (m ++ "/container." ++ ctr') (injector_keys ctr).
Proof.
  intros Hm Hne Hi. unfold injector_keys in Hi.
  apply in_app_or in Hi. destruct Hi as [Hi|Hi]; [|apply in_app_or in Hi; destruct Hi as [Hi|Hi]];
    (eapply container_key_injective in Hi; [destruct Hi as [_ Hc]; contradiction| |exact Hm]);
    unfold main_keys; cbn [In]; tauto.
Qed.

(* an annotation addressed to ANOTHER container — under any of the plugins' main keys, whatever its value, and
   also when one container name is a prefix of the other — never influences this container's adjustment *)
Theorem injector_other_container ctr ctr' m v ann : In m main_keys -> ctr' <> ctr ->
  create ctr (aset (m ++ "/container." ++ ctr') v ann) = create ctr ann /\
  create ctr (aremove (m ++ "/container." ++ ctr') ann) = create ctr ann.
Proof.
  intros Hm Hne. split; [apply injector_frame_set|apply injector_frame_remove]; apply foreign_key_not_read; assumption.
Qed.

(* ------------------------------------------------------------------ exactness and errors *)

(* the payload selected for one main key: None = no annotation (nothing to inject) *)
Definition selected (ann : annotations) (main ctr : string) : option string := get_annotation ann main ctr.

Definition decoded {P} (dec : string -> option (list P)) (sel : option string) : option (list P) :=
  match sel with None => Some [] | Some v => dec v end.

Theorem injector_adjustment_exact ctr ann adj : create ctr ann = Some adj ->
  exists ds cs ms,
    decoded decode_devices (selected ann device_key ctr) = Some ds /\
    decoded decode_cdi (selected ann cdi_device_key ctr) = Some cs /\
    decoded decode_mounts (selected ann mount_key ctr) = Some ms /\
    adj = {| adj_devices := map device_to_nri ds; adj_cdi := cs; adj_mounts := map mount_to_nri ms; adj_rlimits := [] |}.
Proof.
  unfold create, injector_create, parse_devices, parse_cdi, parse_mounts, decoded, selected. intros H.
  destruct (match get_annotation ann device_key ctr with None => Some [] | Some v => decode_devices v end) as [ds|]; [|discriminate].
  destruct (match get_annotation ann cdi_device_key ctr with None => Some [] | Some v => decode_cdi v end) as [cs|]; [|discriminate].
  destruct (match get_annotation ann mount_key ctr with None => Some [] | Some v => decode_mounts v end) as [ms|]; [|discriminate].
  inversion H. exists ds, cs, ms. repeat split; reflexivity.
Qed.

(* the request fails — and then there is no adjustment at all — iff one of the three selected payloads is malformed *)
Theorem injector_error_iff ctr ann :
  create ctr ann = None <->
  decoded decode_devices (selected ann device_key ctr) = None \/
  decoded decode_cdi (selected ann cdi_device_key ctr) = None \/
  decoded decode_mounts (selected ann mount_key ctr) = None.
Proof.
  unfold create, injector_create, parse_devices, parse_cdi, parse_mounts, decoded, selected.
  destruct (match get_annotation ann device_key ctr with None => Some [] | Some v => decode_devices v end) as [ds|].
  2:{ split; [left; reflexivity|reflexivity]. }
  destruct (match get_annotation ann cdi_device_key ctr with None => Some [] | Some v => decode_cdi v end) as [cs|].
  2:{ split; [right; left; reflexivity|reflexivity]. }
  destruct (match get_annotation ann mount_key ctr with None => Some [] | Some v => decode_mounts v end) as [ms|].
  2:{ split; [right; right; reflexivity|reflexivity]. }
  split; [discriminate|]. intros [H|[H|H]]; discriminate.
Qed.

(* no annotation for this container, the pod or the bare key: an empty adjustment, never an error *)
Theorem injector_no_annotation ctr ann :
  (forall k, In k (injector_keys ctr) -> alookup k ann = None) -> create ctr ann = Some empty_adjustment.
Proof.
  intros H. rewrite (injector_non_interference ctr ann []).
  - reflexivity.
  - intros k Hk. rewrite (H k Hk). reflexivity.
Qed.
End DeviceInjector.

(* conversion, field by field *)
Theorem device_to_nri_exact d :
  let n := device_to_nri d in
  nd_path n = dv_path d /\ nd_type n = dv_type d /\ nd_major n = dv_major d /\ nd_minor n = dv_minor d /\
  nd_file_mode n = (if Z.eqb (dv_file_mode d) 0 then None else Some (dv_file_mode d)) /\
  nd_uid n = (if Z.eqb (dv_uid d) 0 then None else Some (dv_uid d)) /\
  nd_gid n = (if Z.eqb (dv_gid d) 0 then None else Some (dv_gid d)).
Proof. repeat split; reflexivity. Qed.

Theorem mount_to_nri_exact m :
  let n := mount_to_nri m in
  nm_source n = mt_source m /\ nm_destination n = mt_destination m /\ nm_type n = mt_type m /\ nm_options n = mt_options m.
Proof. repeat split; reflexivity. Qed.

(* ------------------------------------------------------------------ rlimit names *)

(* side condition on the regenerated prefix: it is already upper case *)
Lemma rlimit_prefix_upper : to_upper rlimit_prefix = rlimit_prefix.
Proof. vm_compute. reflexivity. Qed.

(* case-insensitive: the result only depends on the upper-cased name *)
Theorem normalise_case_insensitive t1 t2 : to_upper t1 = to_upper t2 -> normalise_rlimit t1 = normalise_rlimit t2.
Proof. unfold normalise_rlimit. intros ->. reflexivity. Qed.

Theorem normalise_lower_upper t :
  normalise_rlimit (to_lower t) = normalise_rlimit t /\ normalise_rlimit (to_upper t) = normalise_rlimit t.
Proof. split; apply normalise_case_insensitive; [apply to_upper_lower|apply to_upper_idem]. Qed.

(* optionally prefixed: one leading prefix (in any case) is dropped *)
Theorem normalise_prefixed p t : to_upper p = rlimit_prefix ->
  normalise_rlimit (p ++ t) = to_upper t.
Proof.
  intros Hp. unfold normalise_rlimit, to_upper. rewrite smap_app. fold (to_upper p). rewrite Hp.
  apply trim_prefix_app.
Qed.

Theorem normalise_unprefixed t : String.prefix rlimit_prefix (to_upper t) = false -> normalise_rlimit t = to_upper t.
Proof. unfold normalise_rlimit. apply trim_prefix_none. Qed.

(* on the whole regenerated table: every valid name is accepted bare, prefixed, in lower case and in lower case
   with a lower-case prefix, and normalises to itself; the emitted type is prefix ++ name *)
Definition rlimit_table_ok : bool :=
  forallb (fun n =>
    (String.eqb (normalise_rlimit n) n && String.eqb (normalise_rlimit (rlimit_prefix ++ n)) n &&
     String.eqb (normalise_rlimit (to_lower n)) n && String.eqb (normalise_rlimit (to_lower (rlimit_prefix ++ n))) n &&
     valid_rlimit n && negb (valid_rlimit (rlimit_prefix ++ rlimit_prefix ++ n)))%bool) valid_rlimits.
Lemma rlimit_table_ok_true : rlimit_table_ok = true.
Proof. vm_compute. reflexivity. Qed.

Theorem rlimit_table_normalised n : In n valid_rlimits ->
  normalise_rlimit n = n /\ normalise_rlimit (rlimit_prefix ++ n) = n /\
  normalise_rlimit (to_lower n) = n /\ normalise_rlimit (to_lower (rlimit_prefix ++ n)) = n /\
  valid_rlimit n = true /\ valid_rlimit (rlimit_prefix ++ rlimit_prefix ++ n) = false.
Proof.
  intros Hn. pose proof rlimit_table_ok_true as T. unfold rlimit_table_ok in T. rewrite forallb_forall in T.
  specialize (T n Hn). repeat (apply andb_true_iff in T; destruct T as [T ?]).
  repeat match goal with X : String.eqb _ _ = true |- _ => apply String.eqb_eq in X end.
  match goal with X : negb _ = true |- _ => apply negb_true_iff in X end.
  repeat split; assumption.
Qed.

Theorem valid_rlimit_iff t : valid_rlimit t = true <-> In (normalise_rlimit t) valid_rlimits.
Proof. unfold valid_rlimit. apply smem_In. Qed.

(* parseUlimits' loop: succeeds iff every type is valid, and then every entry carries prefix ++ normalised name *)
Theorem normalise_all_Some us l : normalise_all us = Some l ->
  Forall (fun u => valid_rlimit (ul_type u) = true) us /\
  l = map (fun u => {| ul_type := rlimit_prefix ++ normalise_rlimit (ul_type u); ul_hard := ul_hard u; ul_soft := ul_soft u |}) us.
Proof.
  revert l. induction us as [|u r IH]; intros l H; cbn [normalise_all] in H.
  - inversion H. split; [constructor|reflexivity].
  - destruct (valid_rlimit (ul_type u)) eqn:V; [|discriminate].
    destruct (normalise_all r) as [l'|]; [|discriminate]. inversion H; subst.
    destruct (IH l' eq_refl) as [Hf ->]. split; [constructor; assumption|reflexivity].
Qed.

Theorem normalise_all_None us : normalise_all us = None <-> Exists (fun u => valid_rlimit (ul_type u) = false) us.
Proof.
  induction us as [|u r IH]; cbn [normalise_all].
  - split; [discriminate|]. intros H. inversion H.
  - destruct (valid_rlimit (ul_type u)) eqn:V.
    + destruct (normalise_all r) as [l'|].
      * split; [discriminate|]. intros H. apply Exists_cons in H. destruct H as [H|H]; [congruence|].
        apply IH in H. discriminate.
      * split; [|reflexivity]. intros _. apply Exists_cons_tl. apply IH. reflexivity.
    + split; [|reflexivity]. intros _. apply Exists_cons_hd. exact V.
Qed.

Theorem adjust_ulimits_Some us l : adjust_ulimits us = Some l ->
  Forall (fun u => (ul_soft u <= ul_hard u)%Z) us /\
  l = map (fun u => {| rl_type := ul_type u; rl_hard := ul_hard u; rl_soft := ul_soft u |}) us.
Proof.
  revert l. induction us as [|u r IH]; intros l H; cbn [adjust_ulimits] in H.
  - inversion H. split; [constructor|reflexivity].
  - destruct (Z.ltb_spec (ul_hard u) (ul_soft u)) as [Hlt|Hge]; [discriminate|].
    destruct (adjust_ulimits r) as [l'|]; [|discriminate]. inversion H; subst.
    destruct (IH l' eq_refl) as [Hf ->]. split; [constructor; assumption|reflexivity].
Qed.

Theorem adjust_ulimits_None us : adjust_ulimits us = None <-> Exists (fun u => (ul_hard u < ul_soft u)%Z) us.
Proof.
  induction us as [|u r IH]; cbn [adjust_ulimits].
  - split; [discriminate|]. intros H. inversion H.
  - destruct (Z.ltb_spec (ul_hard u) (ul_soft u)) as [Hlt|Hge].
    + split; [|reflexivity]. intros _. apply Exists_cons_hd. exact Hlt.
    + destruct (adjust_ulimits r) as [l'|].
      * split; [discriminate|]. intros H. apply Exists_cons in H. destruct H as [H|H]; [lia|].
        apply IH in H. discriminate.
      * split; [|reflexivity]. intros _. apply Exists_cons_tl. apply IH. reflexivity.
Qed.

Section UlimitAdjuster.
Variable decode_ulimits : string -> option (list ulimit).
Let create := ulimit_create decode_ulimits.

(* container-scoped only: the result is a function of the one annotation addressed to this container *)
Theorem ulimit_non_interference ctr ann1 ann2 :
  alookup (ulimit_annotation_key ctr) ann1 = alookup (ulimit_annotation_key ctr) ann2 ->
  create ctr ann1 = create ctr ann2.
Proof. intros H. unfold create, ulimit_create, parse_ulimits. rewrite H. reflexivity. Qed.

Theorem ulimit_frame ctr ann k v : k <> ulimit_annotation_key ctr ->
  create ctr (aset k v ann) = create ctr ann /\ create ctr (aremove k ann) = create ctr ann.
Proof.
  intros Hne. split; apply ulimit_non_interference.
  - apply alookup_aset_other. intros E. apply Hne. symmetry. exact E.
  - apply alookup_aremove_other. intros E. apply Hne. symmetry. exact E.
Qed.

(* annotations for another container (prefix-related names included), pod-scoped and bare keys are never used *)
Theorem ulimit_other_container ctr ctr' v ann : ctr' <> ctr ->
  create ctr (aset (ulimit_annotation_key ctr') v ann) = create ctr ann /\
  create ctr (aset (ulimit_key ++ "/pod") v ann) = create ctr ann /\
  create ctr (aset ulimit_key v ann) = create ctr ann.
Proof.
  intros Hne. split; [|split]; apply ulimit_frame.
  - intros E. apply Hne. apply ulimit_key_injective. exact E.
  - unfold ulimit_annotation_key. intros E. apply append_inj_l in E. discriminate.
  - unfold ulimit_annotation_key. intros E. rewrite <- (append_nil_r ulimit_key) in E at 1.
    apply append_inj_l in E. discriminate.
Qed.

Theorem ulimit_adjustment_exact ctr ann adj : create ctr ann = Some adj ->
  exists us, decoded decode_ulimits (alookup (ulimit_annotation_key ctr) ann) = Some us /\
    Forall (fun u => valid_rlimit (ul_type u) = true /\ (ul_soft u <= ul_hard u)%Z) us /\
    adj = {| adj_devices := []; adj_cdi := []; adj_mounts := [];
             adj_rlimits := map (fun u => {| rl_type := rlimit_prefix ++ normalise_rlimit (ul_type u);
                                             rl_hard := ul_hard u; rl_soft := ul_soft u |}) us |}.
Proof.
  unfold create, ulimit_create, parse_ulimits, decoded. intros H.
  destruct (alookup (ulimit_annotation_key ctr) ann) as [v|].
  - destruct (decode_ulimits v) as [us|]; [|discriminate].
    destruct (normalise_all us) as [ns|] eqn:N; [|discriminate].
    destruct (adjust_ulimits ns) as [rl|] eqn:A; [|discriminate]. inversion H; subst.
    destruct (normalise_all_Some us ns N) as [Hv ->]. destruct (adjust_ulimits_Some _ _ A) as [Hh ->].
    exists us. split; [reflexivity|]. split.
    + rewrite Forall_forall in *. intros u Hu. split; [apply Hv; exact Hu|].
      specialize (Hh _ (in_map _ _ _ Hu)). exact Hh.
    + rewrite map_map. reflexivity.
  - cbn in H. inversion H. exists []. repeat split. constructor.
Qed.

(* the request fails — no adjustment at all, whatever came before the bad entry — iff the annotation addressed to
   this container is malformed, names an unknown rlimit, or has a hard limit below the soft limit *)
Theorem ulimit_error_iff ctr ann :
  create ctr ann = None <->
  exists v, alookup (ulimit_annotation_key ctr) ann = Some v /\
    (decode_ulimits v = None \/
     exists us, decode_ulimits v = Some us /\
       (Exists (fun u => valid_rlimit (ul_type u) = false) us \/ Exists (fun u => (ul_hard u < ul_soft u)%Z) us)).
Proof.
  unfold create, ulimit_create, parse_ulimits.
  destruct (alookup (ulimit_annotation_key ctr) ann) as [v|].
  2:{ cbn. split; [discriminate|]. intros [v [E _]]. discriminate. }
  destruct (decode_ulimits v) as [us|] eqn:D.
  2:{ split; [|reflexivity]. intros _. exists v. split; [reflexivity|left; exact D]. }
  destruct (normalise_all us) as [ns|] eqn:N.
  - destruct (normalise_all_Some us ns N) as [Hv ->].
    destruct (adjust_ulimits _) as [rl|] eqn:A.
    + split; [discriminate|]. intros [v' [E [H|[us' [E' [H|H]]]]]]; inversion E; subst; try congruence.
      * rewrite D in E'. inversion E'; subst. apply normalise_all_None in H. congruence.
      * rewrite D in E'. inversion E'; subst.
        assert (A' : adjust_ulimits (map (fun u => {| ul_type := rlimit_prefix ++ normalise_rlimit (ul_type u);
                        ul_hard := ul_hard u; ul_soft := ul_soft u |}) us') = None).
        { apply adjust_ulimits_None. apply Exists_exists in H. destruct H as [u [Hu Hlt]].
          apply Exists_exists. eexists. split; [apply in_map; exact Hu|exact Hlt]. }
        congruence.
    + split; [|reflexivity]. intros _. exists v. split; [reflexivity|]. right. exists us. split; [exact D|].
      right. apply adjust_ulimits_None in A. apply Exists_exists in A. destruct A as [u' [Hu' Hlt]].
      apply in_map_iff in Hu'. destruct Hu' as [u [<- Hu]]. apply Exists_exists. exists u. split; [exact Hu|exact Hlt].
  - split; [|reflexivity]. intros _. exists v. split; [reflexivity|]. right. exists us. split; [exact D|].
    left. apply normalise_all_None. exact N.
Qed.
End UlimitAdjuster.

(* ------------------------------------------------------------------ the plugins compute the statement's reading *)

Theorem injector_is_spec dd dc dm ctr ann : injector_create dd dc dm ctr ann = spec_injector dd dc dm ctr ann.
Proof.
  unfold injector_create, spec_injector, parse_devices, parse_cdi, parse_mounts, spec_payload, spec_pick.
  rewrite !most_specific_key.
  destruct (match alookup (device_key ++ "/container." ++ ctr) ann with
            | Some v => Some v
            | None => match alookup (device_key ++ "/pod") ann with Some v => Some v | None => alookup device_key ann end
            end) as [v1|]; [destruct (dd v1)|]; try reflexivity;
  (destruct (match alookup (cdi_device_key ++ "/container." ++ ctr) ann with
            | Some v => Some v
            | None => match alookup (cdi_device_key ++ "/pod") ann with Some v => Some v | None => alookup cdi_device_key ann end
            end) as [v2|]; [destruct (dc v2)|]; try reflexivity).
Qed.

Lemma normalise_adjust_forallb us :
  match normalise_all us with
  | None => None
  | Some ns => adjust_ulimits ns
  end =
  if forallb spec_ulimit_ok us
  then Some (map (fun u => {| rl_type := rlimit_prefix ++ normalise_rlimit (ul_type u);
                              rl_hard := ul_hard u; rl_soft := ul_soft u |}) us)
  else None.
Proof.
  induction us as [|u r IH]; cbn [normalise_all forallb map]; [reflexivity|].
  unfold spec_ulimit_ok at 1. fold (valid_rlimit (ul_type u)).
  destruct (valid_rlimit (ul_type u)); cbn [andb]; [|reflexivity].
  destruct (normalise_all r) as [ns|].
  - cbn [adjust_ulimits ul_hard ul_soft ul_type]. rewrite IH.
    rewrite Z.ltb_antisym. destruct (ul_soft u <=? ul_hard u)%Z; cbn [negb]; [|reflexivity].
    destruct (forallb spec_ulimit_ok r); reflexivity.
  - destruct (forallb spec_ulimit_ok r); [discriminate IH|]. rewrite andb_false_r. reflexivity.
Qed.

Theorem ulimit_is_spec du ctr ann : ulimit_create du ctr ann = spec_ulimit du ctr ann.
Proof.
  unfold ulimit_create, spec_ulimit, parse_ulimits. fold (ulimit_annotation_key ctr).
  destruct (alookup (ulimit_annotation_key ctr) ann) as [v|]; [|reflexivity].
  destruct (du v) as [us|]; [|reflexivity].
  pose proof (normalise_adjust_forallb us) as H.
  destruct (normalise_all us) as [ns|].
  - rewrite H. destruct (forallb spec_ulimit_ok us); reflexivity.
  - destruct (forallb spec_ulimit_ok us); [discriminate H|reflexivity].
Qed.
