(* C09 — proofs about Model/SyncSplit.v.

   1. recalcObjsPerSyncMsg (concrete, float-based): strictly reduces the total count,
      keeps a non-empty share non-empty, gives up only at or below the minimum chunk
      (recalc_dec / recalc_zero / recalc_min; the float facts come from SyncFloatProofs).
   2. The sender loop for ANY transport oracle, ANY plugin end and ANY recalculation
      function meeting those three conditions (Section Generic / Section Delivery):
      invariant [Inv], termination measure [measure] = objects left + objects per
      message, which every iteration lowers by at least one, hence the fuel bound
      2 * (pods + containers) + 1.
   3. The receiver (stub): handler invoked once with the concatenation; over several
      connections of one stub value (close in between) every invocation gets the objects
      of its own connection only, a connection cut off gets none (sessions_isolated), and
      the statement is false without the reset in close (sessions_no_reset_refuted).
   4. Instances: recalc; the size-based transport; the boolean form of interpretation I4.
   5. Activation bookkeeping. *)
From Coq Require Import List ZArith Bool Lia Floats.SpecFloat.
From NRI Require Import Model.SyncConsts Model.SyncSplit Spec.SyncSpec Proofs.SyncFloatProofs.
Import ListNotations.
Open Scope Z_scope.

(* ------------------------------------------------------------------ *)
(** * The regenerated constants *)
Lemma min_objs_facts :
  2 <= min_objs_per_msg /\ 0 < Z.quot min_objs_per_msg 2 /\ 2 * Z.quot min_objs_per_msg 2 <= min_objs_per_msg.
Proof. unfold min_objs_per_msg. cbn. lia. Qed.

(* the give-up test of the current plugin.go is `<=` (with `<` a chunk of exactly the minimum
   that does not fit is scaled down, floored back to the minimum and retried for ever) *)
Lemma gives_up_spec n : gives_up n = (n <=? min_objs_per_msg).
Proof. reflexivity. Qed.

(* ------------------------------------------------------------------ *)
(** * recalcObjsPerSyncMsg *)

(* the counts handed to the float arithmetic are exact in float64 *)
Definition count_bound : Z := 2 ^ 53 - 1.

Lemma zerofix_cases pods s :
  0 <= pods -> 0 <= s -> (pods = 0 -> s = 0) -> (1 <= pods -> s <= pods - 1) ->
  let s' := if (0 <? pods) && (s =? 0) then 1 else s in
  0 <= s' <= pods /\ (s' = 0 -> pods = 0) /\ (2 <= pods -> s' <= pods - 1).
Proof.
  intros ? ? ? ?. cbv zeta. destruct (Z.ltb_spec 0 pods); destruct (Z.eqb_spec s 0); cbn [andb]; lia.
Qed.

Lemma recalc_dec pods ctrs maxLen msgLen pods' ctrs' :
  0 <= pods <= count_bound -> 0 <= ctrs <= count_bound -> 0 < maxLen < msgLen ->
  recalc pods ctrs maxLen msgLen = Some (pods', ctrs') ->
  0 <= pods' /\ 0 <= ctrs' /\ pods' + ctrs' < pods + ctrs.
Proof.
  intros Hp Hc Hl. unfold recalc, count_bound in *. rewrite gives_up_spec.
  destruct min_objs_facts as [M2 [Mq Mh]].
  destruct (Z.leb_spec (pods + ctrs) min_objs_per_msg) as [|Hmin]; [discriminate|].
  destruct ((msgLen =? 0) || (maxLen =? 0) || (msgLen <=? maxLen)); [discriminate|].
  assert (P53 : 2 ^ 53 = 9007199254740992) by reflexivity.
  pose proof (scale_factor_bounds pods maxLen msgLen ltac:(lia) ltac:(lia) ltac:(lia)) as SP.
  pose proof (scale_factor_bounds ctrs maxLen msgLen ltac:(lia) ltac:(lia) ltac:(lia)) as SC.
  cbv zeta in SP, SC. set (F := sync_factor maxLen msgLen) in *.
  set (sp := sync_scale pods F) in *. set (sc := sync_scale ctrs F) in *.
  destruct SP as [[EN EP]|[NN [P0 [P1 P2]]]].
  - (* NaN factor: both counts are the indefinite integer, the minimum is used *)
    destruct SC as [[_ EC]|[NN _]]; [|contradiction].
    rewrite EP, EC. unfold int_indefinite.
    assert (P63 : 2 ^ 63 = 9223372036854775808) by reflexivity.
    replace ((0 <? pods) && (- 2 ^ 63 =? 0)) with false by (rewrite P63; destruct (0 <? pods); reflexivity).
    replace ((0 <? ctrs) && (- 2 ^ 63 =? 0)) with false by (rewrite P63; destruct (0 <? ctrs); reflexivity).
    destruct (Z.ltb_spec (- 2 ^ 63 + - 2 ^ 63) min_objs_per_msg); [|lia].
    intros E; inversion E; subst. lia.
  - destruct SC as [[EN _]|[_ [C0 [C1 C2]]]]; [contradiction|].
    pose proof (zerofix_cases pods sp ltac:(lia) P0 P1 P2) as ZP.
    pose proof (zerofix_cases ctrs sc ltac:(lia) C0 C1 C2) as ZC.
    cbv zeta in ZP, ZC.
    set (np := if (0 <? pods) && (sp =? 0) then 1 else sp) in *.
    set (nc := if (0 <? ctrs) && (sc =? 0) then 1 else sc) in *.
    destruct (Z.ltb_spec (np + nc) min_objs_per_msg); intros E; inversion E; subst; lia.
Qed.

Lemma recalc_zero pods ctrs maxLen msgLen pods' ctrs' :
  0 <= pods -> 0 <= ctrs ->
  recalc pods ctrs maxLen msgLen = Some (pods', ctrs') ->
  (pods' = 0 -> pods = 0) /\ (ctrs' = 0 -> ctrs = 0).
Proof.
  intros Hp Hc. unfold recalc. rewrite gives_up_spec. destruct min_objs_facts as [M2 [Mq Mh]].
  destruct (pods + ctrs <=? min_objs_per_msg); [discriminate|].
  destruct ((msgLen =? 0) || (maxLen =? 0) || (msgLen <=? maxLen)); [discriminate|].
  set (sp := sync_scale pods _). set (sc := sync_scale ctrs _).
  destruct (_ <? min_objs_per_msg); intros E; inversion E; subst; [lia|].
  destruct (Z.ltb_spec 0 pods); destruct (Z.eqb_spec sp 0); destruct (Z.ltb_spec 0 ctrs); destruct (Z.eqb_spec sc 0); cbn [andb]; lia.
Qed.

Lemma recalc_min pods ctrs maxLen msgLen :
  0 < maxLen < msgLen -> recalc pods ctrs maxLen msgLen = None -> pods + ctrs <= min_objs_per_msg.
Proof.
  intros Hl. unfold recalc. rewrite gives_up_spec.
  destruct (Z.leb_spec (pods + ctrs) min_objs_per_msg); [intros; assumption|].
  replace ((msgLen =? 0) || (maxLen =? 0) || (msgLen <=? maxLen)) with false
    by (symmetry; destruct (Z.eqb_spec msgLen 0); destruct (Z.eqb_spec maxLen 0); destruct (Z.leb_spec msgLen maxLen); cbn; lia).
  destruct (_ <? min_objs_per_msg); discriminate.
Qed.

(* ------------------------------------------------------------------ *)
(** * Lists and slices *)
Lemma len_nonneg {X} (l : list X) : 0 <= len l.
Proof. unfold len. lia. Qed.

Lemma len_nil_iff {X} (l : list X) : len l = 0 <-> l = [].
Proof. unfold len. destruct l; cbn; split; intros; try reflexivity; try discriminate; lia. Qed.

Lemma len_app {X} (a b : list X) : len (a ++ b) = len a + len b.
Proof. unfold len. rewrite app_length. lia. Qed.

Lemma take_drop {X} n (l : list X) : take n l ++ drop n l = l.
Proof. apply firstn_skipn. Qed.

Lemma len_take {X} n (l : list X) : 0 <= n <= len l -> len (take n l) = n.
Proof. unfold len, take. intros H. rewrite firstn_length. lia. Qed.

Lemma len_drop {X} n (l : list X) : 0 <= n <= len l -> len (drop n l) = len l - n.
Proof. unfold len, drop. intros H. rewrite skipn_length. lia. Qed.

Lemma take_all {X} n (l : list X) : len l <= n -> take n l = l.
Proof. unfold len, take. intros H. apply firstn_all2. lia. Qed.

Lemma clamp_spec {X} n (l : list X) : clamp n l = Z.min n (len l).
Proof. unfold clamp. destruct (Z.ltb_spec (len l) n); lia. Qed.

Lemma more_flags_cons_true l : more_flags_ok l = true -> more_flags_ok (true :: l) = true.
Proof. destruct l; cbn; [discriminate|auto]. Qed.

(* ------------------------------------------------------------------ *)
(** * The sender, for any transport, any plugin end and any recalculation function *)
Section Generic.
  Variables A B U PS : Type.
  Variable xmit : list A -> list B -> bool -> xres.
  Variable peer : PS -> list A -> list B -> bool -> PS * option (reply U).
  Variable rc : Z -> Z -> Z -> Z -> option (Z * Z).
  Variable K : Z.     (* the counts up to which rc is known to behave *)

  (* an oversized-message error reports a length above a positive maximum *)
  Hypothesis xmit_honest : forall mp mc more mx ml, xmit mp mc more = XOversize mx ml -> 0 < mx < ml.
  (* rc strictly reduces the total and keeps the counts non-negative *)
  Hypothesis rc_dec : forall pp cp mx ml pp' cp',
    0 <= pp <= K -> 0 <= cp <= K -> 0 < mx < ml -> rc pp cp mx ml = Some (pp', cp') ->
    0 <= pp' /\ 0 <= cp' /\ pp' + cp' < pp + cp.
  (* a count becomes 0 only if it was 0 *)
  Hypothesis rc_zero : forall pp cp mx ml pp' cp',
    0 <= pp -> 0 <= cp -> rc pp cp mx ml = Some (pp', cp') -> (pp' = 0 -> pp = 0) /\ (cp' = 0 -> cp = 0).

  Notation loop := (sync_loop xmit peer rc).
  Notation good := (sync_good peer).

  (* loop invariant: the slices are legal, and a side whose count is 0 is exhausted *)
  Definition Inv (ps : list A) (cs : list B) (pp cp : Z) : Prop :=
    0 <= pp <= len ps /\ 0 <= cp <= len cs /\ (pp = 0 -> ps = []) /\ (cp = 0 -> cs = []).

  (* termination measure: objects left + objects per message; every iteration lowers it *)
  Definition measure (ps : list A) (cs : list B) (pp cp : Z) : Z := len ps + len cs + pp + cp.

  Lemma good_push ps' cs' st st' mp mc rp o :
    peer st mp mc true = (st', rp) -> good ps' cs' st' o -> good (mp ++ ps') (mc ++ cs') st (push (mp, mc, true) o).
  Proof.
    intros Hp. destruct o as [s u st2|w s st2|s|s]; cbn [push sync_good]; try tauto.
    - intros [H1 [H2 [H3 [rps [r [H4 [H5 H6]]]]]]].
      unfold chunks_pods, chunks_ctrs, chunks_flags in *. cbn [map concat fst snd].
      rewrite H1, H2. repeat split; try reflexivity.
      + apply more_flags_cons_true. assumption.
      + exists (rp :: rps), r. cbn [peer_run]. rewrite Hp, H4. repeat split; try assumption.
        destruct rps; [discriminate|exact H5].
    - intros [[ps2 [cs2 [H1 H2]]] H3].
      unfold chunks_pods, chunks_ctrs in *. cbn [map concat fst snd peer_run].
      split.
      + exists ps2, cs2. rewrite H1, H2, <- !app_assoc. split; reflexivity.
      + rewrite Hp. destruct (peer_run peer st' s) as [st3 rps]. cbn [fst] in *. assumption.
  Qed.

  Lemma loop_good : forall fuel ps cs pp cp st,
    Inv ps cs pp cp -> len ps <= K -> len cs <= K ->
    (Z.to_nat (measure ps cs pp cp) < fuel)%nat ->
    good ps cs st (loop fuel ps cs pp cp st).
  Proof.
    induction fuel as [|fuel IH]; intros ps cs pp cp st HI Kp Kc Hf; [lia|].
    destruct HI as [Hpp [Hcp [Zp Zc]]]. unfold measure in Hf.
    cbn [sync_loop].
    assert (Sok : slice_ok ps pp && slice_ok cs cp = true).
    { unfold slice_ok. apply andb_true_iff; split; apply andb_true_iff; split; apply Z.leb_le; lia. }
    rewrite Sok. cbn [negb].
    set (mp := take pp ps). set (mc := take cp cs).
    set (more := (pp <? len ps) || (cp <? len cs)).
    destruct (xmit mp mc more) as [|mx ml|] eqn:EX.
    - (* the message reaches the plugin *)
      destruct (peer st mp mc more) as [st' r] eqn:EP.
      destruct r as [rp|].
      + destruct more eqn:EM; cbn [negb].
        * (* more to send *)
          destruct (negb (is_nil (r_update rp)) || negb (Bool.eqb (r_more rp) true)).
          -- cbn [sync_good]. unfold chunks_pods, chunks_ctrs. cbn [map concat fst snd peer_run]. rewrite !app_nil_r.
             split; [exists (drop pp ps), (drop cp cs); unfold mp, mc; rewrite !take_drop; split; reflexivity|].
             rewrite EP. reflexivity.
          -- assert (Hprog : 1 <= pp + cp).
             { unfold more in EM. apply orb_true_iff in EM. destruct EM as [E|E]; apply Z.ltb_lt in E.
               - destruct (Z.eq_dec pp 0) as [Z0|]; [|lia]. rewrite (Zp Z0) in E. cbn in E. lia.
               - destruct (Z.eq_dec cp 0) as [Z0|]; [|lia]. rewrite (Zc Z0) in E. cbn in E. lia. }
             rewrite <- (take_drop pp ps) at 1. rewrite <- (take_drop cp cs) at 1. fold mp mc.
             apply good_push with (st' := st') (rp := Some rp); [assumption|].
             pose proof (len_drop pp ps Hpp) as Lp. pose proof (len_drop cp cs Hcp) as Lc.
             apply IH.
             ++ unfold Inv. rewrite !clamp_spec, Lp, Lc.
                repeat split; try lia.
                ** intros E. apply len_nil_iff. destruct (Z.eq_dec pp 0) as [Z0|]; [|lia].
                   rewrite Lp. rewrite (Zp Z0). unfold len. cbn [length]. lia.
                ** intros E. apply len_nil_iff. destruct (Z.eq_dec cp 0) as [Z0|]; [|lia].
                   rewrite Lc. rewrite (Zc Z0). unfold len. cbn [length]. lia.
             ++ lia.
             ++ lia.
             ++ unfold measure. rewrite !clamp_spec, Lp, Lc. lia.
        * (* the last message *)
          cbn [sync_good]. unfold chunks_pods, chunks_ctrs, chunks_flags. cbn [map concat fst snd peer_run more_flags_ok negb]. rewrite !app_nil_r.
          unfold more in EM. apply orb_false_iff in EM. destruct EM as [E1 E2]. apply Z.ltb_ge in E1, E2.
          unfold mp, mc. rewrite !take_all by assumption. repeat split; try reflexivity.
          exists [Some rp], rp. fold mp mc in EP. unfold mp, mc in EP. rewrite !take_all in EP by assumption. rewrite EP.
          repeat split; reflexivity.
      + (* the plugin answered with an error *)
        cbn [sync_good]. unfold chunks_pods, chunks_ctrs. cbn [map concat fst snd peer_run]. rewrite !app_nil_r.
        split; [exists (drop pp ps), (drop cp cs); unfold mp, mc; rewrite !take_drop; split; reflexivity|].
        rewrite EP. reflexivity.
    - (* oversized: recalculate and retry *)
      pose proof (xmit_honest _ _ _ _ _ EX) as Hh.
      destruct (rc pp cp mx ml) as [[pp' cp']|] eqn:ER.
      + destruct (rc_dec pp cp mx ml pp' cp' ltac:(lia) ltac:(lia) Hh ER) as [P0 [C0 Dec]].
        destruct (rc_zero pp cp mx ml pp' cp' ltac:(lia) ltac:(lia) ER) as [PZ CZ].
        apply IH; try assumption.
        * unfold Inv. rewrite !clamp_spec. repeat split; try lia.
          -- intros E. destruct (Z.eq_dec pp' 0) as [Z0|]; [apply Zp, PZ, Z0|]. apply len_nil_iff. lia.
          -- intros E. destruct (Z.eq_dec cp' 0) as [Z0|]; [apply Zc, CZ, Z0|]. apply len_nil_iff. lia.
        * unfold measure. rewrite !clamp_spec. lia.
      + cbn [sync_good peer_run fst]. split; [|reflexivity]. exists ps, cs. split; reflexivity.
    - cbn [sync_good peer_run fst]. split; [|reflexivity]. exists ps, cs. split; reflexivity.
  Qed.

  Theorem synchronize_good pods ctrs st fuel :
    len pods <= K -> len ctrs <= K -> (sync_fuel pods ctrs <= fuel)%nat ->
    good pods ctrs st (synchronize xmit peer rc fuel pods ctrs st).
  Proof.
    intros Kp Kc Hf. unfold synchronize. apply loop_good; try assumption.
    - unfold Inv. pose proof (len_nonneg pods). pose proof (len_nonneg ctrs).
      repeat split; try lia; intros E; apply len_nil_iff; assumption.
    - unfold measure, sync_fuel, len in *. lia.
  Qed.
End Generic.

Arguments Inv {A B}. Arguments measure {A B}.

Lemma infix_take_of_suffix {X} (l0 pre l : list X) n : l0 = pre ++ l -> infix (take n l) l0.
Proof. intros ->. exists pre, (drop n l). rewrite take_drop. reflexivity. Qed.

Lemma outcome_ok_push {A B U PS} c (o : outcome A B U PS) : outcome_ok (push c o) = outcome_ok o.
Proof. destruct o; reflexivity. Qed.

(* ------------------------------------------------------------------ *)
(** * Delivery (interpretation I4), for any transport / plugin end / recalculation *)
Section Delivery.
  Variables A B U PS : Type.
  Variable xmit : list A -> list B -> bool -> xres.
  Variable peer : PS -> list A -> list B -> bool -> PS * option (reply U).
  Variable rc : Z -> Z -> Z -> Z -> option (Z * Z).
  Variables K M : Z.
  Variable pods0 : list A.
  Variable ctrs0 : list B.

  Hypothesis xmit_honest : forall mp mc more mx ml, xmit mp mc more = XOversize mx ml -> 0 < mx < ml.
  Hypothesis rc_dec : forall pp cp mx ml pp' cp',
    0 <= pp <= K -> 0 <= cp <= K -> 0 < mx < ml -> rc pp cp mx ml = Some (pp', cp') ->
    0 <= pp' /\ 0 <= cp' /\ pp' + cp' < pp + cp.
  Hypothesis rc_zero : forall pp cp mx ml pp' cp',
    0 <= pp -> 0 <= cp -> rc pp cp mx ml = Some (pp', cp') -> (pp' = 0 -> pp = 0) /\ (cp' = 0 -> cp = 0).
  (* rc gives up only at or below the minimum chunk *)
  Hypothesis rc_min : forall pp cp mx ml, 0 < mx < ml -> rc pp cp mx ml = None -> pp + cp <= M.
  (* the only transport error is the oversized-message error (time-outs are outside the model) *)
  Hypothesis xmit_no_other : forall mp mc more, xmit mp mc more <> XOther.
  (* the plugin end handles split requests and does not fail *)
  Hypothesis peer_ok : forall st mp mc,
    (exists st', peer st mp mc true = (st', Some {| r_more := true; r_update := [] |})) /\
    (exists st' rp, peer st mp mc false = (st', Some rp)).
  (* I4: every group of at most M objects - consecutive pods and consecutive containers -
     fits into one message *)
  Hypothesis min_fits : forall mp mc more,
    infix mp pods0 -> infix mc ctrs0 -> len mp + len mc <= M -> xmit mp mc more = XOk.

  Notation loop := (sync_loop xmit peer rc).

  Lemma loop_delivers : forall fuel ps cs pp cp st,
    Inv ps cs pp cp -> len ps <= K -> len cs <= K ->
    (exists pre, pods0 = pre ++ ps) -> (exists pre, ctrs0 = pre ++ cs) ->
    (Z.to_nat (measure ps cs pp cp) < fuel)%nat ->
    outcome_ok (loop fuel ps cs pp cp st) = true.
  Proof.
    induction fuel as [|fuel IH]; intros ps cs pp cp st HI Kp Kc [prp Sp] [prc Sc] Hf; [lia|].
    destruct HI as [Hpp [Hcp [Zp Zc]]]. unfold measure in Hf.
    cbn [sync_loop].
    assert (Sok : slice_ok ps pp && slice_ok cs cp = true).
    { unfold slice_ok. apply andb_true_iff; split; apply andb_true_iff; split; apply Z.leb_le; lia. }
    rewrite Sok. cbn [negb].
    set (mp := take pp ps). set (mc := take cp cs).
    set (more := (pp <? len ps) || (cp <? len cs)).
    destruct (xmit mp mc more) as [|mx ml|] eqn:EX.
    - destruct (peer_ok st mp mc) as [[st1 P1] [st2 [rp2 P2]]].
      destruct more eqn:EM.
      + rewrite P1. cbn [negb is_nil r_update r_more Bool.eqb orb].
        rewrite outcome_ok_push.
        assert (Hprog : 1 <= pp + cp).
        { unfold more in EM. apply orb_true_iff in EM. destruct EM as [E|E]; apply Z.ltb_lt in E.
          - destruct (Z.eq_dec pp 0) as [Z0|]; [|lia]. rewrite (Zp Z0) in E. cbn in E. lia.
          - destruct (Z.eq_dec cp 0) as [Z0|]; [|lia]. rewrite (Zc Z0) in E. cbn in E. lia. }
        pose proof (len_drop pp ps Hpp) as Lp. pose proof (len_drop cp cs Hcp) as Lc.
        apply IH.
        * unfold Inv. rewrite !clamp_spec, Lp, Lc. repeat split; try lia.
          -- intros E. apply len_nil_iff. destruct (Z.eq_dec pp 0) as [Z0|]; [|lia].
             rewrite Lp. rewrite (Zp Z0). unfold len. cbn [length]. lia.
          -- intros E. apply len_nil_iff. destruct (Z.eq_dec cp 0) as [Z0|]; [|lia].
             rewrite Lc. rewrite (Zc Z0). unfold len. cbn [length]. lia.
        * lia.
        * lia.
        * exists (prp ++ take pp ps). rewrite <- app_assoc, take_drop. assumption.
        * exists (prc ++ take cp cs). rewrite <- app_assoc, take_drop. assumption.
        * unfold measure. rewrite !clamp_spec, Lp, Lc. lia.
      + rewrite P2. reflexivity.
    - pose proof (xmit_honest _ _ _ _ _ EX) as Hh.
      destruct (rc pp cp mx ml) as [[pp' cp']|] eqn:ER.
      + destruct (rc_dec pp cp mx ml pp' cp' ltac:(lia) ltac:(lia) Hh ER) as [P0 [C0 Dec]].
        destruct (rc_zero pp cp mx ml pp' cp' ltac:(lia) ltac:(lia) ER) as [PZ CZ].
        apply IH; try assumption.
        * unfold Inv. rewrite !clamp_spec. repeat split; try lia.
          -- intros E. destruct (Z.eq_dec pp' 0) as [Z0|]; [apply Zp, PZ, Z0|]. apply len_nil_iff. lia.
          -- intros E. destruct (Z.eq_dec cp' 0) as [Z0|]; [apply Zc, CZ, Z0|]. apply len_nil_iff. lia.
        * exists prp; assumption.
        * exists prc; assumption.
        * unfold measure. rewrite !clamp_spec. lia.
      + (* rc gave up: the message was a minimum chunk, which fits by hypothesis *)
        exfalso. pose proof (rc_min _ _ _ _ Hh ER) as Hm.
        assert (XO : xmit mp mc more = XOk).
        { apply min_fits.
          - unfold mp. eapply infix_take_of_suffix; eassumption.
          - unfold mc. eapply infix_take_of_suffix; eassumption.
          - unfold mp, mc. rewrite !len_take by assumption. assumption. }
        congruence.
    - exfalso. eapply xmit_no_other; eassumption.
  Qed.

  Theorem synchronize_delivers st fuel :
    len pods0 <= K -> len ctrs0 <= K -> (sync_fuel pods0 ctrs0 <= fuel)%nat ->
    outcome_ok (synchronize xmit peer rc fuel pods0 ctrs0 st) = true.
  Proof.
    intros Kp Kc Hf. unfold synchronize. apply loop_delivers; try assumption.
    - unfold Inv. pose proof (len_nonneg pods0). pose proof (len_nonneg ctrs0).
      repeat split; try lia; intros E; apply len_nil_iff; assumption.
    - exists []. reflexivity.
    - exists []. reflexivity.
    - unfold measure, sync_fuel, len in *. lia.
  Qed.
End Delivery.

(* ------------------------------------------------------------------ *)
(** * Receiver: the stub calls the handler once with the concatenation *)
Section Receiver.
  Variables A B U : Type.
  Variable h : list A -> list B -> option (list U).
  Notation stub := (stub_sync (Some h)).

  Lemma stub_run_acc : forall (groups : list (list A * list B)) ap ac calls lp lc,
    peer_run stub {| ss_acc := Some (ap, ac); ss_calls := calls |} (more_msgs groups ++ [(lp, lc, false)]) =
    ({| ss_acc := None;
        ss_calls := calls ++ [(ap ++ concat (map fst groups) ++ lp, ac ++ concat (map snd groups) ++ lc)] |},
     map (fun _ => more_reply) groups ++
     [final_reply h (ap ++ concat (map fst groups) ++ lp) (ac ++ concat (map snd groups) ++ lc)]).
  Proof.
    induction groups as [|[gp gc] r IH]; intros ap ac calls lp lc.
    - cbn [more_msgs map concat app peer_run stub_sync stub_append ss_acc ss_calls]. unfold final_reply.
      destruct (h (ap ++ lp) (ac ++ lc)); reflexivity.
    - cbn [more_msgs map app peer_run stub_sync stub_append ss_acc ss_calls fst snd concat].
      fold (more_msgs r). rewrite IH. rewrite <- !app_assoc. reflexivity.
  Qed.

  Theorem receiver_concat : forall (groups : list (list A * list B)) lp lc,
    let all_pods := concat (map fst groups) ++ lp in
    let all_ctrs := concat (map snd groups) ++ lc in
    peer_run stub stub_init (more_msgs groups ++ [(lp, lc, false)]) =
    ({| ss_acc := None; ss_calls := [(all_pods, all_ctrs)] |},
     map (fun _ => more_reply) groups ++ [final_reply h all_pods all_ctrs]).
  Proof.
    intros groups lp lc. cbv zeta. destruct groups as [|[gp gc] r].
    - cbn [more_msgs map concat app peer_run stub_sync stub_append ss_acc ss_calls stub_init]. unfold final_reply.
      destruct (h lp lc); reflexivity.
    - cbn [more_msgs map app peer_run stub_sync stub_append ss_acc ss_calls stub_init fst snd concat].
      fold (more_msgs r). rewrite stub_run_acc. rewrite <- !app_assoc. reflexivity.
  Qed.

  (* a message sequence whose flags are "More ... More, last" is a split request *)
  Lemma flags_decompose : forall s : list (chunk A B),
    more_flags_ok (chunks_flags s) = true ->
    exists groups lp lc, s = more_msgs groups ++ [(lp, lc, false)].
  Proof.
    induction s as [|[[mp mc] more] r IH]; [discriminate|].
    unfold chunks_flags in *. cbn [map snd more_flags_ok].
    destruct r as [|c2 r2].
    - cbn [map]. intros E. apply negb_true_iff in E. subst more. exists [], mp, mc. reflexivity.
    - intros E. change (map (fun c : chunk A B => snd c) (c2 :: r2)) with (snd c2 :: map (fun c : chunk A B => snd c) r2) in E.
      cbn iota in E. apply andb_true_iff in E. destruct E as [-> E].
      destruct (IH E) as [g [lp [lc Eq]]]. exists ((mp, mc) :: g), lp, lc. rewrite Eq. reflexivity.
  Qed.

  Lemma chunks_of_split (groups : list (list A * list B)) lp lc :
    chunks_pods (more_msgs groups ++ [(lp, lc, false)]) = concat (map fst groups) ++ lp /\
    chunks_ctrs (more_msgs groups ++ [(lp, lc, false)]) = concat (map snd groups) ++ lc.
  Proof.
    unfold chunks_pods, chunks_ctrs, more_msgs. rewrite !map_app, !concat_app, !map_map. cbn [map concat fst snd].
    rewrite !app_nil_r. split; reflexivity.
  Qed.

  (* end to end: whatever way the sender split the state, a delivered synchronisation means
     the handler ran exactly once, on exactly the state, and its updates are what came back *)
  Theorem delivered_to_stub pods ctrs s u st' :
    sync_good stub pods ctrs stub_init (Delivered s u st') ->
    ss_calls st' = [(pods, ctrs)] /\ ss_acc st' = None /\ h pods ctrs = Some u.
  Proof.
    cbn [sync_good]. intros [Hp [Hc [Hf [rps [rp [Hr [Hl Hu]]]]]]].
    destruct (flags_decompose s Hf) as [g [lp [lc Es]]]. subst s.
    destruct (chunks_of_split g lp lc) as [Cp Cc]. rewrite Cp in Hp. rewrite Cc in Hc.
    rewrite receiver_concat in Hr. cbv zeta in Hr. rewrite Hp, Hc in Hr. inversion Hr; subst st' rps.
    cbn [ss_calls ss_acc]. repeat split.
    rewrite last_last in Hl. unfold final_reply in Hl. destruct (h pods ctrs) as [u'|]; [|discriminate].
    inversion Hl; subst rp. cbn in Hu. subst. reflexivity.
  Qed.

  (* the stub is a well-behaved plugin end when its handler does not fail *)
  Lemma stub_peer_ok : (forall ps cs, h ps cs <> None) ->
    forall st mp mc,
    (exists st', stub st mp mc true = (st', Some {| r_more := true; r_update := [] |})) /\
    (exists st' rp, stub st mp mc false = (st', Some rp)).
  Proof.
    intros Hh st mp mc. split.
    - eexists. reflexivity.
    - cbn [stub_sync]. destruct (stub_append (ss_acc st) mp mc) as [aps acs].
      destruct (h aps acs) eqn:E; [eexists; eexists; reflexivity|]. exfalso. eapply Hh; eassumption.
  Qed.

  (* ---- several connections of one stub value ---- *)

  (* a split request arriving at a stub that has collected nothing, whatever it delivered before *)
  Lemma stub_run_from_none : forall (groups : list (list A * list B)) calls lp lc,
    peer_run stub {| ss_acc := None; ss_calls := calls |} (more_msgs groups ++ [(lp, lc, false)]) =
    ({| ss_acc := None;
        ss_calls := calls ++ [(concat (map fst groups) ++ lp, concat (map snd groups) ++ lc)] |},
     map (fun _ => more_reply) groups ++
     [final_reply h (concat (map fst groups) ++ lp) (concat (map snd groups) ++ lc)]).
  Proof.
    intros groups calls lp lc. destruct groups as [|[gp gc] r].
    - cbn [more_msgs map concat app peer_run stub_sync stub_append ss_acc ss_calls]. unfold final_reply.
      destruct (h lp lc); reflexivity.
    - cbn [more_msgs map app peer_run stub_sync stub_append ss_acc ss_calls fst snd concat].
      fold (more_msgs r). rewrite stub_run_acc. rewrite <- !app_assoc. reflexivity.
  Qed.

  (* messages flagged More never reach the handler *)
  Lemma stub_more_calls : forall (groups : list (list A * list B)) st,
    ss_calls (fst (peer_run stub st (more_msgs groups))) = ss_calls st.
  Proof.
    induction groups as [|[gp gc] r IH]; intros st; [reflexivity|].
    cbn [more_msgs map peer_run stub_sync fst snd]. fold (more_msgs r).
    match goal with |- context [peer_run stub ?s (more_msgs r)] => specialize (IH s); destruct (peer_run stub s (more_msgs r)) as [s2 rps] end.
    cbn [fst ss_calls] in *. exact IH.
  Qed.

  (* one connection, starting with nothing collected: the handler is owed exactly
     session_delivery, and close leaves nothing collected behind *)
  Lemma session_step (st : stub_state A B) (s : session A B) :
    ss_acc st = None ->
    ss_calls (stub_session (Some h) true st (session_msgs s)) = ss_calls st ++ session_delivery s /\
    ss_acc (stub_session (Some h) true st (session_msgs s)) = None.
  Proof.
    destruct st as [acc calls]. cbn [ss_acc ss_calls]. intros ->.
    destruct s as [groups [lp lc|]]; unfold stub_session, session_msgs, session_delivery, stub_close; cbn [fst snd ss_acc ss_calls].
    - rewrite stub_run_from_none. cbn [fst ss_calls]. split; reflexivity.
    - rewrite app_nil_r, stub_more_calls, app_nil_r. cbn [ss_calls]. split; reflexivity.
  Qed.

  Lemma sessions_from : forall (ss : list (session A B)) (st : stub_state A B),
    ss_acc st = None ->
    ss_calls (stub_sessions (Some h) true st (map session_msgs ss)) = ss_calls st ++ flat_map session_delivery ss /\
    ss_acc (stub_sessions (Some h) true st (map session_msgs ss)) = None.
  Proof.
    induction ss as [|s r IH]; intros st Hn.
    - cbn [map stub_sessions fold_left flat_map]. rewrite app_nil_r. split; [reflexivity|exact Hn].
    - unfold stub_sessions in *. cbn [map fold_left flat_map].
      destruct (session_step st s Hn) as [Hc Ha].
      destruct (IH _ Ha) as [Hc2 Ha2]. rewrite Hc2, Hc, <- app_assoc. split; [reflexivity|exact Ha2].
  Qed.

  (* close() of the current stub.go discards the collected chunks *)
  Lemma close_resets : close_resets_sync = true.
  Proof. reflexivity. Qed.

  (* Over any sequence of connections of one stub value - each a split request that either
     ends with its last message or is cut off before it - the handler invocations are, in
     order, exactly the deliveries owed per connection: none for a connection cut off, one
     for a completed one, with the objects of that connection only. *)
  Theorem sessions_isolated (ss : list (session A B)) :
    ss_calls (stub_sessions (Some h) close_resets_sync stub_init (map session_msgs ss)) = flat_map session_delivery ss /\
    ss_acc (stub_sessions (Some h) close_resets_sync stub_init (map session_msgs ss)) = None.
  Proof. rewrite close_resets. exact (sessions_from ss stub_init eq_refl). Qed.

  (* the handler runs at most once per connection *)
  Lemma delivery_at_most_once (s : session A B) : (length (session_delivery s) <= 1)%nat.
  Proof. destruct s as [g [lp lc|]]; cbn; lia. Qed.

  Theorem sessions_isolated_full (ss : list (session A B)) :
    let st := stub_sessions (Some h) close_resets_sync stub_init (map session_msgs ss) in
    ss_calls st = flat_map session_delivery ss /\ ss_acc st = None /\
    (forall s, In s ss -> (length (session_delivery s) <= 1)%nat).
  Proof.
    cbv zeta. destruct (sessions_isolated ss) as [Hc Ha].
    split; [exact Hc|]. split; [exact Ha|]. intros s _. apply delivery_at_most_once.
  Qed.

  Lemma flat_map_closed (failed : list (list (list A * list B))) :
    flat_map session_delivery (map (fun g => (g, @SClosed A B)) failed) = [].
  Proof. induction failed as [|g r IH]; [reflexivity|]. cbn [map flat_map session_delivery snd app]. exact IH. Qed.

  (* any number of connections cut off after any chunks, then a completed one *)
  Theorem failed_then_delivered (failed : list (list (list A * list B))) (groups : list (list A * list B)) lp lc :
    ss_calls (stub_sessions (Some h) close_resets_sync stub_init
               (map session_msgs (map (fun g => (g, SClosed)) failed ++ [(groups, SFinal lp lc)]))) =
    [(concat (map fst groups) ++ lp, concat (map snd groups) ++ lc)].
  Proof.
    destruct (sessions_isolated (map (fun g => (g, SClosed)) failed ++ [(groups, SFinal lp lc)])) as [Hc _].
    rewrite Hc, flat_map_app, flat_map_closed. reflexivity.
  Qed.

  (* sender and receiver together, after a restart: whatever state [st] earlier connections
     left in the stub value (in particular the chunks of a synchronisation that failed half-way),
     after close a delivered synchronisation means exactly one more handler invocation, with
     exactly the runtime's state *)
  Theorem delivered_after_restart (st : stub_state A B) pods ctrs s u st' :
    sync_good stub pods ctrs (stub_close close_resets_sync st) (Delivered s u st') ->
    ss_calls st' = ss_calls st ++ [(pods, ctrs)] /\ ss_acc st' = None /\ h pods ctrs = Some u.
  Proof.
    rewrite close_resets. unfold stub_close. destruct st as [acc calls]. cbn [ss_acc ss_calls].
    intros [Hp [Hc [Hm [rps [rp [Hr [Hl Hu]]]]]]].
    destruct (flags_decompose s Hm) as [groups [lp [lc Es]]]. subst s.
    destruct (chunks_of_split groups lp lc) as [Ep Ec]. rewrite Ep in Hp. rewrite Ec in Hc.
    rewrite stub_run_from_none in Hr. rewrite Hp, Hc in Hr. inversion Hr; subst st' rps.
    cbn [ss_calls ss_acc]. repeat split.
    rewrite last_last in Hl. unfold final_reply in Hl. destruct (h pods ctrs) as [u'|]; [|discriminate].
    inversion Hl; subst rp. cbn in Hu. subst. reflexivity.
  Qed.
End Receiver.

(* without the reset in close() the statement is false: one chunk collected on a connection
   that is then lost shows up in the delivery of the next connection *)
Lemma sessions_no_reset_witness :
  ss_calls (stub_sessions (Some (fun (_ _ : list Z) => Some (@nil Z))) false stub_init
             (map session_msgs [([([1], [2])], SClosed); ([], SFinal [3] [4])])) = [([1; 3], [2; 4])].
Proof. reflexivity. Qed.

Theorem sessions_no_reset_refuted :
  exists (h : list Z -> list Z -> option (list Z)) (ss : list (session Z Z)),
    ss_calls (stub_sessions (Some h) false stub_init (map session_msgs ss)) <> flat_map session_delivery ss.
Proof.
  exists (fun _ _ => Some []), [([([1], [2])], SClosed); ([], SFinal [3] [4])].
  rewrite sessions_no_reset_witness. cbn. discriminate.
Qed.


(* ------------------------------------------------------------------ *)
(** * Registrations on one runtime are independent; a cap on the retries is wrong *)
Section Runtime.
  Variables A B U PS : Type.
  Variable xmit : list A -> list B -> bool -> xres.
  Variable peer : PS -> list A -> list B -> bool -> PS * option (reply U).
  Variable rc : Z -> Z -> Z -> Z -> option (Z * Z).

  (* the outcome of the registration at position j is the outcome of that registration alone, whatever
     was synchronised before (and after) it on the same runtime *)
  Theorem sync_independent fuel (before after : list (registration A B PS)) (r : registration A B PS) :
    nth_error (sync_all xmit peer rc fuel (before ++ r :: after)) (length before) = Some (sync_one xmit peer rc fuel r) /\
    length (sync_all xmit peer rc fuel (before ++ r :: after)) = S (length before + length after).
  Proof.
    unfold sync_all. split.
    - rewrite map_app. cbn [map]. rewrite nth_error_app2 by (rewrite map_length; lia).
      rewrite map_length, Nat.sub_diag. reflexivity.
    - rewrite map_length, app_length. cbn [length]. lia.
  Qed.

  (* the capped variant is the model as long as the cap is not reached *)
  Lemma capped_below_cap cap : forall fuel ps cs pp cp st retries,
    (retries + fuel <= cap)%nat ->
    sync_loop_capped xmit peer rc cap fuel ps cs pp cp st retries = sync_loop xmit peer rc fuel ps cs pp cp st.
  Proof.
    induction fuel as [|fuel IH]; intros ps cs pp cp st retries Hc; [reflexivity|].
    cbn [sync_loop_capped sync_loop]. destruct (negb (slice_ok ps pp && slice_ok cs cp)); [reflexivity|].
    destruct (xmit (take pp ps) (take cp cs) ((pp <? len ps) || (cp <? len cs))) as [|mx ml|]; [| |reflexivity].
    - destruct (peer st (take pp ps) (take cp cs) ((pp <? len ps) || (cp <? len cs))) as [st' [rp|]]; [|reflexivity].
      destruct (negb ((pp <? len ps) || (cp <? len cs))); [reflexivity|].
      destruct (negb (is_nil (r_update rp)) || negb (Bool.eqb (r_more rp) ((pp <? len ps) || (cp <? len cs)))); [reflexivity|].
      rewrite IH by lia. reflexivity.
    - replace (cap <? S retries)%nat with false by (symmetry; apply Nat.ltb_ge; lia).
      destruct (rc pp cp mx ml) as [[pp' cp']|]; [|reflexivity]. apply IH. lia.
  Qed.
End Runtime.

(* ------------------------------------------------------------------ *)
(** * One request per synchronize call
    For ANY transport, ANY plugin end, ANY recalculation function and ANY fuel (no hypothesis at all):
    nothing is sent after a message not flagged More.  The loop tries again only when the SENDING side
    rejected the message as oversized, i.e. when nothing was delivered. *)
Section OneRequest.
  Variables A B U PS : Type.
  Variable xmit : list A -> list B -> bool -> xres.
  Variable peer : PS -> list A -> list B -> bool -> PS * option (reply U).
  Variable rc : Z -> Z -> Z -> Z -> option (Z * Z).

  Lemma sent_of_push c (o : outcome A B U PS) : sent_of (push c o) = c :: sent_of o.
  Proof. destruct o; reflexivity. Qed.

  Lemma loop_no_resend : forall fuel ps cs pp cp st,
    no_resend (chunks_flags (sent_of (sync_loop xmit peer rc fuel ps cs pp cp st))) = true.
  Proof.
    induction fuel as [|fuel IH]; intros ps cs pp cp st; [reflexivity|].
    cbn [sync_loop]. destruct (negb (slice_ok ps pp && slice_ok cs cp)); [reflexivity|].
    destruct (xmit (take pp ps) (take cp cs) ((pp <? len ps) || (cp <? len cs))) as [|mx ml|].
    - destruct (peer st (take pp ps) (take cp cs) ((pp <? len ps) || (cp <? len cs))) as [st' [rp|]].
      + destruct ((pp <? len ps) || (cp <? len cs)); cbn [negb]; [|reflexivity].
        destruct (negb (is_nil (r_update rp)) || negb (Bool.eqb (r_more rp) true)); [reflexivity|].
        rewrite sent_of_push. unfold chunks_flags. cbn [map snd no_resend]. apply IH.
      + cbn [sent_of chunks_flags map snd no_resend]. destruct ((pp <? len ps) || (cp <? len cs)); reflexivity.
    - destruct (rc pp cp mx ml) as [[pp' cp']|]; [apply IH|reflexivity].
    - reflexivity.
  Qed.

  Theorem synchronize_no_resend fuel pods ctrs st :
    no_resend (chunks_flags (sent_of (synchronize xmit peer rc fuel pods ctrs st))) = true.
  Proof. apply loop_no_resend. Qed.
End OneRequest.

(* ------------------------------------------------------------------ *)
(** * The handler is invoked at most once per synchronize call, whatever it answers
    Sender against the stub, again for ANY transport, ANY recalculation function, ANY fuel. *)
Section HandlerOnce.
  Variables A B U : Type.
  Variable h : list A -> list B -> option (list U).
  Variable xmit : list A -> list B -> bool -> xres.
  Variable rc : Z -> Z -> Z -> Z -> option (Z * Z).
  Notation stub := (stub_sync (Some h)).

  (* what the stub has collected *)
  Definition acc_pods (acc : option (list A * list B)) : list A := match acc with Some (a, _) => a | None => [] end.
  Definition acc_ctrs (acc : option (list A * list B)) : list B := match acc with Some (_, c) => c | None => [] end.

  Lemma stub_append_acc acc ps cs : stub_append acc ps cs = (acc_pods acc ++ ps, acc_ctrs acc ++ cs).
  Proof. destruct acc as [[a c]|]; reflexivity. Qed.

  (* the handler's share of an outcome, starting from [calls] and what was collected *)
  Definition once_outcome (calls : list (list A * list B)) (allp : list A) (allc : list B)
      (o : outcome A B U (stub_state A B)) : Prop :=
    match o with
    | Delivered _ u st' =>
        ss_calls st' = calls ++ [(allp, allc)] /\ ss_acc st' = None /\ h allp allc = Some u
    | Failed why _ st' =>
        ss_calls st' = calls \/
        (why = FPeerErr /\ ss_calls st' = calls ++ [(allp, allc)] /\ ss_acc st' = None /\ h allp allc = None)
    | Panic _ | OutOfFuel _ => True
    end.

  Lemma once_outcome_push calls allp allc c o : once_outcome calls allp allc o -> once_outcome calls allp allc (push c o).
  Proof. destruct o; exact (fun H => H). Qed.

  Lemma loop_handler_once : forall fuel ps cs pp cp acc calls,
    once_outcome calls (acc_pods acc ++ ps) (acc_ctrs acc ++ cs)
      (sync_loop xmit stub rc fuel ps cs pp cp {| ss_acc := acc; ss_calls := calls |}).
  Proof.
    induction fuel as [|fuel IH]; intros ps cs pp cp acc calls; [exact I|].
    cbn [sync_loop]. destruct (slice_ok ps pp && slice_ok cs cp) eqn:Sok; cbn [negb]; [|exact I].
    apply andb_true_iff in Sok. destruct Sok as [Sp Sc]. unfold slice_ok in Sp, Sc.
    apply andb_true_iff in Sp. apply andb_true_iff in Sc. destruct Sp as [Sp0 Sp1]. destruct Sc as [Sc0 Sc1].
    apply Z.leb_le in Sp1. apply Z.leb_le in Sc1.
    destruct (xmit (take pp ps) (take cp cs) ((pp <? len ps) || (cp <? len cs))) as [|mx ml|].
    - destruct ((pp <? len ps) || (cp <? len cs)) eqn:EM.
      + (* flagged More: collected, answered with More and no updates, the loop goes on *)
        cbn [stub_sync ss_acc ss_calls r_update r_more is_nil negb Bool.eqb orb].
        apply once_outcome_push. rewrite (stub_append_acc acc (take pp ps) (take cp cs)).
        specialize (IH (drop pp ps) (drop cp cs) (clamp pp (drop pp ps)) (clamp cp (drop cp cs))
                       (Some (acc_pods acc ++ take pp ps, acc_ctrs acc ++ take cp cs)) calls).
        cbn [acc_pods acc_ctrs] in IH.
        rewrite <- !app_assoc, !take_drop in IH. exact IH.
      + (* the last message: everything that remained; the handler runs *)
        apply orb_false_iff in EM. destruct EM as [E1 E2]. apply Z.ltb_ge in E1, E2.
        rewrite !take_all by assumption.
        cbn [stub_sync ss_acc ss_calls]. rewrite stub_append_acc.
        destruct (h (acc_pods acc ++ ps) (acc_ctrs acc ++ cs)) as [u|] eqn:EH; cbn [negb once_outcome ss_calls ss_acc r_update].
        * repeat split; assumption.
        * right. repeat split; assumption.
    - destruct (rc pp cp mx ml) as [[pp' cp']|]; [apply IH|left; reflexivity].
    - left. reflexivity.
  Qed.

  Theorem handler_once_from (st : stub_state A B) fuel pods ctrs :
    ss_acc st = None ->
    once_outcome (ss_calls st) pods ctrs (synchronize xmit stub rc fuel pods ctrs st).
  Proof.
    destruct st as [acc calls]. cbn [ss_acc ss_calls]. intros ->.
    exact (loop_handler_once fuel pods ctrs (len pods) (len ctrs) None calls).
  Qed.
End HandlerOnce.

Arguments once_outcome {A B U}.

(* the same with the handler's errors spelled out: whatever error the handler returns - a gRPC status of
   any code, ResourceExhausted included, or any other error - and whatever earlier connections left in the
   stub value, after close() one synchronize call invokes the handler at most once, with exactly the
   runtime's state; if the handler fails, the synchronisation fails (the plugin is not activated) *)
Theorem handler_at_most_once {A B U} (he : list A -> list B -> list U + herror)
    (xmit : list A -> list B -> bool -> xres) (rc : Z -> Z -> Z -> Z -> option (Z * Z)) fuel pods ctrs (st : stub_state A B) :
  match synchronize xmit (stub_sync (Some (forget_error he))) rc fuel pods ctrs (stub_close close_resets_sync st) with
  | Delivered _ u st' => ss_calls st' = ss_calls st ++ [(pods, ctrs)] /\ he pods ctrs = inl u
  | Failed why _ st' =>
      ss_calls st' = ss_calls st \/
      (why = FPeerErr /\ ss_calls st' = ss_calls st ++ [(pods, ctrs)] /\ exists e, he pods ctrs = inr e)
  | Panic _ | OutOfFuel _ => True
  end.
Proof.
  pose proof (handler_once_from A B U (forget_error he) xmit rc (stub_close close_resets_sync st) fuel pods ctrs) as H.
  rewrite close_resets in *. specialize (H eq_refl). cbn [stub_close ss_calls] in H.
  destruct (synchronize xmit (stub_sync (Some (forget_error he))) rc fuel pods ctrs (stub_close true st)) as [s u st'|w s st'|s|s];
    cbn [once_outcome] in H; try exact I.
  - destruct H as [Hc [_ Hh]]. split; [exact Hc|]. unfold forget_error in Hh. destruct (he pods ctrs); [inversion Hh; reflexivity|discriminate].
  - destruct H as [Hc|[Hw [Hc [_ Hh]]]]; [left; exact Hc|right]. repeat split; try assumption.
    unfold forget_error in Hh. destruct (he pods ctrs) as [u|e]; [discriminate|exists e; reflexivity].
Qed.

(* ------------------------------------------------------------------ *)
(** * The concrete sender: recalcObjsPerSyncMsg, any honest transport *)
Theorem safety {A B U PS} (xmit : list A -> list B -> bool -> xres)
    (peer : PS -> list A -> list B -> bool -> PS * option (reply U)) pods ctrs st fuel :
  honest xmit -> len pods < 2 ^ 53 -> len ctrs < 2 ^ 53 -> (sync_fuel pods ctrs <= fuel)%nat ->
  sync_good peer pods ctrs st (synchronize xmit peer recalc fuel pods ctrs st).
Proof.
  intros Hx Lp Lc Hf.
  apply synchronize_good with (K := count_bound); try assumption; try (unfold count_bound; lia).
  - intros. eapply recalc_dec; eassumption.
  - intros. eapply recalc_zero; eassumption.
Qed.

(* the loop started from ANY counts that are legal slices and are 0 only for an exhausted list is as good
   as started from the whole state; counts remembered from another synchronisation need not be such *)
Theorem start_counts_safe {A B U PS} (xmit : list A -> list B -> bool -> xres)
    (peer : PS -> list A -> list B -> bool -> PS * option (reply U)) ps cs pp cp st fuel :
  honest xmit -> Inv ps cs pp cp -> len ps < 2 ^ 53 -> len cs < 2 ^ 53 ->
  (Z.to_nat (measure ps cs pp cp) < fuel)%nat ->
  sync_good peer ps cs st (sync_loop xmit peer recalc fuel ps cs pp cp st).
Proof.
  intros Hx HI Lp Lc Hf.
  apply loop_good with (K := count_bound); try assumption; try (unfold count_bound; lia).
  - intros. eapply recalc_dec; eassumption.
  - intros. eapply recalc_zero; eassumption.
Qed.

Theorem delivers {A B U PS} (xmit : list A -> list B -> bool -> xres)
    (peer : PS -> list A -> list B -> bool -> PS * option (reply U)) pods ctrs st fuel :
  honest xmit -> (forall mp mc more, xmit mp mc more <> XOther) ->
  (forall st mp mc,
     (exists st', peer st mp mc true = (st', Some {| r_more := true; r_update := [] |})) /\
     (exists st' rp, peer st mp mc false = (st', Some rp))) ->
  (forall mp mc more, infix mp pods -> infix mc ctrs -> len mp + len mc <= min_objs_per_msg -> xmit mp mc more = XOk) ->
  len pods < 2 ^ 53 -> len ctrs < 2 ^ 53 -> (sync_fuel pods ctrs <= fuel)%nat ->
  exists s u st', synchronize xmit peer recalc fuel pods ctrs st = Delivered s u st'.
Proof.
  intros Hx Ho Hp Hm Lp Lc Hf.
  assert (E : outcome_ok (synchronize xmit peer recalc fuel pods ctrs st) = true).
  { apply synchronize_delivers with (K := count_bound) (M := min_objs_per_msg); try assumption; try (unfold count_bound; lia).
    - intros. eapply recalc_dec; eassumption.
    - intros. eapply recalc_zero; eassumption.
    - intros. eapply recalc_min; eassumption. }
  destruct (synchronize xmit peer recalc fuel pods ctrs st) as [s u st'| | |]; try discriminate.
  exists s, u, st'. reflexivity.
Qed.

(* ------------------------------------------------------------------ *)
(** * The size-based transport *)
Lemma xmit_size_honest {A B} (wa : A -> Z) (wb : B -> Z) hdr more_cost L : 0 < L -> honest (xmit_size wa wb hdr more_cost L).
Proof.
  intros HL mp mc more mx ml. unfold xmit_size.
  destruct (Z.leb_spec (msg_len hdr (payload_len wa wb more_cost mp mc more)) L); [discriminate|].
  intros E; inversion E; subst. lia.
Qed.

Lemma xmit_size_no_other {A B} (wa : A -> Z) (wb : B -> Z) hdr more_cost L mp mc more :
  xmit_size wa wb hdr more_cost L mp mc more <> XOther.
Proof. unfold xmit_size. destruct (_ <=? L); discriminate. Qed.

Lemma varint_len_mono a b : a <= b -> varint_len a <= varint_len b.
Proof.
  intros H. unfold varint_len.
  repeat match goal with |- context [?x <? ?y] => destruct (Z.ltb_spec x y) end; lia.
Qed.

Lemma varint_len_pos a : 1 <= varint_len a.
Proof. unfold varint_len. repeat match goal with |- context [?x <? ?y] => destruct (Z.ltb_spec x y) end; lia. Qed.

Lemma msg_len_mono hdr a b : a <= b -> msg_len hdr a <= msg_len hdr b.
Proof.
  intros H. unfold msg_len. pose proof (varint_len_mono a b H). pose proof (varint_len_pos b).
  destruct (Z.leb_spec a 0); destruct (Z.leb_spec b 0); lia.
Qed.

Lemma max_window_head a ws : sumZ (firstn a ws) <= max_window a ws.
Proof. destruct ws; cbn [max_window]; [rewrite firstn_nil; cbn; lia|lia]. Qed.

Lemma max_window_suffix a pre ws : max_window a ws <= max_window a (pre ++ ws).
Proof. induction pre as [|x r IH]; cbn [app max_window]; lia. Qed.

Lemma max_window_infix (m l : list Z) : infix m l -> sumZ m <= max_window (length m) l.
Proof.
  intros [pre [post ->]]. apply Z.le_trans with (2 := max_window_suffix _ pre _).
  apply Z.le_trans with (2 := max_window_head _ _).
  rewrite firstn_app, Nat.sub_diag, firstn_all. cbn [firstn]. rewrite app_nil_r. lia.
Qed.

Lemma infix_map {X Y} (f : X -> Y) m l : infix m l -> infix (map f m) (map f l).
Proof. intros [pre [post ->]]. exists (map f pre), (map f post). rewrite !map_app. reflexivity. Qed.

Lemma in_shapes a b m : Z.of_nat a + Z.of_nat b <= m -> In (a, b) (shapes m).
Proof.
  intros H. unfold shapes. apply in_flat_map. exists a. split; [apply in_seq; lia|].
  apply in_map_iff. exists b. split; [reflexivity|]. apply in_seq. lia.
Qed.

(* the boolean of Spec/SyncSpec.v implies interpretation I4 for the size-based transport *)
Lemma min_chunks_fit_sound {A B} (wa : A -> Z) (wb : B -> Z) hdr more_cost L pods ctrs :
  min_chunks_fit hdr more_cost L (map wa pods) (map wb ctrs) = true ->
  forall mp mc more, infix mp pods -> infix mc ctrs -> len mp + len mc <= min_objs_per_msg ->
  xmit_size wa wb hdr more_cost L mp mc more = XOk.
Proof.
  unfold min_chunks_fit. intros E mp mc more Ip Ic Hl. apply andb_true_iff in E. destruct E as [E0 E].
  apply Z.leb_le in E0. rewrite forallb_forall in E.
  specialize (E (length mp, length mc) (in_shapes _ _ _ Hl)). cbn [fst snd] in E. apply Z.leb_le in E.
  pose proof (max_window_infix _ _ (infix_map wa _ _ Ip)) as Wp. rewrite map_length in Wp.
  pose proof (max_window_infix _ _ (infix_map wb _ _ Ic)) as Wc. rewrite map_length in Wc.
  unfold xmit_size.
  assert (Hpl : payload_len wa wb more_cost mp mc more <=
                max_window (length mp) (map wa pods) + max_window (length mc) (map wb ctrs) + more_cost).
  { unfold payload_len. destruct more; lia. }
  pose proof (msg_len_mono hdr _ _ Hpl).
  destruct (Z.leb_spec (msg_len hdr (payload_len wa wb more_cost mp mc more)) L); [reflexivity|lia].
Qed.

Theorem safety_sizes {A B U PS} (wa : A -> Z) (wb : B -> Z) hdr more_cost L
    (peer : PS -> list A -> list B -> bool -> PS * option (reply U)) pods ctrs st fuel :
  0 < L -> len pods < 2 ^ 53 -> len ctrs < 2 ^ 53 -> (sync_fuel pods ctrs <= fuel)%nat ->
  sync_good peer pods ctrs st (synchronize (xmit_size wa wb hdr more_cost L) peer recalc fuel pods ctrs st).
Proof. intros HL. apply safety. apply xmit_size_honest. assumption. Qed.

(* against a stub whose handler does not fail: delivered whenever the minimum chunks fit,
   the handler invoked exactly once with exactly the state, its updates returned *)
Theorem delivers_sizes {A B U} (wa : A -> Z) (wb : B -> Z) hdr more_cost L
    (h : list A -> list B -> option (list U)) pods ctrs fuel :
  0 < L -> (forall ps cs, h ps cs <> None) ->
  min_chunks_fit hdr more_cost L (map wa pods) (map wb ctrs) = true ->
  len pods < 2 ^ 53 -> len ctrs < 2 ^ 53 -> (sync_fuel pods ctrs <= fuel)%nat ->
  exists s u st',
    synchronize (xmit_size wa wb hdr more_cost L) (stub_sync (Some h)) recalc fuel pods ctrs stub_init = Delivered s u st' /\
    chunks_pods s = pods /\ chunks_ctrs s = ctrs /\
    ss_calls st' = [(pods, ctrs)] /\ h pods ctrs = Some u.
Proof.
  intros HL Hh Hfit Lp Lc Hf.
  destruct (delivers (xmit_size wa wb hdr more_cost L) (stub_sync (Some h)) pods ctrs stub_init fuel) as [s [u [st' E]]];
    try assumption.
  - apply xmit_size_honest; assumption.
  - intros. apply xmit_size_no_other.
  - apply stub_peer_ok. assumption.
  - apply min_chunks_fit_sound. assumption.
  - exists s, u, st'. split; [assumption|].
    pose proof (safety_sizes wa wb hdr more_cost L (stub_sync (Some h)) pods ctrs stub_init fuel HL Lp Lc Hf) as G.
    rewrite E in G. pose proof (delivered_to_stub _ _ _ h pods ctrs s u st' G) as [C [_ Hu]].
    cbn [sync_good] in G. destruct G as [Gp [Gc _]]. repeat split; assumption.
Qed.

(* ------------------------------------------------------------------ *)
(** * Activation bookkeeping *)
Section ActivationProofs.
  Variable P : Type.
  Variable sort_plugins : list P -> list P.
  Hypothesis sort_mem : forall l x, In x (sort_plugins l) <-> In x l.

  Lemma accept_failed propagates active (p : P) :
    propagates = true -> accept_external sort_plugins propagates active p false = active.
  Proof. intros ->. reflexivity. Qed.

  Lemma accept_ok propagates active (p : P) : In p (accept_external sort_plugins propagates active p true).
  Proof. unfold accept_external, syncfn_result. cbn [orb]. apply sort_mem. apply in_or_app. right. left. reflexivity. Qed.

  Lemma sync_plugins_spec (sync_ok : P -> bool) : forall started plugins x,
    In x (sync_plugins sync_ok started plugins) <-> In x plugins \/ (In x started /\ sync_ok x = true).
  Proof.
    induction started as [|p r IH]; intros plugins x; cbn [sync_plugins].
    - cbn. tauto.
    - destruct (sync_ok p) eqn:E; rewrite IH; [rewrite in_app_iff|]; cbn [In]; intuition (subst; auto; try congruence).
  Qed.

  Lemma start_plugins_spec (sync_ok : P -> bool) started x :
    In x (start_plugins sort_plugins sync_ok started) <-> In x started /\ sync_ok x = true.
  Proof. unfold start_plugins. rewrite sort_mem, sync_plugins_spec. cbn [In]. tauto. Qed.
End ActivationProofs.

(* a plugin whose synchronize did not deliver is not activated (the runtime's SyncFn
   returning the error it is handed); one whose synchronize delivered is *)
Theorem failed_not_activated {A B U PS P} (sort_plugins : list P -> list P) (o : outcome A B U PS) active p :
  (forall l x, In x (sort_plugins l) <-> In x l) ->
  (outcome_ok o = false -> ~ In p active -> ~ In p (accept_external sort_plugins true active p (outcome_ok o))) /\
  (outcome_ok o = true -> In p (accept_external sort_plugins true active p (outcome_ok o))).
Proof.
  intros Hs. split.
  - intros -> Hn. rewrite accept_failed by reflexivity. assumption.
  - intros ->. apply accept_ok. assumption.
Qed.

Theorem preinstalled_failed_not_activated {P} (sort_plugins : list P -> list P) (sync_ok : P -> bool) started p :
  (forall l x, In x (sort_plugins l) <-> In x l) ->
  (In p (start_plugins sort_plugins sync_ok started) <-> In p started /\ sync_ok p = true).
Proof. intros Hs. apply start_plugins_spec. assumption. Qed.

(* ------------------------------------------------------------------ *)
(** * A stub without a Synchronize handler
    stub.Synchronize answers every message itself with the More flag it was sent and no updates: for ANY
    transport, recalculation function and fuel the registration goes exactly as with a plugin whose
    handler returns no updates - same messages, same outcome, no updates - and no handler is invoked. *)
Section NoHandler.
  Variables A B U : Type.
  Variable xmit : list A -> list B -> bool -> xres.
  Variable rc : Z -> Z -> Z -> Z -> option (Z * Z).
  Notation bare := (stub_sync (A := A) (B := B) (U := U) None).
  Notation quiet := (stub_sync (A := A) (B := B) (U := U) (Some (fun _ _ => Some []))).

  Definition nh_rel (st1 : stub_state A B) (o1 o2 : outcome A B U (stub_state A B)) : Prop :=
    same_outcome o1 o2 /\ (forall st, final_state o1 = Some st -> st = st1).

  Lemma nh_rel_push st1 c o1 o2 : nh_rel st1 o1 o2 -> nh_rel st1 (push c o1) (push c o2).
  Proof.
    unfold nh_rel. destruct o1, o2; cbn [push same_outcome final_state]; try tauto.
    - intros [[-> ->] H2]. repeat split; assumption.
    - intros [[-> ->] H2]. repeat split; assumption.
    - intros [-> H]. split; [reflexivity|exact H].
    - intros [-> H]. split; [reflexivity|exact H].
  Qed.

  Lemma loop_no_handler : forall fuel ps cs pp cp st1 st2,
    nh_rel st1 (sync_loop xmit bare rc fuel ps cs pp cp st1) (sync_loop xmit quiet rc fuel ps cs pp cp st2).
  Proof.
    induction fuel as [|fuel IH]; intros ps cs pp cp st1 st2.
    - unfold nh_rel. cbn. repeat split; try discriminate; tauto.
    - cbn [sync_loop]. destruct (negb (slice_ok ps pp && slice_ok cs cp)).
      { unfold nh_rel. cbn. repeat split; try discriminate; tauto. }
      destruct (xmit (take pp ps) (take cp cs) ((pp <? len ps) || (cp <? len cs))) as [|mx ml|].
      + destruct ((pp <? len ps) || (cp <? len cs)) eqn:EM.
        * cbn [stub_sync r_update r_more is_nil negb Bool.eqb orb]. apply nh_rel_push. apply IH.
        * cbn [stub_sync]. destruct (stub_append (ss_acc st2) (take pp ps) (take cp cs)) as [aps acs].
          cbn [negb r_update]. unfold nh_rel. cbn [same_outcome final_state].
          repeat split; try reflexivity.
          intros st E. inversion E. reflexivity.
      + destruct (rc pp cp mx ml) as [[pp' cp']|]; [apply IH|].
        unfold nh_rel. cbn [same_outcome final_state]. repeat split; try tauto. intros st E. inversion E. reflexivity.
      + unfold nh_rel. cbn [same_outcome final_state]. repeat split; try tauto. intros st E. inversion E. reflexivity.
  Qed.

  Theorem no_handler_same_outcome fuel pods ctrs (st1 st2 : stub_state A B) :
    same_outcome (synchronize xmit bare rc fuel pods ctrs st1) (synchronize xmit quiet rc fuel pods ctrs st2) /\
    (forall st, final_state (synchronize xmit bare rc fuel pods ctrs st1) = Some st -> st = st1).
  Proof.
    destruct (loop_no_handler fuel pods ctrs (len pods) (len ctrs) st1 st2) as [H1 H2]. split; assumption.
  Qed.
End NoHandler.

(* ------------------------------------------------------------------ *)
(** * A cap on the retries is wrong: the witness *)
(* one large object followed by 20000 objects of one byte; eight objects fit into a message (so
   delivery is owed, I4), nine do not when the large one is among them *)
Definition cap_witness : list Z := 400000 :: repeat 1 (Z.to_nat 20000).
Definition cap_limit : Z := 400062.
Definition cap_h : list Z -> list Z -> option (list Z) := fun _ _ => Some [].

Lemma cap_witness_fits : min_chunks_fit 49 2 cap_limit (map id (@nil Z)) (map id cap_witness) = true.
Proof. vm_compute. reflexivity. Qed.

Lemma cap_witness_delivered :
  outcome_ok (synchronize (xmit_size id id 49 2 cap_limit) (stub_sync (Some cap_h)) recalc (sync_fuel (@nil Z) cap_witness) [] cap_witness stub_init) = true.
Proof.
  (* not by running the 2501 messages: delivery is owed (I4) and C09_delivers_sizes says it happens *)
  destruct (delivers_sizes id id 49 2 cap_limit cap_h [] cap_witness (sync_fuel (@nil Z) cap_witness)) as [s [u [st' [E _]]]].
  - reflexivity.
  - intros ps cs. discriminate.
  - exact cap_witness_fits.
  - reflexivity.
  - unfold cap_witness, len. cbn [length]. rewrite repeat_length. reflexivity.
  - apply Nat.le_refl.
  - rewrite E. reflexivity.
Qed.

Lemma cap_witness_refused cap : In cap [8; 16; 32; 64]%nat ->
  outcome_ok (synchronize_capped (xmit_size id id 49 2 cap_limit) (stub_sync (Some cap_h)) recalc cap
                                 (sync_fuel (@nil Z) cap_witness) [] cap_witness stub_init) = false.
Proof. intros [<-|[<-|[<-|[<-|[]]]]]; vm_compute; reflexivity. Qed.

Theorem retry_cap_refuted : forall cap, In cap [8; 16; 32; 64]%nat ->
  exists (ws : list Z) (L : Z),
    0 < L /\ min_chunks_fit 49 2 L (map id (@nil Z)) (map id ws) = true /\
    outcome_ok (synchronize (xmit_size id id 49 2 L) (stub_sync (Some cap_h)) recalc (sync_fuel (@nil Z) ws) [] ws stub_init) = true /\
    outcome_ok (synchronize_capped (xmit_size id id 49 2 L) (stub_sync (Some cap_h)) recalc cap (sync_fuel (@nil Z) ws) [] ws stub_init) = false.
Proof.
  intros cap Hin. exists cap_witness, cap_limit.
  split; [reflexivity|]. split; [exact cap_witness_fits|]. split; [exact cap_witness_delivered|].
  exact (cap_witness_refused cap Hin).
Qed.

