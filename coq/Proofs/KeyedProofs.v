(* The keyed list families (mounts, devices, environment): one kernel, proved once.
   kstep (Model/Result.v: adjustMounts / adjustDevices / adjustEnv) preserves, for every plugin
   response: (1) the container shown to plugins IS the reference semantics applied to what was shown
   before; (2) the reply accumulated so far, handed to the reference semantics as ONE adjustment of the
   original, yields (as a map on unmarked keys) exactly what is shown; (3) the ledger holds a key of
   this family iff the reply carries a set for it. *)
From Coq Require Import String Ascii List Bool ZArith Arith Lia.
From NRI Require Import Base.Lists Base.Strs Base.Assoc Model.Types Model.Result Spec.Apply.
Import ListNotations.
Open Scope string_scope.
Open Scope list_scope.

Section KP.
Variables (E W : Type) (ekey : E -> string) (wkey : W -> string) (inj : E -> W) (mk : string -> item).
(* entries for which entering the container preserves the key (all mounts and devices; environment
   entries whose name has no '=') *)
Variable good : E -> Prop.
Hypothesis inj_key : forall e, good e -> marked (ekey e) = false -> wkey (inj e) = ekey e.
Hypothesis mk_inj : forall a b, mk a = mk b -> a = b.

Notation dels := (k_dels ekey).
Notation adds := (k_adds ekey).
Notation mods := (k_mods ekey).
Notation lone := (k_lone ekey).

(* the reference and the model use the same splitting of a response *)
Lemma r_dels_eq es : r_dels ekey es = dels es. Proof. reflexivity. Qed.
Lemma r_adds_eq es : r_adds ekey es = adds es. Proof. reflexivity. Qed.
Lemma r_mods_eq es : r_mods ekey es = mods es. Proof. reflexivity. Qed.

(* ---- kfind lemmas ---- *)
Lemma kfind_app {A} (key : A -> string) k l1 l2 :
  kfind key k (l1 ++ l2) = match kfind key k l1 with Some v => Some v | None => kfind key k l2 end.
Proof. induction l1 as [|x r IH]; simpl; [reflexivity|]. destruct (String.eqb k (key x)); [reflexivity|exact IH]. Qed.

Lemma kfind_filter_key {A} (key : A -> string) k (p : string -> bool) l :
  kfind key k (filter (fun e => p (key e)) l) = if p k then kfind key k l else None.
Proof.
  induction l as [|x r IH].
  - simpl. destruct (p k); reflexivity.
  - cbn [filter]. destruct (p (key x)) eqn:Hp.
    + cbn [kfind]. destruct (String.eqb_spec k (key x)) as [->|Hne]; [rewrite Hp; reflexivity|exact IH].
    + cbn [kfind]. destruct (String.eqb_spec k (key x)) as [->|Hne]; [rewrite IH, Hp; reflexivity|exact IH].
Qed.

Lemma kfind_None_notin {A} (key : A -> string) k l : kfind key k l = None <-> ~ In k (map key l).
Proof.
  induction l as [|x r IH]; simpl; [tauto|].
  destruct (String.eqb_spec k (key x)) as [->|Hne]; split; intros H; try discriminate.
  - exfalso. apply H. left. reflexivity.
  - intros [He|Hi]; [congruence|apply IH in H; contradiction].
  - apply IH. intros Hi. apply H. right. exact Hi.
Qed.

Lemma kfind_Some_key {A} (key : A -> string) k l x : kfind key k l = Some x -> key x = k /\ In x l.
Proof.
  induction l as [|y r IH]; simpl; [discriminate|].
  destruct (String.eqb_spec k (key y)) as [->|Hne].
  - intros H. inversion H; subst. split; [reflexivity|left; reflexivity].
  - intros H. destruct (IH H) as [H1 H2]. split; [exact H1|right; exact H2].
Qed.

Lemma adds_unmarked es e : In e (adds es) -> marked (ekey e) = false.
Proof. unfold k_adds. rewrite filter_In. intros [_ H]. apply negb_true_iff in H. exact H. Qed.

Lemma kfind_map_inj k l :
  (forall e, In e l -> good e /\ marked (ekey e) = false) ->
  kfind wkey k (map inj l) = option_map inj (kfind ekey k l).
Proof.
  induction l as [|x r IH]; intros Hu; [reflexivity|].
  cbn [map kfind]. destruct (Hu x (or_introl eq_refl)) as [Hg Hm]. rewrite (inj_key x Hg Hm).
  destruct (String.eqb k (ekey x)); [reflexivity|]. apply IH. intros e He. apply Hu. right. exact He.
Qed.

Lemma adds_good es : (forall e, In e es -> good e) -> forall e, In e (adds es) -> good e /\ marked (ekey e) = false.
Proof.
  intros Hg e He. split; [|apply (adds_unmarked es); exact He].
  apply Hg. unfold k_adds in He. apply filter_In in He. tauto.
Qed.

Lemma adds_app a b : adds (a ++ b) = adds a ++ adds b.
Proof. unfold k_adds. apply filter_app. Qed.
Lemma dels_app a b : dels (a ++ b) = dels a ++ dels b.
Proof. unfold k_dels. rewrite filter_app, map_app. reflexivity. Qed.
Lemma mods_app a b : mods (a ++ b) = mods a ++ mods b.
Proof. unfold k_mods. rewrite adds_app, map_app. reflexivity. Qed.
Lemma adds_idem es : adds (adds es) = adds es.
Proof.
  unfold k_adds. induction es as [|e r IH]; simpl; [reflexivity|].
  destruct (negb (marked (ekey e))) eqn:H; simpl; [rewrite H, IH|]; auto.
Qed.
Lemma dels_adds es : dels (adds es) = [].
Proof.
  unfold k_dels, k_adds. induction es as [|e r IH]; simpl; [reflexivity|].
  destruct (marked (ekey e)) eqn:H; simpl; [exact IH|rewrite H; exact IH].
Qed.
Lemma adds_filter_key (p : string -> bool) R :
  adds (filter (fun e => p (ekey e)) R) = filter (fun e => p (ekey e)) (adds R).
Proof.
  unfold k_adds. induction R as [|e r IH]; simpl; [reflexivity|].
  destruct (p (ekey e)) eqn:Hp; destruct (marked (ekey e)) eqn:Hm; simpl; rewrite ?Hp, ?Hm; simpl; rewrite ?IH; reflexivity.
Qed.
Lemma adds_lone_nil es : adds (lone es) = [].
Proof.
  unfold k_lone, k_adds. generalize (k_mods ekey es) as m. intros m.
  induction es as [|e r IH]; simpl; [reflexivity|].
  destruct (marked (ekey e)) eqn:Hm; simpl; [|exact IH].
  destruct (negb (smem _ m)); simpl; [rewrite Hm; simpl|]; exact IH.
Qed.

(* the semantic reading of a reply handed to the reference semantics as ONE adjustment *)
Definition sem (orig : list W) (R : list E) (k : string) : option W :=
  kfind wkey k (apply_keyed ekey wkey inj orig R).

Lemma sem_char orig R k :
  (forall e, In e R -> good e) ->
  sem orig R k = match kfind ekey k (adds R) with
                 | Some e => Some (inj e)
                 | None => if smem k (dels R) then None else kfind wkey k orig
                 end.
Proof.
  intros HgR. unfold sem, apply_keyed. rewrite kfind_app, r_dels_eq, r_mods_eq, r_adds_eq.
  rewrite (kfind_filter_key wkey k (fun x => negb (smem x (dels R)) && negb (smem x (mods R)))).
  rewrite kfind_map_inj by (apply adds_good; exact HgR).
  destruct (kfind ekey k (adds R)) as [e|] eqn:Ha.
  - assert (Hm : smem k (mods R) = true).
    { apply smem_In. unfold k_mods. destruct (kfind_Some_key _ _ _ _ Ha) as [<- Hin]. apply in_map. exact Hin. }
    rewrite Hm, andb_false_r. reflexivity.
  - assert (Hm : smem k (mods R) = false).
    { apply smem_false_notin. apply kfind_None_notin in Ha. exact Ha. }
    rewrite Hm, andb_true_r. destruct (smem k (dels R)); simpl; [reflexivity|]. destruct (kfind wkey k orig); reflexivity.
Qed.

(* ---- well-formedness of one response (W2, W7) ---- *)
Definition wf_resp (es : list E) : Prop :=
  (forall e, In e es -> marked (rawkey (ekey e)) = false /\ good e) /\ NoDup (mods es).

Lemma In_dels_unmarked es k : (forall e, In e es -> marked (rawkey (ekey e)) = false) -> In k (dels es) -> marked k = false.
Proof.
  intros H Hk. unfold k_dels in Hk. apply in_map_iff in Hk. destruct Hk as [e [<- He]].
  apply filter_In in He. apply H. tauto.
Qed.

(* markers survive a filter that drops only unmarked keys *)
Lemma dels_filter_unmarked (d : list string) (R : list E) :
  (forall x, In x d -> marked x = false) ->
  dels (filter (fun e => negb (smem (ekey e) d)) R) = dels R.
Proof.
  intros Hd. unfold k_dels. induction R as [|e r IH]; simpl; [reflexivity|].
  destruct (marked (ekey e)) eqn:Hm.
  - assert (Hn : smem (ekey e) d = false).
    { destruct (smem (ekey e) d) eqn:H; [|reflexivity]. apply smem_In in H. apply Hd in H. congruence. }
    rewrite Hn. simpl. rewrite Hm. simpl. f_equal. exact IH.
  - destruct (negb (smem (ekey e) d)); simpl; rewrite ?Hm; exact IH.
Qed.

Lemma smem_dels_lone es k :
  smem k (dels (lone es)) = smem k (dels es) && negb (smem k (mods es)).
Proof.
  unfold k_lone, k_dels. generalize (mods es) as m. intros m. induction es as [|e r IH]; [reflexivity|].
  cbn [filter]. destruct (marked (ekey e)) eqn:Hm; cbn [andb].
  - destruct (smem (rawkey (ekey e)) m) eqn:Hr; cbn [negb filter map].
    + rewrite IH, smem_cons. destruct (String.eqb_spec k (rawkey (ekey e))) as [->|]; cbn [orb]; [|reflexivity].
      rewrite Hr. cbn [negb]. rewrite !andb_false_r. reflexivity.
    + rewrite Hm. cbn [map]. rewrite !smem_cons, IH.
      destruct (String.eqb_spec k (rawkey (ekey e))) as [->|]; cbn [orb]; [|reflexivity].
      rewrite Hr. reflexivity.
  - exact IH.
Qed.

(* ---- ledger lemmas ---- *)
Lemma lmem_cons k x o : lmem k (x :: o) = lkey_eqb k x || lmem k o.
Proof. reflexivity. Qed.

Lemma lmem_lremove k x o : lmem k (lremove x o) = lmem k o && negb (lkey_eqb x k).
Proof.
  unfold lmem, lremove. induction o as [|y r IH]; simpl; [reflexivity|].
  destruct (lkey_eqb_spec x y) as [->|Hxy]; simpl.
  - rewrite IH. destruct (lkey_eqb_spec k y) as [->|Hky]; simpl.
    + destruct (lkey_eqb_spec y y); [|contradiction]. simpl. rewrite andb_false_r. reflexivity.
    + reflexivity.
  - rewrite IH. destruct (lkey_eqb_spec k y) as [->|Hky]; simpl.
    + destruct (lkey_eqb_spec x y); [contradiction|]. reflexivity.
    + reflexivity.
Qed.

Lemma lkey_eqb_mk id a b : lkey_eqb (id, mk a) (id, mk b) = String.eqb a b.
Proof.
  destruct (lkey_eqb_spec (id, mk a) (id, mk b)) as [H|H]; destruct (String.eqb_spec a b) as [H2|H2]; try reflexivity.
  - inversion H. apply mk_inj in H1. contradiction.
  - subst. contradiction.
Qed.

Lemma lmem_k_clear id d reply o x :
  lmem x (k_clear ekey mk id d reply o) =
  lmem x o && negb (existsb (fun e => smem (ekey e) d && lkey_eqb (id, mk (ekey e)) x) reply).
Proof.
  unfold k_clear. revert o. induction reply as [|e r IH]; intros o; cbn [fold_left existsb].
  - rewrite andb_true_r. reflexivity.
  - rewrite IH. destruct (smem (ekey e) d); cbn [andb orb].
    + rewrite lmem_lremove. destruct (lkey_eqb (id, mk (ekey e)) x); cbn [negb orb andb]; [rewrite !andb_false_r|rewrite andb_true_r]; reflexivity.
    + reflexivity.
Qed.

Lemma lmem_k_clear_key id d reply o k :
  lmem (id, mk k) (k_clear ekey mk id d reply o) =
  lmem (id, mk k) o && negb (smem k d && smem k (map ekey reply)).
Proof.
  rewrite lmem_k_clear. f_equal. f_equal.
  induction reply as [|e r IH]; cbn [existsb map]; [rewrite andb_false_r; reflexivity|].
  rewrite IH, smem_cons, lkey_eqb_mk.
  destruct (String.eqb_spec (ekey e) k) as [->|Hne].
  - rewrite String.eqb_refl. destruct (smem k d); reflexivity.
  - destruct (String.eqb_spec k (ekey e)) as [->|_]; [contradiction|]. rewrite andb_false_r. reflexivity.
Qed.

Lemma claim_all_ok ks o o' :
  claim_all ks o = Ok o' ->
  (forall k, In k ks -> lmem k o = false) /\ NoDup ks /\ (forall x, lmem x o' = lmem x o || existsb (lkey_eqb x) ks).
Proof.
  revert o. induction ks as [|k r IH]; cbn [claim_all]; intros o H.
  - inversion H; subst. split; [intros k []|]. split; [constructor|]. intros x. rewrite orb_false_r. reflexivity.
  - unfold claim in H. destruct (lmem k o) eqn:Hk; [discriminate|].
    destruct (IH _ H) as [Hf [Hnd Hm]]. split; [|split].
    + intros x [<-|Hx]; [exact Hk|]. specialize (Hf x Hx). rewrite lmem_cons in Hf. apply orb_false_iff in Hf. tauto.
    + constructor; [|exact Hnd]. intros Hin. specialize (Hf k Hin). rewrite lmem_cons in Hf.
      destruct (lkey_eqb_spec k k); [discriminate|contradiction].
    + intros x. rewrite Hm, lmem_cons. cbn [existsb]. destruct (lkey_eqb x k), (lmem x o); reflexivity.
Qed.

Lemma claim_all_err ks o e :
  claim_all ks o = Err e -> exists k, e = EConflict k /\ In k ks.
Proof.
  revert o. induction ks as [|k r IH]; cbn [claim_all]; intros o H; [discriminate|].
  unfold claim in H. destruct (lmem k o) eqn:Hk.
  - inversion H. exists k. split; [reflexivity|left; reflexivity].
  - destruct (IH _ H) as [x [Hx Hin]]. exists x. split; [exact Hx|right; exact Hin].
Qed.

(* ---- the invariant ---- *)
Record KInv (id : string) (orig : list W) (reply : list E) (view : list W) (o : ledger) : Prop := {
  ki_sem : forall k, marked k = false -> sem orig reply k = kfind wkey k view;
  ki_own : forall k, lmem (id, mk k) o = true <-> In k (mods reply);
  ki_rwf : forall e, In e reply -> marked (rawkey (ekey e)) = false /\ good e
}.

Lemma filter_all {A} (p : A -> bool) l : (forall x, In x l -> p x = true) -> filter p l = l.
Proof.
  induction l as [|x r IH]; intros H; [reflexivity|]. cbn [filter]. rewrite (H x (or_introl eq_refl)).
  f_equal. apply IH. intros y Hy. apply H. right. exact Hy.
Qed.

Lemma KInv_init id orig o : (forall k, lmem (id, mk k) o = false) -> KInv id orig [] orig o.
Proof.
  intros Ho. split.
  - intros k _. unfold sem, apply_keyed. cbn. rewrite app_nil_r. rewrite filter_all; [reflexivity|]. intros; reflexivity.
  - intros k. rewrite Ho. cbn. split; [discriminate|intros []].
  - intros e [].
Qed.

Lemma mods_In_filter (p : string -> bool) R k :
  In k (mods (filter (fun e => p (ekey e)) R)) <-> In k (mods R) /\ p k = true.
Proof.
  unfold k_mods. rewrite adds_filter_key, !in_map_iff. split.
  - intros [e [<- He]]. apply filter_In in He. destruct He as [He Hp]. split; [exists e; tauto|exact Hp].
  - intros [[e [<- He]] Hp]. exists e. split; [reflexivity|]. apply filter_In. tauto.
Qed.

Lemma kstep_nonempty id e0 es0 reply view o :
  let es := e0 :: es0 in
  kstep ekey wkey inj mk id es reply view o =
  match claim_all (map (fun k => (id, mk k)) (mods es)) (k_clear ekey mk id (dels es) reply o) with
  | Err e => Err e
  | Ok o2 => Ok (filter (fun e => negb (smem (ekey e) (dels es))) reply ++ adds es ++ lone es,
                 filter (fun w => negb (smem (wkey w) (dels es)) && negb (smem (wkey w) (mods es))) view ++ map inj (adds es), o2)
  end.
Proof. reflexivity. Qed.

Theorem kstep_preserves id orig es reply view o reply' view' o' :
  KInv id orig reply view o -> wf_resp es ->
  kstep ekey wkey inj mk id es reply view o = Ok (reply', view', o') ->
  KInv id orig reply' view' o' /\ view' = apply_keyed ekey wkey inj view es.
Proof.
  intros [Hsem Hown Hrwf] [Hw7 Hnd] Hstep.
  destruct es as [|e0 es0].
  { cbn in Hstep. inversion Hstep; subst. split; [split; assumption|].
    unfold apply_keyed. cbn. rewrite app_nil_r, filter_all; [reflexivity|intros; reflexivity]. }
  pose proof (kstep_nonempty id e0 es0 reply view o) as Hks. cbv zeta in Hks. rewrite Hks in Hstep. clear Hks.
  remember (e0 :: es0) as es eqn:Ees. clear Ees e0 es0.
  destruct (claim_all _ _) as [o2|] eqn:Hc; [|discriminate]. inversion Hstep; subst reply' view' o'; clear Hstep.
  split; [|reflexivity].
  assert (Hw7' : forall e, In e es -> marked (rawkey (ekey e)) = false) by (intros e He; apply Hw7; exact He).
  assert (Hges : forall e, In e es -> good e) by (intros e He; apply Hw7; exact He).
  assert (Hgr : forall e, In e reply -> good e) by (intros e He; apply Hrwf; exact He).
  assert (Hdun : forall x, In x (dels es) -> marked x = false) by (intros x; apply In_dels_unmarked; exact Hw7').
  assert (Hgr' : forall e, In e (filter (fun e => negb (smem (ekey e) (dels es))) reply ++ adds es ++ lone es) -> good e).
  { intros e He. rewrite !in_app_iff in He. destruct He as [He|[He|He]]; apply filter_In in He; [apply Hgr|apply Hges|apply Hges]; tauto. }
  destruct (claim_all_ok _ _ _ Hc) as [Hfree [_ Hmem]].
  split.
  - (* semantics *)
    intros k Hk. rewrite (sem_char _ _ _ Hgr').
    rewrite !adds_app, adds_idem, !dels_app, dels_adds, adds_lone_nil, app_nil_r. cbn [app].
    rewrite (dels_filter_unmarked (dels es) reply Hdun).
    rewrite (adds_filter_key (fun x => negb (smem x (dels es)))).
    rewrite kfind_app, (kfind_filter_key ekey k (fun x => negb (smem x (dels es)))).
    rewrite smem_app, smem_dels_lone.
    rewrite kfind_app, (kfind_filter_key wkey k (fun x => negb (smem x (dels es)) && negb (smem x (mods es)))).
    rewrite kfind_map_inj by (apply adds_good; exact Hges).
    specialize (Hsem k Hk). rewrite (sem_char _ _ _ Hgr) in Hsem.
    destruct (smem k (mods es)) eqn:Hm.
    + (* k is set by this plugin: no earlier set may survive *)
      assert (Hk_in : In k (mods es)) by (apply smem_In; exact Hm).
      assert (Hl : (if negb (smem k (dels es)) then kfind ekey k (adds reply) else None) = None).
      { destruct (smem k (dels es)) eqn:Hd; simpl; [reflexivity|].
        destruct (kfind ekey k (adds reply)) as [e|] eqn:Hl; [|reflexivity]. exfalso.
        assert (Hin : In k (mods reply)).
        { unfold k_mods. destruct (kfind_Some_key _ _ _ _ Hl) as [<- Hin]. apply in_map. exact Hin. }
        apply Hown in Hin.
        assert (Hfr : lmem (id, mk k) (k_clear ekey mk id (dels es) reply o) = false).
        { apply Hfree. apply (in_map (fun k0 => (id, mk k0))). exact Hk_in. }
        rewrite lmem_k_clear_key, Hin, Hd in Hfr. cbn in Hfr. discriminate. }
      rewrite Hl.
      assert (Hex : exists e, kfind ekey k (adds es) = Some e).
      { destruct (kfind ekey k (adds es)) eqn:H; [eexists; reflexivity|]. apply kfind_None_notin in H. contradiction. }
      destruct Hex as [e He]. rewrite He. rewrite andb_false_r. reflexivity.
    + assert (Hna : kfind ekey k (adds es) = None).
      { apply kfind_None_notin. intros H. apply smem_In in H. unfold k_mods in Hm. congruence. }
      rewrite Hna. rewrite !andb_true_r. cbn [option_map].
      destruct (smem k (dels es)) eqn:Hd; cbn [negb].
      * rewrite orb_true_r. reflexivity.
      * rewrite orb_false_r. rewrite <- Hsem.
        destruct (kfind ekey k (adds reply)); [reflexivity|].
        destruct (smem k (dels reply)); [reflexivity|]. destruct (kfind wkey k orig); reflexivity.
  - (* ownership *)
    intros k. rewrite Hmem, lmem_k_clear_key.
    rewrite !mods_app.
    assert (Hml : mods (lone es) = []) by (unfold k_mods; rewrite adds_lone_nil; reflexivity).
    assert (Hma : mods (adds es) = mods es) by (unfold k_mods; rewrite adds_idem; reflexivity).
    rewrite Hml, Hma, app_nil_r, in_app_iff.
    rewrite (mods_In_filter (fun x => negb (smem x (dels es)))).
    assert (Hex : existsb (lkey_eqb (id, mk k)) (map (fun k0 => (id, mk k0)) (mods es)) = smem k (mods es)).
    { clear - mk_inj. induction (mods es) as [|x r IH]; [reflexivity|]. cbn [map existsb]. rewrite IH, smem_cons, lkey_eqb_mk. reflexivity. }
    rewrite Hex. rewrite orb_true_iff, andb_true_iff, smem_In, negb_true_iff.
    split.
    + intros [[Ho Hn]|Hm]; [left|right; exact Hm].
      apply Hown in Ho. split; [exact Ho|].
      destruct (smem k (dels es)) eqn:Hd; [|reflexivity]. cbn in Hn.
      assert (Hin : smem k (map ekey reply) = true).
      { apply smem_In. unfold k_mods, k_adds in Ho. apply in_map_iff in Ho. destruct Ho as [e [<- He]].
        apply filter_In in He. apply in_map. tauto. }
      rewrite Hin in Hn. discriminate.
    + intros [[Ho Hn]|Hm]; [left|right; exact Hm].
      split; [apply Hown; exact Ho|]. apply negb_true_iff in Hn. rewrite Hn. reflexivity.
  - (* markers stay well formed *)
    intros e He. rewrite !in_app_iff in He. destruct He as [He|[He|He]].
    + apply filter_In in He. apply Hrwf. tauto.
    + apply filter_In in He. apply Hw7. tauto.
    + apply filter_In in He. apply Hw7. tauto.
Qed.

(* keys of other families / other containers are not touched *)
Lemma kstep_other id es reply view o reply' view' o' x :
  kstep ekey wkey inj mk id es reply view o = Ok (reply', view', o') ->
  (forall k, x <> (id, mk k)) -> lmem x o' = lmem x o.
Proof.
  intros Hstep Hx. destruct es as [|e0 es0]; [cbn in Hstep; inversion Hstep; reflexivity|].
  pose proof (kstep_nonempty id e0 es0 reply view o) as Hks. cbv zeta in Hks. rewrite Hks in Hstep. clear Hks.
  remember (e0 :: es0) as es eqn:Ees. clear Ees e0 es0.
  destruct (claim_all _ _) as [o2|] eqn:Hc; [|discriminate]. inversion Hstep; subst; clear Hstep.
  destruct (claim_all_ok _ _ _ Hc) as [_ [_ Hmem]]. rewrite Hmem, lmem_k_clear.
  assert (H1 : existsb (fun e => smem (ekey e) (dels es) && lkey_eqb (id, mk (ekey e)) x) reply = false).
  { clear - Hx. induction reply as [|e r IH]; [reflexivity|]. cbn [existsb]. rewrite IH, orb_false_r.
    destruct (lkey_eqb_spec (id, mk (ekey e)) x) as [He|_]; [exfalso; apply (Hx (ekey e)); symmetry; exact He|apply andb_false_r]. }
  assert (H2 : existsb (lkey_eqb x) (map (fun k => (id, mk k)) (mods es)) = false).
  { clear - Hx. induction (mods es) as [|k r IH]; [reflexivity|]. cbn [map existsb]. rewrite IH, orb_false_r.
    destruct (lkey_eqb_spec x (id, mk k)) as [He|_]; [exfalso; apply (Hx k); exact He|reflexivity]. }
  rewrite H1, H2, andb_true_r, orb_false_r. reflexivity.
Qed.

(* the step fails exactly when a key to be set is still held after the releases *)
Lemma kstep_err id es reply view o :
  (exists e, kstep ekey wkey inj mk id es reply view o = Err e) <->
  (exists k, In k (mods es) /\
             (lmem (id, mk k) (k_clear ekey mk id (dels es) reply o) = true \/ ~ NoDup (mods es))) \/
  False.
Proof.
  split; [|intros [H|[]]].
  - intros [e He]. left. destruct es as [|e0 es0]; [cbn in He; discriminate|].
    pose proof (kstep_nonempty id e0 es0 reply view o) as Hks. cbv zeta in Hks. rewrite Hks in He. clear Hks.
    remember (e0 :: es0) as es eqn:Ees. clear Ees e0 es0.
    destruct (claim_all _ _) as [o2|e'] eqn:Hc; [discriminate|].
    clear He. revert Hc. generalize (k_clear ekey mk id (dels es) reply o) as oo.
    induction (mods es) as [|k r IH]; cbn [map claim_all]; intros oo Hc; [discriminate|].
    unfold claim in Hc. destruct (lmem (id, mk k) oo) eqn:Hk.
    + exists k. split; [left; reflexivity|left; exact Hk].
    + destruct (IH _ Hc) as [k' [Hin [Hm|Hnd]]].
      * rewrite lmem_cons, lkey_eqb_mk in Hm. destruct (String.eqb_spec k' k) as [->|Hne].
        -- exists k. split; [left; reflexivity|]. right. intros Hnd. inversion Hnd; contradiction.
        -- exists k'. split; [right; exact Hin|left; exact Hm].
      * exists k'. split; [right; exact Hin|]. right. intros Hnd'. inversion Hnd'; contradiction.
  - destruct H as [k [Hin Hk]]. destruct es as [|e0 es0]; [contradiction|].
    pose proof (kstep_nonempty id e0 es0 reply view o) as Hks. cbv zeta in Hks. rewrite Hks. clear Hks.
    remember (e0 :: es0) as es eqn:Ees. clear Ees e0 es0.
    destruct (claim_all _ _) as [o2|e'] eqn:Hc; [|eexists; reflexivity]. exfalso.
    destruct (claim_all_ok _ _ _ Hc) as [Hfree [Hnd _]].
    destruct Hk as [Hk|Hk].
    + rewrite (Hfree (id, mk k)) in Hk; [discriminate|]. apply (in_map (fun k0 => (id, mk k0))). exact Hin.
    + apply Hk. clear - Hnd mk_inj. induction (mods es) as [|x r IH]; [constructor|].
      cbn [map] in Hnd. inversion Hnd as [|? ? Hx Hr]; subst. constructor; [|apply IH; exact Hr].
      intros Hi. apply Hx. apply (in_map (fun k0 => (id, mk k0))). exact Hi.
Qed.
End KP.

Arguments sem {E W}. Arguments wf_resp {E}. Arguments KInv {E W}.
Arguments kstep_preserves {E W}. Arguments kstep_other {E W}. Arguments kstep_err {E W}.
Arguments KInv_init {E W}. Arguments sem_char {E W}.
Arguments kfind_app {A}. Arguments kfind_filter_key {A}. Arguments kfind_None_notin {A}. Arguments kfind_Some_key {A}.

(* ---- the three instances ---- *)
Lemma cut_key_eq k v : count_char "="%char k = 0 -> cut "="%char (k ++ "=" ++ v)%string = (k, Some v).
Proof.
  induction k as [|c r IH]; intros H.
  - reflexivity.
  - cbn [append cut]. cbn [count_char] in H.
    destruct (Ascii.eqb_spec c "="%char) as [->|Hne].
    + rewrite Ascii.eqb_refl in H. discriminate.
    + destruct (Ascii.eqb "="%char c); [discriminate|].
      destruct (Ascii.eqb_spec c "="%char) as [E|_]; [contradiction|].
      change (cut "="%char (r ++ String "="%char v)%string) with (cut "="%char (r ++ "=" ++ v)%string).
      rewrite (IH H). reflexivity.
Qed.

(* environment entries whose variable name contains no '=' *)
Definition env_good (e : string * string) : Prop := count_char "="%char (rawkey (fst e)) = 0.

Lemma env_inj_key e : env_good e -> marked (env_entry_key e) = false -> env_key (env_to_oci e) = env_entry_key e.
Proof.
  unfold env_good, env_entry_key, env_key, env_to_oci. intros Hg Hm.
  rewrite (rawkey_unmarked _ Hm) in Hg. rewrite (cut_key_eq _ _ Hg). reflexivity.
Qed.

Lemma IMount_inj a b : IMount a = IMount b -> a = b. Proof. congruence. Qed.
Lemma IDev_inj a b : IDev a = IDev b -> a = b. Proof. congruence. Qed.
Lemma IEnv_inj a b : IEnv a = IEnv b -> a = b. Proof. congruence. Qed.
