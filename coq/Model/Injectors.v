(* Model of the two sample injector plugins (C20):
     plugins/device-injector/device-injector.go  CreateContainer, injectDevices/CDIDevices/Mounts,
                                                 parseDevices/CDIDevices/Mounts, getAnnotation, toNRI
     plugins/ulimit-adjuster/adjuster.go         CreateContainer, parseUlimits, adjustUlimits
   The annotation key constants, the rlimit prefix and the table of valid rlimit names come from the
   regenerated Model/InjConsts.v.  The YAML decoder (sigs.k8s.io/yaml) is trusted: it enters as Section
   variables  decode_* : string -> option payload  (None = yaml.Unmarshal returned an error).
   No proofs here (Proofs/InjectorsProofs.v). *)
From Coq Require Import String Ascii List Bool ZArith.
From NRI Require Import Base.Strs Base.Assoc Model.InjConsts.
Import ListNotations.
Open Scope string_scope.

(* pod annotations: a Go map; only looked up, never iterated *)
Definition annotations := list (string * string).

(* ------------------------------------------------------------------ payloads (the plugins' Go structs) *)

Record device := { dv_path : string; dv_type : string; dv_major : Z; dv_minor : Z;
                   dv_file_mode : Z; dv_uid : Z; dv_gid : Z }.
Record mount := { mt_source : string; mt_destination : string; mt_type : string; mt_options : list string }.
Record ulimit := { ul_type : string; ul_hard : Z; ul_soft : Z }.

(* ------------------------------------------------------------------ what ends up in the adjustment (pkg/api) *)

Record nri_device := { nd_path : string; nd_type : string; nd_major : Z; nd_minor : Z;
                       nd_file_mode : option Z; nd_uid : option Z; nd_gid : option Z }.
Record nri_mount := { nm_destination : string; nm_type : string; nm_source : string; nm_options : list string }.
Record nri_rlimit := { rl_type : string; rl_hard : Z; rl_soft : Z }.
Record adjustment := { adj_devices : list nri_device; adj_cdi : list string;
                       adj_mounts : list nri_mount; adj_rlimits : list nri_rlimit }.
Definition empty_adjustment : adjustment :=
  {| adj_devices := []; adj_cdi := []; adj_mounts := []; adj_rlimits := [] |}.

(* ------------------------------------------------------------------ device-injector *)

(* getAnnotation: container-scoped key, then pod-scoped, then the bare key *)
Definition annotation_keys (main ctr : string) : list string :=
  [main ++ "/container." ++ ctr; main ++ "/pod"; main].

Fixpoint first_present (ann : annotations) (keys : list string) : option string :=
  match keys with
  | [] => None
  | k :: r => match alookup k ann with Some v => Some v | None => first_present ann r end
  end.

Definition get_annotation (ann : annotations) (main ctr : string) : option string :=
  first_present ann (annotation_keys main ctr).

(* (d *device) toNRI: file mode, uid and gid are set only when non-zero *)
Definition opt_nonzero (v : Z) : option Z := if Z.eqb v 0 then None else Some v.
Definition device_to_nri (d : device) : nri_device :=
  {| nd_path := dv_path d; nd_type := dv_type d; nd_major := dv_major d; nd_minor := dv_minor d;
     nd_file_mode := opt_nonzero (dv_file_mode d); nd_uid := opt_nonzero (dv_uid d); nd_gid := opt_nonzero (dv_gid d) |}.
Definition mount_to_nri (m : mount) : nri_mount :=
  {| nm_destination := mt_destination m; nm_type := mt_type m; nm_source := mt_source m; nm_options := mt_options m |}.

Section DeviceInjector.
Variable decode_devices : string -> option (list device).
Variable decode_cdi : string -> option (list string).
Variable decode_mounts : string -> option (list mount).

(* parseDevices / parseCDIDevices / parseMounts: no annotation = nothing to inject; None = error *)
Definition parse_devices (ctr : string) (ann : annotations) : option (list device) :=
  match get_annotation ann device_key ctr with None => Some [] | Some v => decode_devices v end.
Definition parse_cdi (ctr : string) (ann : annotations) : option (list string) :=
  match get_annotation ann cdi_device_key ctr with None => Some [] | Some v => decode_cdi v end.
Definition parse_mounts (ctr : string) (ann : annotations) : option (list mount) :=
  match get_annotation ann mount_key ctr with None => Some [] | Some v => decode_mounts v end.

(* CreateContainer: injectDevices, injectCDIDevices, injectMounts in this order; any error returns
   (nil, nil, err), i.e. no adjustment at all.  None = the request fails *)
Definition injector_create (ctr : string) (ann : annotations) : option adjustment :=
  match parse_devices ctr ann with
  | None => None
  | Some ds =>
      match parse_cdi ctr ann with
      | None => None
      | Some cs =>
          match parse_mounts ctr ann with
          | None => None
          | Some ms =>
              Some {| adj_devices := map device_to_nri ds; adj_cdi := cs;
                      adj_mounts := map mount_to_nri ms; adj_rlimits := [] |}
          end
      end
  end.
End DeviceInjector.

(* ------------------------------------------------------------------ ulimit-adjuster *)

(* container-scoped only *)
Definition ulimit_annotation_key (ctr : string) : string := ulimit_key ++ "/container." ++ ctr.

(* strings.TrimPrefix(strings.ToUpper(u.Type), rlimitPrefix)   (ASCII; see docs/slices/launch.md) *)
Definition normalise_rlimit (t : string) : string := trim_prefix rlimit_prefix (to_upper t).

Definition valid_rlimit (t : string) : bool := smem (normalise_rlimit t) valid_rlimits.

(* the loop of parseUlimits: the first unknown type aborts *)
Fixpoint normalise_all (us : list ulimit) : option (list ulimit) :=
  match us with
  | [] => Some []
  | u :: r =>
      if valid_rlimit (ul_type u)
      then match normalise_all r with
           | Some l => Some ({| ul_type := rlimit_prefix ++ normalise_rlimit (ul_type u);
                                ul_hard := ul_hard u; ul_soft := ul_soft u |} :: l)
           | None => None
           end
      else None
  end.

(* the loop of adjustUlimits: hard < soft aborts, nothing of the adjustment built so far is returned *)
Fixpoint adjust_ulimits (us : list ulimit) : option (list nri_rlimit) :=
  match us with
  | [] => Some []
  | u :: r =>
      if Z.ltb (ul_hard u) (ul_soft u) then None
      else match adjust_ulimits r with
           | Some l => Some ({| rl_type := ul_type u; rl_hard := ul_hard u; rl_soft := ul_soft u |} :: l)
           | None => None
           end
  end.

Section UlimitAdjuster.
Variable decode_ulimits : string -> option (list ulimit).

Definition parse_ulimits (ctr : string) (ann : annotations) : option (list ulimit) :=
  match alookup (ulimit_annotation_key ctr) ann with
  | None => Some []
  | Some v => match decode_ulimits v with None => None | Some us => normalise_all us end
  end.

Definition ulimit_create (ctr : string) (ann : annotations) : option adjustment :=
  match parse_ulimits ctr ann with
  | None => None
  | Some us =>
      match adjust_ulimits us with
      | None => None
      | Some rl => Some {| adj_devices := []; adj_cdi := []; adj_mounts := []; adj_rlimits := rl |}
      end
  end.
End UlimitAdjuster.
