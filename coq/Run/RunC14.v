From Coq Require Import String List Bool ZArith.
From NRI Require Import Base.Strs Model.Consts Model.Event Run.Common.
Import ListNotations.
Open Scope Z_scope.

(* mask cases: the mask, what PrettyString printed, what ParseEventMask returned for it *)
Record mask_case := { mc_mask : Z; mc_pretty : string; mc_parsed : option Z }.

Definition corr_mask (c : mask_case) : bool :=
  String.eqb (pretty (mc_mask c)) (mc_pretty c) &&
  opt_eqb Z.eqb (parse [mc_pretty c]) (mc_parsed c).

Definition holds_mask (c : mask_case) : bool :=
  opt_eqb Z.eqb (mc_parsed c) (Some (mc_mask c)).

(* free-form parser cases (separate stream): arbitrary event strings *)
Record parse_case := { pc_input : list string; pc_result : option Z }.
Definition corr_parse (c : parse_case) : bool := opt_eqb Z.eqb (parse (pc_input c)) (pc_result c).
