#!/usr/bin/env python3
"""lib/benigntable.py — docs/BENIGN.md: the harmless rewrites under benign/ and the verdict of the named checks."""
import json, os
root = os.path.join(os.path.dirname(os.path.abspath(__file__)), "..", "benign")
rows, ok, alarm = [], 0, 0
for d in sorted(os.listdir(root)):
    try:
        meta = json.load(open(os.path.join(root, d, "meta.json")))
        tr = json.load(open(os.path.join(root, d, "trial.json")))
    except Exception:
        continue
    ver = []
    good = tr.get("patch_applies") and tr.get("builds") and tr.get("suite_pass")
    for p, c in (tr.get("checks") or {}).items():
        line = (c.get("lines") or [""])[0]
        kind = "OK" if c["rc"] == 0 else ("broken tie, no failing input" if "no-failing-input-found" in line else ("harness error" if c["rc"] == 2 else "ALARM with failing input"))
        ver.append("%s: %s" % (p, kind))
        if c["rc"] == 0: ok += 1
        else: alarm += 1
    rows.append("| %s | %s | %s | %s | %s |" % (d, meta.get("kind", ""), (meta.get("summary") or "").replace("|", "/")[:160], "yes" if good else "NO", "; ".join(ver)))
out = ["# Harmless rewrites (written by independent sub-agents from the property text only) and what the checks say",
       "", "Expected verdict: rc 0.  `broken tie, no failing input` = the translator or a proof over regenerated constants no longer",
       "recognises the code; the check then searched for a failing input, found none and said so (`no-failing-input-found`).",
       "", "%d check runs: %d OK, %d alarms." % (ok + alarm, ok, alarm), "",
       "| change | kind | summary | builds, suite passes | verdicts |", "|---|---|---|---|---|"] + rows
open(os.path.join(root, "..", "docs", "BENIGN.md"), "w").write("\n".join(out) + "\n")
print("%d changes, %d OK, %d alarms" % (len(rows), ok, alarm))
