(* Proofs about the life-cycle LTS of Model/Stub.v (C16). *)
From Coq Require Import List Bool Arith Lia.
From NRI Require Import Model.Stub Spec.StubSpec.
Import ListNotations.
Open Scope list_scope.

(* ---- counting ----------------------------------------------------------- *)

Lemma count_app g a b : count_occ_nat g (a ++ b) = count_occ_nat g a + count_occ_nat g b.
Proof. induction a as [|x r IH]; cbn [app count_occ_nat]; [reflexivity|]. rewrite IH. lia. Qed.

Lemma count_single g x : count_occ_nat g [x] = b2n (Nat.eqb x g).
Proof. cbn. destruct (Nat.eqb x g); reflexivity. Qed.

Lemma count_remove_first g0 g l :
  memn g0 l = true -> count_occ_nat g (remove_first g0 l) + b2n (Nat.eqb g0 g) = count_occ_nat g l.
Proof.
  unfold memn. induction l as [|x r IH]; cbn [existsb remove_first count_occ_nat]; [discriminate|].
  rewrite (Nat.eqb_sym g0 x). destruct (Nat.eqb_spec x g0) as [->|Hne].
  - intros _. destruct (Nat.eqb g0 g); cbn [b2n]; lia.
  - cbn [orb count_occ_nat]. intros H. specialize (IH H). lia.
Qed.

Lemma count_not_in g l : count_occ_nat g l = 0 -> memn g l = false.
Proof.
  unfold memn. induction l as [|x r IH]; cbn [existsb count_occ_nat]; [reflexivity|].
  rewrite (Nat.eqb_sym g x). destruct (Nat.eqb x g); cbn [orb]; [discriminate|]. exact IH.
Qed.

Lemma remove_all_all g l : forallb (Nat.eqb g) l = true -> remove_all g l = [].
Proof.
  induction l as [|x r IH]; cbn [forallb remove_all]; [reflexivity|].
  intros H. apply andb_true_iff in H. destruct H as [H1 H2]. rewrite (Nat.eqb_sym x g), H1. exact (IH H2).
Qed.

Lemma in_remove_all g x l : In g l -> g <> x -> In g (remove_all x l).
Proof.
  induction l as [|y r IH]; cbn [In remove_all]; [tauto|]. intros [->|H] N.
  - destruct (Nat.eqb_spec g x); [contradiction|]. left. reflexivity.
  - destruct (Nat.eqb y x); [exact (IH H N)|right; exact (IH H N)].
Qed.

(* ---- the invariant ------------------------------------------------------ *)

Lemma wf_init sw : wf sw init.
Proof.
  split; cbn; try tauto; try reflexivity.
  intros g. unfold tokens. cbn. destruct g; reflexivity.
Qed.

Ltac bools :=
  repeat match goal with
  | |- context [Nat.eqb ?a ?b] => destruct (Nat.eqb_spec a b)
  | |- context [Nat.leb ?a ?b] => destruct (Nat.leb_spec a b)
  | H : context [Nat.eqb ?a ?b] |- _ => destruct (Nat.eqb_spec a b)
  | H : context [Nat.leb ?a ?b] |- _ => destruct (Nat.leb_spec a b)
  end; cbn [b2n andb orb negb] in *.

Ltac projs := cbn [ph closer cli_open gen started sconn pending fired waiters established last_start runners stale_cfg] in *.

Ltac split_ifs :=
  repeat match goal with
  | |- context [match ?x with CNone => _ | _ => _ end] => destruct x eqn:?
  | |- context [match ?x with Some _ => _ | None => _ end] => destruct x eqn:?
  | |- context [if ?b then _ else _] => destruct b eqn:?
  end.

Ltac tok Htok :=
  let g := fresh "g" in
  intro g; specialize (Htok g);
  repeat match goal with
  | H : memn ?g0 ?l = true |- context [remove_first ?g0 ?l] =>
      pose proof (count_remove_first g0 g l H); clear H
  end;
  rewrite ?count_app, ?count_single in *; cbn [count_occ_nat] in *;
  bools; try lia.

Ltac small :=
  intros; subst; cbn [conn_live] in *; try reflexivity; try assumption; try discriminate; try congruence; auto.

Lemma step_wf sw s a : wf sw s -> wf sw (step sw s a).
Proof.
  intros [Hcl Hcli Htok Hconn Hst Hwa Hrun Hstale].
  destruct s as [gen0 st0 conn0 ph0 cli0 pend0 closer0 fired0 est0 wait0 last0 run0 stale0].
  unfold tokens in Htok. projs.
  destruct a; destruct ph0; cbn [step ph]; try (split; assumption);
    projs; try (rewrite Hcl in * ); try (rewrite Hcli in * ); try (rewrite Hwa in * );
    unfold fail_start, begin_close, emit_close, set_ph, kill; projs; split_ifs; projs;
    try (split; assumption).
  all: split; unfold tokens; projs; try exact I; try (small; fail).
  all: try (tok Htok; fail).
  all: try (repeat match goal with H : ?x = true |- context [?x] => rewrite H end; rewrite ?orb_true_r; reflexivity).
  all: intros D; try (specialize (Hconn D)); try (specialize (Hrun D)); try discriminate; try assumption; try congruence.
  all: try (apply remove_all_all; first [assumption | apply Hrun; reflexivity]).
  all: try (rewrite Hrun; reflexivity).
  all: try (cbn [forallb]; rewrite Nat.eqb_refl; assumption).
  all: try (rewrite D in *; discriminate).
Qed.

Lemma run_wf sw l : forall s, wf sw s -> wf sw (run sw s l).
Proof.
  unfold run. induction l as [|a r IH]; intros s H; cbn [fold_left]; [exact H|].
  apply IH. apply step_wf. exact H.
Qed.

Lemma reachable_wf sw s : reachable sw s -> wf sw s.
Proof. intros [l ->]. apply run_wf. apply wf_init. Qed.

Lemma reachable_step sw s a : reachable sw s -> reachable sw (step sw s a).
Proof.
  intros [l ->]. exists (l ++ [a]). unfold run. rewrite fold_left_app. reflexivity.
Qed.

Lemma reachable_run sw s l : reachable sw s -> reachable sw (run sw s l).
Proof.
  intros [l0 ->]. exists (l0 ++ l). unfold run. rewrite fold_left_app. reflexivity.
Qed.

(* ---- C16_start_returns -------------------------------------------------- *)

(* while a Start is under way some event is enabled, and every enabled event brings the Start
   strictly closer to returning: for every setting of the other two switches, provided the wait
   for the configuration is guarded *)
Lemma start_progress sw s :
  wait_cfg_unguarded sw = false -> results_sent sw -> wf sw s -> start_pending s = true ->
  enabled_env sw s <> [] /\ forall a, In a (enabled_env sw s) -> rank (step sw s a) < rank s.
Proof.
  intros G [U1 [U2 U3]] [_ _ _ Hconn _ _ _ _].
  destruct s as [gen0 st0 conn0 ph0 cli0 pend0 closer0 fired0 est0 wait0 last0 run0 stale0]. projs.
  unfold start_pending, enabled_env, rank. projs.
  destruct ph0; try discriminate; intros _.
  - split; [discriminate|]. intros a [<-|[<-|[]]]; cbn; lia.
  - split; [discriminate|]. intros a [<-|[<-|[]]]; cbn; unfold fail_start; cbn; lia.
  - destruct (conn_live conn0) eqn:L; (split; [discriminate|]).
    + intros a [<-|[<-|[<-|[<-|[]]]]]; cbn [step ph sconn]; rewrite ?L; destruct stale0; unfold fail_start, set_ph; cbn; lia.
    + intros a [<-|[<-|[]]]; cbn [step ph]; unfold fail_start; cbn; lia.
  - rewrite (Hconn G). split; [discriminate|].
    intros a [<-|[<-|[<-|[<-|[]]]]]; cbn [step ph sconn]; rewrite ?(Hconn G), ?G, ?U1, ?U2, ?U3;
      unfold fail_start; cbn; lia.
  - rewrite U1, U2, U3 in Hconn. discriminate.
Qed.

(* what holds whatever the switches are: a pending Start can get stuck in two ways only: a lost
   connection while it waits for the configuration (and the wait is unguarded), or a Configure that
   ended without handing its result over *)
Lemma start_progress_partial sw s :
  wf sw s -> start_pending s = true ->
  (enabled_env sw s = [] <-> (ph s = AwaitConfigure /\ conn_live (sconn s) = false) \/ ph s = AwaitLost) /\
  forall a, In a (enabled_env sw s) ->
    rank (step sw s a) < rank s \/ (a = EConnLost /\ ph s = AwaitConfigure /\ wait_cfg_unguarded sw = true) \/
    ph (step sw s a) = AwaitLost.
Proof.
  intros _.
  destruct s as [gen0 st0 conn0 ph0 cli0 pend0 closer0 fired0 est0 wait0 last0 run0 stale0]. projs.
  unfold start_pending, enabled_env, rank. projs.
  destruct ph0; try discriminate; intros _.
  - split; [split; [discriminate|intros [[X _]|X]; discriminate]|]. intros a [<-|[<-|[]]]; left; cbn; lia.
  - split; [split; [discriminate|intros [[X _]|X]; discriminate]|].
    intros a [<-|[<-|[]]]; left; cbn; unfold fail_start; cbn; lia.
  - destruct (conn_live conn0) eqn:L; (split; [split; [discriminate|intros [[X _]|X]; discriminate]|]).
    + intros a [<-|[<-|[<-|[<-|[]]]]]; left; cbn [step ph sconn]; rewrite ?L; destruct stale0; unfold fail_start, set_ph; cbn; lia.
    + intros a [<-|[<-|[]]]; left; cbn [step ph]; unfold fail_start; cbn; lia.
  - destruct (conn_live conn0) eqn:L.
    + split; [split; [discriminate|intros [[_ X]|X]; discriminate]|].
      intros a [<-|[<-|[<-|[<-|[]]]]]; cbn [step ph sconn]; rewrite ?L.
      * destruct (cfg_ok_unsent sw); [right; right; reflexivity|left; cbn; lia].
      * destruct (cfg_hookerr_unsent sw); [right; right; reflexivity|left; unfold fail_start; cbn; lia].
      * destruct (cfg_reject_unsent sw); [right; right; reflexivity|left; unfold fail_start; cbn; lia].
      * destruct (wait_cfg_unguarded sw) eqn:G; [right; left; auto|left; unfold fail_start; cbn; lia].
    + split; [split; [auto|reflexivity]|]. intros a [].
  - split; [split; [auto|reflexivity]|]. intros a [].
Qed.

(* when a pending Start returns: Ok exactly if the plugin got configured, on a live connection *)
Lemma start_result sw s a :
  start_pending s = true -> start_pending (step sw s a) = false ->
  let s' := step sw s a in
  (ph s' = Configured /\ last_start s' = Some ResOk /\ started s' = true /\ conn_live (sconn s') = true /\
   hd_error (established s') = Some (gen s')) \/
  (ph s' = Idle /\ last_start s' = Some ResErr /\ started s' = false).
Proof.
  destruct s as [gen0 st0 conn0 ph0 cli0 pend0 closer0 fired0 est0 wait0 last0 run0 stale0].
  unfold start_pending at 1. projs.
  destruct ph0; try discriminate; intros _; destruct a; cbn [step ph sconn];
    try (intros X; discriminate X);
    unfold fail_start, set_ph; projs; cbn zeta;
    try (intros _; right; repeat split; reflexivity);
    repeat match goal with
    | |- context [if ?b then _ else _] => destruct b eqn:?
    end; projs;
    try (intros X; discriminate X);
    try (intros _; right; repeat split; reflexivity);
    try (intros _; left; cbn; repeat split; assumption);
    try (unfold emit_close; projs; destruct cli0; intros X; discriminate X).
Qed.

(* ---- the stuck state of the pinned code --------------------------------- *)

Lemma stuck_step sw s a :
  wait_cfg_unguarded sw = true -> ph s = AwaitConfigure -> conn_live (sconn s) = false ->
  ph (step sw s a) = AwaitConfigure /\ conn_live (sconn (step sw s a)) = false /\ fired (step sw s a) = fired s.
Proof.
  intros G.
  destruct s as [gen0 st0 conn0 ph0 cli0 pend0 closer0 fired0 est0 wait0 last0 run0 stale0]. projs.
  intros -> L. destruct a; cbn [step ph sconn]; rewrite ?L, ?G; projs; try (repeat split; assumption).
  unfold emit_close; projs. destruct cli0; projs; destruct conn0; cbn in *; repeat split; try reflexivity; discriminate.
Qed.

Lemma stuck_forever sw l : forall s,
  wait_cfg_unguarded sw = true -> ph s = AwaitConfigure -> conn_live (sconn s) = false ->
  ph (run sw s l) = AwaitConfigure /\ fired (run sw s l) = fired s.
Proof.
  unfold run. induction l as [|a r IH]; intros s G P L; cbn [fold_left]; [auto|].
  destruct (stuck_step sw s a G P L) as [P' [L' F']]. rewrite <- F'. apply IH; assumption.
Qed.

(* ---- C16_wait_returns ---------------------------------------------------- *)

Lemma waiters_only_in_session sw s : wf sw s -> waiters s <> [] -> ph s = Configured \/ ph s = Closing.
Proof.
  intros [_ _ _ _ _ Hwa _ _] W. destruct (ph s); auto; contradiction.
Qed.

Lemma memn_app_last g l : memn g (l ++ [g]) = true.
Proof. unfold memn. rewrite existsb_app. cbn. rewrite Nat.eqb_refl. apply orb_true_r. Qed.

Lemma wait_released_stop sw s :
  ph s = Configured ->
  let s' := run sw s [AStop; IServeDone] in ph s' = Idle /\ waiters s' = [] /\ started s' = false /\ sconn s' = CNone.
Proof.
  destruct s as [gen0 st0 conn0 ph0 cli0 pend0 closer0 fired0 est0 wait0 last0 run0 stale0]. projs. intros ->.
  cbn. repeat split.
Qed.

Lemma lost_step sw s :
  ph s = Configured -> cli_open s = true ->
  let s1 := step sw s EConnLost in
  ph s1 = Configured /\ pending s1 = pending s ++ [gen s] /\ gen s1 = gen s /\ fired s1 = fired s /\
  cli_open s1 = false /\ started s1 = started s /\ waiters s1 = waiters s.
Proof.
  destruct s as [gen0 st0 conn0 ph0 cli0 pend0 closer0 fired0 est0 wait0 last0 run0 stale0]. projs. intros -> ->.
  cbn [step ph]. unfold emit_close. projs. cbn zeta. repeat split.
Qed.

Lemma deliver_own sw s :
  ph s = Configured -> memn (gen s) (pending s) = true ->
  let s2 := step sw s (ADeliver (gen s)) in
  ph s2 = Closing /\ closer s2 = Some (gen s) /\ fired s2 = fired s.
Proof.
  destruct s as [gen0 st0 conn0 ph0 cli0 pend0 closer0 fired0 est0 wait0 last0 run0 stale0]. projs. intros -> M.
  cbn [step ph pending gen]. rewrite M, Nat.eqb_refl. cbn [orb]. unfold begin_close, emit_close. projs.
  destruct cli0; cbn zeta; projs; repeat split.
Qed.

Lemma serve_done_step sw s :
  ph s = Closing ->
  let s3 := step sw s IServeDone in
  ph s3 = Idle /\ waiters s3 = [] /\ started s3 = false /\ sconn s3 = CNone /\
  fired s3 = match closer s with Some g => g :: fired s | None => fired s end.
Proof.
  destruct s as [gen0 st0 conn0 ph0 cli0 pend0 closer0 fired0 est0 wait0 last0 run0 stale0]. projs. intros ->.
  cbn [step ph]. cbn zeta. projs. repeat split.
Qed.

Lemma wait_released_loss sw s :
  ph s = Configured -> cli_open s = true ->
  let s' := run sw s [EConnLost; ADeliver (gen s); IServeDone] in
  ph s' = Idle /\ waiters s' = [] /\ started s' = false /\ sconn s' = CNone /\ fired s' = gen s :: fired s.
Proof.
  intros P C. unfold run. cbn [fold_left].
  destruct (lost_step sw s P C) as [P1 [E1 [G1 [F1 _]]]].
  set (s1 := step sw s EConnLost) in *.
  assert (memn (gen s1) (pending s1) = true) as M by (rewrite E1, G1; apply memn_app_last).
  rewrite <- G1.
  destruct (deliver_own sw s1 P1 M) as [P2 [C2 F2]].
  set (s2 := step sw s1 (ADeliver (gen s1))) in *.
  destruct (serve_done_step sw s2 P2) as [P3 [W3 [S3 [N3 F3]]]].
  cbn zeta. repeat split; try assumption. rewrite F3, C2, F2, F1. reflexivity.
Qed.

(* in Idle every notification under way is delivered, whatever the switches *)
Lemma deliver_idle_hd sw s g r :
  ph s = Idle -> pending s = g :: r ->
  let s1 := step sw s (ADeliver g) in
  ph s1 = Idle /\ pending s1 = r /\ fired s1 = g :: fired s /\ started s1 = started s /\ sconn s1 = sconn s /\
  waiters s1 = waiters s /\ gen s1 = gen s /\ cli_open s1 = cli_open s.
Proof.
  destruct s as [gen0 st0 conn0 ph0 cli0 pend0 closer0 fired0 est0 wait0 last0 run0 stale0]. projs. intros -> ->.
  cbn [step ph pending]. unfold memn. cbn [existsb remove_first]. rewrite Nat.eqb_refl. cbn [orb]. cbn zeta. projs.
  repeat split.
Qed.

Lemma drain_idle sw : forall fuel s,
  ph s = Idle -> length (pending s) <= fuel ->
  ph (drain sw fuel s) = Idle /\ pending (drain sw fuel s) = [] /\
  fired (drain sw fuel s) = rev (pending s) ++ fired s /\
  started (drain sw fuel s) = started s /\ sconn (drain sw fuel s) = sconn s /\
  waiters (drain sw fuel s) = waiters s /\ gen (drain sw fuel s) = gen s /\ cli_open (drain sw fuel s) = cli_open s.
Proof.
  induction fuel as [|f IH]; intros s P Hl.
  - destruct (pending s) eqn:E; [|cbn in Hl; lia]. cbn [drain]. rewrite E. repeat split; auto.
  - cbn [drain]. rewrite P. destruct (pending s) as [|g r] eqn:E; [rewrite ?E; repeat split; auto|].
    destruct (deliver_idle_hd sw s g r P E) as [P1 [E1 [F1 [S1 [C1 [W1 [G1 O1]]]]]]].
    cbn [length] in Hl. specialize (IH (step sw s (ADeliver g)) P1 ltac:(rewrite E1; lia)).
    destruct IH as [A [B [C [D [E' [F [G H]]]]]]]. repeat split; try congruence.
    rewrite C, E1, F1. cbn [rev]. rewrite <- app_assoc. reflexivity.
Qed.

Lemma settle_idle sw s :
  ph s = Idle -> ph (settle sw s) = Idle /\ pending (settle sw s) = [] /\ fired (settle sw s) = rev (pending s) ++ fired s.
Proof.
  intros P. unfold settle, drain_fuel.
  destruct (drain_idle sw (2 * length (pending s) + 4) s P ltac:(lia)) as [A [B [C _]]]. auto.
Qed.

(* ---- C16_close_once ------------------------------------------------------ *)

Lemma close_at_most_once sw s g : wf sw s -> count_occ_nat g (fired s) <= 1.
Proof.
  intros [_ _ Htok _ _ _ _ _]. specialize (Htok g). unfold tokens in Htok.
  destruct (Nat.leb 1 g && Nat.leb g (gen s)); cbn [b2n] in Htok; lia.
Qed.

Lemma close_exactly_once_when_settled sw s g :
  wf sw s -> ph s = Idle -> pending s = [] -> 1 <= g <= gen s -> count_occ_nat g (fired s) = 1.
Proof.
  intros [Hcl Hcli Htok _ _ _ _ _] P E Hg. specialize (Htok g). unfold tokens in Htok.
  rewrite P in Hcl, Hcli. rewrite Hcl, Hcli, E in Htok. cbn [count_occ_nat andb b2n] in Htok.
  destruct (Nat.leb_spec 1 g) as [A|A]; [|lia]. destruct (Nat.leb_spec g (gen s)) as [B|B]; [|lia].
  cbn [andb b2n] in Htok. lia.
Qed.

(* ---- C16_restart_works --------------------------------------------------- *)

Lemma restart_works sw s :
  dead_conn_reused sw = false -> cfg_ok_unsent sw = false -> wf sw s -> ph s = Idle ->
  let s' := run sw s healthy_start in
  ph s' = Configured /\ started s' = true /\ last_start s' = Some ResOk /\
  gen s' = S (gen s) /\ sconn s' = CLive (S (gen s)) /\ cli_open s' = true /\
  hd_error (established s') = Some (gen s') /\ pending s' = pending s /\ fired s' = fired s.
Proof.
  intros D U [_ _ _ Hconn _ _ _ _] P. rewrite P in Hconn. specialize (Hconn D).
  destruct s as [gen0 st0 conn0 ph0 cli0 pend0 closer0 fired0 est0 wait0 last0 run0 stale0]. projs. subst.
  destruct stale0; cbn; rewrite ?U; cbn; repeat split.
Qed.

(* ... also when the connection the failed Start left behind is still there but no Start failed
   after dialling: what holds for every setting of the switches *)
Lemma restart_works_partial sw s :
  cfg_ok_unsent sw = false -> ph s = Idle -> sconn s = CNone ->
  let s' := run sw s healthy_start in
  ph s' = Configured /\ started s' = true /\ last_start s' = Some ResOk /\ sconn s' = CLive (S (gen s)).
Proof.
  intros U.
  destruct s as [gen0 st0 conn0 ph0 cli0 pend0 closer0 fired0 est0 wait0 last0 run0 stale0]. projs. intros -> ->.
  destruct stale0; cbn; rewrite ?U; cbn; repeat split.
Qed.

(* ---- C16_stale_notification_harmless -------------------------------------- *)

Lemma stale_harmless sw s g :
  stale_close_unfiltered sw = false -> failed_start_shares_session sw = false -> ph s = Configured -> g <> gen s ->
  same_session s (step sw s (ADeliver g)).
Proof.
  intros F F2 P N.
  destruct s as [gen0 st0 conn0 ph0 cli0 pend0 closer0 fired0 est0 wait0 last0 run0 stale0]. projs. subst.
  cbn [step ph]. projs. rewrite F, F2. destruct (Nat.eqb_spec g gen0); [contradiction|]. cbn [orb andb].
  destruct (memn g pend0); unfold same_session; projs; repeat split.
Qed.

Lemma idle_delivery_harmless sw s g : ph s = Idle -> same_session s (step sw s (ADeliver g)).
Proof.
  intros P.
  destruct s as [gen0 st0 conn0 ph0 cli0 pend0 closer0 fired0 est0 wait0 last0 run0 stale0]. projs. subst.
  cbn [step ph]. projs. destruct (memn g pend0); unfold same_session; projs; repeat split.
Qed.

(* an established session survives the delivery of every notification under way, in any number *)
Lemma session_survives sw : forall fuel s,
  stale_close_unfiltered sw = false -> failed_start_shares_session sw = false ->
  wf sw s -> ph s = Configured -> cli_open s = true ->
  same_session s (drain sw fuel s).
Proof.
  induction fuel as [|f IH]; intros s F F2 W P C.
  - cbn. unfold same_session. repeat split.
  - cbn [drain]. rewrite P. destruct (pending s) as [|g r] eqn:E; [unfold same_session; repeat split|].
    assert (g <> gen s) as N.
    { destruct W as [_ _ Htok _ _ _ _ _]. specialize (Htok (gen s)). unfold tokens in Htok.
      rewrite C, E, Nat.eqb_refl in Htok. cbn [andb b2n count_occ_nat] in Htok.
      destruct (Nat.eqb_spec g (gen s)) as [->|]; [|assumption].
      destruct (Nat.leb 1 (gen s) && Nat.leb (gen s) (gen s)); cbn [b2n] in Htok; lia. }
    pose proof (stale_harmless sw s g F F2 P N) as [A [B [C' [D [E' [F' [G [H [R T]]]]]]]]].
    pose proof (step_wf sw s (ADeliver g) W) as W'.
    specialize (IH (step sw s (ADeliver g)) F F2 W' ltac:(congruence) ltac:(congruence)).
    destruct IH as [A1 [B1 [C1 [D1 [E1 [F1 [G1 [H1 [R1 T1]]]]]]]]].
    unfold same_session. repeat split; congruence.
Qed.

(* ---- the three defects of the pinned code, as witnesses ------------------- *)

(* (a) registration answered, connection dropped before Configure: Start waits for ever, whatever
   happens afterwards; the lock stays held and the close call-back never runs *)
Lemma start_returns_refuted :
  exists l, reachable pinned (run pinned init l) /\
    let s := run pinned init l in
    start_pending s = true /\ enabled_env pinned s = [] /\
    forall l', start_pending (run pinned s l') = true /\ lock_free (run pinned s l') = false /\ fired (run pinned s l') = [].
Proof.
  exists (start_actions BDropAfterReg). split; [eexists; reflexivity|]. cbn zeta.
  split; [vm_compute; reflexivity|]. split; [vm_compute; reflexivity|]. intros l'.
  destruct (stuck_forever pinned l' (run pinned init (start_actions BDropAfterReg)) eq_refl eq_refl eq_refl) as [P F].
  unfold start_pending, lock_free. rewrite P, F. repeat split.
Qed.

(* (c) a Start that failed after the connection was made leaves the dead connection behind: every
   later Start against a healthy runtime fails, any number of times *)
Lemma dead_conn_step s g :
  ph s = Idle -> sconn s = CDead g ->
  let s' := run_start pinned s BHealthy in
  ph s' = Idle /\ sconn s' = CDead g /\ started s' = false /\ last_start s' = Some ResErr.
Proof.
  destruct s as [gen0 st0 conn0 ph0 cli0 pend0 closer0 fired0 est0 wait0 last0 run0 stale0]. projs. intros -> ->.
  cbn. repeat split.
Qed.

Lemma dead_conn_forever n : forall s g,
  ph s = Idle -> sconn s = CDead g ->
  let s' := Nat.iter n (fun x => run_start pinned x BHealthy) s in
  ph s' = Idle /\ sconn s' = CDead g /\ (0 < n -> started s' = false /\ last_start s' = Some ResErr).
Proof.
  induction n as [|n IH]; intros s g P C; cbn [Nat.iter].
  - cbn zeta. repeat split; auto; lia.
  - cbn zeta. destruct (IH s g P C) as [P1 [C1 _]].
    destruct (dead_conn_step _ g P1 C1) as [P2 [C2 [S2 L2]]]. repeat split; auto.
Qed.

Lemma restart_works_refuted :
  exists l, reachable pinned (run pinned init l) /\
    let s := run pinned init l in
    ph s = Idle /\ last_start s = Some ResErr /\
    forall n, 0 < n ->
      let s' := Nat.iter n (fun x => run_start pinned x BHealthy) s in
      ph s' = Idle /\ started s' = false /\ last_start s' = Some ResErr.
Proof.
  exists (start_actions BRefuse). split; [eexists; reflexivity|]. cbn zeta.
  split; [reflexivity|]. split; [reflexivity|]. intros n Hn.
  destruct (dead_conn_forever n (run pinned init (start_actions BRefuse)) 1 eq_refl eq_refl) as [P [_ R]].
  destruct (R Hn) as [S L]. repeat split; assumption.
Qed.

(* (b) Stop, immediate Start: the stopped session's close notification, delivered once the new
   session is up, closes the new session *)
Lemma stale_notification_refuted :
  exists l g, reachable pinned (run pinned init l) /\
    let s := run pinned init l in
    ph s = Configured /\ started s = true /\ g <> gen s /\ memn g (pending s) = true /\
    ph (step pinned s (ADeliver g)) = Closing /\
    let s' := settle pinned s in ph s' = Idle /\ started s' = false /\ fired s' = [2; 1].
Proof.
  exists (healthy_start ++ [AStop; IServeDone] ++ healthy_start), 1.
  split; [eexists; reflexivity|]. vm_compute. repeat split; congruence.
Qed.

(* the variant: the session number advanced only when an established session is closed.  A Start that
   fails after its client exists, an immediate healthy Start, then the failed attempt's notification:
   the new session is closed *)
Lemma failed_start_notification_refuted :
  exists l g, reachable shared_session (run shared_session init l) /\
    let s := run shared_session init l in
    ph s = Configured /\ started s = true /\ g <> gen s /\ memn g (pending s) = true /\
    ph (step shared_session s (ADeliver g)) = Closing /\
    let s' := settle shared_session s in ph s' = Idle /\ started s' = false /\ fired s' = [2; 1].
Proof.
  exists (start_actions BRefuse ++ healthy_start), 1.
  split; [eexists; reflexivity|]. vm_compute. repeat split; congruence.
Qed.

(* ... while in that variant the notification of a STOPPED session is still filtered *)
Lemma shared_session_stop_filtered :
  let s := run shared_session init (healthy_start ++ [AStop; IServeDone] ++ healthy_start) in
  ph s = Configured /\ memn 1 (pending s) = true /\ ph (settle shared_session s) = Configured.
Proof. vm_compute. repeat split. Qed.

(* the variant that omits the send on the rejection path: the stub refuses the mask, the runtime end keeps
   the connection: Start is pending, nothing is enabled, and as long as the connection is not lost it
   stays pending, holding the lock *)
Lemma await_lost_step sw s a :
  ph s = AwaitLost -> a <> EConnLost -> step sw s a = s.
Proof.
  destruct s as [gen0 st0 conn0 ph0 cli0 pend0 closer0 fired0 est0 wait0 last0 run0 stale0]. projs. intros -> N.
  destruct a; try reflexivity. contradiction.
Qed.

Lemma await_lost_run sw l : forall s, ph s = AwaitLost -> ~ In EConnLost l -> run sw s l = s.
Proof.
  unfold run. induction l as [|a r IH]; intros s P N; cbn [fold_left]; [reflexivity|].
  rewrite (await_lost_step sw s a P) by (intros ->; apply N; left; reflexivity).
  apply IH; [exact P|]. intros H. apply N. right. exact H.
Qed.

Lemma configure_result_unsent_refuted :
  exists l, reachable reject_unsent (run reject_unsent init l) /\
    let s := run reject_unsent init l in
    start_pending s = true /\ enabled_env reject_unsent s = [] /\ conn_live (sconn s) = true /\
    forall l', ~ In EConnLost l' ->
      start_pending (run reject_unsent s l') = true /\ lock_free (run reject_unsent s l') = false.
Proof.
  exists (start_actions BCfgReject). split; [eexists; reflexivity|]. cbn zeta.
  split; [reflexivity|]. split; [reflexivity|]. split; [reflexivity|]. intros l' N.
  rewrite (await_lost_run reject_unsent l' (run reject_unsent init (start_actions BCfgReject)) eq_refl N).
  split; reflexivity.
Qed.

(* ---- Run ------------------------------------------------------------------- *)

(* a Run call is blocked only while its session is established or being closed *)
Lemma runners_only_in_session sw s :
  close_takes_srv_result sw = false -> wf sw s -> runners s <> [] -> ph s = Configured \/ ph s = Closing.
Proof.
  intros D [_ _ _ _ _ _ Hrun _] R. specialize (Hrun D). destruct (ph s); auto; contradiction.
Qed.

Lemma run_released_stop sw s :
  close_takes_srv_result sw = false -> wf sw s -> ph s = Configured ->
  let s' := run sw s [AStop; IServeDone] in
  ph s' = Idle /\ runners s' = [] /\ waiters s' = [] /\ started s' = false /\ lock_free s' = true.
Proof.
  intros D [_ _ _ _ _ _ Hrun _] P. specialize (Hrun D). rewrite P in Hrun.
  destruct s as [gen0 st0 conn0 ph0 cli0 pend0 closer0 fired0 est0 wait0 last0 run0 stale0]. projs. subst.
  unfold run. cbn [fold_left step ph]. unfold begin_close, emit_close. projs.
  destruct cli0; cbn [step ph]; projs; rewrite D, (remove_all_all gen0 run0 Hrun); repeat split.
Qed.

Lemma serve_done_runners sw s :
  close_takes_srv_result sw = false -> ph s = Closing -> forallb (Nat.eqb (gen s)) (runners s) = true ->
  runners (step sw s IServeDone) = [].
Proof.
  destruct s as [gen0 st0 conn0 ph0 cli0 pend0 closer0 fired0 est0 wait0 last0 run0 stale0]. projs. intros D -> H.
  cbn [step ph]. projs. rewrite D. exact (remove_all_all gen0 run0 H).
Qed.

Lemma run_released_loss sw s :
  close_takes_srv_result sw = false -> wf sw s -> ph s = Configured -> cli_open s = true ->
  let s' := run sw s [EConnLost; ADeliver (gen s); IServeDone] in
  ph s' = Idle /\ runners s' = [] /\ waiters s' = [] /\ started s' = false.
Proof.
  intros D W P C.
  destruct (wait_released_loss sw s P C) as [P3 [W3 [S3 _]]]. cbn zeta in *.
  repeat split; try assumption.
  unfold run in *. cbn [fold_left] in *.
  pose proof (step_wf sw _ (ADeliver (gen s)) (step_wf sw s EConnLost W)) as W2.
  destruct (lost_step sw s P C) as [P1 [E1 [G1 _]]].
  set (s1 := step sw s EConnLost) in *.
  assert (memn (gen s1) (pending s1) = true) as M by (rewrite E1, G1; apply memn_app_last).
  rewrite <- G1 in *.
  destruct (deliver_own sw s1 P1 M) as [P2 _].
  set (s2 := step sw s1 (ADeliver (gen s1))) in *.
  destruct W2 as [_ _ _ _ _ _ Hrun _]. specialize (Hrun D). rewrite P2 in Hrun.
  exact (serve_done_runners sw s2 D P2 Hrun).
Qed.

(* ---- the variant whose close() receives from srvErrC ------------------------ *)

Lemma closing_stuck_step sw s a : ph s = ClosingStuck -> step sw s a = s.
Proof.
  destruct s as [gen0 st0 conn0 ph0 cli0 pend0 closer0 fired0 est0 wait0 last0 run0 stale0]. projs. intros ->.
  destruct a; reflexivity.
Qed.

Lemma closing_stuck_run sw l : forall s, ph s = ClosingStuck -> run sw s l = s.
Proof.
  unfold run. induction l as [|a r IH]; intros s P; cbn [fold_left]; [reflexivity|].
  rewrite (closing_stuck_step sw s a P). exact (IH s P).
Qed.

(* a Run call left behind on an ended session stays blocked whatever happens *)
Definition stale_runner (g : nat) (s : state) : Prop :=
  In g (runners s) /\ g <= gen s /\
  (g < gen s \/ match ph s with Idle | Dialing | MuxUp => True | _ => False end).

Lemma stale_runner_step sw s a g :
  close_takes_srv_result sw = true -> stale_runner g s -> stale_runner g (step sw s a).
Proof.
  intros D [I [L O]].
  destruct s as [gen0 st0 conn0 ph0 cli0 pend0 closer0 fired0 est0 wait0 last0 run0 stale0]. projs.
  destruct a; destruct ph0; cbn [step ph]; try (split; [exact I|split; [exact L|exact O]]);
    unfold fail_start, begin_close, emit_close, set_ph, kill; projs; split_ifs; projs;
    unfold stale_runner; projs;
    try (split; [exact I|split; [exact L|exact O]]);
    try (split; [first [exact I | right; exact I]|split; [lia|first [right; exact Logic.I | left; lia | exact O | destruct O as [O|[]]; left; lia]]]).
  all: try (destruct O as [O|[]]; split; [apply in_remove_all; [exact I|lia]|split; [lia|left; lia]]).
  all: try (rewrite D in *; discriminate).
Qed.

Lemma stale_runner_run sw l g : forall s,
  close_takes_srv_result sw = true -> stale_runner g s -> stale_runner g (run sw s l).
Proof.
  unfold run. induction l as [|a r IH]; intros s D H; cbn [fold_left]; [exact H|].
  apply IH; [exact D|]. exact (stale_runner_step sw s a g D H).
Qed.

Lemma run_or_stop_hangs_refuted :
  exists l, reachable srv_result_shared (run srv_result_shared init l) /\
    let s := run srv_result_shared init l in
    ph s = Closing /\ runners s = [1] /\
    (* the teardown gets the server result: Stop returns, Run never does *)
    (let s1 := step srv_result_shared s IServeDone in
     ph s1 = Idle /\ forall l', In 1 (runners (run srv_result_shared s1 l'))) /\
    (* Run gets it: Run returns, Stop never does and keeps the lock *)
    (let s2 := step srv_result_shared s IRunTakes in
     runners s2 = [] /\ forall l', lock_free (run srv_result_shared s2 l') = false).
Proof.
  exists (healthy_start ++ [ARunWait; AStop]). split; [eexists; reflexivity|]. cbn zeta.
  split; [reflexivity|]. split; [reflexivity|]. split.
  - split; [reflexivity|]. intros l'.
    apply (stale_runner_run srv_result_shared l' 1 _ eq_refl).
    vm_compute. split; [left; reflexivity|]. split; [lia|right; exact I].
  - split; [reflexivity|]. intros l'. rewrite closing_stuck_run by reflexivity. reflexivity.
Qed.

(* ---- a session's configuration result belongs to that session --------------------------------- *)

(* with a channel per Start: a pending Start ends in Configured only through the Configure of its own
   session being handled and accepted while it waits *)
Lemma start_succeeds_on_own_configure sw s a :
  cfg_chan_shared sw = false -> wf sw s -> start_pending s = true -> ph (step sw s a) = Configured ->
  a = ECfgOk /\ ph s = AwaitConfigure /\ conn_live (sconn s) = true.
Proof.
  intros D [_ _ _ _ _ _ _ Hstale]. specialize (Hstale D).
  destruct s as [gen0 st0 conn0 ph0 cli0 pend0 closer0 fired0 est0 wait0 last0 run0 stale0]. projs. subst stale0.
  unfold start_pending. projs.
  destruct ph0; try discriminate; intros _; destruct a; cbn [step ph sconn];
    unfold fail_start, set_ph, emit_close; projs;
    repeat match goal with |- context [if ?b then _ else _] => destruct b eqn:? end; projs;
    try (intros X; discriminate X); intros _; repeat split; assumption.
Qed.

(* the variant whose channel is created once: a result left over from a session that failed is taken
   for the next session's: Start reports success right after registration, without any Configure *)
Lemma stale_configuration_refuted :
  exists l, reachable shared_cfg_chan (run shared_cfg_chan init l) /\
    let s := run shared_cfg_chan init l in
    ph s = Idle /\ last_start s = Some ResErr /\ stale_cfg s = true /\
    let s' := run shared_cfg_chan s [AStart; EDialOk; ISetupOk; ERegOk] in
    ph s' = Configured /\ last_start s' = Some ResOk /\ started s' = true.
Proof.
  exists (start_actions BDropInSlowCfg). split; [eexists; reflexivity|]. vm_compute. repeat split.
Qed.
