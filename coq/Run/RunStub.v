(* Case records and the corr_* / holds_* functions evaluated on the cases written by
   harness/cmd/h_stub (drivers stubdispatch: C15, stublife: C16). *)
From Coq Require Import String List Bool ZArith NArith Arith.
From NRI Require Import Base.Strs Base.Assoc Model.Consts Model.Event Model.StubConsts Model.Stub.
From NRI Require Import Spec.StubSpec Run.Common.
Import ListNotations.
Open Scope string_scope.
Open Scope list_scope.

(* ====================================================================== *)
(* C15                                                                     *)
(* ====================================================================== *)

(* configuration: a Go plugin type (its handler subset as a number), what its Configure hook did,
   whether stub.New accepted the plugin, and — if so — what the scripted runtime end got back
   for its Configure request *)
(* what the runtime end saw: a response / an error response, or — the stub tears the connection
   down as soon as Configure failed, racing with the error response — only a closed connection *)
Inductive cfg_obs := OResult (r : cfg_result) | ORejected.
Record cfg_case := { cc_plugin : N; cc_hook : cfg_hook; cc_new_ok : bool; cc_obs : option cfg_obs }.

Definition cfg_result_eqb (a b : cfg_result) : bool :=
  match a, b with
  | COk x, COk y => Z.eqb x y
  | CErrHook, CErrHook => true
  | CErrUnhandled, CErrUnhandled => true
  | _, _ => false
  end.

Definition corr_cfg (c : cfg_case) : bool :=
  Bool.eqb (new_ok (cc_plugin c)) (cc_new_ok c) &&
  match cc_obs c with
  | Some (OResult o) => cc_new_ok c && cfg_result_eqb (configure (cc_plugin c) (cc_hook c)) o
  | Some ORejected =>
      cc_new_ok c && match configure (cc_plugin c) (cc_hook c) with COk _ => false | _ => true end
  | None => negb (cc_new_ok c)
  end.

Definition holds_cfg_case (c : cfg_case) : bool :=
  Bool.eqb (ref_new_ok (cc_plugin c)) (cc_new_ok c) &&
  match cc_obs c with
  | Some (OResult o) => holds_cfg (cc_plugin c) (cc_hook c) o
  | Some ORejected =>
      holds_cfg (cc_plugin c) (cc_hook c) CErrHook || holds_cfg (cc_plugin c) (cc_hook c) CErrUnhandled
  | None => negb (cc_new_ok c)
  end.

(* consecutive sessions of ONE stub object: the hook behaviour per session and what the runtime end saw *)
Record sess_case := { sc_plugin : N; sc_hooks : list cfg_hook; sc_obs : list cfg_obs }.

Definition obs_matches (model : cfg_result) (o : cfg_obs) : bool :=
  match o with
  | OResult r => cfg_result_eqb model r
  | ORejected => match model with COk _ => false | _ => true end
  end.

Fixpoint all2 {A B} (f : A -> B -> bool) (a : list A) (b : list B) : bool :=
  match a, b with
  | [], [] => true
  | x :: r, y :: s => f x y && all2 f r s
  | _, _ => false
  end.

Definition corr_sess (c : sess_case) : bool :=
  all2 obs_matches (sessions (sc_plugin c) (sc_hooks c)) (sc_obs c).

(* every session is judged as a first session *)
Definition holds_sess (c : sess_case) : bool :=
  all2 (fun h o => match o with
                   | OResult r => holds_cfg (sc_plugin c) h r
                   | ORejected => holds_cfg (sc_plugin c) h CErrHook || holds_cfg (sc_plugin c) h CErrUnhandled
                   end) (sc_hooks c) (sc_obs c).

(* delivery: the message the scripted runtime end sent (carrier, event number, one token per
   field; "" = absent), what each plugin method was scripted to return, and the observation:
   the recorded invocations (method, tokens of its arguments) and what the runtime end got back *)
Record disp_case := {
  dc_plugin : N; dc_carrier : carrier; dc_event : Z; dc_fields : list (string * string);
  dc_seq : string; dc_fail : bool; dc_empty : bool; dc_upd : option string;
  dc_inv : list invocation; dc_reply : reply }.

(* the scripted behaviour of the plugin's methods in one delivery: every method returns tokens
   that name the method and the delivery (the harness scripts the same tokens), so that a
   result relayed from the wrong method or from an earlier delivery is visible *)
Definition mk_beh (s : string) (fail empty : bool) (upd : option string) (meth : string) : hresult :=
  {| r_adjust := if empty then "" else "A:" ++ meth ++ ":" ++ s;
     (* upd = Some l: every method returns exactly the update list l ('+'-separated container ids, "" = nil),
        e.g. lists that name the request's own container *)
     r_update := match upd with
                 | Some l => l
                 | None => if empty then "" else "U:" ++ meth ++ ":" ++ s ++ "+V"
                 end;
     r_error := if fail then "E:" ++ meth ++ ":" ++ s else "" |}.

Definition dc_msg (c : disp_case) : message := {| m_event := dc_event c; m_fields := dc_fields c |}.
Definition dc_beh (c : disp_case) : string -> hresult := mk_beh (dc_seq c) (dc_fail c) (dc_empty c) (dc_upd c).

Definition corr_disp (c : disp_case) : bool :=
  delivery_eqb (deliver (dc_plugin c) (dc_carrier c) (dc_msg c) (dc_beh c)) (dc_inv c, dc_reply c).

Definition holds_disp_case (c : disp_case) : bool :=
  holds_disp (dc_plugin c) (dc_carrier c) (dc_msg c) (dc_beh c) (dc_inv c, dc_reply c).

(* ====================================================================== *)
(* C16                                                                     *)
(* ====================================================================== *)

(* a sequence of operations on one stub and what was observed after each (the sequence of
   observations ends with the first operation that did not return) *)
Record life_case := { lc_ops : list op; lc_obs : list obs }.

Definition oclass_eqb (a b : oclass) : bool :=
  match a, b with
  | KOk, KOk | KErr, KErr | KReturned, KReturned | KBlocked, KBlocked | KCrashed, KCrashed => true
  | _, _ => false
  end.

Definition obs_eqb (a b : obs) : bool :=
  oclass_eqb (o_class a) (o_class b) && opt_eqb Bool.eqb (o_started a) (o_started b) &&
  Nat.eqb (o_closes a) (o_closes b) && Nat.eqb (o_waiting a) (o_waiting b) && Nat.eqb (o_running a) (o_running b).

(* the observation is one of those the life-cycle LTS predicts under the given switches *)
Definition predicted (sw : switches) (c : life_case) : bool :=
  existsb (list_eqb obs_eqb (lc_obs c)) (run_ops sw init (lc_ops c)).

(* the model of the CURRENT code *)
Definition corr_life (c : life_case) : bool := predicted faithful c.
(* the behaviour the property demands (the LTS with the three defects off; Properties/C16.v
   proves that this LTS has the properties the text states) *)
Definition holds_life (c : life_case) : bool := predicted fixed c.
