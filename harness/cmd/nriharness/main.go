// nriharness drives the real containerd/nri implementation (built from /repo's
// working tree) and writes correspondence cases for the Coq models.
package main

import (
	"flag"
	"fmt"
	"os"
	"sort"

	"verif/harness/internal/hx"
)

type driver func(*hx.Ctx) error

var drivers = map[string]driver{}

func main() {
	var c hx.Ctx
	flag.Int64Var(&c.Seed, "seed", 1, "PRNG seed")
	flag.StringVar(&c.Tier, "tier", "quick", "quick|thorough")
	flag.StringVar(&c.Out, "out", "", "output directory")
	flag.StringVar(&c.Repo, "repo", "/repo", "repository root")
	flag.StringVar(&c.Replay, "replay", "", "replay file")
	flag.Parse()
	if flag.NArg() != 1 || c.Out == "" {
		var names []string
		for n := range drivers {
			names = append(names, n)
		}
		sort.Strings(names)
		fmt.Fprintf(os.Stderr, "usage: nriharness -out DIR [-seed N] [-tier T] <driver>\ndrivers: %v\n", names)
		os.Exit(2)
	}
	d, ok := drivers[flag.Arg(0)]
	if !ok {
		fmt.Fprintf(os.Stderr, "unknown driver %q\n", flag.Arg(0))
		os.Exit(2)
	}
	if err := os.MkdirAll(c.Out, 0o755); err != nil {
		fmt.Fprintln(os.Stderr, err)
		os.Exit(2)
	}
	if err := d(&c); err != nil {
		c.HarnessError("driver %s: %v", flag.Arg(0), err)
	}
	if err := c.Finish(); err != nil {
		fmt.Fprintln(os.Stderr, err)
		os.Exit(2)
	}
	if len(c.Stats.HarnessErrors) > 0 {
		for _, e := range c.Stats.HarnessErrors {
			fmt.Fprintln(os.Stderr, "HARNESS-ERROR:", e)
		}
		os.Exit(3)
	}
}
