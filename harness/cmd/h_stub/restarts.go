package main

// Restart stream of driver "stubdispatch" (C15): ONE stub.Stub object is started two or three times
// (Stop, or a rejected configuration, in between) and its Configure hook answers differently in each
// session.  Every session must be answered as if it were the first.

import (
	"context"
	"fmt"
	"math/bits"
	"sync/atomic"
	"time"

	"github.com/containerd/nri/pkg/stub"
	"google.golang.org/grpc/status"

	"verif/harness/internal/coqfmt"
)

type sessObs struct {
	Cfg    cfgSpec `json:"configure"`
	Obs    string  `json:"observed"`
	Events int32   `json:"events"`
	ErrMsg string  `json:"error_message,omitempty"`
	Start  string  `json:"start_error,omitempty"`
}

type sessRaw struct {
	Stream   string    `json:"stream"`
	Plugin   int       `json:"plugin_mask"`
	Sessions []sessObs `json:"sessions"`
}

// wantCfg: what the property demands of the answer to Configure in ANY session (oracle in Go).
func wantCfg(mask int, cs cfgSpec) (string, int32) {
	ref := refMask(mask)
	switch {
	case cs.Hook == "none":
		return "ok", ref
	case cs.Hook == "fails":
		return "err-hook", 0
	case cs.Mask&^ref != 0:
		return "err-unhandled", 0
	case cs.Mask == 0:
		return "ok", ref
	}
	return "ok", cs.Mask
}

// restartVariants: the session scripts tried for a handler subset (hook present).
func (d *dispDriver) restartVariants(mask int) [][]cfgSpec {
	exact := refMask(mask)
	m := func(name string, v int32) cfgSpec { return cfgSpec{Name: name, Hook: "mask", Mask: v} }
	zero, all, fails := m("zero", 0), m("exact", exact), cfgSpec{Name: "hook-fails", Hook: "fails"}
	var un int32
	for b := int32(1); b <= 8191; b <<= 1 {
		if exact&b == 0 {
			un = b
			break
		}
	}
	var out [][]cfgSpec
	if bits.OnesCount32(uint32(exact)) < 2 {
		out = append(out, []cfgSpec{all, zero})
		if un != 0 {
			out = append(out, []cfgSpec{m("unimplemented-only", un), zero}, []cfgSpec{fails, all})
		}
		return out
	}
	a := exact
	for a == exact || a == 0 {
		a = exact & int32(d.rnd.Uint32())
	}
	b := exact &^ a // implemented, disjoint from a
	subA, subB := m("subset-A", a), m("subset-B-not-in-A", b)
	out = append(out,
		[]cfgSpec{subA, zero},
		[]cfgSpec{subA, subB},
		[]cfgSpec{all, subA, zero},
		[]cfgSpec{fails, zero, subB},
	)
	if un != 0 {
		out = append(out, []cfgSpec{m("superset", exact|un), all}, []cfgSpec{subA, m("superset-of-A", a|un), subB})
	}
	return out
}

// restarts runs one stub object through the sessions of script.
func (d *dispDriver) restarts(pt pluginType, script []cfgSpec) error {
	c := d.c
	co := &core{}
	var closes atomic.Int32
	st, err := stub.New(pt.mk(co), stub.WithPluginName("disp"), stub.WithPluginIdx("00"),
		stub.WithSocketPath(d.rt.sock), stub.WithOnClose(func() { closes.Add(1) }))
	if err != nil {
		return fmt.Errorf("plugin %d: stub.New: %v", pt.mask, err)
	}
	raw := sessRaw{Stream: "sess", Plugin: pt.mask}
	var hooks, obsTerms []string
	key := fmt.Sprintf("sess/%d", pt.mask)
	for i, cs := range script {
		d.n++
		co.mu.Lock()
		co.cfgMask, co.cfgFail = cs.Mask, ""
		if cs.Hook == "fails" {
			co.cfgFail = fmt.Sprintf("hook-failure-%d", d.n)
		}
		fail := co.cfgFail
		co.mu.Unlock()
		base := closes.Load()
		call := launch(func() error { return st.Start(context.Background()) })
		var s *session
		select {
		case s = <-d.rt.accepted:
		case <-time.After(10 * time.Second):
			return fmt.Errorf("plugin %d, session %d (%s): no connection reached the scripted runtime (Start returned: %v, %v)",
				pt.mask, i+1, cs.Name, call.returned(), call.err)
		}
		if !call.wait(20 * time.Second) {
			return fmt.Errorf("plugin %d, session %d (%s): Start did not return", pt.mask, i+1, cs.Name)
		}
		if !waitC(s.configured, 10*time.Second) {
			return fmt.Errorf("plugin %d, session %d (%s): Configure was not answered (Start: %v)", pt.mask, i+1, cs.Name, call.err)
		}
		o := sessObs{Cfg: cs}
		term := ""
		if s.cfgErr == nil {
			o.Obs, o.Events = "ok", s.cfgResp.GetEvents()
			term = "OResult (COk " + coqfmt.Z(int64(o.Events)) + ")"
		} else {
			o.ErrMsg = s.cfgErr.Error()
			sst, isStatus := status.FromError(s.cfgErr)
			switch {
			case !isStatus:
				o.Obs, term = "rejected-connection-closed", "ORejected"
			case fail != "" && sst.Message() == fail:
				o.ErrMsg = sst.Message()
				o.Obs, term = "err-hook", "OResult CErrHook"
			default:
				o.ErrMsg = sst.Message()
				o.Obs, term = "err-unhandled", "OResult CErrUnhandled"
			}
		}
		if call.err != nil {
			o.Start = call.err.Error()
		}
		raw.Sessions = append(raw.Sessions, o)
		hooks = append(hooks, cfgHookTerm(cs))
		obsTerms = append(obsTerms, term)
		key += fmt.Sprintf("/%s:%d", cs.Hook, cs.Mask)
		c.Count(fmt.Sprintf("sess/session-%d/%s=%s", i+1, cs.Name, o.Obs), 1)

		want, wantEvents := wantCfg(pt.mask, cs)
		switch {
		case o.Obs == "rejected-connection-closed" && (want == "err-hook" || want == "err-unhandled"):
		case o.Obs != want || (want == "ok" && o.Events != wantEvents):
			c.ImplFail("sess", fmt.Sprintf("C15: session %d of one stub (hook %s mask %d): Configure answered %s events=%d, the property demands %s events=%d as in a first session",
				i+1, cs.Hook, cs.Mask, o.Obs, o.Events, want, wantEvents), raw)
		}
		if (call.err == nil) != (s.cfgErr == nil) {
			c.ImplFail("sess", fmt.Sprintf("C15: session %d: Start returned %v although Configure was answered with %v", i+1, call.err, s.cfgErr), raw)
		}

		if call.err == nil {
			for _, m := range d.messages(false) {
				if err := d.deliver(pt, co, s, m); err != nil {
					return fmt.Errorf("plugin %d, session %d: %v", pt.mask, i+1, err)
				}
			}
			st.Stop()
		}
		// let the session's close notification run before the next Start (the timing of it is C16's subject)
		deadline := time.Now().Add(5 * time.Second)
		for closes.Load() == base && time.Now().Before(deadline) {
			time.Sleep(time.Millisecond)
		}
	}
	d.sessS.Add(fmt.Sprintf("{| sc_plugin := %s; sc_hooks := %s; sc_obs := %s |}",
		coqfmt.N(uint64(pt.mask)), coqfmt.List(hooks), coqfmt.List(obsTerms)), raw)
	c.Eval(key, len(script) > 1)
	c.Sample(raw, 6)
	return nil
}
