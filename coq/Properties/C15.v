(* C15 — the stub subscribes exactly the implemented events and dispatches faithfully.
   This file contains only statements closed by [exact].

   Vocabulary (Model/Stub.v mirrors pkg/stub/stub.go; the wiring tables setup_table,
   statechange_table, rpc_table and the two Configure switches are regenerated from stub.go on
   every run, the event numbers from api.pb.go):
     plugin            a plugin TYPE = the subset of the thirteen handler interfaces it implements,
                       as a 13-bit number p (bit hindex h = implements the interface of handler h);
                       the complete domain is 0 <= p < 8192 = num_plugins
     implements p h    p implements handler h;  proto_event h = the event h exists for
     stub_events p     stub.events after setupHandlers;  implemented p e = bit e of it
     configure p hook  what the stub answers to Configure, hook = what the plugin's own Configure
                       did: absent (NoHook), failed (HookFails), returned mask r (HookMask r)
     deliver p c m beh the invocations of plugin methods (method name, the message fields it was
                       given) and the reply the runtime sees, when message m arrives on carrier c
                       (an RPC of its own, or StateChange) at a stub of plugin type p whose methods
                       behave as beh (an ARBITRARY function method -> adjustment, updates, error)
     expected_delivery / expected_msg   the reference of Spec/StubSpec.v: the handler the message is
                       for, if p implements it, runs exactly once with the fields of its signature and
                       its adjustment / updates — or its error — are the reply; nothing else runs.
   Message fields and results are tokens standing for the content (a pod, a container, a resource
   set, an adjustment, ...): the stub passes pointers on without looking inside, which is what the
   correspondence driver checks on the real code with distinguishable payloads.
   Finite domains (8192 plugin types, 13 handlers, 31 event bits) are discharged by vm_compute over
   the complete domain; message contents and handler behaviours are universally quantified. *)
From Coq Require Import String List Bool ZArith NArith.
From NRI Require Import Base.Strs Base.Assoc Model.Consts Model.Event Model.StubConsts Model.Stub.
From NRI Require Import Spec.StubSpec Proofs.StubProofs.
Import ListNotations.
Open Scope string_scope.
Open Scope list_scope.

(* ------------------------------------------------------------------ subscription *)

(* the mask computed by setupHandlers has exactly the events of the implemented handlers *)
Theorem C15_implemented_exact : forall p e,
  (p < 8192)%N -> (1 <= e <= 31)%Z ->
  (implemented p e = true <-> exists h, implements p h = true /\ proto_event h = e).
Proof. exact implemented_exact. Qed.
Print Assumptions C15_implemented_exact.

(* an accepted configuration subscribes only implemented events; without a hook, or when the
   hook returns 0, the subscription is the stub's mask (exactly the implemented events, by the
   theorem above); otherwise it is exactly the mask the plugin asked for *)
Theorem C15_subscription : forall p hook m,
  configure p hook = COk m ->
  (forall e, (1 <= e)%Z -> is_set m e = true -> implemented p e = true) /\
  match hook with
  | NoHook => m = stub_events p
  | HookFails => False
  | HookMask r => (r = 0%Z -> m = stub_events p) /\ (r <> 0%Z -> m = r)
  end.
Proof. exact configure_subscription. Qed.
Print Assumptions C15_subscription.

(* composition with the runtime's subscription test (C06 is_set): an event the runtime will send
   to this plugin always has a handler *)
Theorem C15_subscribed_has_handler : forall p hook m e,
  (p < 8192)%N -> (1 <= e <= 31)%Z -> configure p hook = COk m -> is_set m e = true ->
  exists h, implements p h = true /\ proto_event h = e.
Proof. exact subscribed_has_handler. Qed.
Print Assumptions C15_subscribed_has_handler.

(* asking for an event the plugin cannot handle is rejected *)
Theorem C15_reject_unhandled : forall p r e,
  (1 <= e)%Z -> is_set r e = true -> implemented p e = false -> configure p (HookMask r) = CErrUnhandled.
Proof. exact configure_rejects. Qed.
Print Assumptions C15_reject_unhandled.

(* the executable predicate the correspondence driver evaluates on the real stub's answers
   (Spec.StubSpec.holds_cfg: no hook / 0 -> exactly the reference mask; subset -> that subset;
   not a subset -> refused; failing hook -> its failure) is true of the model for every plugin
   type and every hook behaviour, and stub.New fails exactly for handler-less plugins *)
Theorem C15_holds_cfg : forall p hook, (p < 8192)%N -> holds_cfg p hook (configure p hook) = true.
Proof. exact holds_cfg_configure. Qed.
Print Assumptions C15_holds_cfg.

Theorem C15_new_ok : forall p, (p < 8192)%N -> stub_events p = ref_mask p /\ new_ok p = ref_new_ok p.
Proof. exact stub_events_ref. Qed.
Print Assumptions C15_new_ok.

(* ------------------------------------------------------------------ several sessions of one stub *)

(* A stub object can be started again after Stop, a lost connection or a failed Start (C16).  For ANY
   sequence of sessions with ANY hook behaviour per session, every session is answered as if it were the
   first: the subscription a plugin asked for in one session does not narrow (or otherwise change) what a
   later session can get.  sessions p hooks runs Configure with the stub's mask threaded through the
   sessions; whether Configure writes that mask is read from stub.go on every run. *)
Theorem C15_sessions_independent : forall p hooks, sessions p hooks = map (configure p) hooks.
Proof. exact sessions_independent. Qed.
Print Assumptions C15_sessions_independent.

Theorem C15_sessions_hold : forall p hooks,
  (p < 8192)%N -> Forall2 (fun h r => holds_cfg p h r = true) hooks (sessions p hooks).
Proof. exact sessions_hold. Qed.
Print Assumptions C15_sessions_hold.

(* non-vacuity, and the variant that stores the accepted subscription in the stub's mask: plugin type 33
   (events 1 and 4): session 1 asks for event 1, session 2 asks for "everything" (0), session 3 for event 4 *)
Example C15_ex_sessions :
  sessions 33%N [HookMask 1%Z; HookMask 0%Z; HookMask 8%Z] = [COk 1%Z; COk 9%Z; COk 8%Z] /\
  run_sessions true (stub_events 33%N) [HookMask 1%Z; HookMask 0%Z; HookMask 8%Z] = [COk 1%Z; COk 1%Z; CErrUnhandled].
Proof. vm_compute. split; reflexivity. Qed.

(* ------------------------------------------------------------------ dispatch *)

(* every handler's event is routed to that handler's field *)
Theorem C15_dispatch_identity : forall h, dispatch h = Some h.
Proof. exact dispatch_identity. Qed.
Print Assumptions C15_dispatch_identity.

(* for every plugin type, every handler, every message content and every behaviour of the plugin's
   methods: the message for h is delivered as the reference demands *)
Theorem C15_dispatch_exact : forall p h fields beh,
  (p < 8192)%N ->
  deliver p (carrier_of h) {| m_event := proto_event h; m_fields := fields |} beh
  = expected_delivery p h {| m_event := proto_event h; m_fields := fields |} beh.
Proof. exact deliver_exact. Qed.
Print Assumptions C15_dispatch_exact.

(* exactly once *)
Theorem C15_dispatch_once : forall p h fields beh,
  (p < 8192)%N ->
  length (fst (deliver p (carrier_of h) {| m_event := proto_event h; m_fields := fields |} beh))
  = if implements p h then 1%nat else 0%nat.
Proof. exact deliver_once. Qed.
Print Assumptions C15_dispatch_once.

(* the same for an arbitrary message on an arbitrary carrier, including StateChange events no
   handler exists for and RPC names the stub does not serve: nothing else ever runs *)
Theorem C15_dispatch_total : forall p c m beh,
  (p < 8192)%N -> deliver p c m beh = expected_msg p c m beh.
Proof. exact deliver_total. Qed.
Print Assumptions C15_dispatch_total.

(* the predicate the driver evaluates on the real stub's deliveries *)
Theorem C15_holds_disp : forall p c m beh, (p < 8192)%N -> holds_disp p c m beh (deliver p c m beh) = true.
Proof. exact holds_disp_deliver. Qed.
Print Assumptions C15_holds_disp.

(* ------------------------------------------------------------------ non-vacuity *)

(* plugin type 33 = RunPodSandbox + CreateContainer (bits 0 and 5): events 1 and 4, mask 9 *)
Example C15_ex_mask : stub_events 33%N = 9%Z /\ implemented 33%N 4%Z = true /\ implemented 33%N 5%Z = false.
Proof. vm_compute. repeat split; reflexivity. Qed.

Example C15_ex_configure :
  configure 33%N NoHook = COk 9%Z /\ configure 33%N (HookMask 0%Z) = COk 9%Z /\ configure 33%N (HookMask 8%Z) = COk 8%Z /\
  configure 33%N (HookMask 24%Z) = CErrUnhandled /\ configure 33%N HookFails = CErrHook.
Proof. vm_compute. repeat split; reflexivity. Qed.

(* the hypotheses of C15_reject_unhandled are met: bit 5 of 24 is set, 33 has no handler for event 5 *)
Example C15_ex_reject : is_set 24%Z 5%Z = true /\ implemented 33%N 5%Z = false.
Proof. vm_compute. split; reflexivity. Qed.

Example C15_ex_deliver :
  let beh := beh_of [("CreateContainer", {| r_adjust := "adj"; r_update := "upd"; r_error := "" |});
                     ("StopContainer", {| r_adjust := ""; r_update := "u2"; r_error := "boom" |})] in
  let m := {| m_event := proto_event HCreateContainer; m_fields := [("Pod", "pod1"); ("Container", "ctr1")] |} in
  deliver 33%N (carrier_of HCreateContainer) m beh = ([("CreateContainer", ["pod1"; "ctr1"])], ROk "adj" "upd") /\
  deliver 33%N (carrier_of HStopContainer) m beh = ([], ROk "" "") /\
  deliver 288%N (carrier_of HStopContainer) m beh = ([("StopContainer", ["pod1"; "ctr1"])], RErr "boom").
Proof. vm_compute. repeat split; reflexivity. Qed.
