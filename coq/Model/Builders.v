(* Model of the plugin-facing builder API: pkg/api/adjustment.go (methods of
   *ContainerAdjustment), pkg/api/update.go (methods of *ContainerUpdate) and the
   removal-marker helpers of pkg/api/helpers.go (Model/Types.v: mark = MarkForRemoval,
   is_marked = IsMarkedForRemoval; mount.go / device.go / env.go apply is_marked to
   Destination / Path / Key).  Method by method; a method that mutates its receiver
   becomes a function returning the new value.  NO proofs here.

   Representation (Model/Types.v): map-typed fields (Annotations, Unified) are association
   lists, m[k] = v is aset; slices are lists, append adds at the end; a pointer to a
   sub-message that the init* helpers create on demand (Linux, Resources, Memory, Cpu, Pids,
   Hooks) is flattened away — nil and empty are the same value — except the Resources of a
   ContainerUpdate, whose presence Types.update records (u_res : option).  Optional scalars
   are entries of r_scal: absent = nil wrapper.  The plain string fields Cpu.Cpus, Cpu.Mems
   and CgroupsPath have no wrapper: the empty string IS the unset state, so writing ""
   leaves the field unset.  The optional wrappers are built with the constructors of
   optional.go as modelled in Model/Convert.v (opt_Int64, opt_UInt64, opt_Bool, opt_String,
   opt_Int), applied to the dynamic type the method passes: SetLinuxCPUPeriod hands an int64
   to UInt64, which wraps (wrap_u64). *)
From Coq Require Import String Ascii List Bool ZArith.
From NRI Require Import Base.Strs Base.Assoc Model.Types.
From NRI Require Model.Convert.
Import ListNotations.
Open Scope string_scope.
Open Scope list_scope.

(* ---------- field assignment on the records of Types.v ---------- *)
Definition res_with_scal (r : resources) (v : list (sfield * sval)) : resources :=
  {| r_scal := v; r_hp := r_hp r; r_uni := r_uni r |}.
Definition res_with_hp (r : resources) (v : list (string * Z)) : resources :=
  {| r_scal := r_scal r; r_hp := v; r_uni := r_uni r |}.
Definition res_with_uni (r : resources) (v : list (string * string)) : resources :=
  {| r_scal := r_scal r; r_hp := r_hp r; r_uni := v |}.

Definition adj_with_ann (a : adjustment) (v : list (string * string)) : adjustment :=
  {| a_ann := v; a_mounts := a_mounts a; a_env := a_env a; a_args := a_args a; a_hooks := a_hooks a;
     a_rlimits := a_rlimits a; a_cdi := a_cdi a; a_devices := a_devices a; a_res := a_res a;
     a_cgroups := a_cgroups a; a_oom := a_oom a |}.
Definition adj_with_mounts (a : adjustment) (v : list mount) : adjustment :=
  {| a_ann := a_ann a; a_mounts := v; a_env := a_env a; a_args := a_args a; a_hooks := a_hooks a;
     a_rlimits := a_rlimits a; a_cdi := a_cdi a; a_devices := a_devices a; a_res := a_res a;
     a_cgroups := a_cgroups a; a_oom := a_oom a |}.
Definition adj_with_env (a : adjustment) (v : list (string * string)) : adjustment :=
  {| a_ann := a_ann a; a_mounts := a_mounts a; a_env := v; a_args := a_args a; a_hooks := a_hooks a;
     a_rlimits := a_rlimits a; a_cdi := a_cdi a; a_devices := a_devices a; a_res := a_res a;
     a_cgroups := a_cgroups a; a_oom := a_oom a |}.
Definition adj_with_args (a : adjustment) (v : list string) : adjustment :=
  {| a_ann := a_ann a; a_mounts := a_mounts a; a_env := a_env a; a_args := v; a_hooks := a_hooks a;
     a_rlimits := a_rlimits a; a_cdi := a_cdi a; a_devices := a_devices a; a_res := a_res a;
     a_cgroups := a_cgroups a; a_oom := a_oom a |}.
Definition adj_with_hooks (a : adjustment) (v : hooks) : adjustment :=
  {| a_ann := a_ann a; a_mounts := a_mounts a; a_env := a_env a; a_args := a_args a; a_hooks := v;
     a_rlimits := a_rlimits a; a_cdi := a_cdi a; a_devices := a_devices a; a_res := a_res a;
     a_cgroups := a_cgroups a; a_oom := a_oom a |}.
Definition adj_with_rlimits (a : adjustment) (v : list rlimit) : adjustment :=
  {| a_ann := a_ann a; a_mounts := a_mounts a; a_env := a_env a; a_args := a_args a; a_hooks := a_hooks a;
     a_rlimits := v; a_cdi := a_cdi a; a_devices := a_devices a; a_res := a_res a;
     a_cgroups := a_cgroups a; a_oom := a_oom a |}.
Definition adj_with_cdi (a : adjustment) (v : list string) : adjustment :=
  {| a_ann := a_ann a; a_mounts := a_mounts a; a_env := a_env a; a_args := a_args a; a_hooks := a_hooks a;
     a_rlimits := a_rlimits a; a_cdi := v; a_devices := a_devices a; a_res := a_res a;
     a_cgroups := a_cgroups a; a_oom := a_oom a |}.
Definition adj_with_devices (a : adjustment) (v : list device) : adjustment :=
  {| a_ann := a_ann a; a_mounts := a_mounts a; a_env := a_env a; a_args := a_args a; a_hooks := a_hooks a;
     a_rlimits := a_rlimits a; a_cdi := a_cdi a; a_devices := v; a_res := a_res a;
     a_cgroups := a_cgroups a; a_oom := a_oom a |}.
Definition adj_with_res (a : adjustment) (v : resources) : adjustment :=
  {| a_ann := a_ann a; a_mounts := a_mounts a; a_env := a_env a; a_args := a_args a; a_hooks := a_hooks a;
     a_rlimits := a_rlimits a; a_cdi := a_cdi a; a_devices := a_devices a; a_res := v;
     a_cgroups := a_cgroups a; a_oom := a_oom a |}.
Definition adj_with_cgroups (a : adjustment) (v : string) : adjustment :=
  {| a_ann := a_ann a; a_mounts := a_mounts a; a_env := a_env a; a_args := a_args a; a_hooks := a_hooks a;
     a_rlimits := a_rlimits a; a_cdi := a_cdi a; a_devices := a_devices a; a_res := a_res a;
     a_cgroups := v; a_oom := a_oom a |}.
Definition adj_with_oom (a : adjustment) (v : option Z) : adjustment :=
  {| a_ann := a_ann a; a_mounts := a_mounts a; a_env := a_env a; a_args := a_args a; a_hooks := a_hooks a;
     a_rlimits := a_rlimits a; a_cdi := a_cdi a; a_devices := a_devices a; a_res := a_res a;
     a_cgroups := a_cgroups a; a_oom := v |}.

(* ---------- assignment of one scalar field ---------- *)
Definition sremove (f : sfield) (l : list (sfield * sval)) : list (sfield * sval) :=
  filter (fun e => negb (sfield_eqb f (fst e))) l.
(* x.F = <optional wrapper>: a nil wrapper (None) leaves the field unset *)
Definition sassign (f : sfield) (o : option sval) (l : list (sfield * sval)) : list (sfield * sval) :=
  match o with Some v => fset f v l | None => sremove f l end.
(* x.F = <string>: the empty string is the unset state of a plain string field *)
Definition str_plain (s : string) : option sval := if String.eqb s "" then None else Some (VS s).

Definition wrapZ (o : option Z) : option sval := option_map VZ o.
Definition wrapB (o : option bool) : option sval := option_map VB o.
Definition wrapS (o : option string) : option sval := option_map VS o.

(* ---------- the resource setters shared (as duplicated code) by adjustment.go and update.go ---------- *)
Inductive rop :=
| RMemoryLimit (v : Z)              (* SetLinuxMemoryLimit(value int64) *)
| RMemoryReservation (v : Z)        (* SetLinuxMemoryReservation(value int64) *)
| RMemorySwap (v : Z)               (* SetLinuxMemorySwap(value int64) *)
| RMemoryKernel (v : Z)             (* SetLinuxMemoryKernel(value int64) *)
| RMemoryKernelTCP (v : Z)          (* SetLinuxMemoryKernelTCP(value int64) *)
| RMemorySwappiness (v : Z)         (* SetLinuxMemorySwappiness(value uint64) *)
| RMemoryDisableOomKiller           (* SetLinuxMemoryDisableOomKiller() *)
| RMemoryUseHierarchy               (* SetLinuxMemoryUseHierarchy() *)
| RCPUShares (v : Z)                (* SetLinuxCPUShares(value uint64) *)
| RCPUQuota (v : Z)                 (* SetLinuxCPUQuota(value int64) *)
| RCPUPeriod (v : Z)                (* SetLinuxCPUPeriod(value int64) -> UInt64(value) *)
| RCPURealtimeRuntime (v : Z)       (* SetLinuxCPURealtimeRuntime(value int64) *)
| RCPURealtimePeriod (v : Z)        (* SetLinuxCPURealtimePeriod(value uint64) *)
| RCPUSetCPUs (s : string)          (* SetLinuxCPUSetCPUs(value string) *)
| RCPUSetMems (s : string)          (* SetLinuxCPUSetMems(value string) *)
| RPidLimits (v : Z)                (* SetLinuxPidLimits(value int64) *)
| RHugepageLimit (size : string) (v : Z)   (* AddLinuxHugepageLimit(pageSize string, value uint64) *)
| RBlockIOClass (s : string)        (* SetLinuxBlockIOClass(value string) *)
| RRDTClass (s : string)            (* SetLinuxRDTClass(value string) *)
| RUnified (k v : string).          (* AddLinuxUnified(key, value string) *)

(* the receiver's Linux.Resources after init*; r = the resources before (res_empty when nil) *)
Definition apply_rop (r : resources) (op : rop) : resources :=
  let scal f o := res_with_scal r (sassign f o (r_scal r)) in
  match op with
  | RMemoryLimit v => scal MemLimit (wrapZ (Convert.opt_Int64 (Convert.GInt64 v)))
  | RMemoryReservation v => scal MemReservation (wrapZ (Convert.opt_Int64 (Convert.GInt64 v)))
  | RMemorySwap v => scal MemSwap (wrapZ (Convert.opt_Int64 (Convert.GInt64 v)))
  | RMemoryKernel v => scal MemKernel (wrapZ (Convert.opt_Int64 (Convert.GInt64 v)))
  | RMemoryKernelTCP v => scal MemKernelTcp (wrapZ (Convert.opt_Int64 (Convert.GInt64 v)))
  | RMemorySwappiness v => scal MemSwappiness (wrapZ (Convert.opt_UInt64 (Convert.GUint64 v)))
  | RMemoryDisableOomKiller => scal MemDisableOom (wrapB (Convert.opt_Bool (Convert.GBool true)))
  | RMemoryUseHierarchy => scal MemUseHierarchy (wrapB (Convert.opt_Bool (Convert.GBool true)))
  | RCPUShares v => scal CpuShares (wrapZ (Convert.opt_UInt64 (Convert.GUint64 v)))
  | RCPUQuota v => scal CpuQuota (wrapZ (Convert.opt_Int64 (Convert.GInt64 v)))
  | RCPUPeriod v => scal CpuPeriod (wrapZ (Convert.opt_UInt64 (Convert.GInt64 v)))
  | RCPURealtimeRuntime v => scal CpuRtRuntime (wrapZ (Convert.opt_Int64 (Convert.GInt64 v)))
  | RCPURealtimePeriod v => scal CpuRtPeriod (wrapZ (Convert.opt_UInt64 (Convert.GUint64 v)))
  | RCPUSetCPUs s => scal CpuCpus (str_plain s)
  | RCPUSetMems s => scal CpuMems (str_plain s)
  | RPidLimits v => scal Pids (Some (VZ v))                      (* Pids.Limit is a plain int64 of a message created on demand *)
  | RHugepageLimit size v => res_with_hp r (r_hp r ++ [(size, v)])
  | RBlockIOClass s => scal BlockioClass (wrapS (Convert.opt_String (Convert.GString s)))
  | RRDTClass s => scal RdtClass (wrapS (Convert.opt_String (Convert.GString s)))
  | RUnified k v => res_with_uni r (aset k v (r_uni r))
  end.

(* ---------- adjustment.go ---------- *)
Inductive bop :=
| BAddAnnotation (k v : string)
| BRemoveAnnotation (k : string)
| BAddMount (m : mount)
| BRemoveMount (d : string)
| BAddEnv (k v : string)
| BRemoveEnv (k : string)
| BSetArgs (l : list string)
| BUpdateArgs (l : list string)
| BAddHooks (h : hooks)
| BAddRlimit (t : string) (hard soft : Z)
| BAddDevice (d : device)
| BRemoveDevice (p : string)
| BAddCDIDevice (n : string)
| BRes (r : rop)                     (* the eighteen SetLinux<scalar>, AddLinuxHugepageLimit, AddLinuxUnified *)
| BSetLinuxCgroupsPath (s : string)
| BSetLinuxOomScoreAdj (p : option Z).   (* *int: nil = None *)

(* &Mount{Destination: MarkForRemoval(path)} / &LinuxDevice{Path: MarkForRemoval(path)} *)
Definition removal_mount (d : string) : mount := {| m_dest := mark d; m_type := ""; m_source := ""; m_opts := [] |}.
Definition removal_device (p : string) : device :=
  {| d_path := mark p; d_type := ""; d_major := 0%Z; d_minor := 0%Z; d_mode := None; d_uid := None; d_gid := None |}.

Definition apply_bop (a : adjustment) (op : bop) : adjustment :=
  match op with
  | BAddAnnotation k v => adj_with_ann a (aset k v (a_ann a))
  | BRemoveAnnotation k => adj_with_ann a (aset (mark k) "" (a_ann a))       (* an earlier a.Annotations[k] stays *)
  | BAddMount m => adj_with_mounts a (a_mounts a ++ [m])
  | BRemoveMount d => adj_with_mounts a (a_mounts a ++ [removal_mount d])
  | BAddEnv k v => adj_with_env a (a_env a ++ [(k, v)])
  | BRemoveEnv k => adj_with_env a (a_env a ++ [(mark k, "")])
  | BSetArgs l => adj_with_args a l                                            (* slices.Clone(args) *)
  | BUpdateArgs l => adj_with_args a ("" :: l)                                 (* append([]string{""}, args...) *)
  | BAddHooks h => adj_with_hooks a (hooks_append (a_hooks a) h)
  | BAddRlimit t hard soft => adj_with_rlimits a (a_rlimits a ++ [{| rl_type := t; rl_hard := hard; rl_soft := soft |}])
  | BAddDevice d => adj_with_devices a (a_devices a ++ [d])
  | BRemoveDevice p => adj_with_devices a (a_devices a ++ [removal_device p])
  | BAddCDIDevice n => adj_with_cdi a (a_cdi a ++ [n])
  | BRes r => adj_with_res a (apply_rop (a_res a) r)
  | BSetLinuxCgroupsPath s => adj_with_cgroups a s
  | BSetLinuxOomScoreAdj p => adj_with_oom a (Convert.opt_Int (Convert.GPInt p))
  end.

(* the methods applied in order to a fresh &ContainerAdjustment{} *)
Definition build_adj (ops : list bop) : adjustment := fold_left apply_bop ops adj_empty.

(* ---------- update.go ---------- *)
Inductive uop :=
| USetContainerId (id : string)
| URes (r : rop)
| USetIgnoreFailure.

Definition upd_empty : update := {| u_id := ""; u_res := None; u_ignore := false |}.

Definition apply_uop (u : update) (op : uop) : update :=
  match op with
  | USetContainerId id => {| u_id := id; u_res := u_res u; u_ignore := u_ignore u |}
  | URes r => {| u_id := u_id u;
                 u_res := Some (apply_rop (match u_res u with Some x => x | None => res_empty end) r);
                 u_ignore := u_ignore u |}
  | USetIgnoreFailure => {| u_id := u_id u; u_res := u_res u; u_ignore := true |}
  end.

(* u := &ContainerUpdate{}; u.SetContainerId(id); then the methods in order *)
Definition build_upd (id : string) (ops : list uop) : update :=
  fold_left apply_uop ops (apply_uop upd_empty (USetContainerId id)).

(* ---------- mount.go / device.go / env.go: the per-type IsMarkedForRemoval methods ---------- *)
Definition mount_is_marked (m : mount) : string * bool := is_marked (m_dest m).
Definition device_is_marked (d : device) : string * bool := is_marked (d_path d).
Definition env_is_marked (e : string * string) : string * bool := is_marked (fst e).
