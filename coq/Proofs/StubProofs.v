(* Proofs about Model/Stub.v: C15 (subscription, rejection, dispatch) and C16 (life cycle). *)
From Coq Require Import String Ascii List Bool ZArith NArith Arith Lia Permutation.
From NRI Require Import Base.Strs Base.Assoc Model.Consts Model.Event Model.StubConsts Model.Stub Spec.StubSpec.
Import ListNotations.
Open Scope string_scope.
Open Scope list_scope.

(* ====================================================================== *)
(* C15                                                                     *)
(* ====================================================================== *)

(* ---- bit lemmas: hold for every mask, no sweep ------------------------- *)

Lemma land_pow2 m k : (0 <= k)%Z -> Z.land m (2 ^ k) = if Z.testbit m k then (2 ^ k)%Z else 0%Z.
Proof.
  intros Hk. apply Z.bits_inj'. intros n Hn.
  rewrite Z.land_spec, Z.pow2_bits_eqb by exact Hk.
  destruct (Z.testbit m k) eqn:T.
  - rewrite Z.pow2_bits_eqb by exact Hk. destruct (Z.eqb_spec k n) as [->|Hne].
    + rewrite T. reflexivity.
    + apply andb_false_r.
  - rewrite Z.bits_0. destruct (Z.eqb_spec k n) as [->|Hne].
    + rewrite T. reflexivity.
    + apply andb_false_r.
Qed.

Lemma is_set_testbit m e : (1 <= e)%Z -> is_set m e = Z.testbit m (e - 1).
Proof.
  intros He. unfold is_set, bit_of. rewrite Z.shiftl_1_l, land_pow2 by lia.
  destruct (Z.testbit m (e - 1)); [|reflexivity].
  assert (0 < 2 ^ (e - 1))%Z by (apply Z.pow_pos_nonneg; lia).
  destruct (Z.eqb_spec (2 ^ (e - 1)) 0); [lia|reflexivity].
Qed.

Lemma is_set_zero e : is_set 0 e = false.
Proof. unfold is_set. rewrite Z.land_0_l. reflexivity. Qed.

(* no extra bits  <->  every set bit of m is set in ev *)
Lemma no_extra_subset m ev e :
  Z.land m (Z.lnot ev) = 0%Z -> (1 <= e)%Z -> is_set m e = true -> is_set ev e = true.
Proof.
  intros H0 He Hm. rewrite is_set_testbit in * by exact He.
  destruct (Z.testbit ev (e - 1)) eqn:T; [reflexivity|].
  assert (Z.testbit (Z.land m (Z.lnot ev)) (e - 1) = true) as X.
  { rewrite Z.land_spec, Z.lnot_spec by lia. rewrite Hm, T. reflexivity. }
  rewrite H0, Z.bits_0 in X. discriminate.
Qed.

Lemma extra_bit_nonzero m ev e :
  (1 <= e)%Z -> is_set m e = true -> is_set ev e = false -> Z.land m (Z.lnot ev) <> 0%Z.
Proof.
  intros He Hm Hev E. rewrite is_set_testbit in * by exact He.
  assert (Z.testbit (Z.land m (Z.lnot ev)) (e - 1) = true) as X.
  { rewrite Z.land_spec, Z.lnot_spec by lia. rewrite Hm, Hev. reflexivity. }
  rewrite E, Z.bits_0 in X. discriminate.
Qed.

(* ---- the code does clamp (regenerated facts about stub.go's Configure) -- *)
Lemma zero_default_on : configure_zero_default = true.
Proof. reflexivity. Qed.
Lemma rejects_extra_on : configure_rejects_extra = true.
Proof. reflexivity. Qed.

(* ---- the whole finite domain of plugin types, evaluated by the kernel's VM *)

Lemma in_plugins_upto n p : (p < n)%N -> In p (plugins_upto n).
Proof.
  intros H. unfold plugins_upto. apply in_map_iff. exists (N.to_nat p). split; [lia|].
  apply in_seq. lia.
Qed.

Lemma in_event_bits e : (1 <= e <= 31)%Z -> In e event_bits.
Proof.
  intros H. unfold event_bits. apply in_map_iff. exists (Z.to_nat e). split; [lia|].
  apply in_seq. lia.
Qed.

(* Sweeps are stated in the unfolded [forallb f l] form on purpose: every later use must match these
   statements syntactically.  If the unifier or the kernel has to convert between a folded and an unfolded
   form of a [forallb] over the 8192-element list it starts unrolling the list and does not come back. *)
Lemma all_plugins_handlers : forallb handlers_exact (plugins_upto num_plugins) = true.
Proof. vm_cast_no_check (@eq_refl bool true). Qed.

Lemma forallb_in {A} (f : A -> bool) l : forallb f l = true -> forall x, In x l -> f x = true.
Proof. intros H. apply forallb_forall. exact H. Qed.

(* interface lemmas: the statements have the final shape, nothing is unfolded in a hypothesis *)
Lemma handlers_exact_p p : (p < num_plugins)%N -> handlers_exact p = true.
Proof.
  intros Hp.
  exact (forallb_in handlers_exact (plugins_upto num_plugins) all_plugins_handlers p
                    (in_plugins_upto num_plugins p Hp)).
Qed.

Lemma in_all_handlers h : In h all_handlers.
Proof. destruct h; simpl; tauto. Qed.

Lemma handlers_exact_elim p :
  handlers_exact p = true -> forall h, handler_ok (stub_handlers p) p h = true.
Proof.
  unfold handlers_exact. intros H h.
  exact (forallb_in (handler_ok (stub_handlers p) p) all_handlers H h (in_all_handlers h)).
Qed.

Lemma handler_ok_p p h : (p < num_plugins)%N -> handler_ok (stub_handlers p) p h = true.
Proof. intros Hp. exact (handlers_exact_elim p (handlers_exact_p p Hp) h). Qed.

(* all thirteen events are distinct and valid (regenerated numbers) *)
Lemma proto_events_valid : forallb (fun h => (1 <=? proto_event h)%Z && (proto_event h <=? 13)%Z && is_set valid_events (proto_event h)) all_handlers = true.
Proof. vm_compute. reflexivity. Qed.

(* setupHandlers computes the reference mask, for every plugin type (complete sweep) *)
Lemma all_plugins_ref_mask : forallb (ref_ok handler_events) (plugins_upto num_plugins) = true.
Proof. vm_cast_no_check (@eq_refl bool true). Qed.

Lemma ref_ok_elim he p : ref_ok he p = true -> stub_events p = ref_mask_t he p /\ new_ok p = ref_new_ok p.
Proof.
  unfold ref_ok. intros A. apply andb_true_iff in A. destruct A as [A B].
  split; [apply Z.eqb_eq; exact A|apply eqb_prop; exact B].
Qed.

Lemma stub_events_ref p : (p < num_plugins)%N -> stub_events p = ref_mask p /\ new_ok p = ref_new_ok p.
Proof.
  intros Hp.
  exact (ref_ok_elim handler_events p
           (forallb_in (ref_ok handler_events) (plugins_upto num_plugins) all_plugins_ref_mask p
                       (in_plugins_upto num_plugins p Hp))).
Qed.

(* ---- the reference mask, bit by bit: for every table and every plugin type, no sweep ---------- *)

Lemma is_set_set_bit m e e' : (1 <= e)%Z -> (1 <= e')%Z -> is_set (set_bit m e') e = (e =? e')%Z || is_set m e.
Proof.
  intros He He'. rewrite !is_set_testbit by exact He. unfold set_bit, bit_of.
  rewrite Z.shiftl_1_l, Z.lor_spec, Z.pow2_bits_eqb by lia.
  rewrite orb_comm. f_equal. destruct (Z.eqb_spec e e'), (Z.eqb_spec (e' - 1) (e - 1)); try reflexivity; lia.
Qed.

Lemma ref_mask_fold (he : list (handler * Z)) p e : forall m,
  (1 <= e)%Z -> (forall x, In x he -> (1 <= snd x)%Z) ->
  is_set (fold_left (fun m x => if implements p (fst x) then set_bit m (snd x) else m) he m) e
  = is_set m e || existsb (fun x => implements p (fst x) && (snd x =? e)%Z) he.
Proof.
  induction he as [|x r IH]; intros m He Hx; cbn [fold_left existsb].
  - rewrite orb_false_r. reflexivity.
  - rewrite IH by (try exact He; intros y Hy; apply Hx; right; exact Hy).
    destruct (implements p (fst x)); cbn [andb].
    + rewrite is_set_set_bit by (try exact He; apply Hx; left; reflexivity).
      rewrite (Z.eqb_sym e (snd x)). destruct (snd x =? e)%Z, (is_set m e); reflexivity.
    + reflexivity.
Qed.

Lemma handler_events_ge1 x : In x handler_events -> (1 <= snd x)%Z.
Proof.
  unfold handler_events. intros H. apply in_map_iff in H. destruct H as [h [<- _]]. cbn [snd].
  pose proof (forallb_in _ _ proto_events_valid h) as V. cbv beta in V.
  assert (In h all_handlers) as Hin by (destruct h; cbn; tauto). specialize (V Hin).
  apply andb_true_iff in V. destruct V as [V _]. apply andb_true_iff in V. destruct V as [V _]. lia.
Qed.

Lemma sub_ok_ref_mask p e :
  (1 <= e)%Z -> sub_ok handler_events (ref_mask_t handler_events p) p e = true.
Proof.
  intros He. unfold sub_ok, ref_mask_t.
  rewrite (ref_mask_fold handler_events p e 0%Z He handler_events_ge1), is_set_zero. cbn [orb].
  apply eqb_reflx.
Qed.

Lemma sub_ok_p p e :
  (p < num_plugins)%N -> (1 <= e <= 31)%Z -> sub_ok handler_events (stub_events p) p e = true.
Proof.
  intros Hp He. destruct (stub_events_ref p Hp) as [E _]. rewrite E. unfold ref_mask.
  apply sub_ok_ref_mask. lia.
Qed.

(* what sub_ok says, for an arbitrary mask ev and an arbitrary handler/event table *)
Lemma sub_ok_spec (he : list (handler * Z)) (ev : Z) p e :
  sub_ok he ev p e = true ->
  (is_set ev e = true <-> exists x, In x he /\ implements p (fst x) = true /\ snd x = e).
Proof.
  unfold sub_ok. intros A. apply eqb_prop in A. rewrite A. split.
  - intros H. apply existsb_exists in H. destruct H as [x [Hx Hh]].
    apply andb_true_iff in Hh. destruct Hh as [Hi Hq]. apply Z.eqb_eq in Hq.
    exists x. split; [exact Hx|]. split; [exact Hi|exact Hq].
  - intros [x [Hx [Hi Hq]]]. apply existsb_exists. exists x. split; [exact Hx|].
    rewrite Hi, Hq, Z.eqb_refl. reflexivity.
Qed.

Lemma in_handler_events x : In x handler_events <-> snd x = proto_event (fst x).
Proof.
  unfold handler_events. rewrite in_map_iff. split.
  - intros [h [<- _]]. reflexivity.
  - intros H. exists (fst x). split; [|apply in_all_handlers]. destruct x as [h z]. cbn [fst snd] in *. congruence.
Qed.

(* the stub's mask: exactly the events of the handlers the plugin implements *)
Lemma implemented_exact p e :
  (p < num_plugins)%N -> (1 <= e <= 31)%Z ->
  implemented p e = true <-> exists h, implements p h = true /\ proto_event h = e.
Proof.
  intros Hp He.
  pose proof (sub_ok_spec handler_events (stub_events p) p e (sub_ok_p p e Hp He)) as S.
  change (implemented p e) with (is_set (stub_events p) e).
  split.
  - intros H. apply S in H. destruct H as [x [Hx [Hi Hq]]]. apply in_handler_events in Hx.
    exists (fst x). split; [exact Hi|]. congruence.
  - intros [h [Hi Hq]]. apply S. exists (h, proto_event h). split; [apply in_handler_events; reflexivity|].
    split; [exact Hi|exact Hq].
Qed.

Lemma handler_ok_spec (hs : list (string * string)) p h :
  handler_ok hs p h = true ->
  alookup (method_of h) hs = if implements p h then Some (method_of h) else None.
Proof.
  unfold handler_ok. intros A.
  destruct (alookup (method_of h) hs) as [m|].
  - apply andb_true_iff in A. destruct A as [Hi Hm]. apply String.eqb_eq in Hm. rewrite Hi, Hm. reflexivity.
  - apply negb_true_iff in A. rewrite A. reflexivity.
Qed.

Lemma stub_handlers_exact p h :
  (p < num_plugins)%N ->
  alookup (method_of h) (stub_handlers p) = if implements p h then Some (method_of h) else None.
Proof. intros Hp. exact (handler_ok_spec (stub_handlers p) p h (handler_ok_p p h Hp)). Qed.

(* ---- C15_subscription -------------------------------------------------- *)

(* the clamping, for an arbitrary stub mask ev *)
Lemma configure_with_subscription ev hook m :
  configure_with ev hook = COk m ->
  (forall e, (1 <= e)%Z -> is_set m e = true -> is_set ev e = true) /\
  match hook with
  | NoHook => m = ev
  | HookFails => False
  | HookMask r => (r = 0%Z -> m = ev) /\ (r <> 0%Z -> m = r)
  end.
Proof.
  unfold configure_with. rewrite zero_default_on, rejects_extra_on. cbn [andb].
  destruct hook as [| |r].
  - intros E. inversion E. subst m. split; [|reflexivity]. intros e _ H. exact H.
  - discriminate.
  - destruct (Z.eqb_spec r 0) as [->|Hr].
    + destruct (Z.eqb_spec (Z.land ev (Z.lnot ev)) 0) as [E0|E0]; cbn [negb].
      * intros E. inversion E. subst m. split; [intros e _ H; exact H|]. split; [reflexivity|congruence].
      * discriminate.
    + destruct (Z.eqb_spec (Z.land r (Z.lnot ev)) 0) as [E0|E0]; cbn [negb].
      * intros E. inversion E. subst m. split.
        -- intros e He H. exact (no_extra_subset r ev e E0 He H).
        -- split; [congruence|reflexivity].
      * discriminate.
Qed.

Lemma configure_subscription p hook m :
  configure p hook = COk m ->
  (forall e, (1 <= e)%Z -> is_set m e = true -> implemented p e = true) /\
  match hook with
  | NoHook => m = stub_events p
  | HookFails => False
  | HookMask r => (r = 0%Z -> m = stub_events p) /\ (r <> 0%Z -> m = r)
  end.
Proof. exact (configure_with_subscription (stub_events p) hook m). Qed.

(* a plugin that asks for nothing in particular, or for a subset, is never refused *)
Lemma configure_with_accepts ev r :
  (forall e, (1 <= e <= 31)%Z -> is_set r e = true -> is_set ev e = true) ->
  (0 <= r < 2 ^ 31)%Z -> (0 <= ev)%Z ->
  configure_with ev (HookMask r) = COk (if (r =? 0)%Z then ev else r).
Proof.
  intros Hsub Hr Hev. unfold configure_with. rewrite zero_default_on, rejects_extra_on. cbn [andb].
  assert (forall x, (0 <= x)%Z -> (x = ev \/ x = r) -> Z.land x (Z.lnot ev) = 0%Z) as Z0.
  { intros x Hx Hor. apply Z.bits_inj'. intros n Hn. rewrite Z.land_spec, Z.lnot_spec, Z.bits_0 by exact Hn.
    destruct (Z.testbit x n) eqn:Tx; [|reflexivity]. cbn [andb].
    destruct Hor as [->| ->]; [rewrite Tx; reflexivity|].
    destruct (Z_lt_le_dec n 31) as [Hlt|Hge].
    - specialize (Hsub (n + 1)%Z ltac:(lia)). rewrite !is_set_testbit in Hsub by lia.
      replace (n + 1 - 1)%Z with n in Hsub by lia. rewrite (Hsub Tx). reflexivity.
    - exfalso. assert (Z.testbit r n = false) as F; [|congruence].
      destruct (Z.eqb_spec r 0) as [->|Hnz]; [apply Z.bits_0|].
      apply Z.bits_above_log2; [lia|]. assert (Z.log2 r < 31)%Z by (apply Z.log2_lt_pow2; lia). lia. }
  destruct (Z.eqb_spec r 0) as [->|Hnz].
  - rewrite (Z0 ev Hev (or_introl eq_refl)). reflexivity.
  - rewrite (Z0 r ltac:(lia) (or_intror eq_refl)). reflexivity.
Qed.

(* ---- C15_reject_unhandled ---------------------------------------------- *)

Lemma configure_with_rejects ev r e :
  (1 <= e)%Z -> is_set r e = true -> is_set ev e = false -> configure_with ev (HookMask r) = CErrUnhandled.
Proof.
  intros He Hr Hi. unfold configure_with. rewrite zero_default_on, rejects_extra_on. cbn [andb].
  destruct (Z.eqb_spec r 0) as [->|Hn]; [rewrite is_set_zero in Hr; discriminate|].
  pose proof (extra_bit_nonzero r ev e He Hr Hi) as X.
  destruct (Z.eqb_spec (Z.land r (Z.lnot ev)) 0); [contradiction|reflexivity].
Qed.

Lemma configure_rejects p r e :
  (1 <= e)%Z -> is_set r e = true -> implemented p e = false -> configure p (HookMask r) = CErrUnhandled.
Proof. exact (configure_with_rejects (stub_events p) r e). Qed.

(* a subscribed event always has a handler (composition with the runtime's is_set test, C06) *)
Lemma subscribed_has_handler p hook m e :
  (p < num_plugins)%N -> (1 <= e <= 31)%Z -> configure p hook = COk m -> is_set m e = true ->
  exists h, implements p h = true /\ proto_event h = e.
Proof.
  intros Hp He Hc Hs. apply configure_subscription in Hc. destruct Hc as [Hsub _].
  apply (implemented_exact p e Hp He). apply Hsub; [lia|exact Hs].
Qed.

(* ---- C15_dispatch_exact ------------------------------------------------ *)

Lemma dispatch_identity h : dispatch h = Some h.
Proof. destruct h; vm_compute; reflexivity. Qed.

(* the event bit set for a handler's interface is the handler's event, and only it *)
Lemma setup_bits_exact :
  forallb (fun h => match find (fun r => String.eqb (row_iface r) (iface_of h)) setup_table with
                    | Some r => match row_bits r with [e] => (e =? proto_event h)%Z | _ => false end
                                && String.eqb (row_field r) (method_of h) && String.eqb (row_method r) (method_of h)
                    | None => false
                    end) all_handlers = true.
Proof. vm_compute. reflexivity. Qed.

(* for an arbitrary handler table hs that binds h's field as the plugin type demands:
   13-way case analysis on the regenerated dispatch tables; message fields and handler
   behaviour stay universally quantified *)
Lemma deliver_with_exact hs (b : bool) h fields beh :
  alookup (method_of h) hs = (if b then Some (method_of h) else None) ->
  deliver_with hs (carrier_of h) {| m_event := proto_event h; m_fields := fields |} beh
  = expected_with b h {| m_event := proto_event h; m_fields := fields |} beh.
Proof.
  intros H.
  destruct h; cbn in H |- *; rewrite H; destruct b; cbn; try reflexivity;
    unfold relay_rpc, resp_has; cbn;
    match goal with |- context [String.eqb (r_error ?r) ""] => destruct (String.eqb (r_error r) "") end;
    reflexivity.
Qed.

Lemma deliver_exact p h fields beh :
  (p < num_plugins)%N ->
  deliver p (carrier_of h) {| m_event := proto_event h; m_fields := fields |} beh
  = expected_delivery p h {| m_event := proto_event h; m_fields := fields |} beh.
Proof.
  intros Hp.
  exact (deliver_with_exact (stub_handlers p) (implements p h) h fields beh (stub_handlers_exact p h Hp)).
Qed.

(* exactly once: one invocation when implemented, none otherwise *)
Lemma expected_with_once b h m beh : length (fst (expected_with b h m beh)) = if b then 1%nat else 0%nat.
Proof. destruct b; reflexivity. Qed.

Lemma deliver_once p h fields beh :
  (p < num_plugins)%N ->
  length (fst (deliver p (carrier_of h) {| m_event := proto_event h; m_fields := fields |} beh))
  = if implements p h then 1%nat else 0%nat.
Proof.
  intros Hp. rewrite (deliver_exact p h fields beh Hp).
  exact (expected_with_once (implements p h) h _ beh).
Qed.

(* ---- the executable predicates of Spec/StubSpec.v hold of the model ------ *)

Lemma holds_cfg_m_configure ev hook : holds_cfg_m ev hook (configure_with ev hook) = true.
Proof.
  unfold holds_cfg_m, configure_with, subset_of. rewrite zero_default_on, rejects_extra_on. cbn [andb].
  destruct hook as [| |r]; [apply Z.eqb_refl|reflexivity|].
  destruct (Z.eqb_spec r 0) as [->|Hr].
  - destruct (Z.eqb_spec (Z.land ev (Z.lnot ev)) 0) as [E0|E0]; cbn [negb].
    + assert (Z.land 0 (Z.lnot ev) = 0%Z) as -> by apply Z.land_0_l. cbn. apply Z.eqb_refl.
    + exfalso. apply E0. apply Z.bits_inj'. intros n Hn.
      rewrite Z.land_spec, Z.lnot_spec, Z.bits_0 by exact Hn. apply andb_negb_r.
  - destruct (Z.eqb_spec (Z.land r (Z.lnot ev)) 0) as [E0|E0]; cbn [negb andb]; [apply Z.eqb_refl|reflexivity].
Qed.

Lemma holds_cfg_configure p hook : (p < num_plugins)%N -> holds_cfg p hook (configure p hook) = true.
Proof.
  intros Hp. unfold holds_cfg, configure. destruct (stub_events_ref p Hp) as [<- _].
  exact (holds_cfg_m_configure (stub_events p) hook).
Qed.

(* ---- dispatch of an arbitrary message ------------------------------------ *)

Lemma carrier_eqb_true a b : carrier_eqb a b = true -> a = b.
Proof. destruct a, b; cbn; try discriminate; [|reflexivity]. intros H. apply String.eqb_eq in H. congruence. Qed.

Lemma carrier_eqb_refl a : carrier_eqb a a = true.
Proof. destruct a; cbn; [apply String.eqb_refl|reflexivity]. Qed.

Lemma zlookup_some_in {V} k (l : list (Z * V)) v : zlookup k l = Some v -> In k (map fst l).
Proof.
  induction l as [|[k' v'] r IH]; cbn [zlookup map fst]; [discriminate|].
  destruct (Z.eqb_spec k k') as [->|Hne]; [intros _; left; reflexivity|intros H; right; exact (IH H)].
Qed.

(* every RPC / StateChange case of the regenerated tables belongs to a handler of the protocol *)
Lemma rpc_rows_have_handlers :
  forallb (fun r => existsb (fun h => carrier_eqb (carrier_of h) (ByRPC (fst (fst (fst (fst r)))))) all_handlers)
          rpc_table = true.
Proof. vm_compute. reflexivity. Qed.

Lemma statechange_keys_have_handlers :
  forallb (fun k => existsb (fun h => carrier_eqb (carrier_of h) ByStateChange && (proto_event h =? k)%Z) all_handlers)
          (map fst statechange_table) = true.
Proof. vm_compute. reflexivity. Qed.

Lemma handler_for_own h : handler_for (carrier_of h) (proto_event h) = Some h.
Proof. destruct h; vm_compute; reflexivity. Qed.

Lemma handler_for_sound c ev h :
  handler_for c ev = Some h -> carrier_of h = c /\ (c = ByStateChange -> proto_event h = ev).
Proof.
  unfold handler_for. intros F. apply find_some in F. destruct F as [_ F].
  apply andb_true_iff in F. destruct F as [Fc Fe]. apply carrier_eqb_true in Fc. split; [exact Fc|].
  intros ->. apply Z.eqb_eq. exact Fe.
Qed.

Lemma handler_for_none_rpc name ev : handler_for (ByRPC name) ev = None -> find_rpc name = None.
Proof.
  intros F. destruct (find_rpc name) as [r|] eqn:R; [exfalso|reflexivity].
  unfold find_rpc in R. apply find_some in R. destruct R as [Rin Req]. apply String.eqb_eq in Req.
  pose proof (forallb_in _ _ rpc_rows_have_handlers r Rin) as X. cbv beta in X.
  apply existsb_exists in X. destruct X as [h [_ Hc]]. rewrite Req in Hc.
  unfold handler_for in F. pose proof (find_none _ _ F h (in_all_handlers h)) as N. cbv beta in N.
  rewrite Hc in N. discriminate.
Qed.

Lemma handler_for_none_sc ev : handler_for ByStateChange ev = None -> zlookup ev statechange_table = None.
Proof.
  intros F. destruct (zlookup ev statechange_table) as [calls|] eqn:R; [exfalso|reflexivity].
  apply zlookup_some_in in R.
  pose proof (forallb_in _ _ statechange_keys_have_handlers ev R) as X. cbv beta in X.
  apply existsb_exists in X. destruct X as [h [_ Hc]].
  unfold handler_for in F. pose proof (find_none _ _ F h (in_all_handlers h)) as N. cbv beta in N.
  rewrite Hc in N. discriminate.
Qed.

(* for an arbitrary handler table that binds every field as the plugin type demands *)
Lemma deliver_with_total hs (impl : handler -> bool) c m beh :
  (forall h, alookup (method_of h) hs = if impl h then Some (method_of h) else None) ->
  deliver_with hs c m beh
  = match handler_for c (m_event m) with
    | Some h => expected_with (impl h) h m beh
    | None => ([], no_reply)
    end.
Proof.
  intros Hhs. destruct m as [ev fields]. cbn [m_event].
  destruct (handler_for c ev) as [h|] eqn:F.
  - apply handler_for_sound in F. destruct F as [<- Fe].
    pose proof (deliver_with_exact hs (impl h) h fields beh (Hhs h)) as D.
    destruct h; try (rewrite <- (Fe eq_refl); exact D); exact D.
  - destruct c as [name|].
    + apply handler_for_none_rpc in F. unfold deliver_with. rewrite F. reflexivity.
    + apply handler_for_none_sc in F. unfold deliver_with. cbn [m_event]. rewrite F. reflexivity.
Qed.

Lemma deliver_total p c m beh : (p < num_plugins)%N -> deliver p c m beh = expected_msg p c m beh.
Proof.
  intros Hp.
  exact (deliver_with_total (stub_handlers p) (implements p) c m beh (fun h => stub_handlers_exact p h Hp)).
Qed.

Lemma sl_eqb_refl l : sl_eqb l l = true.
Proof. induction l as [|x r IH]; [reflexivity|]. cbn. rewrite String.eqb_refl. exact IH. Qed.

Lemma invocations_eqb_refl l : invocations_eqb l l = true.
Proof.
  induction l as [|[a b] r IH]; [reflexivity|]. cbn [invocations_eqb]. unfold invocation_eqb. cbn [fst snd].
  rewrite String.eqb_refl, sl_eqb_refl. exact IH.
Qed.

Lemma delivery_eqb_refl x : delivery_eqb x x = true.
Proof.
  destruct x as [i r]. unfold delivery_eqb. cbn [fst snd]. rewrite invocations_eqb_refl.
  destruct r; cbn; rewrite ?String.eqb_refl; reflexivity.
Qed.

Lemma holds_disp_deliver p c m beh : (p < num_plugins)%N -> holds_disp p c m beh (deliver p c m beh) = true.
Proof. intros Hp. unfold holds_disp. rewrite (deliver_total p c m beh Hp). apply delivery_eqb_refl. Qed.

(* ---- consecutive sessions of one stub ---------------------------------------- *)

(* regenerated fact: Configure does not write stub.events *)
Lemma stores_off : configure_stores_events = false.
Proof. reflexivity. Qed.

Lemma run_sessions_independent ev hooks : run_sessions false ev hooks = map (configure_with ev) hooks.
Proof.
  induction hooks as [|h r IH]; [reflexivity|]. cbn [run_sessions map].
  assert (snd (configure_st false ev h) = ev) as E.
  { unfold configure_st. cbn [snd]. destruct h; try reflexivity. destruct (configure_with ev (HookMask m)); reflexivity. }
  rewrite E, IH. reflexivity.
Qed.

Lemma sessions_independent p hooks : sessions p hooks = map (configure p) hooks.
Proof. unfold sessions. rewrite stores_off. exact (run_sessions_independent (stub_events p) hooks). Qed.

Lemma sessions_hold p hooks :
  (p < num_plugins)%N ->
  Forall2 (fun h r => holds_cfg p h r = true) hooks (sessions p hooks).
Proof.
  intros Hp. rewrite sessions_independent. induction hooks as [|h r IH]; cbn [map]; constructor; [|exact IH].
  exact (holds_cfg_configure p h Hp).
Qed.
