"""Machinery behind ./check — see the docstring there and DESIGN.md sections 1, 5, 6."""
import argparse, concurrent.futures, fcntl, glob, hashlib, json, os, re, shutil, subprocess, sys, tempfile, time

VERIF = os.path.dirname(os.path.dirname(os.path.abspath(__file__)))
REPO = os.environ.get("VERIF_REPO", "/repo")
BUILD = os.path.join(VERIF, "build")
COQ = os.path.join(VERIF, "coq")
HARNESS = os.path.join(VERIF, "harness")
EVIDENCE = os.path.join(VERIF, "evidence")
REPLAYS = os.path.join(VERIF, "replays")

sys.path.insert(0, os.path.join(VERIF, "lib"))
import props  # noqa: E402

ALLOWED_AXIOMS = set(props.ALLOWED_AXIOMS)
FORBIDDEN = re.compile(r"\b(Admitted|admit|Axiom|Axioms|Parameter|Parameters|Conjecture|Conjectures|Hypothesis|Hypotheses|Variable|Variables|Admit Obligations|Unset Guard Checking|bypass_check|Unset Positivity Checking|Unset Universe Checking|type-in-type|impredicative-set)\b")


COQC_LIMIT = int(os.environ.get("VERIF_COQC_LIMIT") or 1500)   # seconds per .v file


class HarnessError(Exception):
    pass


def goenv():
    e = dict(os.environ)
    e.update(GOFLAGS="-mod=mod", GOPROXY="off", GOSUMDB="off", GOTOOLCHAIN="local", CGO_ENABLED=e.get("CGO_ENABLED", "0"))
    return e


def run(cmd, cwd=None, env=None, timeout=None, check=False):
    p = subprocess.run(cmd, cwd=cwd, env=env, timeout=timeout, stdout=subprocess.PIPE, stderr=subprocess.STDOUT, text=True)
    if check and p.returncode != 0:
        raise HarnessError("command failed (%d): %s\n%s" % (p.returncode, " ".join(cmd), p.stdout[-4000:]))
    return p.returncode, p.stdout


class Lock:
    def __init__(self, name):
        os.makedirs(BUILD, exist_ok=True)
        self.path = os.path.join(BUILD, name)

    def __enter__(self):
        self.f = open(self.path, "w")
        fcntl.flock(self.f, fcntl.LOCK_EX)
        return self

    def __exit__(self, *a):
        fcntl.flock(self.f, fcntl.LOCK_UN)
        self.f.close()


# ---------------------------------------------------------------- Go side

def build_go(names, race=False):
    """Rebuild the named harness binaries from /repo's current working tree (hooks on: -tags verif)."""
    with Lock("go.lock"):
        sumsrc = os.path.join(REPO, "go.sum")
        if os.path.exists(sumsrc):
            shutil.copyfile(sumsrc, os.path.join(HARNESS, "go.sum"))
        outs = []
        for name in names:
            out = os.path.join(BUILD, name + ("-race" if race else ""))
            cmd = ["go", "build", "-tags", "verif"] + (["-race"] if race else []) + ["-o", out, "./cmd/" + name]
            env = goenv()
            if race:
                env["CGO_ENABLED"] = "1"
            rc, log = run(cmd, cwd=HARNESS, env=env, timeout=1200)
            if rc != 0:
                raise HarnessError("go build of %s failed (does /repo compile?):\n%s" % (name, log[-4000:]))
            outs.append(out)
        return outs


def binaries_of(P):
    """The harness binaries a property's drivers live in (a driver may be given as "binary:driver")."""
    out = [P["binary"]]
    for spec in P["drivers"]:
        if ":" in spec and spec.split(":", 1)[0] not in out:
            out.append(spec.split(":", 1)[0])
    return out


def all_generated():
    seen, out = set(), []
    for P in props.PROPS.values():
        for name, target in P.get("generated", []):
            if target not in seen:
                seen.add(target)
                out.append((name, target))
    return out


def regen_generated(gens):
    """Translators: regenerate the Coq files derived from /repo's sources (written only when changed)."""
    failed = []
    unbuilt = set()
    for n in sorted(set(n for n, _ in gens)):
        try:
            build_go([n])
        except HarnessError as e:
            # a translator that does not build against the current tree: a broken tie of the properties using it
            unbuilt.add(n)
            for name, target in gens:
                if name == n:
                    failed.append((name, target, "does not build against the current source: " + str(e)[-1500:]))
    for name, target in gens:
        if name in unbuilt:
            continue
        rc, log = run([os.path.join(BUILD, name), "-repo", REPO, "-out", os.path.join(COQ, target)], cwd=HARNESS, env=goenv(), timeout=300)
        if rc != 0:
            # the source no longer has the shape this translator reads: the generated file keeps its previous
            # contents and the tie through it counts as broken for the properties that use it (decide())
            failed.append((name, target, log[-2000:]))
    return failed


# ---------------------------------------------------------------- Coq side

def coq_sources():
    out = []
    for root, _, files in os.walk(COQ):
        for f in files:
            if f.endswith(".v") and not f.startswith("."):
                out.append(os.path.relpath(os.path.join(root, f), COQ))
    return sorted(out)


def ensure_makefile():
    srcs = coq_sources()
    listing = "\n".join(srcs)
    stamp = os.path.join(COQ, ".filelist")
    mk = os.path.join(COQ, "Makefile")
    old = open(stamp).read() if os.path.exists(stamp) else None
    if old != listing or not os.path.exists(mk):
        run(["coq_makefile", "-f", "_CoqProject"] + srcs + ["-o", "Makefile"], cwd=COQ, check=True, timeout=120)
        open(stamp, "w").write(listing)


def make_targets(targets, jobs=16, timeout=3000):
    """Full .vo build of the given targets and everything they depend on."""
    with Lock("coq.lock"):
        ensure_makefile()
        # every coqc runs under its own time limit: a proof that no longer terminates is a broken proof, not a hang
        rc, log = run(["make", "-j%d" % jobs, "COQC=timeout %d coqc" % COQC_LIMIT] + targets, cwd=COQ, timeout=timeout)
        return rc == 0, log


def scan_forbidden():
    bad = []
    for f in coq_sources():
        txt = open(os.path.join(COQ, f)).read()
        txt = re.sub(r"\(\*.*?\*\)", "", txt, flags=re.S)
        depth = 0
        for ln, line in enumerate(txt.split("\n"), 1):
            if re.match(r"\s*Section\b", line):
                depth += 1
            if re.match(r"\s*End\b", line) and depth > 0:
                depth -= 1
            for m in FORBIDDEN.finditer(line):
                w = m.group(1)
                if w in ("Variable", "Variables", "Hypothesis", "Hypotheses") and depth > 0:
                    continue  # section-local: discharged as a universally quantified premise
                bad.append("%s:%d: %s" % (f, ln, w))
    return bad


def theorems_of(prop_file):
    txt = open(os.path.join(COQ, prop_file)).read()
    txt = re.sub(r"\(\*.*?\*\)", "", txt, flags=re.S)
    return re.findall(r"^\s*Theorem\s+([A-Za-z0-9_']+)", txt, flags=re.M)


def coqc_file(path, timeout=1500):
    return run(["coqc", "-Q", COQ, "NRI", "-w", "-notation-overridden", os.path.basename(path)], cwd=os.path.dirname(path), timeout=timeout)


def property_files(pid, P):
    """Properties/<pid>.v plus the shared property files named in props "extra_props" (e.g. Properties/Builders.v,
    of which the theorems called <pid>_* belong to this property)."""
    return ["Properties/%s.v" % pid] + list(P.get("extra_props", []))


def property_theorems(pid, P):
    ths = theorems_of("Properties/%s.v" % pid)
    for f in P.get("extra_props", []):
        ths += [t for t in theorems_of(f) if t.startswith(pid + "_")]
    return ths


def print_assumptions(pid, scratch, P=None):
    """Returns {theorem: [] (closed) | [axioms...]} for the property's theorems, re-checked on every run."""
    P = P or {}
    ths = property_theorems(pid, P)
    src = "".join("From NRI Require Import %s.\n" % f[:-2].replace("/", ".") for f in property_files(pid, P))
    for t in ths:
        src += 'Goal True. idtac "@@BEGIN %s". Abort.\nPrint Assumptions %s.\nGoal True. idtac "@@END". Abort.\n' % (t, t)
    path = os.path.join(scratch, "Assume_%s.v" % pid)
    open(path, "w").write(src)
    rc, log = coqc_file(path)
    if rc != 0:
        return None, log
    res = {}
    for m in re.finditer(r"@@BEGIN (\S+)\n(.*?)@@END", log, flags=re.S):
        body = m.group(2)
        if "Closed under the global context" in body:
            res[m.group(1)] = []
        else:
            axs = re.findall(r"^([A-Za-z0-9_.']+)\s*:", body, flags=re.M)
            res[m.group(1)] = axs or ["<unparsed: %s>" % body.strip()[:200]]
    for t in ths:
        res.setdefault(t, ["<no output>"])
    return res, log


def parse_fails(log, name):
    m = re.search(name + r"\s*=\s*(.*?)\s*:\s*list nat", log, flags=re.S)
    if not m:
        return None
    body = m.group(1).strip()
    if body.endswith("%nat"):
        body = body[:-4]
    body = body.strip("[]").strip()
    if not body:
        return []
    return [int(re.sub(r"%\w+", "", x)) for x in re.split(r"[;\s]+", body) if x]


def parse_verdicts(log):
    m = re.search(r"verdicts\s*=\s*(\[.*?\])\s*:\s*list \(list bool\)", log, flags=re.S)
    if not m:
        return None
    body = m.group(1)
    rows = re.findall(r"\[([^\[\]]*)\]", body[1:-1])
    return [[x.strip() == "true" for x in r.split(";") if x.strip()] for r in rows]


def eval_shard(args):
    """Returns (shard, corr failures, holds failures, log tail, seconds); failures are lists of (index, predicate)."""
    out, sh, holds_sel = args
    t0 = time.time()
    try:
        rc, log = coqc_file(os.path.join(out, sh["file"]), timeout=3000)
    except subprocess.TimeoutExpired:
        return sh, None, None, "coqc timed out", time.time() - t0
    if rc != 0:
        return sh, None, None, log[-3000:], time.time() - t0
    if sh.get("preds"):
        rows = parse_verdicts(log)
        if rows is None or len(rows) != sh["cases"]:
            return sh, None, None, "cannot parse verdicts: " + log[-1500:], time.time() - t0
        cf, hf = [], []
        for i, row in enumerate(rows):
            if len(row) != len(sh["preds"]):
                return sh, None, None, "verdict row of wrong length: " + log[-500:], time.time() - t0
            for name, ok in zip(sh["preds"], row):
                if ok:
                    continue
                if name.startswith("corr"):
                    cf.append((i, name))
                elif holds_sel is None or name in holds_sel:
                    hf.append((i, name))
        return sh, cf, hf, log[-300:], time.time() - t0
    cf, hf = parse_fails(log, "corr_fails"), parse_fails(log, "holds_fails")
    if cf is None or hf is None:
        return sh, None, None, log[-1500:], time.time() - t0
    return sh, [(i, "corr") for i in cf], [(i, "holds") for i in hf], log[-500:], time.time() - t0


def explore(pid, P, tier, seed, scratch, ok, tag=""):
    """One pass of the drivers and of the model evaluation for one seed.
    Returns (stats_all, corr_fail, holds_fail, impl_fail, ncases, violations)."""
    violations = []
    stats_all, shards = [], []
    race = tier == "thorough" and P.get("race")
    if race:
        build_go(binaries_of(P), race=True)
    for spec in P["drivers"]:
        binary, drv = (spec.split(":", 1) if ":" in spec else (P["binary"], spec))   # "binary:driver" or "driver"
        out = os.path.join(scratch, drv + tag)
        os.makedirs(out)
        exe = os.path.join(BUILD, binary + ("-race" if race else ""))
        cmd = [exe, "-out", out, "-seed", str(seed), "-tier", tier, "-repo", REPO, drv]
        env = goenv()
        env["VERIF_PROPERTY"] = pid
        rc, log = run(cmd, cwd=out, env=env, timeout=P.get("driver_timeout", 3000))
        sp = os.path.join(out, "stats.json")
        if rc not in (0,) or not os.path.exists(sp):
            if "WARNING: DATA RACE" in log and "/repo/" in log or "containerd/nri" in log and "DATA RACE" in log:
                violations.append(("data-race", {"what": "the race detector reported a data race inside containerd/nri: the model's atomicity assumption is not met", "log": log[-6000:]}, False))
                continue
            raise HarnessError("driver %s failed (rc=%s):\n%s" % (drv, rc, log[-6000:]))
        st = json.load(open(sp))
        st["_driver"], st["_out"] = drv, out
        stats_all.append(st)
        for sh in st.get("shards", []):
            if P.get("streams") and sh["stream"] not in P["streams"]:
                continue
            shards.append((out, sh, P.get("holds_preds")))

    # model evaluation (only when the cone compiled)
    corr_fail, holds_fail, eval_errors, ncases = [], [], [], 0
    if ok:
        with concurrent.futures.ThreadPoolExecutor(max_workers=16) as ex:
            for sh, cf, hf, log, dt in ex.map(eval_shard, shards):
                out = [o for o, s, _ in shards if s is sh][0]
                if cf is None or hf is None:
                    eval_errors.append("%s: %s" % (sh["file"], log))
                    continue
                ncases += sh["cases"]
                raws = json.load(open(os.path.join(out, sh["json"])))
                for i, pred in cf:
                    corr_fail.append({"stream": sh["stream"], "shard": sh["file"], "index": i, "predicate": pred, "seed": seed, "case": raws[i]})
                for i, pred in hf:
                    holds_fail.append({"stream": sh["stream"], "shard": sh["file"], "index": i, "predicate": pred, "seed": seed, "case": raws[i]})
        if eval_errors:
            raise HarnessError("Coq evaluation of cases failed:\n" + "\n".join(eval_errors)[:6000])
    impl_fail = []
    for st in stats_all:
        for f in st.get("impl_failures") or []:
            if P.get("streams") and f.get("stream") not in P["streams"] and f.get("stream") not in P.get("impl_streams", []):
                continue
            if re.match(r"^C\d\d\d?:", f.get("what", "")) and not f["what"].startswith(pid + ":"):
                continue  # a shared driver tags its oracle failures with the property they belong to
            impl_fail.append(f)
    return stats_all, corr_fail, holds_fail, impl_fail, ncases, violations


# ---------------------------------------------------------------- verdicts

def write_replay(pid, tier, seed, kind, detail):
    os.makedirs(REPLAYS, exist_ok=True)
    path = os.path.join(REPLAYS, "%s_%s_%d_%s.json" % (pid, tier, seed, kind))
    detail = dict(detail)
    detail.update(property=pid, tier=tier, seed=seed, kind=kind)
    with open(path, "w") as f:
        json.dump(detail, f, indent=1, default=str)
    return path


def load_known():
    p = os.path.join(VERIF, "known_findings.json")
    if not os.path.exists(p):
        return {"findings": [], "fixed": []}
    return json.load(open(p))


def matches_finding(finding, failure):
    """A failing case is attributed to a listed finding only if it carries the finding's signature:
    every key of finding['signature'] equals the corresponding key of the failure's case."""
    sig = finding.get("signature") or {}
    cs = failure.get("case")
    if not isinstance(cs, dict) or not sig:
        return False
    tags = cs.get("signature") or {}
    return all(tags.get(k) == v for k, v in sig.items())


def main(argv):
    ap = argparse.ArgumentParser()
    ap.add_argument("pid")
    ap.add_argument("--tier", default=os.environ.get("VERIF_TIER") or "quick", choices=["quick", "thorough"])
    ap.add_argument("--replay")
    ap.add_argument("--keep", action="store_true", help="keep the scratch directory")
    a = ap.parse_args(argv)
    pid = a.pid
    if pid not in props.PROPS:
        print("unknown property %s" % pid)
        return 2
    P = props.PROPS[pid]
    seed = int(os.environ.get("VERIF_SEED") or 1)
    tier = a.tier
    replay_sel = None
    if a.replay:
        rp = json.load(open(a.replay))
        seed, tier = rp.get("seed", seed), rp.get("tier", tier)
        replay_sel = rp
    t0 = time.time()
    os.makedirs(BUILD, exist_ok=True)
    scratch = tempfile.mkdtemp(prefix="run_%s_" % pid, dir=BUILD)
    try:
        return decide(pid, P, tier, seed, scratch, t0, replay_sel)
    except HarnessError as e:
        print("HARNESS-ERROR property=%s %s" % (pid, str(e)[:6000]))
        return 2
    except subprocess.TimeoutExpired as e:
        print("HARNESS-ERROR property=%s timeout: %s" % (pid, e))
        return 2
    finally:
        if not a.keep:
            shutil.rmtree(scratch, ignore_errors=True)


def decide(pid, P, tier, seed, scratch, t0, replay_sel):
    notes = []

    # -- 1. translators + proofs
    gen_failed = regen_generated(all_generated())
    mine = set(t for _, t in P.get("generated", []))
    gen_broken = ["translator %s could not regenerate %s from the current source (the code no longer has the shape it reads; the file keeps its previous contents): %s" % (n, t, l.strip()[-600:]) for n, t, l in gen_failed if t in mine]
    for n, t, l in gen_failed:
        if t not in mine:
            notes.append("translator %s of another property failed (not used by %s)" % (n, pid))
    build_go(binaries_of(P))
    forbidden = scan_forbidden()
    targets = [f + "o" for f in property_files(pid, P)] + [m.replace(".", "/") + ".vo" for m in P.get("run_modules", [])]
    ok, mlog = make_targets(targets)
    theorems = property_theorems(pid, P)
    assum, discharged, proofs_ok = {}, 0, ok
    broken = []
    if not ok:
        errs = re.findall(r'File "\./([^"]+)", line (\d+).*?\n(Error:.*?)(?:\n\n|\nmake)', mlog, flags=re.S)
        broken = ["%s:%s %s" % (f, l, e.replace("\n", " ")[:300]) for f, l, e in errs] or [mlog[-1500:]]
    else:
        assum, alog = print_assumptions(pid, scratch, P)
        if assum is None:
            proofs_ok = False
            broken = ["Print Assumptions failed: " + alog[-1000:]]
            assum = {}
        for t in theorems:
            axs = assum.get(t, ["<missing>"])
            extra = [x for x in axs if x not in ALLOWED_AXIOMS]
            if extra:
                proofs_ok = False
                broken.append("theorem %s depends on axioms outside the declared trusted base: %s" % (t, ", ".join(extra)))
            else:
                discharged += 1
    if gen_broken:
        proofs_ok = False
        broken += gen_broken
        discharged = 0
    if forbidden:
        proofs_ok = False
        broken.append("forbidden vernacular in the development: " + "; ".join(forbidden[:10]))
        discharged = 0

    # -- 2./3. implementation runs and model evaluation
    stats_all, corr_fail, holds_fail, impl_fail, ncases, violations = explore(pid, P, tier, seed, scratch, ok)

    # -- 3b. extended search: a broken proof or a broken correspondence with no failing input so far ->
    # look for a concrete failing input with further seeds (the property's predicate on the implementation)
    known = load_known()

    def classify(hf, imf):
        """splits the failing cases into recorded findings (which exist on the unchanged tree whatever else is
        broken: never presented as the failing input of a new violation) and the rest"""
        kf, rl = [], []
        for f in hf + [{"stream": f["stream"], "case": f["case"], "what": f["what"], "impl_oracle": True} for f in imf]:
            hit = None
            for k in known.get("findings", []):
                if k.get("property") == pid and matches_finding(k, f):
                    hit = k
                    break
            if hit:
                kf.append("KNOWN-FINDING: property=%s %s" % (pid, hit["what"]))
            else:
                rl.append(f)
        return kf, rl

    kf_lines, real = classify(holds_fail, impl_fail)
    searched_extra = 0
    if (not proofs_ok or corr_fail) and not real and not replay_sel:
        for k in range(1, int(os.environ.get("VERIF_EXTRA_SEEDS") or 4) + 1):
            try:
                st2, cf2, hf2, if2, n2, _ = explore(pid, P, tier, seed + 1000 * k, scratch, ok, tag="_x%d" % k)
            except HarnessError:
                break
            searched_extra += n2 + sum(s["evaluations"] for s in st2)
            kf2, real2 = classify(hf2, if2)
            if real2:
                real = real2
                notes.append("failing input found by the extended search with seed %d" % (seed + 1000 * k))
                break

    # -- 4. verdict
    out_lines = []
    rc = 0
    if real:
        path = write_replay(pid, tier, seed, "failing-input", {"what": "the property's predicate is false on the implementation's behaviour", "failures": real[:5], "count": len(real)})
        out_lines.append("VIOLATION property=%s replay=%s" % (pid, path))
        rc = 1
    elif not proofs_ok:
        path = write_replay(pid, tier, seed, "broken-proof", {"what": "a proof obligation of the property no longer checks against the regenerated model", "broken": broken, "searched_cases": ncases + sum(s["evaluations"] for s in stats_all) + searched_extra})
        out_lines.append("VIOLATION property=%s replay=%s no-failing-input-found" % (pid, path))
        rc = 1
    elif corr_fail:
        path = write_replay(pid, tier, seed, "broken-correspondence", {"what": "model and implementation disagree on the projected observable; the property's own predicate is true on every explored case", "correspondence": P.get("corr_name", ""), "disagreements": corr_fail[:5], "count": len(corr_fail), "searched_cases_extended": searched_extra})
        out_lines.append("VIOLATION property=%s replay=%s no-failing-input-found" % (pid, path))
        rc = 1
    for v in violations:
        path = write_replay(pid, tier, seed, v[0], v[1])
        out_lines.append("VIOLATION property=%s replay=%s no-failing-input-found" % (pid, path))
        rc = 1

    # -- 5. thorough: independent re-check of the compiled proofs
    coqchk = None
    if tier == "thorough" and ok and os.environ.get("VERIF_NO_COQCHK") != "1":
        c0 = time.time()
        try:
            crc, clog = run(["coqchk", "-silent", "-o", "-Q", COQ, "NRI", "NRI.Properties.%s" % pid], cwd=COQ, timeout=2400)
            coqchk = {"rc": crc, "wall_s": round(time.time() - c0, 1), "tail": clog[-1500:]}
            if crc != 0:
                path = write_replay(pid, tier, seed, "coqchk", {"what": "coqchk rejected the compiled proofs", "log": clog[-4000:]})
                out_lines.append("VIOLATION property=%s replay=%s no-failing-input-found" % (pid, path))
                rc = 1
        except subprocess.TimeoutExpired:
            coqchk = {"rc": None, "wall_s": round(time.time() - c0, 1), "tail": "coqchk timed out (not a verdict)"}

    # -- 6. evidence
    samples, dist, rules = [], {}, []
    evaluations = distinct = 0
    exhaustive = bool(stats_all) and all(s.get("exhaustive") for s in stats_all)
    extra = {}
    for st in stats_all:
        evaluations += st["evaluations"]
        distinct += st["distinct_nontrivial"]
        samples += st.get("samples") or []
        for k, v in (st.get("distribution") or {}).items():
            dist[k] = dist.get(k, 0) + v
        if st.get("rule"):
            rules.append(st["rule"])
        if st.get("extra"):
            extra[st["_driver"]] = st["extra"]
    if not samples:
        samples = [{"theorems": theorems}]
    ev = {
        "property_id": pid, "tier": tier, "seed": seed, "level": "proof",
        "coverage": {
            "obligations": max(len(theorems), 1), "discharged": discharged,
            "checker_cmd": "make -C coq %s (coqc 8.16.1, full .vo build) + Print Assumptions per theorem%s" % (" ".join(targets), "; coqchk -silent -o NRI.Properties.%s" % pid if coqchk else ""),
            "trusted_base": props.TRUSTED_BASE + P.get("trusted", []),
            "theorems": theorems, "axioms": {t: assum.get(t) for t in theorems},
            "evaluations": evaluations, "distinct_nontrivial": distinct,
            "rule": " | ".join(rules), "samples": samples[:12], "distribution": dist,
            "exhaustive": exhaustive, "traces_validated_against_impl": ncases,
            "model_cases_evaluated_in_coq": ncases, "correspondence_disagreements": len(corr_fail),
            "predicate_failures_on_impl": len(holds_fail) + len(impl_fail),
            "known_findings_reported": len(kf_lines), "coqchk": coqchk, "extra": extra,
            "explanation": P.get("explanation", ""),
        },
        "assumptions": P.get("assumptions", []),
        "wall_s": round(time.time() - t0, 2), "violations": 0 if rc == 0 else len(out_lines),
    }
    os.makedirs(EVIDENCE, exist_ok=True)
    with open(os.path.join(EVIDENCE, "%s.json" % pid), "w") as f:
        json.dump(ev, f, indent=1, default=str)
        f.write("\n")
    for l in sorted(set(kf_lines)):
        print(l)
    for l in sorted(set(out_lines)):
        print(l)
    print("%s property=%s tier=%s seed=%d theorems=%d/%d cases=%d evaluations=%d wall=%.1fs" % (
        "OK" if rc == 0 else "FAIL", pid, tier, seed, discharged, len(theorems), ncases, evaluations, time.time() - t0))
    return rc
