(* Proofs about Model/Mux.v: framing round trip, chunking, truncation, the fail-stop
   state machine and the listener wrapper.  Statements used by Properties/C10.v and C11.v. *)
From Coq Require Import List Bool NArith ZArith Lia.
From NRI Require Import Model.MuxConsts Model.Mux Spec.MuxSpec.
Import ListNotations.
Open Scope N_scope.

(* ------------------------------------------------------------------ *)


Ltac divmod := zify; Z.to_euclidean_division_equations; lia.

Lemma u32_be32 v : v < 4294967296 ->
  u32 ((v / 16777216) mod 256) ((v / 65536) mod 256) ((v / 256) mod 256) (v mod 256) = v.
Proof. intros H. unfold u32. divmod. Qed.

Lemma be32_range v : Forall (fun b => b < 256) (be32 v).
Proof. unfold be32. repeat constructor; apply N.mod_lt; discriminate. Qed.

Lemma be32_length v : length (be32 v) = 4%nat.
Proof. reflexivity. Qed.

(* ------------------------------------------------------------------ *)


Lemma lenN_nil {A} : lenN (@nil A) = 0. Proof. reflexivity. Qed.
Lemma lenN_cons {A} (x : A) l : lenN (x :: l) = N.succ (lenN l).
Proof. unfold lenN. cbn [length]. lia. Qed.
Lemma lenN_app {A} (a b : list A) : lenN (a ++ b) = lenN a + lenN b.
Proof. unfold lenN. rewrite app_length. lia. Qed.
Lemma lenN_0 {A} (l : list A) : lenN l = 0 -> l = [].
Proof. destruct l; [reflexivity|]. rewrite lenN_cons. lia. Qed.

Lemma splitN_firstn_skipn {A} n (l : list A) :
  splitN n l = (firstn (N.to_nat n) l, skipn (N.to_nat n) l).
Proof.
  revert n. induction l as [|x r IH]; intros n; cbn [splitN].
  - now rewrite firstn_nil, skipn_nil.
  - destruct (N.eqb_spec n 0) as [->|Hn]; [reflexivity|].
    rewrite IH. replace (N.to_nat n) with (S (N.to_nat (N.pred n))) by lia. reflexivity.
Qed.

Lemma splitN_app {A} n (l : list A) : fst (splitN n l) ++ snd (splitN n l) = l.
Proof. rewrite splitN_firstn_skipn. apply firstn_skipn. Qed.

Lemma splitN_len_fst {A} n (l : list A) : lenN (fst (splitN n l)) = N.min n (lenN l).
Proof. rewrite splitN_firstn_skipn. cbn [fst]. unfold lenN. rewrite firstn_length. lia. Qed.

Lemma splitN_len_snd {A} n (l : list A) : lenN (snd (splitN n l)) = lenN l - N.min n (lenN l).
Proof. rewrite splitN_firstn_skipn. cbn [snd]. unfold lenN. rewrite skipn_length. lia. Qed.

Lemma splitN_exact {A} (a b : list A) : splitN (lenN a) (a ++ b) = (a, b).
Proof.
  rewrite splitN_firstn_skipn. unfold lenN. rewrite Nat2N.id.
  rewrite firstn_app, skipn_app, firstn_all, skipn_all, Nat.sub_diag. cbn. now rewrite app_nil_r.
Qed.

Lemma splitN_short {A} n (l : list A) : lenN l <= n -> splitN n l = (l, []).
Proof.
  intros H. rewrite splitN_firstn_skipn. unfold lenN in H.
  rewrite firstn_all2, skipn_all2 by lia. reflexivity.
Qed.

(* ---- write loop ---- *)

Lemma sizes_loop_spec fuel mp id : forall data size,
  sizes_loop fuel mp id (lenN data) size = option_map (map frame_size) (write_loop fuel mp id data size).
Proof.
  induction fuel as [|f IH]; intros data size; [reflexivity|].
  cbn [sizes_loop write_loop].
  set (size1 := if mp <? size then mp else size).
  pose proof (splitN_len_fst size1 data) as Hf. pose proof (splitN_len_snd size1 data) as Hs.
  destruct (splitN size1 data) as [chunk data'] eqn:E. cbn [fst snd] in Hf, Hs.
  rewrite <- Hf in Hs. rewrite <- Hf, <- Hs.
  destruct ((if lenN data' <? size1 then lenN data' else size1) =? 0).
  - cbn. unfold frame_size. cbn. reflexivity.
  - rewrite IH. destruct (write_loop f mp id data' _); cbn; [|reflexivity].
    unfold frame_size at 2. cbn. reflexivity.
Qed.


Lemma div_step mp r : 0 < mp -> mp <= r -> r / mp = 1 + (r - mp) / mp.
Proof.
  intros Hm Hr. replace r with (1 * mp + (r - mp)) at 1 by lia.
  rewrite N.div_add_l by lia. reflexivity.
Qed.

Lemma write_loop_total mp id : 0 < mp -> forall fuel data size,
  N.min mp size = N.min mp (lenN data) ->
  (N.to_nat (lenN data / mp) < fuel)%nat ->
  exists fs, write_loop fuel mp id data size = Some fs /\ chunked mp id data fs.
Proof.
  intros Hmp. induction fuel as [|f IH]; intros data size Hsz Hfuel; [inversion Hfuel|].
  cbn [write_loop].
  set (size1 := if mp <? size then mp else size).
  assert (Hs1 : size1 = N.min mp (lenN data)).
  { subst size1. destruct (N.ltb_spec mp size); lia. }
  pose proof (splitN_len_fst size1 data) as Hf. pose proof (splitN_len_snd size1 data) as Hs.
  pose proof (splitN_app size1 data) as Happ.
  destruct (splitN size1 data) as [chunk data'] eqn:E. cbn [fst snd] in Hf, Hs, Happ.
  destruct (N.eqb_spec (if lenN data' <? size1 then lenN data' else size1) 0) as [Hz|Hnz].
  - (* last frame *)
    assert (Hd' : data' = []).
    { apply lenN_0. destruct (N.ltb_spec (lenN data') size1); lia. }
    subst data'. rewrite app_nil_r in Happ. subst chunk.
    eexists; split; [reflexivity|]. unfold chunked. cbn [map concat snd fst].
    rewrite app_nil_r. repeat split.
    + constructor; [|constructor]. cbn. split; [reflexivity|lia].
    + discriminate.
    + intros pre f0 post Heq Hpost. apply (f_equal (@length _)) in Heq.
      rewrite app_length in Heq. cbn [length] in Heq. destruct post; [contradiction|cbn [length] in Heq; lia].
    + intros pre f0 Heq Hnil. destruct pre as [|a pre]; cbn in Heq.
      * inversion Heq; subst. exact Hnil.
      * inversion Heq as [[Ha Hb]]. destruct pre; discriminate.
  - (* more frames follow: the chunk is full *)
    assert (Hlt : mp < lenN data).
    { destruct (N.ltb_spec (lenN data') size1); lia. }
    assert (Hchunk : lenN chunk = mp) by lia.
    assert (Hlen' : lenN data' = lenN data - mp) by lia.
    destruct (IH data' (if lenN data' <? size1 then lenN data' else size1)) as [fs [Hfs Hch]].
    + destruct (N.ltb_spec (lenN data') size1); lia.
    + rewrite Hlen'. rewrite (div_step mp (lenN data)) in Hfuel by lia. lia.
    + rewrite Hfs. eexists; split; [reflexivity|].
      destruct Hch as [Hcat [Hall [Hne [Hfull Hlast]]]].
      unfold chunked. cbn [map concat snd fst]. repeat split.
      * rewrite Hcat. exact Happ.
      * constructor; [|exact Hall]. cbn. split; [reflexivity|lia].
      * discriminate.
      * intros pre f0 post Heq Hpost. destruct pre as [|a pre]; cbn in Heq; inversion Heq as [[H1 H2]].
        -- cbn. exact Hchunk.
        -- eapply Hfull; eauto.
      * intros pre f0 Heq Hnil. destruct pre as [|a pre]; cbn in Heq; inversion Heq as [[H1 H2]].
        -- contradiction.
        -- specialize (Hlast _ _ H2 Hnil). rewrite Hlast, lenN_nil in Hlen'. lia.
Qed.

Lemma enc_write_total mp id buf : 0 < mp ->
  enc_write_mp mp id buf = Some (enc_frames_mp mp id buf) /\ chunked mp id buf (enc_frames_mp mp id buf).
Proof.
  intros Hmp. unfold enc_frames_mp, enc_write_mp.
  destruct (write_loop_total mp id Hmp (write_fuel mp (lenN buf)) buf (lenN buf) eq_refl) as [fs [H1 H2]].
  - unfold write_fuel. lia.
  - rewrite H1. split; [reflexivity|exact H2].
Qed.

Lemma enc_write_sizes_eq mp id buf :
  enc_write_sizes_mp mp id (lenN buf) = option_map (map frame_size) (enc_write_mp mp id buf).
Proof. apply sizes_loop_spec. Qed.

(* ------------------------------------------------------------------ *)



Lemma frame_bytes_cons f : exists a b c d e f' g h,
  frame_bytes f = a :: b :: c :: d :: e :: f' :: g :: h :: snd f /\
  u32 a b c d = (fst f) mod 4294967296 /\ u32 e f' g h = (lenN (snd f)) mod 4294967296.
Proof.
  unfold frame_bytes, be32. do 8 eexists. cbn [app]. split; [reflexivity|].
  unfold u32. split; divmod.
Qed.

Lemma frame_bytes_length f : length (frame_bytes f) = (8 + length (snd f))%nat.
Proof. unfold frame_bytes. rewrite !app_length. reflexivity. Qed.

Lemma parse_one_frame f rest : wf_frame f -> parse_one (frame_bytes f ++ rest) = PFrame f rest.
Proof.
  intros [Hid Hlen]. destruct (frame_bytes_cons f) as (a&b&c&d&e&f'&g&h&Hfb&Hu1&Hu2).
  rewrite Hfb. cbn [app parse_one]. rewrite Hu1, Hu2, !N.mod_small by assumption.
  rewrite splitN_exact, N.eqb_refl. destruct f; reflexivity.
Qed.

Definition is_frame (r : parse_res) : bool := match r with PFrame _ _ => true | _ => false end.

(* a frame cut anywhere before its end never parses as a frame *)
Lemma parse_one_cut f rest m : wf_frame f -> (m < length (frame_bytes f))%nat ->
  is_frame (parse_one (firstn m (frame_bytes f ++ rest))) = false.
Proof.
  intros [Hid Hlen] Hm. rewrite frame_bytes_length in Hm.
  destruct (frame_bytes_cons f) as (a&b&c&d&e&f'&g&h&Hfb&Hu1&Hu2).
  rewrite Hfb. cbn [app].
  do 8 (destruct m as [|m]; [reflexivity|]). cbn [firstn parse_one].
  rewrite Hu2, N.mod_small by assumption.
  rewrite firstn_app. replace (m - length (snd f))%nat with 0%nat by lia.
  cbn [firstn]. rewrite app_nil_r.
  rewrite splitN_short.
  2:{ unfold lenN. rewrite firstn_length. lia. }
  destruct (N.eqb_spec (lenN (firstn m (snd f))) (lenN (snd f))) as [He|_].
  - unfold lenN in He. rewrite firstn_length in He. lia.
  - destruct (lenN (firstn m (snd f)) =? 0); reflexivity.
Qed.

(* class of the cut inside the first frame (error class of the reader) *)
Definition cut_tail (f : frame) (m : nat) : tail :=
  if (m =? 0)%nat then TEof
  else if (m <? 8)%nat then TShortHeader
  else if (m =? 8)%nat then TNoPayload else TShortPayload.

Lemma frames_bytes_cons f fs : frames_bytes (f :: fs) = frame_bytes f ++ frames_bytes fs.
Proof. reflexivity. Qed.
Lemma frames_bytes_app a b : frames_bytes (a ++ b) = frames_bytes a ++ frames_bytes b.
Proof. unfold frames_bytes. apply flat_map_app. Qed.

(* the reader's step on a cut stream of well-formed frames *)
Lemma parse_one_prefix fs m f r :
  Forall wf_frame fs -> parse_one (firstn m (frames_bytes fs)) = PFrame f r ->
  exists fs', fs = f :: fs' /\ (length (frame_bytes f) <= m)%nat /\
              r = firstn (m - length (frame_bytes f)) (frames_bytes fs').
Proof.
  intros Hwf Hp. destruct fs as [|f0 fs'].
  - rewrite firstn_nil in Hp. discriminate.
  - inversion Hwf as [|? ? Hf0 Hrest]; subst. rewrite frames_bytes_cons in Hp.
    destruct (Nat.lt_ge_cases m (length (frame_bytes f0))) as [Hlt|Hge].
    + pose proof (parse_one_cut f0 (frames_bytes fs') m Hf0 Hlt) as Hc. rewrite Hp in Hc. discriminate.
    + rewrite firstn_app, firstn_all2 in Hp by lia. rewrite parse_one_frame in Hp by assumption.
      inversion Hp; subst. exists fs'. repeat split; assumption.
Qed.

Lemma parse_all_prefix fs : Forall wf_frame fs -> forall m fuel,
  (length (firstn m (frames_bytes fs)) < fuel)%nat ->
  exists k t, parse_all fuel (firstn m (frames_bytes fs)) = Some (firstn k fs, t).
Proof.
  induction fs as [|f0 fs' IH]; intros Hwf m fuel Hfuel.
  - rewrite firstn_nil in *. destruct fuel; [inversion Hfuel|]. exists 0%nat, TEof. reflexivity.
  - inversion Hwf as [|? ? Hf0 Hrest]; subst.
    destruct fuel as [|fuel]; [inversion Hfuel|]. cbn [parse_all].
    rewrite frames_bytes_cons in *.
    destruct (Nat.lt_ge_cases m (length (frame_bytes f0))) as [Hlt|Hge].
    + pose proof (parse_one_cut f0 (frames_bytes fs') m Hf0 Hlt) as Hc.
      destruct (parse_one _); try discriminate; exists 0%nat; eexists; reflexivity.
    + rewrite firstn_app, firstn_all2 in * by lia. rewrite parse_one_frame by assumption.
      destruct (IH Hrest (m - length (frame_bytes f0))%nat fuel) as [k [t Hk]].
      * rewrite app_length in Hfuel. pose proof (frame_bytes_length f0). lia.
      * rewrite Hk. exists (S k), t. reflexivity.
Qed.

Lemma dec_frames_prefix fs m : Forall wf_frame fs ->
  exists k, dec_frames (firstn m (frames_bytes fs)) = firstn k fs.
Proof.
  intros Hwf. unfold dec_frames, parse_stream.
  destruct (parse_all_prefix fs Hwf m (S (length (firstn m (frames_bytes fs))))) as [k [t H]]; [lia|].
  rewrite H. exists k. reflexivity.
Qed.

Lemma parse_all_full fs : Forall wf_frame fs -> forall fuel,
  (length (frames_bytes fs) < fuel)%nat -> parse_all fuel (frames_bytes fs) = Some (fs, TEof).
Proof.
  induction fs as [|f0 fs' IH]; intros Hwf fuel Hfuel.
  - destruct fuel; [inversion Hfuel|]. reflexivity.
  - inversion Hwf as [|? ? Hf0 Hrest]; subst. destruct fuel as [|fuel]; [inversion Hfuel|].
    cbn [parse_all]. rewrite frames_bytes_cons in *. rewrite parse_one_frame by assumption.
    rewrite IH; [reflexivity|assumption|]. rewrite app_length, frame_bytes_length in Hfuel. lia.
Qed.

Lemma dec_frames_full fs : Forall wf_frame fs -> dec_frames (frames_bytes fs) = fs.
Proof. intros H. unfold dec_frames, parse_stream. rewrite parse_all_full; auto. Qed.
Lemma dec_tail_full fs : Forall wf_frame fs -> dec_tail (frames_bytes fs) = TEof.
Proof. intros H. unfold dec_tail, parse_stream. rewrite parse_all_full; auto. Qed.

(* ------------------------------------------------------------------ *)



Lemma prefix_refl {A} (a : list A) : prefix a a.
Proof. exists []. now rewrite app_nil_r. Qed.
Lemma prefix_trans {A} (a b c : list A) : prefix a b -> prefix b c -> prefix a c.
Proof. intros [x ->] [y ->]. exists (x ++ y). now rewrite app_assoc. Qed.
Lemma prefix_firstn {A} k (l : list A) : prefix (firstn k l) l.
Proof. exists (skipn k l). symmetry. apply firstn_skipn. Qed.

Lemma bytes_eqb_eq a b : bytes_eqb a b = true <-> a = b.
Proof.
  revert b. induction a as [|x r IH]; intros [|y s]; cbn; split; intros H; try discriminate; try reflexivity.
  - apply andb_true_iff in H. destruct H as [H1 H2]. apply N.eqb_eq in H1. apply IH in H2. now subst.
  - inversion H; subst. rewrite N.eqb_refl. cbn. now apply IH.
Qed.

Lemma frames_prefixb_spec a b : frames_prefixb a b = true <-> prefix a b.
Proof.
  unfold frames_prefixb. revert b. induction a as [|x r IH]; intros b; cbn.
  - split; [intros _; exists b; reflexivity|reflexivity].
  - destruct b as [|y s].
    + split; [discriminate|]. intros [c Hc]. discriminate.
    + rewrite andb_true_iff, bytes_eqb_eq, IH. split.
      * intros [-> [c ->]]. exists c. reflexivity.
      * intros [c Hc]. inversion Hc; subst. split; [reflexivity|]. exists c. reflexivity.
Qed.

Lemma queue_of_app id a b : queue_of id (a ++ b) = queue_of id a ++ queue_of id b.
Proof. unfold queue_of. now rewrite filter_app, map_app. Qed.

Lemma queue_of_prefix id k fs : prefix (queue_of id (firstn k fs)) (queue_of id fs).
Proof.
  rewrite <- (firstn_skipn k fs) at 2. rewrite queue_of_app. eexists. reflexivity.
Qed.


Lemma wf_mp_spec mp : wf_mp mp = true -> 0 < mp /\ mp < 4294967296.
Proof. unfold wf_mp. rewrite andb_true_iff, !N.ltb_lt. tauto. Qed.

Lemma enc_frames_wf mp id buf : wf_mp mp = true -> id < 4294967296 ->
  Forall wf_frame (enc_frames_mp mp id buf).
Proof.
  intros Hmp Hid. apply wf_mp_spec in Hmp. destruct Hmp as [H0 H1].
  destruct (enc_write_total mp id buf H0) as [_ [_ [Hall _]]].
  eapply Forall_impl; [|exact Hall]. intros f [Hf Hl]. unfold wf_frame. split; [subst id; exact Hid|eapply N.le_lt_trans; eassumption].
Qed.

Lemma trunk_frames_wf mp ws : wf_mp mp = true -> wf_writes ws = true ->
  Forall wf_frame (trunk_frames_mp mp ws).
Proof.
  intros Hmp Hws. unfold trunk_frames_mp. induction ws as [|w r IH]; cbn [flat_map]; [constructor|].
  cbn [wf_writes forallb] in Hws. apply andb_true_iff in Hws. destruct Hws as [Hw Hr].
  apply Forall_app. split; [|now apply IH]. apply enc_frames_wf; [assumption|now apply N.ltb_lt].
Qed.

Lemma filter_all {A} (p : A -> bool) l : (forall x, In x l -> p x = true) -> filter p l = l.
Proof. induction l as [|x r IH]; intros H; [reflexivity|]. cbn. rewrite (H x (or_introl eq_refl)). f_equal. apply IH. intros y Hy. apply H. now right. Qed.
Lemma filter_none {A} (p : A -> bool) l : (forall x, In x l -> p x = false) -> filter p l = [].
Proof. induction l as [|x r IH]; intros H; [reflexivity|]. cbn. rewrite (H x (or_introl eq_refl)). apply IH. intros y Hy. apply H. now right. Qed.

Lemma queue_of_enc_frames mp id id' buf : 0 < mp ->
  queue_of id (enc_frames_mp mp id' buf) = if id' =? id then map snd (enc_frames_mp mp id buf) else [].
Proof.
  intros H0. destruct (enc_write_total mp id' buf H0) as [_ [_ [Hall _]]].
  rewrite Forall_forall in Hall.
  unfold queue_of. destruct (N.eqb_spec id' id) as [->|Hne].
  - f_equal. apply filter_all. intros f Hf. destruct (Hall f Hf) as [Hi _]. apply N.eqb_eq. exact Hi.
  - rewrite filter_none; [reflexivity|]. intros f Hf. destruct (Hall f Hf) as [Hi _].
    apply N.eqb_neq. intros He. apply Hne. rewrite <- Hi. exact He.
Qed.

Lemma queue_of_trunk mp id ws : 0 < mp ->
  queue_of id (trunk_frames_mp mp ws) = written_frames_mp mp id ws.
Proof.
  intros H0. unfold trunk_frames_mp, written_frames_mp. induction ws as [|w r IH]; [reflexivity|].
  cbn [flat_map]. rewrite queue_of_app, IH, queue_of_enc_frames by assumption. reflexivity.
Qed.

Lemma concat_written mp id ws : 0 < mp -> concat (written_frames_mp mp id ws) = written_bytes id ws.
Proof.
  intros H0. unfold written_frames_mp, written_bytes. induction ws as [|w r IH]; [reflexivity|].
  cbn [flat_map]. rewrite concat_app, IH. f_equal. destruct (fst w =? id); [|reflexivity].
  destruct (enc_write_total mp id (snd w) H0) as [_ [Hc _]]. exact Hc.
Qed.

(* ---- C10, functional form ---- *)
Theorem roundtrip_frames mp opened ws id :
  wf_mp mp = true -> wf_writes ws = true -> memN id opened = true ->
  dec opened (trunk_mp mp ws) id = written_frames_mp mp id ws.
Proof.
  intros Hmp Hws Hop. unfold dec, trunk_mp. rewrite Hop.
  rewrite dec_frames_full by (apply trunk_frames_wf; assumption).
  apply queue_of_trunk. now apply wf_mp_spec in Hmp.
Qed.

Theorem roundtrip_bytes mp opened ws id :
  wf_mp mp = true -> wf_writes ws = true -> memN id opened = true ->
  concat (dec opened (trunk_mp mp ws) id) = written_bytes id ws.
Proof.
  intros Hmp Hws Hop. rewrite roundtrip_frames by assumption. apply concat_written.
  now apply wf_mp_spec in Hmp.
Qed.

Lemma written_frames_filter mp id ws :
  written_frames_mp mp id ws = written_frames_mp mp id (filter (fun w => fst w =? id) ws).
Proof.
  unfold written_frames_mp. induction ws as [|w r IH]; [reflexivity|]. cbn [flat_map filter].
  destruct (fst w =? id) eqn:E; cbn [flat_map app]; [rewrite E|]; now rewrite IH.
Qed.

Theorem isolation mp opened ws ws' id :
  wf_mp mp = true -> wf_writes ws = true -> wf_writes ws' = true ->
  filter (fun w => fst w =? id) ws = filter (fun w => fst w =? id) ws' ->
  dec opened (trunk_mp mp ws) id = dec opened (trunk_mp mp ws') id.
Proof.
  intros Hmp H1 H2 Hf. unfold dec. destruct (memN id opened) eqn:Hop; [|reflexivity].
  pose proof (roundtrip_frames mp opened ws id Hmp H1 Hop) as Ha.
  pose proof (roundtrip_frames mp opened ws' id Hmp H2 Hop) as Hb.
  unfold dec in Ha, Hb. rewrite Hop in Ha, Hb. rewrite Ha, Hb.
  rewrite (written_frames_filter mp id ws), (written_frames_filter mp id ws'). now rewrite Hf.
Qed.

(* ---- C11, functional form: any cut ---- *)
Theorem prefix_under_truncation mp opened ws n id :
  wf_mp mp = true -> wf_writes ws = true ->
  prefix (dec opened (firstn n (trunk_mp mp ws)) id) (written_frames_mp mp id ws).
Proof.
  intros Hmp Hws. unfold dec. destruct (memN id opened); [|exists (written_frames_mp mp id ws); reflexivity].
  destruct (dec_frames_prefix (trunk_frames_mp mp ws) n (trunk_frames_wf mp ws Hmp Hws)) as [k Hk].
  unfold trunk_mp. rewrite Hk. rewrite <- queue_of_trunk by (now apply wf_mp_spec in Hmp).
  apply queue_of_prefix.
Qed.

(* ------------------------------------------------------------------ *)


(* ---------- connection tables ---------- *)
Definition keeps_id (g : conn_st -> conn_st) : Prop := forall c, c_id (g c) = c_id c.

Lemma upd_conn_ids id g cs : keeps_id g -> map c_id (upd_conn id g cs) = map c_id cs.
Proof.
  intros Hg. unfold upd_conn. rewrite map_map. apply map_ext. intros c.
  destruct (c_id c =? id); [apply Hg|reflexivity].
Qed.

Lemma find_conn_upd i id g cs : keeps_id g ->
  find_conn i (upd_conn id g cs) = option_map (fun c => if c_id c =? id then g c else c) (find_conn i cs).
Proof.
  intros Hg. unfold find_conn, upd_conn. induction cs as [|c r IH]; [reflexivity|].
  cbn [map find]. assert (He : c_id (if c_id c =? id then g c else c) = c_id c).
  { destruct (c_id c =? id); [apply Hg|reflexivity]. }
  rewrite He. destruct (c_id c =? i); [reflexivity|exact IH].
Qed.

Lemma find_conn_map i (g : conn_st -> conn_st) cs : keeps_id g ->
  find_conn i (map g cs) = option_map g (find_conn i cs).
Proof.
  intros Hg. unfold find_conn. induction cs as [|c r IH]; [reflexivity|].
  cbn [map find]. rewrite Hg. destruct (c_id c =? i); [reflexivity|exact IH].
Qed.

Lemma find_conn_In i cs c : find_conn i cs = Some c -> In c cs /\ c_id c = i.
Proof. unfold find_conn. intros H. apply find_some in H. rewrite N.eqb_eq in H. exact H. Qed.

Lemma nodup_conn cs c1 c2 : NoDup (map c_id cs) -> In c1 cs -> In c2 cs -> c_id c1 = c_id c2 -> c1 = c2.
Proof.
  induction cs as [|c r IH]; intros Hnd H1 H2 He; [contradiction|].
  cbn [map] in Hnd. inversion Hnd as [|? ? Hnotin Hnd']; subst.
  destruct H1 as [->|H1], H2 as [->|H2]; auto.
  - exfalso. apply Hnotin. rewrite He. now apply in_map.
  - exfalso. apply Hnotin. rewrite <- He. now apply in_map.
Qed.

Lemma In_upd_conn id g cs c' : In c' (upd_conn id g cs) ->
  exists c, In c cs /\ c' = (if c_id c =? id then g c else c).
Proof. unfold upd_conn. intros H. apply in_map_iff in H. destruct H as [c [<- Hc]]. eauto. Qed.

Lemma keeps_push p : keeps_id (c_push p). Proof. intros c; reflexivity. Qed.
Lemma keeps_setq q : keeps_id (c_set_queue q). Proof. intros c; reflexivity. Qed.
Lemma keeps_unmap : keeps_id c_unmap. Proof. intros c; reflexivity. Qed.
Lemma keeps_fresh b : keeps_id (c_fresh b). Proof. intros c; reflexivity. Qed.
Lemma keeps_drop : keeps_id c_drop. Proof. intros c; reflexivity. Qed.
Lemma keeps_closemapped : keeps_id (fun c => if c_mapped c then c_close c else c).
Proof. intros c. destruct (c_mapped c); reflexivity. Qed.

(* ---------- the invariant ---------- *)
(* the data clauses are about connections that exist from the start (c_late = false): a connection
   opened later has missed the frames that arrived for its id before (dropped by design, I5) *)
Definition conn_ok (done : list frame) (rcv : list (list N)) (rd : bool) (c : conn_st) : Prop :=
  (c_late c = false -> exists more, queue_of (c_id c) done = rcv ++ c_queue c ++ more) /\
  (c_late c = false -> rd = false -> c_mapped c = true -> queue_of (c_id c) done = rcv ++ c_queue c) /\
  (c_mapped c = false -> c_closed c = true).

Record Inv (all : list frame) (full : bool) (s : mux_st) (tr : list (event * result)) : Prop := {
  inv_nodup : NoDup (map c_id (m_conns s));
  inv_done_err : m_reader_done s = true -> m_err s <> None;
  inv_noconn : forall id, find_conn id (m_conns s) = None -> received id tr = [];
  inv_closed : m_closed s = true -> forall c, In c (m_conns s) -> c_closed c = true;
  inv_data : exists done rest m, all = done ++ rest /\ m_rx s = firstn m (frames_bytes rest) /\
       (full = true -> (length (frames_bytes rest) <= m)%nat) /\
       forall c, In c (m_conns s) -> conn_ok done (received (c_id c) tr) (m_reader_done s) c }.

Lemma received_app id a b : received id (a ++ b) = received id a ++ received id b.
Proof. unfold received. apply flat_map_app. Qed.


(* the trace grows by an entry that delivers nothing *)
Lemma Inv_trace all full s tr e o : (forall id, received id [(e, o)] = []) ->
  Inv all full s tr -> Inv all full s (tr ++ [(e, o)]).
Proof.
  intros Hr [H1 H2 H3 H4 H5]. constructor; auto.
  - intros id Hid. rewrite received_app, Hr, app_nil_r. auto.
  - destruct H5 as (done&rest&m&Ha&Hb&Hc&Hd). exists done, rest, m.
    split; [exact Ha|]. split; [exact Hb|]. split; [exact Hc|].
    intros c Hin. rewrite received_app, Hr, app_nil_r. auto.
Qed.

(* the invariant sees the trace only through [received] *)
Lemma Inv_received_ext all full s tr1 tr2 : (forall id, received id tr1 = received id tr2) ->
  Inv all full s tr1 -> Inv all full s tr2.
Proof.
  intros Hr [H1 H2 H3 H4 H5]. constructor; auto.
  - intros id Hid. rewrite <- Hr. auto.
  - destruct H5 as (done&rest&m&Ha&Hb&Hc&Hd). exists done, rest, m.
    split; [exact Ha|]. split; [exact Hb|]. split; [exact Hc|].
    intros c Hin. rewrite <- Hr. auto.
Qed.

Lemma Inv_latch all full s tr e : Inv all full s tr -> Inv all full (latch e s) tr.
Proof.
  intros [H1 H2 H3 H4 H5]. unfold latch. destruct (m_err s) eqn:E.
  - constructor; auto. intros _. rewrite E. discriminate.
  - constructor; cbn; auto. discriminate.
Qed.

Lemma Inv_set_tx all full s tr v b : Inv all full s tr -> Inv all full (set_tx v b s) tr.
Proof. intros [H1 H2 H3 H4 H5]. constructor; cbn; auto. Qed.
Lemma Inv_set_blocked all full s tr v : Inv all full s tr -> Inv all full (set_blocked v s) tr.
Proof. intros [H1 H2 H3 H4 H5]. constructor; cbn; auto. Qed.

Lemma Inv_reader_done all full s tr : m_err s <> None -> Inv all full s tr -> Inv all full (set_reader_done true s) tr.
Proof.
  intros He [H1 H2 H3 H4 H5]. constructor; cbn; auto.
  destruct H5 as (done&rest&m&Ha&Hb&Hc&Hd). exists done, rest, m.
  split; [exact Ha|]. split; [exact Hb|]. split; [exact Hc|].
  intros c Hin. destruct (Hd c Hin) as [Hx [Hy Hz]]. split; [exact Hx|]. split; [intros _; discriminate|exact Hz].
Qed.

Lemma Inv_do_close all full s tr : Inv all full s tr -> Inv all full (do_close s) tr.
Proof.
  intros [H1 H2 H3 H4 H5]. unfold do_close. destruct (m_closed s) eqn:Ec; [constructor; auto|].
  constructor; cbn [m_conns m_err m_closed m_reader_done m_rx set_closed set_conns].
  - rewrite map_map. erewrite map_ext; [exact H1|]. intros c. apply keeps_closemapped.
  - exact H2.
  - intros id Hid. apply H3. rewrite find_conn_map in Hid by apply keeps_closemapped.
    destruct (find_conn id (m_conns s)); [discriminate|reflexivity].
  - intros _ c Hc. apply in_map_iff in Hc. destruct Hc as [c0 [<- Hc0]].
    destruct H5 as (done&rest&m&Ha&Hb&Hc&Hd). destruct (Hd c0 Hc0) as [_ [_ Hu]].
    destruct (c_mapped c0) eqn:Em; [reflexivity|auto].
  - destruct H5 as (done&rest&m&Ha&Hb&Hc&Hd). exists done, rest, m.
    split; [exact Ha|]. split; [exact Hb|]. split; [exact Hc|].
    intros c Hin. apply in_map_iff in Hin. destruct Hin as [c0 [<- Hc0]]. pose proof (Hd c0 Hc0) as Hok.
    destruct (c_mapped c0) eqn:Em; [|exact Hok]. destruct Hok as [Hx [Hy Hz]].
    split; [exact Hx|]. split; [|reflexivity]. cbn. intros Hl Hrd _. apply Hy; [exact Hl|exact Hrd|exact Em].
Qed.

Lemma fail_reader_eq e s : fail_reader e s = do_close (set_reader_done true (latch e s)).
Proof. unfold fail_reader, do_close, latch. destruct s as [rx cs err cl rd q tx tb bl]; cbn. destruct err, cl; reflexivity. Qed.

Lemma latch_err e s : m_err (latch e s) <> None.
Proof. unfold latch. destruct (m_err s) eqn:E; cbn; congruence. Qed.

Lemma Inv_fail_reader all full s tr e : Inv all full s tr -> Inv all full (fail_reader e s) tr.
Proof.
  intros H. rewrite fail_reader_eq. apply Inv_do_close, Inv_reader_done; [apply latch_err|]. now apply Inv_latch.
Qed.

Lemma Inv_reader_fail all full s tr : Inv all full s tr -> Inv all full (reader_fail_step s) tr.
Proof.
  intros HI. unfold reader_fail_step. destruct (m_reader_done s); [exact HI|].
  destruct (m_closed s); [|now apply Inv_fail_reader].
  apply Inv_reader_done; [apply latch_err|now apply Inv_latch].
Qed.

Lemma Inv_conn_close all full s tr id : Inv all full s tr -> Inv all full (conn_close_step id s) tr.
Proof.
  intros [H1 H2 H3 H4 H5]. unfold conn_close_step. constructor; cbn [m_conns m_err m_closed m_reader_done m_rx set_conns].
  - rewrite upd_conn_ids by apply keeps_unmap. exact H1.
  - exact H2.
  - intros i Hi. apply H3. rewrite find_conn_upd in Hi by apply keeps_unmap.
    destruct (find_conn i (m_conns s)); [discriminate|reflexivity].
  - intros Hc c Hin. apply In_upd_conn in Hin. destruct Hin as [c0 [Hc0 ->]].
    destruct (c_id c0 =? id); [reflexivity|auto].
  - destruct H5 as (done&rest&m&Ha&Hb&Hc&Hd). exists done, rest, m.
    split; [exact Ha|]. split; [exact Hb|]. split; [exact Hc|].
    intros c Hin. apply In_upd_conn in Hin. destruct Hin as [c0 [Hc0 ->]]. pose proof (Hd c0 Hc0) as Hok.
    destruct (c_id c0 =? id); [|exact Hok]. destruct Hok as [Hx [Hy Hz]].
    split; [exact Hx|]. split; [|reflexivity]. cbn. intros _ _ Hf. discriminate.
Qed.

Lemma queue_of_snoc id done f :
  queue_of id (done ++ [f]) = queue_of id done ++ (if fst f =? id then [snd f] else []).
Proof. rewrite queue_of_app. unfold queue_of at 2. cbn. destruct (fst f =? id); reflexivity. Qed.

Lemma find_none {A} (p : A -> bool) l : find p l = None -> forall x, In x l -> p x = false.
Proof. intros H x Hx. apply (find_none _ _ H x Hx). Qed.

(* one reader iteration *)
Lemma Inv_reader all full s tr : Forall wf_frame all ->
  Inv all full s tr -> Inv all full (reader_step s) tr.
Proof.
  intros Hwf HI. unfold reader_step. destruct (m_blocked s); [exact HI|].
  destruct (m_reader_done s) eqn:Erd; [exact HI|].
  destruct (m_closed s) eqn:Ecl.
  { apply Inv_reader_done; [apply latch_err|now apply Inv_latch]. }
  destruct (parse_one (m_rx s)) as [f rest'| | | |] eqn:Ep; try (now apply Inv_fail_reader).
  destruct HI as [H1 H2 H3 H4 H5]. destruct H5 as (done&rest&m&Ha&Hb&Hc&Hd).
  assert (Hwfr : Forall wf_frame rest). { rewrite Ha in Hwf. apply Forall_app in Hwf. tauto. }
  rewrite Hb in Ep. destruct (parse_one_prefix rest m f rest' Hwfr Ep) as (rest0&Hr&Hm&Hrest').
  assert (Hall' : all = (done ++ [f]) ++ rest0). { rewrite <- app_assoc. cbn. now rewrite <- Hr. }
  assert (Hfull' : full = true -> (length (frames_bytes rest0) <= m - length (frame_bytes f))%nat).
  { intros Hf. specialize (Hc Hf). rewrite Hr, frames_bytes_cons, app_length in Hc. lia. }
  destruct (find (fun c => (c_id c =? fst f) && c_mapped c) (m_conns s)) as [c0|] eqn:Ef.
  - apply find_some in Ef. destruct Ef as [Hc0 Hp0]. apply andb_true_iff in Hp0. destruct Hp0 as [Hid0 Hmap0].
    apply N.eqb_eq in Hid0.
    destruct (lenN (c_queue c0) <? m_qlen s).
    + (* queued *)
      constructor; cbn [m_conns m_err m_closed m_reader_done m_rx set_conns set_rx].
      * rewrite upd_conn_ids by apply keeps_push. exact H1.
      * exact H2.
      * intros i Hi. apply H3. rewrite find_conn_upd in Hi by apply keeps_push.
        destruct (find_conn i (m_conns s)); [discriminate|reflexivity].
      * rewrite Ecl. discriminate.
      * exists (done ++ [f]), rest0, (m - length (frame_bytes f))%nat.
        split; [exact Hall'|]. split; [exact Hrest'|]. split; [exact Hfull'|].
        intros c Hin. apply In_upd_conn in Hin. destruct Hin as [c1 [Hc1 ->]]. destruct (Hd c1 Hc1) as [Hx [Hy Hz]].
        destruct (N.eqb_spec (c_id c1) (fst f)) as [He|Hne]; cbn [c_push c_id c_queue c_mapped c_closed].
        -- assert (c1 = c0) by (apply (nodup_conn (m_conns s)); auto; congruence). subst c1.
           assert (Hq : c_late c0 = false -> queue_of (c_id c0) (done ++ [f]) = received (c_id c0) tr ++ c_queue c0 ++ [snd f]).
           { intros Hl. rewrite queue_of_snoc, <- He, N.eqb_refl, (Hy Hl Erd Hmap0), app_assoc. reflexivity. }
           split; [intros Hl; exists []; rewrite app_nil_r; exact (Hq Hl)|]. split; [intros Hl _ _; exact (Hq Hl)|exact Hz].
        -- assert (Hq : queue_of (c_id c1) (done ++ [f]) = queue_of (c_id c1) done).
           { rewrite queue_of_snoc. destruct (N.eqb_spec (fst f) (c_id c1)); [congruence|]. now rewrite app_nil_r. }
           unfold conn_ok. rewrite Hq. split; [exact Hx|split; [exact Hy|exact Hz]].
    + (* overflow *)
      rewrite fail_reader_eq. apply Inv_do_close.
      assert (Herr : m_err (latch EErr (set_rx rest' s)) <> None) by apply latch_err.
      unfold latch in *. cbn [m_err set_rx] in *.
      constructor.
      * destruct (m_err s); exact H1.
      * intros _. destruct (m_err s); cbn in *; congruence.
      * destruct (m_err s); exact H3.
      * destruct (m_err s); cbn; rewrite Ecl; discriminate.
      * exists (done ++ [f]), rest0, (m - length (frame_bytes f))%nat.
        replace (m_rx (set_reader_done true (match m_err s with Some _ => set_rx rest' s | None => set_err (Some EErr) (set_rx rest' s) end))) with rest' by (destruct (m_err s); reflexivity).
        replace (m_conns (set_reader_done true (match m_err s with Some _ => set_rx rest' s | None => set_err (Some EErr) (set_rx rest' s) end))) with (m_conns s) by (destruct (m_err s); reflexivity).
        replace (m_reader_done (set_reader_done true (match m_err s with Some _ => set_rx rest' s | None => set_err (Some EErr) (set_rx rest' s) end))) with true by (destruct (m_err s); reflexivity).
        split; [exact Hall'|]. split; [exact Hrest'|]. split; [exact Hfull'|].
        intros c Hin. destruct (Hd c Hin) as [Hx [Hy Hz]]. split; [|split; [intros _; discriminate|exact Hz]].
        intros Hl. destruct (Hx Hl) as [more Hx']. rewrite queue_of_snoc, Hx'. eexists. rewrite <- !app_assoc. reflexivity.
  - (* unknown or unmapped id: dropped *)
    pose proof (find_none _ _ Ef) as Hnone.
    constructor; cbn [m_conns m_err m_closed m_reader_done m_rx set_rx]; auto.
    exists (done ++ [f]), rest0, (m - length (frame_bytes f))%nat.
    split; [exact Hall'|]. split; [exact Hrest'|]. split; [exact Hfull'|].
    intros c Hin. destruct (Hd c Hin) as [Hx [Hy Hz]]. split; [|split; [|exact Hz]].
    + intros Hl. destruct (Hx Hl) as [more Hx']. rewrite queue_of_snoc, Hx'. eexists. rewrite <- !app_assoc. reflexivity.
    + intros Hl Hrd Hmp. rewrite queue_of_snoc. specialize (Hnone c Hin). cbn in Hnone. rewrite Hmp, andb_true_r in Hnone.
      rewrite N.eqb_sym, Hnone, app_nil_r. auto.
Qed.

(* ------------------------------------------------------------------ *)


Lemma mux_error_latch s : fst (mux_error s) = latch EEOF s.
Proof. unfold mux_error, latch. destruct (m_err s); reflexivity. Qed.

Lemma received_read id i pk p : received id [(EvRead i pk, RData p)] = if i =? id then [p] else [].
Proof. unfold received. cbn. destruct (i =? id); reflexivity. Qed.

Lemma Inv_read all full s tr id pick s' o :
  read_step id pick s = (s', o) -> Inv all full s tr -> Inv all full s' (tr ++ [(EvRead id pick, o)]).
Proof.
  unfold read_step. intros Hstep HI.
  assert (Herr : forall e, Inv all full (fst (mux_error s)) (tr ++ [(EvRead id pick, RErr e)])).
  { intros e. rewrite mux_error_latch. apply Inv_trace; [intros i; reflexivity|]. now apply Inv_latch. }
  destruct (find_conn id (m_conns s)) as [c|] eqn:Ef.
  2:{ inversion Hstep; subst. apply Inv_trace; [intros i; reflexivity|exact HI]. }
  assert (Hpop : forall p q, c_queue c = p :: q ->
     Inv all full (set_conns (upd_conn id (c_set_queue q) (m_conns s)) s) (tr ++ [(EvRead id pick, RData p)])).
  { intros p q Hq. destruct HI as [H1 H2 H3 H4 H5]. apply find_conn_In in Ef. destruct Ef as [Hc Hcid].
    constructor; cbn [m_conns m_err m_closed m_reader_done m_rx set_conns].
    - rewrite upd_conn_ids by apply keeps_setq. exact H1.
    - exact H2.
    - intros i Hi. rewrite find_conn_upd in Hi by apply keeps_setq.
      destruct (find_conn i (m_conns s)) as [ci|] eqn:Ei; [discriminate|].
      rewrite received_app, (H3 i Ei), received_read. destruct (N.eqb_spec id i) as [<-|]; [|reflexivity].
      exfalso. unfold find_conn in Ei. apply (find_none _ _ Ei) in Hc. rewrite Hcid, N.eqb_refl in Hc. discriminate.
    - intros Hcl c' Hin. apply In_upd_conn in Hin. destruct Hin as [c1 [Hc1 ->]].
      destruct (c_id c1 =? id); cbn; auto.
    - destruct H5 as (done&rest&m&Ha&Hb&Hc'&Hd). exists done, rest, m.
      split; [exact Ha|]. split; [exact Hb|]. split; [exact Hc'|].
      intros c' Hin. apply In_upd_conn in Hin. destruct Hin as [c1 [Hc1 ->]]. pose proof (Hd c1 Hc1) as Hok.
      destruct (N.eqb_spec (c_id c1) id) as [He|Hne].
      + assert (c1 = c) by (apply (nodup_conn (m_conns s)); auto; congruence). subst c1.
        destruct Hok as [Hx [Hy Hz]]. unfold conn_ok. cbn [c_set_queue c_id c_queue c_mapped c_closed c_late].
        rewrite received_app, received_read, Hcid, N.eqb_refl. rewrite Hcid in *. rewrite Hq in *.
        split; [intros Hl; destruct (Hx Hl) as [more Hx']; exists more; rewrite Hx', <- !app_assoc; reflexivity|]. split; [|exact Hz].
        intros Hl Hrd Hmp. rewrite (Hy Hl Hrd Hmp), <- !app_assoc. reflexivity.
      + rewrite received_app, received_read. destruct (N.eqb_spec id (c_id c1)); [congruence|].
        rewrite app_nil_r. exact Hok. }
  destruct (c_queue c) as [|p q] eqn:Eq.
  - destruct (c_closed c).
    + destruct (mux_error s) as [s1 e] eqn:Em. inversion Hstep; subst. exact (Herr e).
    + inversion Hstep; subst. apply Inv_trace; [intros i; reflexivity|exact HI].
  - destruct (c_closed c && negb pick).
    + destruct (mux_error s) as [s1 e] eqn:Em. inversion Hstep; subst. exact (Herr e).
    + inversion Hstep; subst. apply Hpop. reflexivity.
Qed.

Lemma Inv_write all full mp s tr id buf cut s' o :
  write_step mp id buf cut s = (s', o) -> Inv all full s tr -> Inv all full s' (tr ++ [(EvWrite id buf cut, o)]).
Proof.
  unfold write_step, write_step_pf. intros Hstep HI.
  assert (Ht : forall s0 o0, Inv all full s0 tr -> Inv all full s0 (tr ++ [(EvWrite id buf cut, o0)])).
  { intros s0 o0. apply Inv_trace. intros i. reflexivity. }
  destruct (find_conn id (m_conns s)); [|inversion Hstep; subst; auto].
  destruct (c_closed c); [inversion Hstep; subst; auto|].
  destruct (m_closed s || m_tx_broken s); [inversion Hstep; subst; auto|].
  destruct cut as [k|]; [|inversion Hstep; subst; apply Ht, Inv_set_tx, HI].
  destruct (lenN _ <=? k); [inversion Hstep; subst; apply Ht, Inv_set_tx, HI|].
  destruct (cut_fatal _ _ _); inversion Hstep; subst; apply Ht.
  - apply Inv_do_close, Inv_latch, Inv_set_tx, HI.
  - apply Inv_set_tx, HI.
Qed.

(* ---------- Read with an explicit buffer: the state moves as for Read ---------- *)
Lemma read_buf_fst id pk bl bc s : fst (read_buf_step id pk bl bc s) = fst (read_step id pk s).
Proof. unfold read_buf_step. destruct (read_step id pk s) as [s1 r]. destruct r; reflexivity. Qed.

Lemma read_buf_snd id pk bl bc s :
  snd (read_buf_step id pk bl bc s) =
  match snd (read_step id pk s) with RData p => RBuf p (deliver bl bc p) | r => r end.
Proof. unfold read_buf_step. destruct (read_step id pk s) as [s1 r]. destruct r; reflexivity. Qed.

Lemma read_step_not_buf id pk s p o : snd (read_step id pk s) <> RBuf p o.
Proof.
  unfold read_step. destruct (find_conn id (m_conns s)); [|discriminate].
  destruct (c_queue c); [destruct (c_closed c)|destruct (c_closed c && negb pk)]; try destruct (mux_error s); discriminate.
Qed.

Lemma received_readb id i pk bl bc s :
  received id [(EvReadB i pk bl bc, snd (read_buf_step i pk bl bc s))] = received id [(EvRead i pk, snd (read_step i pk s))].
Proof.
  rewrite read_buf_snd. destruct (snd (read_step i pk s)) eqn:E; try reflexivity.
  exfalso. eapply read_step_not_buf; eauto.
Qed.

Lemma Inv_readb all full s tr id pick bl bc s' o :
  read_buf_step id pick bl bc s = (s', o) -> Inv all full s tr -> Inv all full s' (tr ++ [(EvReadB id pick bl bc, o)]).
Proof.
  intros Hstep HI.
  assert (Hs : s' = fst (read_step id pick s)) by (rewrite <- (read_buf_fst id pick bl bc), Hstep; reflexivity).
  assert (Ho : o = snd (read_buf_step id pick bl bc s)) by (rewrite Hstep; reflexivity).
  subst s' o. apply (Inv_received_ext all full _ (tr ++ [(EvRead id pick, snd (read_step id pick s))])).
  - intros i. rewrite !received_app, received_readb. reflexivity.
  - eapply Inv_read; [|exact HI]. destruct (read_step id pick s); reflexivity.
Qed.

(* ---------- Open at any moment ---------- *)
Lemma find_conn_app i a b : find_conn i (a ++ b) = match find_conn i a with Some c => Some c | None => find_conn i b end.
Proof. unfold find_conn. induction a as [|c r IH]; [reflexivity|]. cbn [app find]. destruct (c_id c =? i); [reflexivity|exact IH]. Qed.

Lemma find_conn_None_notin i cs : find_conn i cs = None -> ~ In i (map c_id cs).
Proof.
  unfold find_conn. intros H Hin. apply in_map_iff in Hin. destruct Hin as [c [Hc Hin]].
  apply (find_none _ _ H) in Hin. rewrite Hc, N.eqb_refl in Hin. discriminate.
Qed.

Lemma NoDup_snoc {A} (l : list A) x : NoDup l -> ~ In x l -> NoDup (l ++ [x]).
Proof.
  intros Hnd Hx. induction Hnd as [|y r Hy Hr IH]; cbn; [constructor; [intros []|constructor]|].
  constructor.
  - intros Hin. apply in_app_or in Hin. destruct Hin as [Hin|[->|[]]]; [contradiction|]. apply Hx. now left.
  - apply IH. intros Hin. apply Hx. now right.
Qed.

Lemma Inv_open all full s tr id s' o :
  open_step true id s = (s', o) -> Inv all full s tr -> Inv all full s' (tr ++ [(EvOpen id, o)]).
Proof.
  unfold open_step. intros Hstep HI.
  assert (Ht : forall o0, Inv all full s (tr ++ [(EvOpen id, o0)])).
  { intros o0. apply Inv_trace; [intros i; reflexivity|exact HI]. }
  destruct (id =? reserved_conn_id); [inversion Hstep; subst; apply Ht|].
  destruct (find_conn id (m_conns s)) as [c|] eqn:Ef.
  { destruct (c_mapped c); inversion Hstep; subst; [apply Ht|]. clear Hstep Ht.
    (* re-Open of an id closed by conn.Close: a fresh object replaces the old one *)
    apply Inv_trace; [intros i; reflexivity|].
    destruct HI as [H1 H2 H3 H4 H5]. constructor; cbn [m_conns m_err m_closed m_reader_done m_rx set_conns].
    - rewrite upd_conn_ids by apply keeps_fresh. exact H1.
    - exact H2.
    - intros i Hi. apply H3. rewrite find_conn_upd in Hi by apply keeps_fresh.
      destruct (find_conn i (m_conns s)); [discriminate|reflexivity].
    - intros Hcl c' Hin. apply In_upd_conn in Hin. destruct Hin as [c1 [Hc1 ->]].
      destruct (c_id c1 =? id); [cbn; exact Hcl|auto].
    - destruct H5 as (done&rest&m&Ha&Hb&Hc&Hd). exists done, rest, m.
      split; [exact Ha|]. split; [exact Hb|]. split; [exact Hc|].
      intros c' Hin. apply In_upd_conn in Hin. destruct Hin as [c1 [Hc1 ->]].
      destruct (c_id c1 =? id); [|auto].
      unfold conn_ok. cbn [c_fresh c_late c_mapped]. split; [discriminate|]. split; discriminate. }
  inversion Hstep; subst. clear Hstep Ht. apply Inv_trace; [intros i; reflexivity|].
  destruct HI as [H1 H2 H3 H4 H5]. constructor; cbn [m_conns m_err m_closed m_reader_done m_rx set_conns].
  - rewrite map_app. cbn [map c_id]. apply NoDup_snoc; [exact H1|now apply find_conn_None_notin].
  - exact H2.
  - intros i Hi. apply H3. rewrite find_conn_app in Hi. destruct (find_conn i (m_conns s)); [discriminate|reflexivity].
  - intros Hcl c Hin. apply in_app_or in Hin. destruct Hin as [Hin|[<-|[]]]; [auto|]. cbn. exact Hcl.
  - destruct H5 as (done&rest&m&Ha&Hb&Hc&Hd). exists done, rest, m.
    split; [exact Ha|]. split; [exact Hb|]. split; [exact Hc|].
    intros c Hin. apply in_app_or in Hin. destruct Hin as [Hin|[<-|[]]]; [auto|].
    unfold conn_ok. cbn [c_late c_mapped]. split; [discriminate|]. split; discriminate.
Qed.

Lemma open_closes_ok : open_closes_on_closed = true.
Proof. reflexivity. Qed.

(* a repeated Close of a stale handle: with the identity test of conn.Close nothing happens *)
Lemma close_checks_ok : close_checks_identity = true.
Proof. reflexivity. Qed.
Lemma deadlines_ok : deadlines_are_stubs = true.
Proof. reflexivity. Qed.
Lemma deadline_noop id k s : fst (deadline_step true id k s) = s.
Proof. unfold deadline_step. destruct (find_conn id (m_conns s)); reflexivity. Qed.
Lemma reader_started_ok : reader_started_once = true.
Proof. reflexivity. Qed.
Lemma unblock_fields s :
  let s' := unblock_step true s in
  m_rx s' = m_rx s /\ m_conns s' = m_conns s /\ m_err s' = m_err s /\ m_closed s' = m_closed s /\
  m_reader_done s' = m_reader_done s /\ m_tx s' = m_tx s /\ m_tx_broken s' = m_tx_broken s.
Proof. unfold unblock_step. destruct (m_blocked s); cbn; tauto. Qed.
Lemma stale_close_noop id s : fst (stale_close_step true id s) = s.
Proof. unfold stale_close_step. destruct (find_conn id (m_conns s)); [destruct (0 <? c_gen c)|]; reflexivity. Qed.

Lemma Inv_step all full mp s tr e s' o : Forall wf_frame all ->
  step_mp mp s e = (s', o) -> Inv all full s tr -> Inv all full s' (tr ++ [(e, o)]).
Proof.
  intros Hwf Hstep HI. destruct e; cbn [step_mp] in Hstep.
  - inversion Hstep; subst. apply Inv_trace; [intros i; reflexivity|]. now apply Inv_reader.
  - eapply Inv_read; eauto.
  - eapply Inv_readb; eauto.
  - rewrite open_closes_ok in Hstep. eapply Inv_open; eauto.
  - rewrite close_checks_ok in Hstep. pose proof (stale_close_noop id s) as Hn. rewrite Hstep in Hn. cbn [fst] in Hn. subst s'.
    apply Inv_trace; [intros i; reflexivity|exact HI].
  - rewrite deadlines_ok in Hstep. pose proof (deadline_noop id k s) as Hn. rewrite Hstep in Hn. cbn [fst] in Hn. subst s'.
    apply Inv_trace; [intros i; reflexivity|exact HI].
  - inversion Hstep; subst. apply Inv_trace; [intros i; reflexivity|]. rewrite reader_started_ok. unfold unblock_step.
    destruct (m_blocked s); [now apply Inv_set_blocked|exact HI].
  - eapply Inv_write; eauto.
  - inversion Hstep; subst. apply Inv_trace; [intros i; reflexivity|]. now apply Inv_do_close.
  - inversion Hstep; subst. apply Inv_trace; [intros i; reflexivity|]. now apply Inv_conn_close.
  - inversion Hstep; subst. apply Inv_trace; [intros i; reflexivity|]. now apply Inv_set_tx.
  - inversion Hstep; subst. apply Inv_trace; [intros i; reflexivity|]. unfold trunk_up_step.
    destruct (m_closed s); [exact HI|now apply Inv_set_tx].
  - inversion Hstep; subst. apply Inv_trace; [intros i; reflexivity|]. now apply Inv_reader_fail.
Qed.

Lemma Inv_run all full mp : Forall wf_frame all -> forall evs s tr s' tr',
  run_mp mp s evs = (s', tr') -> Inv all full s tr -> Inv all full s' (tr ++ tr').
Proof.
  intros Hwf. induction evs as [|e r IH]; intros s tr s' tr' Hrun HI; cbn [run_mp] in Hrun.
  - inversion Hrun; subst. now rewrite app_nil_r.
  - destruct (step_mp mp s e) as [s1 o] eqn:Es. destruct (run_mp mp s1 r) as [s2 tr2] eqn:Er.
    inversion Hrun; subst. replace (tr ++ (e, o) :: tr2) with ((tr ++ [(e, o)]) ++ tr2) by (now rewrite <- app_assoc).
    eapply IH; [exact Er|]. eapply Inv_step; eauto.
Qed.


Lemma memN_In x l : memN x l = true <-> In x l.
Proof.
  unfold memN. rewrite existsb_exists. split.
  - intros [y [Hy He]]. apply N.eqb_eq in He. now subst.
  - intros H. exists x. split; [exact H|apply N.eqb_refl].
Qed.

Lemma nodupN_NoDup l : nodupN l = true -> NoDup l.
Proof.
  induction l as [|x r IH]; cbn; intros H; [constructor|].
  apply andb_true_iff in H. destruct H as [H1 H2]. constructor; [|now apply IH].
  intros Hin. apply memN_In in Hin. rewrite Hin in H1. discriminate.
Qed.

Lemma Inv_init all full m qlen opened :
  nodupN opened = true -> (full = true -> (length (frames_bytes all) <= m)%nat) ->
  Inv all full (init_mux (firstn m (frames_bytes all)) qlen opened) [].
Proof.
  intros Hnd Hfull. unfold init_mux. constructor; cbn [m_conns m_err m_closed m_reader_done m_rx].
  - rewrite map_map. cbn. rewrite map_id. now apply nodupN_NoDup.
  - discriminate.
  - reflexivity.
  - discriminate.
  - exists [], all, m. split; [reflexivity|]. split; [reflexivity|]. split; [exact Hfull|].
    intros c Hin. apply in_map_iff in Hin. destruct Hin as [i [<- Hi]]. unfold conn_ok. cbn.
    split; [intros _; exists []; reflexivity|]. split; [reflexivity|discriminate].
Qed.

(* ------------------------------------------------------------------ *)



Lemma queue_of_done_prefix id done rest : prefix (queue_of id done) (queue_of id (done ++ rest)).
Proof. rewrite queue_of_app. eexists; reflexivity. Qed.

Theorem prefix_all_schedules mp ws n qlen opened evs id s tr :
  wf_mp mp = true -> wf_writes ws = true -> nodupN opened = true ->
  run_mp mp (init_mux (firstn n (trunk_mp mp ws)) qlen opened) evs = (s, tr) ->
  late_opened id s = false ->
  prefix (received id tr ++ queue_in id s) (written_frames_mp mp id ws).
Proof.
  intros Hmp Hws Hnd Hrun Hlate.
  pose proof (trunk_frames_wf mp ws Hmp Hws) as Hwf.
  pose proof (Inv_run (trunk_frames_mp mp ws) false mp Hwf evs _ [] s tr Hrun
                (Inv_init _ false n qlen opened Hnd (fun H => False_ind _ (diff_false_true H)))) as HI.
  cbn [app] in HI. destruct HI as [H1 H2 H3 H4 H5]. unfold queue_in. unfold late_opened in Hlate.
  destruct (find_conn id (m_conns s)) as [c|] eqn:Ef.
  - apply find_conn_In in Ef. destruct Ef as [Hc Hid]. destruct H5 as (done&rest&m&Ha&Hb&Hc'&Hd).
    destruct (Hd c Hc) as [Hx0 _]. destruct (Hx0 Hlate) as [more Hx]. rewrite Hid in Hx.
    rewrite <- (queue_of_trunk mp id ws) by (now apply wf_mp_spec in Hmp). rewrite Ha.
    eapply prefix_trans; [|apply queue_of_done_prefix]. exists more. rewrite Hx, <- app_assoc. reflexivity.
  - rewrite (H3 id Ef). exists (written_frames_mp mp id ws). reflexivity.
Qed.

Lemma frames_bytes_nil fs : frames_bytes fs = [] -> fs = [].
Proof.
  destruct fs as [|f r]; [reflexivity|]. rewrite frames_bytes_cons. intros H.
  apply (f_equal (@length _)) in H. rewrite app_length, frame_bytes_length in H. discriminate.
Qed.

Theorem complete_when_keeping_up mp ws qlen opened evs id s tr :
  wf_mp mp = true -> wf_writes ws = true -> nodupN opened = true ->
  run_mp mp (init_mux (trunk_mp mp ws) qlen opened) evs = (s, tr) ->
  m_err s = None -> m_rx s = [] -> conn_open id s = true -> late_opened id s = false ->
  received id tr ++ queue_in id s = written_frames_mp mp id ws.
Proof.
  intros Hmp Hws Hnd Hrun Herr Hrx Hopen Hlate.
  pose proof (trunk_frames_wf mp ws Hmp Hws) as Hwf.
  rewrite <- (firstn_all (trunk_mp mp ws)) in Hrun. unfold trunk_mp in Hrun at 1.
  pose proof (Inv_run (trunk_frames_mp mp ws) true mp Hwf evs _ [] s tr Hrun
                (Inv_init _ true _ qlen opened Hnd (fun _ => le_n _))) as HI.
  cbn [app] in HI. destruct HI as [H1 H2 H3 H4 H5]. unfold queue_in, conn_open, late_opened in *.
  destruct (find_conn id (m_conns s)) as [c|] eqn:Ef; [|discriminate].
  apply find_conn_In in Ef. destruct Ef as [Hc Hid]. destruct H5 as (done&rest&m&Ha&Hb&Hc'&Hd).
  destruct (Hd c Hc) as [_ [Hy0 Hz]]. pose proof (Hy0 Hlate) as Hy. rewrite Hid in Hy.
  assert (Hrd : m_reader_done s = false).
  { destruct (m_reader_done s); [|reflexivity]. exfalso. now apply H2. }
  assert (Hmapped : c_mapped c = true).
  { destruct (c_mapped c); [reflexivity|]. rewrite Hz in Hopen by reflexivity. discriminate. }
  assert (Hrest : rest = []).
  { apply frames_bytes_nil. rewrite Hrx in Hb. specialize (Hc' eq_refl).
    rewrite firstn_all2 in Hb by exact Hc'. now symmetry. }
  rewrite <- (queue_of_trunk mp id ws) by (now apply wf_mp_spec in Hmp).
  rewrite Ha, Hrest, app_nil_r. symmetry. now apply Hy.
Qed.

(* ---------- the error latch ---------- *)
Lemma do_close_err s : m_err (do_close s) = m_err s.
Proof. unfold do_close. destruct (m_closed s); reflexivity. Qed.
Lemma latch_some e e0 s : m_err s = Some e0 -> latch e s = s.
Proof. unfold latch. now intros ->. Qed.

Lemma reader_step_err s e : m_err s = Some e -> m_err (reader_step s) = Some e.
Proof.
  intros H. unfold reader_step, fail_reader. destruct (m_blocked s); [exact H|].
  destruct (m_reader_done s); [exact H|]. destruct (m_closed s); [now rewrite (latch_some _ _ _ H)|].
  destruct (parse_one (m_rx s)); cbn [set_reader_done m_err]; rewrite ?do_close_err, ?(latch_some _ _ _ H); try exact H.
  destruct (find _ _); [|exact H]. destruct (_ <? _); [exact H|].
  cbn [set_reader_done m_err]. rewrite do_close_err. unfold latch. cbn [m_err set_rx]. now rewrite H.
Qed.

Lemma read_latched s e id pick : m_err s = Some e ->
  m_err (fst (read_step id pick s)) = Some e /\ (forall e', snd (read_step id pick s) = RErr e' -> e' = e).
Proof.
  intros H. unfold read_step, mux_error. rewrite H.
  destruct (find_conn id (m_conns s)); [|split; [exact H|discriminate]].
  destruct (c_queue c); [destruct (c_closed c)|destruct (c_closed c && negb pick)]; cbn [fst snd];
    (split; [exact H|]); intros e' He; congruence.
Qed.

Lemma open_step_fields closes id s :
  let s' := fst (open_step closes id s) in
  m_err s' = m_err s /\ m_closed s' = m_closed s /\ m_tx s' = m_tx s /\ m_tx_broken s' = m_tx_broken s /\
  m_reader_done s' = m_reader_done s /\ m_rx s' = m_rx s.
Proof.
  unfold open_step. destruct (id =? reserved_conn_id); [cbn; tauto|].
  destruct (find_conn id (m_conns s)); [destruct (c_mapped c); cbn; tauto|cbn; tauto].
Qed.

Lemma stale_step_id id s : fst (step_mp 0 s (EvStaleClose id)) = s.
Proof. cbn [step_mp]. rewrite close_checks_ok. apply stale_close_noop. Qed.

Theorem error_latched_step mp s e ev : m_err s = Some e ->
  m_err (fst (step_mp mp s ev)) = Some e /\
  (forall e', is_read ev = true -> snd (step_mp mp s ev) = RErr e' -> e' = e).
Proof.
  intros H. destruct ev; cbn [step_mp fst snd is_read].
  - split; [now apply reader_step_err|discriminate].
  - destruct (read_latched s e id pick H) as [H1 H2]. split; [exact H1|]. intros e' _. apply H2.
  - destruct (read_latched s e id pick H) as [H1 H2]. rewrite read_buf_fst, read_buf_snd. split; [exact H1|].
    intros e' _ He. apply H2. destruct (snd (read_step id pick s)); try discriminate; exact He.
  - destruct (open_step_fields open_closes_on_closed id s) as [-> _]. split; [exact H|discriminate].
  - rewrite close_checks_ok, stale_close_noop. split; [exact H|discriminate].
  - rewrite deadlines_ok, deadline_noop. split; [exact H|discriminate].
  - rewrite reader_started_ok. destruct (unblock_fields s) as (_&_&->&_). split; [exact H|discriminate].
  - split; [|discriminate]. unfold write_step, write_step_pf.
    destruct (find_conn id (m_conns s)); [|exact H]. destruct (c_closed c); [exact H|].
    destruct (m_closed s || m_tx_broken s); [exact H|]. destruct cut; [|exact H].
    destruct (_ <=? _); [exact H|]. destruct (cut_fatal _ _ _); [|exact H].
    cbn [fst]. rewrite do_close_err. unfold latch. cbn [m_err set_tx]. now rewrite H.
  - split; [|discriminate]. now rewrite do_close_err.
  - split; [exact H|discriminate].
  - split; [exact H|discriminate].
  - split; [|discriminate]. unfold trunk_up_step. destruct (m_closed s); exact H.
  - split; [|discriminate]. unfold reader_fail_step, fail_reader.
    destruct (m_reader_done s); [exact H|]. destruct (m_closed s); cbn [set_reader_done m_err];
      rewrite ?do_close_err, (latch_some _ _ _ H); exact H.
Qed.

Theorem error_latched_run mp : forall evs s e s' tr, m_err s = Some e -> run_mp mp s evs = (s', tr) ->
  m_err s' = Some e /\
  (forall ev e', In (ev, RErr e') tr -> is_read ev = true -> e' = e).
Proof.
  induction evs as [|ev r IH]; intros s e s' tr H Hrun; cbn [run_mp] in Hrun.
  - inversion Hrun; subst. split; [exact H|contradiction].
  - destruct (error_latched_step mp s e ev H) as [H1 H2].
    destruct (step_mp mp s ev) as [s1 o] eqn:Es. destruct (run_mp mp s1 r) as [s2 tr2] eqn:Er.
    inversion Hrun; subst. cbn [fst snd] in *. destruct (IH _ _ _ _ H1 Er) as [H3 H4].
    split; [exact H3|]. intros ev' e' [Heq|Hin] Hr.
    + inversion Heq; subst. eapply H2; [exact Hr|reflexivity].
    + eapply H4; eauto.
Qed.

(* ---------- after the mux is closed ---------- *)
Definition all_closed (s : mux_st) : Prop := forall c, In c (m_conns s) -> c_closed c = true.

Lemma step_closed mp s ev : m_closed s = true -> m_closed (fst (step_mp mp s ev)) = true.
Proof.
  intros H. destruct ev; cbn [step_mp fst].
  - unfold reader_step. destruct (m_blocked s); [exact H|]. destruct (m_reader_done s); [exact H|]. rewrite H. unfold latch. destruct (m_err s); exact H.
  - unfold read_step, mux_error. destruct (find_conn id (m_conns s)); [|exact H].
    destruct (c_queue c); [destruct (c_closed c)|destruct (c_closed c && negb pick)]; destruct (m_err s); exact H.
  - rewrite read_buf_fst. unfold read_step, mux_error. destruct (find_conn id (m_conns s)); [|exact H].
    destruct (c_queue c); [destruct (c_closed c)|destruct (c_closed c && negb pick)]; destruct (m_err s); exact H.
  - destruct (open_step_fields open_closes_on_closed id s) as [_ [-> _]]. exact H.
  - rewrite close_checks_ok, stale_close_noop. exact H.
  - rewrite deadlines_ok, deadline_noop. exact H.
  - rewrite reader_started_ok. destruct (unblock_fields s) as (_&_&_&->&_). exact H.
  - unfold write_step, write_step_pf. destruct (find_conn id (m_conns s)); [|exact H]. destruct (c_closed c); [exact H|].
    rewrite H. exact H.
  - unfold do_close. now rewrite H.
  - exact H.
  - exact H.
  - unfold trunk_up_step. now rewrite H.
  - unfold reader_fail_step. destruct (m_reader_done s); [exact H|]. rewrite H. unfold latch. destruct (m_err s); exact H.
Qed.

Theorem no_block_after_close mp ws n qlen opened evs s tr ev :
  wf_mp mp = true -> wf_writes ws = true -> nodupN opened = true ->
  run_mp mp (init_mux (firstn n (trunk_mp mp ws)) qlen opened) evs = (s, tr) ->
  m_closed s = true ->
  match ev, snd (step_mp mp s ev) with
  | EvRead _ _, RBlock => False
  | EvReadB _ _ _ _, RBlock => False
  | EvWrite _ _ _, ROk => False
  | EvWrite _ _ _, RBlock => False
  | _, _ => True
  end.
Proof.
  intros Hmp Hws Hnd Hrun Hcl.
  pose proof (trunk_frames_wf mp ws Hmp Hws) as Hwf.
  pose proof (Inv_run (trunk_frames_mp mp ws) false mp Hwf evs _ [] s tr Hrun
                (Inv_init _ false n qlen opened Hnd (fun H => False_ind _ (diff_false_true H)))) as HI.
  destruct HI as [_ _ _ H4 _]. specialize (H4 Hcl).
  assert (Hrd : forall id pick, snd (read_step id pick s) <> RBlock).
  { intros id pick. unfold read_step. destruct (find_conn id (m_conns s)) as [c|] eqn:Ef; [|discriminate].
    apply find_conn_In in Ef. rewrite (H4 c (proj1 Ef)).
    destruct (c_queue c); [|destruct (true && negb pick)]; destruct (mux_error s); discriminate. }
  destruct ev; cbn [step_mp snd]; auto.
  - specialize (Hrd id pick). destruct (snd (read_step id pick s)); try exact I. now apply Hrd.
  - specialize (Hrd id pick). rewrite read_buf_snd. destruct (snd (read_step id pick s)); try exact I. now apply Hrd.
  - unfold write_step, write_step_pf. destruct (find_conn id (m_conns s)) as [c|] eqn:Ef; [|exact I].
    apply find_conn_In in Ef. rewrite (H4 c (proj1 Ef)). exact I.
Qed.

(* after close nothing new is queued: later reads drain a prefix of what was queued *)
Lemma queue_in_upd id i g s : keeps_id g ->
  queue_in id (set_conns (upd_conn i g (m_conns s)) s) =
  match find_conn id (m_conns s) with
  | Some c => c_queue (if c_id c =? i then g c else c)
  | None => []
  end.
Proof. intros Hg. unfold queue_in. cbn [m_conns set_conns]. rewrite find_conn_upd by exact Hg. destruct (find_conn id (m_conns s)); reflexivity. Qed.

Lemma drain_read s id id0 pick :
  queue_in id s = received id [(EvRead id0 pick, snd (read_step id0 pick s))] ++ queue_in id (fst (read_step id0 pick s)).
Proof.
  unfold read_step. destruct (find_conn id0 (m_conns s)) as [c|] eqn:Ef; [|reflexivity].
  assert (Herr : forall e, queue_in id s = received id [(EvRead id0 pick, RErr e)] ++ queue_in id (fst (mux_error s))).
  { intros e. unfold mux_error. destruct (m_err s); reflexivity. }
  destruct (c_queue c) as [|p q] eqn:Eq.
  + destruct (c_closed c); [|reflexivity]. specialize (Herr (snd (mux_error s))). destruct (mux_error s); exact Herr.
  + destruct (c_closed c && negb pick).
    * specialize (Herr (snd (mux_error s))). destruct (mux_error s); exact Herr.
    * cbn [fst snd]. rewrite received_read, queue_in_upd by apply keeps_setq. unfold queue_in.
      destruct (N.eqb_spec id0 id) as [->|Hne].
      -- rewrite Ef. apply find_conn_In in Ef. rewrite (proj2 Ef), N.eqb_refl, Eq. reflexivity.
      -- destruct (find_conn id (m_conns s)) as [c'|] eqn:Ef'; [|reflexivity].
         apply find_conn_In in Ef'. rewrite (proj2 Ef'). destruct (N.eqb_spec id id0); [congruence|reflexivity].
Qed.

Lemma drain_open closes s id id0 : id0 <> id ->
  queue_in id s = received id [(EvOpen id0, snd (open_step closes id0 s))] ++ queue_in id (fst (open_step closes id0 s)).
Proof.
  intros Hne. unfold open_step. destruct (id0 =? reserved_conn_id); [reflexivity|].
  destruct (find_conn id0 (m_conns s)) as [c|] eqn:Ef.
  { destruct (c_mapped c); [reflexivity|]. cbn [fst snd received flat_map app].
    rewrite queue_in_upd by apply keeps_fresh. unfold queue_in.
    destruct (find_conn id (m_conns s)) as [c'|] eqn:Ef'; [|reflexivity].
    apply find_conn_In in Ef'. rewrite (proj2 Ef'). destruct (N.eqb_spec id id0); [congruence|reflexivity]. }
  cbn [fst snd received flat_map app]. unfold queue_in. cbn [m_conns set_conns]. rewrite find_conn_app.
  destruct (find_conn id (m_conns s)) eqn:Ei; [reflexivity|].
  unfold find_conn. cbn [find c_id]. destruct (id0 =? id); reflexivity.
Qed.

Lemma drain_step mp s ev id : m_closed s = true -> ev <> EvOpen id ->
  queue_in id s = received id [(ev, snd (step_mp mp s ev))] ++ queue_in id (fst (step_mp mp s ev)).
Proof.
  intros H Hev. destruct ev; cbn [step_mp fst snd].
  - unfold reader_step. destruct (m_blocked s); [reflexivity|]. destruct (m_reader_done s); [reflexivity|]. rewrite H. unfold latch. destruct (m_err s); reflexivity.
  - apply drain_read.
  - rewrite read_buf_fst, received_readb. apply drain_read.
  - apply drain_open. congruence.
  - rewrite close_checks_ok, stale_close_noop. reflexivity.
  - rewrite deadlines_ok, deadline_noop. reflexivity.
  - rewrite reader_started_ok. unfold queue_in. destruct (unblock_fields s) as (_&->&_). reflexivity.
  - unfold write_step, write_step_pf. destruct (find_conn id0 (m_conns s)); [|reflexivity]. destruct (c_closed c); [reflexivity|].
    rewrite H. reflexivity.
  - unfold do_close. rewrite H. reflexivity.
  - unfold conn_close_step. rewrite queue_in_upd by apply keeps_unmap. unfold queue_in.
    destruct (find_conn id (m_conns s)); [|reflexivity]. destruct (c_id c =? id0); reflexivity.
  - reflexivity.
  - unfold trunk_up_step. rewrite H. reflexivity.
  - unfold reader_fail_step. destruct (m_reader_done s); [reflexivity|]. rewrite H. unfold latch. destruct (m_err s); reflexivity.
Qed.

Theorem drain_after_close mp id : forall evs s s' tr, m_closed s = true -> no_open_of id evs = true ->
  run_mp mp s evs = (s', tr) ->
  queue_in id s = received id tr ++ queue_in id s'.
Proof.
  induction evs as [|ev r IH]; intros s s' tr H Hno Hrun; cbn [run_mp] in Hrun.
  - inversion Hrun; subst. reflexivity.
  - cbn [no_open_of forallb] in Hno. apply andb_true_iff in Hno. destruct Hno as [Hev Hno].
    assert (Hne : ev <> EvOpen id).
    { intros ->. rewrite N.eqb_refl in Hev. discriminate. }
    pose proof (drain_step mp s ev id H Hne) as Hd. pose proof (step_closed mp s ev H) as Hc.
    destruct (step_mp mp s ev) as [s1 o] eqn:Es. destruct (run_mp mp s1 r) as [s2 tr2] eqn:Er.
    inversion Hrun; subst. cbn [fst snd] in *. rewrite Hd, (IH _ _ _ Hc Hno Er).
    change ((ev, o) :: tr2) with ([(ev, o)] ++ tr2). rewrite received_app, app_assoc. reflexivity.
Qed.

(* ---------- close is idempotent ---------- *)
Theorem close_idempotent s : do_close (do_close s) = do_close s.
Proof. unfold do_close. destruct (m_closed s) eqn:E; [now rewrite E|reflexivity]. Qed.

Lemma c_unmap_idem c : c_unmap (c_unmap c) = c_unmap c. Proof. reflexivity. Qed.

Theorem conn_close_idempotent id s : conn_close_step id (conn_close_step id s) = conn_close_step id s.
Proof.
  unfold conn_close_step, upd_conn. cbn [m_conns set_conns]. unfold set_conns. cbn. f_equal.
  rewrite map_map. apply map_ext. intros c. destruct (c_id c =? id) eqn:E; cbn; rewrite E; reflexivity.
Qed.


Theorem closers_equal_one_close mp : forall evs s, only_closes evs = true ->
  fst (run_mp mp (do_close s) evs) = do_close s /\
  Forall (fun eo => snd eo = ROk) (snd (run_mp mp (do_close s) evs)).
Proof.
  induction evs as [|ev r IH]; intros s H; cbn [run_mp].
  - split; [reflexivity|constructor].
  - destruct ev; try discriminate. cbn [step_mp]. rewrite close_idempotent.
    destruct (IH s H) as [H1 H2]. destruct (run_mp mp (do_close s) r) as [s2 tr2]. cbn [fst snd] in *.
    split; [exact H1|]. constructor; [reflexivity|exact H2].
Qed.

Theorem close_commutes id s : do_close (conn_close_step id s) = conn_close_step id (do_close s).
Proof.
  unfold do_close, conn_close_step. cbn [m_closed set_conns m_conns]. destruct (m_closed s); [reflexivity|].
  unfold set_closed, set_conns, upd_conn. cbn. f_equal. rewrite !map_map. apply map_ext. intros c.
  destruct (c_id c =? id) eqn:E; destruct (c_mapped c) eqn:Em; cbn; rewrite ?E, ?Em; reflexivity.
Qed.

(* ------------------------------------------------------------------ *)


(* ---------- what this end has put on the trunk ---------- *)

Lemma ok_writes_app a b : ok_writes (a ++ b) = ok_writes a ++ ok_writes b.
Proof. apply flat_map_app. Qed.

Lemma trunk_mp_app mp a b : trunk_mp mp (a ++ b) = trunk_mp mp a ++ trunk_mp mp b.
Proof. unfold trunk_mp, trunk_frames_mp. now rewrite flat_map_app, frames_bytes_app. Qed.
Lemma trunk_mp_one mp w : trunk_mp mp [w] = frames_bytes (enc_frames_mp mp (fst w) (snd w)).
Proof. unfold trunk_mp, trunk_frames_mp. cbn. now rewrite app_nil_r. Qed.

Definition TxInv (mp : N) (s : mux_st) (tr : list (event * result)) : Prop :=
  exists tl w, m_tx s = trunk_mp mp (ok_writes tr) ++ tl /\
               prefix tl (trunk_mp mp [w]) /\ (m_tx_broken s = false -> tl = []).

Lemma tx_do_close s : m_tx (do_close s) = m_tx s /\ m_tx_broken (do_close s) = m_tx_broken s.
Proof. unfold do_close. destruct (m_closed s); split; reflexivity. Qed.
Lemma tx_latch e s : m_tx (latch e s) = m_tx s /\ m_tx_broken (latch e s) = m_tx_broken s.
Proof. unfold latch. destruct (m_err s); split; reflexivity. Qed.
Lemma tx_fail_reader e s : m_tx (fail_reader e s) = m_tx s /\ m_tx_broken (fail_reader e s) = m_tx_broken s.
Proof.
  unfold fail_reader. cbn [m_tx m_tx_broken set_reader_done].
  destruct (tx_do_close (latch e s)) as [-> ->]. apply tx_latch.
Qed.
Lemma tx_reader s : m_tx (reader_step s) = m_tx s /\ m_tx_broken (reader_step s) = m_tx_broken s.
Proof.
  unfold reader_step. destruct (m_blocked s); [split; reflexivity|]. destruct (m_reader_done s); [split; reflexivity|].
  destruct (m_closed s); [cbn [m_tx m_tx_broken set_reader_done]; apply tx_latch|].
  destruct (parse_one (m_rx s)); try apply tx_fail_reader.
  destruct (find _ _); [|split; reflexivity]. destruct (_ <? _); [split; reflexivity|].
  destruct (tx_fail_reader EErr (set_rx rest s)) as [-> ->]. split; reflexivity.
Qed.
Lemma tx_read id pk s : m_tx (fst (read_step id pk s)) = m_tx s /\ m_tx_broken (fst (read_step id pk s)) = m_tx_broken s.
Proof.
  unfold read_step, mux_error. destruct (find_conn id (m_conns s)); [|split; reflexivity].
  destruct (c_queue c); [destruct (c_closed c)|destruct (c_closed c && negb pk)]; destruct (m_err s); split; reflexivity.
Qed.

Lemma TxInv_same mp s s' tr e o : m_tx s' = m_tx s -> m_tx_broken s' = m_tx_broken s ->
  ok_writes [(e, o)] = [] -> TxInv mp s tr -> TxInv mp s' (tr ++ [(e, o)]).
Proof.
  intros H1 H2 H3 (tl&w&Ha&Hb&Hc). exists tl, w. rewrite H1, H2, ok_writes_app, H3, app_nil_r. auto.
Qed.

Lemma TxInv_step mp s tr e s' o : e <> EvTrunkUp ->
  step_mp mp s e = (s', o) -> TxInv mp s tr -> TxInv mp s' (tr ++ [(e, o)]).
Proof.
  intros Hup Hstep HI. destruct e; cbn [step_mp] in Hstep.
  - inversion Hstep; subst. destruct (tx_reader s). (eapply TxInv_same; [ | | |exact HI]; auto).
  - pose proof (tx_read id pick s) as [H1 H2]. rewrite Hstep in H1, H2. (eapply TxInv_same; [ | | |exact HI]; auto).
  - pose proof (tx_read id pick s) as [H1 H2]. rewrite <- (read_buf_fst id pick blen bcap), Hstep in H1, H2.
    (eapply TxInv_same; [ | | |exact HI]; auto).
  - destruct (open_step_fields open_closes_on_closed id s) as (_&_&H1&H2&_). rewrite Hstep in H1, H2.
    (eapply TxInv_same; [ | | |exact HI]; auto).
  - rewrite close_checks_ok in Hstep. pose proof (stale_close_noop id s) as Hn. rewrite Hstep in Hn. cbn [fst] in Hn. subst s'.
    (eapply TxInv_same; [ | | |exact HI]; auto).
  - rewrite deadlines_ok in Hstep. pose proof (deadline_noop id k s) as Hn. rewrite Hstep in Hn. cbn [fst] in Hn. subst s'.
    (eapply TxInv_same; [ | | |exact HI]; auto).
  - inversion Hstep; subst. rewrite reader_started_ok. destruct (unblock_fields s) as (_&_&_&_&_&H1&H2).
    (eapply TxInv_same; [ | | |exact HI]; auto).
  - unfold write_step, write_step_pf in Hstep.
    destruct (find_conn id (m_conns s)); [|inversion Hstep; subst; (eapply TxInv_same; [ | | |exact HI]; auto)].
    destruct (c_closed c); [inversion Hstep; subst; (eapply TxInv_same; [ | | |exact HI]; auto)|].
    destruct (m_closed s || m_tx_broken s) eqn:Eb; [inversion Hstep; subst; (eapply TxInv_same; [ | | |exact HI]; auto)|].
    apply orb_false_iff in Eb. destruct Eb as [_ Eb].
    destruct HI as (tl&w&Ha&Hb&Hc). specialize (Hc Eb). subst tl. rewrite app_nil_r in Ha.
    assert (Hok : TxInv mp (set_tx (m_tx s ++ frames_bytes (enc_frames_mp mp id buf)) false s) (tr ++ [(EvWrite id buf cut, ROk)])).
    { exists [], (id, buf). cbn [m_tx m_tx_broken set_tx]. rewrite ok_writes_app, trunk_mp_app, Ha, app_nil_r.
      cbn [ok_writes flat_map app]. rewrite trunk_mp_one. cbn [fst snd].
      split; [reflexivity|]. split; [eexists; reflexivity|reflexivity]. }
    destruct cut as [k|]; [|inversion Hstep; subst; exact Hok].
    destruct (_ <=? k); [inversion Hstep; subst; exact Hok|].
    assert (Hcut : forall s1, m_tx s1 = m_tx s ++ fst (splitN k (frames_bytes (enc_frames_mp mp id buf))) ->
                   m_tx_broken s1 = true ->
                   TxInv mp s1 (tr ++ [(EvWrite id buf (Some k), RErr EErr)])).
    { intros s1 H1 H2. exists (fst (splitN k (frames_bytes (enc_frames_mp mp id buf)))), (id, buf).
      rewrite H1, H2, Ha, ok_writes_app. cbn [ok_writes flat_map]. rewrite !app_nil_r.
      split; [reflexivity|]. split; [|discriminate].
      rewrite trunk_mp_one, splitN_firstn_skipn. cbn [fst snd]. apply prefix_firstn. }
    destruct (cut_fatal _ _ _); inversion Hstep; subst; apply Hcut; try reflexivity.
    + destruct (tx_do_close (latch EErr (set_tx (m_tx s ++ fst (splitN k (frames_bytes (enc_frames_mp mp id buf)))) true s))) as [-> _].
      destruct (tx_latch EErr (set_tx (m_tx s ++ fst (splitN k (frames_bytes (enc_frames_mp mp id buf)))) true s)) as [-> _]. reflexivity.
    + destruct (tx_do_close (latch EErr (set_tx (m_tx s ++ fst (splitN k (frames_bytes (enc_frames_mp mp id buf)))) true s))) as [_ ->].
      destruct (tx_latch EErr (set_tx (m_tx s ++ fst (splitN k (frames_bytes (enc_frames_mp mp id buf)))) true s)) as [_ ->]. reflexivity.
  - inversion Hstep; subst. destruct (tx_do_close s). (eapply TxInv_same; [ | | |exact HI]; auto).
  - inversion Hstep; subst. (eapply TxInv_same; [ | | |exact HI]; auto).
  - inversion Hstep; subst. destruct HI as (tl&w&Ha&Hb&Hc). exists tl, w. cbn [m_tx m_tx_broken set_tx].
    rewrite ok_writes_app. cbn [ok_writes flat_map]. rewrite app_nil_r.
    split; [exact Ha|]. split; [exact Hb|discriminate].
  - congruence.
  - inversion Hstep; subst. assert (Ht : m_tx (reader_fail_step s) = m_tx s /\ m_tx_broken (reader_fail_step s) = m_tx_broken s).
    { unfold reader_fail_step. destruct (m_reader_done s); [split; reflexivity|].
      destruct (m_closed s); [cbn [m_tx m_tx_broken set_reader_done]; apply tx_latch|apply tx_fail_reader]. }
    destruct Ht. (eapply TxInv_same; [ | | |exact HI]; auto).
Qed.

Theorem tx_between mp : forall evs s tr s' tr', no_recovery evs = true ->
  TxInv mp s tr -> run_mp mp s evs = (s', tr') -> TxInv mp s' (tr ++ tr').
Proof.
  induction evs as [|e r IH]; intros s tr s' tr' Hno HI Hrun; cbn [run_mp] in Hrun.
  - inversion Hrun; subst. now rewrite app_nil_r.
  - cbn [no_recovery forallb] in Hno. apply andb_true_iff in Hno. destruct Hno as [He Hno].
    destruct (step_mp mp s e) as [s1 o] eqn:Es. destruct (run_mp mp s1 r) as [s2 tr2] eqn:Er.
    inversion Hrun; subst. replace (tr ++ (e, o) :: tr2) with ((tr ++ [(e, o)]) ++ tr2) by (now rewrite <- app_assoc).
    eapply IH; [exact Hno| |exact Er]. eapply TxInv_step; eauto. intros ->. discriminate.
Qed.

Theorem tx_prefix mp rx qlen opened evs s tr :
  no_recovery evs = true ->
  run_mp mp (init_mux rx qlen opened) evs = (s, tr) ->
  prefix (trunk_mp mp (ok_writes tr)) (m_tx s) /\
  (exists w, prefix (m_tx s) (trunk_mp mp (ok_writes tr ++ [w]))) /\
  (m_tx_broken s = false -> m_tx s = trunk_mp mp (ok_writes tr)).
Proof.
  intros Hno Hrun. assert (H0 : TxInv mp (init_mux rx qlen opened) []).
  { exists [], (0, []). cbn. split; [reflexivity|]. split; [eexists; reflexivity|reflexivity]. }
  destruct (tx_between mp evs _ [] s tr Hno H0 Hrun) as (tl&w&Ha&[c Hb]&Hc). cbn [app] in *.
  split; [exists tl; exact Ha|]. split.
  - exists w. rewrite trunk_mp_app, Ha, Hb. exists c. now rewrite app_assoc.
  - intros Hbr. rewrite Ha, (Hc Hbr), app_nil_r. reflexivity.
Qed.

(* ---------- orderly end of the peer's stream is an end-of-file ---------- *)
Theorem eof_after_orderly_end s :
  m_blocked s = false ->
  m_reader_done s = false -> m_closed s = false -> m_rx s = [] -> m_err s = None ->
  m_err (reader_step s) = Some EEOF /\ m_closed (reader_step s) = true.
Proof.
  intros H0 H1 H2 H3 H4. unfold reader_step, fail_reader, do_close, latch. rewrite H0, H1, H2, H3. cbn [parse_one].
  rewrite H4. cbn. rewrite H2. cbn. split; reflexivity.
Qed.

(* ---------- listener wrapper ---------- *)

Lemma lrun_state : forall evs l,
  l_pending (fst (lrun l evs)) = l_pending l && negb (existsb is_accept evs) /\
  l_closed (fst (lrun l evs)) = l_closed l || existsb is_close evs.
Proof.
  induction evs as [|e r IH]; intros l; cbn [lrun existsb].
  - cbn. now rewrite andb_true_r, orb_false_r.
  - destruct (lstep l e) as [l1 o] eqn:El. specialize (IH l1). destruct (lrun l1 r) as [l2 os]. cbn [fst] in *.
    destruct IH as [-> ->]. destruct e; cbn [lstep is_accept is_close] in *.
    + destruct (l_pending l) eqn:Ep.
      * inversion El; subst. cbn. split; reflexivity.
      * destruct (l_closed l) eqn:Ec; inversion El; subst; cbn; rewrite Ep, ?Ec; split; reflexivity.
    + destruct (l_closed l) eqn:Ec; inversion El; subst; cbn; rewrite ?Ec; cbn; split; reflexivity.
Qed.

Theorem listener_accept pre :
  snd (lstep (fst (lrun init_lst pre)) LAccept) =
  if negb (existsb is_accept pre) then LConn
  else if existsb is_close pre then LEof else LBlock.
Proof.
  destruct (lrun_state pre init_lst) as [Hp Hc]. cbn [lstep]. rewrite Hp, Hc. cbn.
  destruct (existsb is_accept pre); cbn; [|reflexivity]. destruct (existsb is_close pre); reflexivity.
Qed.

Theorem listener_close_idempotent l : fst (lstep (fst (lstep l LClose)) LClose) = fst (lstep l LClose).
Proof. cbn. destruct (l_closed l) eqn:E; cbn; [now rewrite E|reflexivity]. Qed.

Theorem listener_close_closes_conn pre :
  existsb is_close pre = true -> l_conn_closed (fst (lrun init_lst pre)) = true.
Proof.
  assert (H : forall evs l, (l_closed l = true -> l_conn_closed l = true) ->
            (l_closed (fst (lrun l evs)) = true -> l_conn_closed (fst (lrun l evs)) = true)).
  { induction evs as [|e r IH]; intros l Hl; cbn [lrun]; [exact Hl|].
    destruct (lstep l e) as [l1 o] eqn:El. specialize (IH l1). destruct (lrun l1 r) as [l2 os]. cbn [fst] in *.
    apply IH. destruct e; cbn [lstep] in El.
    - destruct (l_pending l); [|destruct (l_closed l) eqn:Ec]; inversion El; subst; cbn; auto; intros; congruence.
    - destruct (l_closed l) eqn:Ec; inversion El; subst; cbn; auto. }
  intros Hc. apply H; [discriminate|]. destruct (lrun_state pre init_lst) as [_ ->]. exact Hc.
Qed.

(* ------------------------------------------------------------------ *)
(* a reader that stops because of a cut, an error or an overflow has closed the mux *)
Lemma do_close_closed s : m_closed (do_close s) = true.
Proof. unfold do_close. destruct (m_closed s) eqn:E; [exact E|reflexivity]. Qed.

Theorem reader_failure_closes s :
  m_reader_done s = false -> m_reader_done (reader_step s) = true -> m_closed (reader_step s) = true.
Proof.
  intros Hrd. unfold reader_step. destruct (m_blocked s); [rewrite Hrd; discriminate|]. rewrite Hrd. destruct (m_closed s) eqn:Ec.
  - intros _. unfold latch. destruct (m_err s); exact Ec.
  - unfold fail_reader. destruct (parse_one (m_rx s)); cbn [m_reader_done m_closed set_reader_done];
      try (intros _; apply do_close_closed).
    destruct (find _ _); [|cbn; congruence]. destruct (_ <? _); [cbn; congruence|].
    cbn [m_reader_done m_closed set_reader_done]. intros _. apply do_close_closed.
Qed.

(* ---------- the code's constants (regenerated from mux.go on every run) ---------- *)
Lemma max_payload_ok : wf_mp max_payload_size = true.
Proof. reflexivity. Qed.

Lemma header_len_ok a b : header_len = lenN (be32 a ++ be32 b).
Proof. reflexivity. Qed.

Lemma reserved_below_lowest : reserved_conn_id < lowest_conn_id.
Proof. reflexivity. Qed.

Theorem be32_roundtrip v : v < 4294967296 ->
  match be32 v with [a; b; c; d] => u32 a b c d = v | _ => False end.
Proof. intros H. unfold be32. now apply u32_be32. Qed.

Theorem enc_write_ok id buf :
  enc_write id buf = Some (enc_frames id buf) /\ chunked max_payload_size id buf (enc_frames id buf).
Proof. apply enc_write_total. reflexivity. Qed.

Theorem enc_write_sizes_ok id buf :
  enc_write_sizes id (lenN buf) = option_map (map frame_size) (enc_write id buf).
Proof. apply enc_write_sizes_eq. Qed.

Theorem overflow_prefix ws qlen opened evs id s tr :
  wf_writes ws = true -> nodupN opened = true ->
  run (init_mux (trunk ws) qlen opened) evs = (s, tr) ->
  late_opened id s = false ->
  prefix (received id tr) (written_frames id ws).
Proof.
  intros Hws Hnd Hrun Hlate. rewrite <- (firstn_all (trunk ws)) in Hrun.
  destruct (prefix_all_schedules max_payload_size ws _ qlen opened evs id s tr max_payload_ok Hws Hnd Hrun Hlate) as [c Hc].
  exists (queue_in id s ++ c). unfold written_frames. rewrite Hc, <- app_assoc. reflexivity.
Qed.

(* ------------------------------------------------------------------ *)
(* ---------- Read and the caller's buffer ---------- *)
Lemma read_checks_len_ok : read_checks_len = true.
Proof. reflexivity. Qed.

(* with the guard on the LENGTH: the whole frame within the buffer, or ENOMEM exactly when it does not fit *)
Theorem read_within_buffer_len blen bcap msg :
  match deliver_by true blen bcap msg with
  | ROData n c => n = lenN msg /\ c = msg /\ n <= blen
  | RONoMem => blen < lenN msg
  end.
Proof.
  unfold deliver_by. destruct (blen <? lenN msg) eqn:E.
  - now apply N.ltb_lt.
  - apply N.ltb_ge in E. rewrite (splitN_short blen msg E). cbn [fst]. repeat split. exact E.
Qed.

Theorem read_within_buffer blen bcap msg :
  match deliver blen bcap msg with
  | ROData n c => n = lenN msg /\ c = msg /\ n <= blen
  | RONoMem => blen < lenN msg
  end.
Proof. unfold deliver. rewrite read_checks_len_ok. apply read_within_buffer_len. Qed.

(* with the guard on the CAPACITY the statement is false: a count above the buffer's length, bytes lost *)
Theorem read_guard_on_capacity_refuted :
  exists blen bcap msg, blen <= bcap /\
    match deliver_by false blen bcap msg with
    | ROData n c => blen < n /\ c <> msg
    | RONoMem => False
    end.
Proof. exists 1, 3, [7; 8]. split; [discriminate|]. cbn. split; [reflexivity|discriminate]. Qed.

Theorem read_buf_step_spec id pick blen bcap s :
  fst (read_buf_step id pick blen bcap s) = fst (read_step id pick s) /\
  match snd (read_buf_step id pick blen bcap s) with
  | RBuf p (ROData n c) => snd (read_step id pick s) = RData p /\ n = lenN p /\ c = p /\ n <= blen
  | RBuf p RONoMem => snd (read_step id pick s) = RData p /\ blen < lenN p
  | r => snd (read_step id pick s) = r
  end.
Proof.
  split; [apply read_buf_fst|]. rewrite read_buf_snd.
  destruct (snd (read_step id pick s)) eqn:E; try reflexivity.
  - pose proof (read_within_buffer blen bcap p) as H. destruct (deliver blen bcap p); [|split; [reflexivity|exact H]].
    destruct H as (H1&H2&H3). repeat split; assumption.
  - exfalso. eapply read_step_not_buf; eauto.
Qed.

Lemma delivered_app id a b : delivered id (a ++ b) = delivered id a ++ delivered id b.
Proof. unfold delivered. apply flat_map_app. Qed.

(* when no Read was handed too short a buffer, what the holder got is, byte for byte, the frames its Reads took *)
Theorem delivered_is_received mp id : forall evs s s' tr,
  run_mp mp s evs = (s', tr) -> no_enomem tr = true ->
  delivered id tr = concat (received id tr).
Proof.
  induction evs as [|ev r IH]; intros s s' tr Hrun Hne; cbn [run_mp] in Hrun.
  - inversion Hrun; subst. reflexivity.
  - destruct (step_mp mp s ev) as [s1 o] eqn:Es. destruct (run_mp mp s1 r) as [s2 tr2] eqn:Er.
    inversion Hrun; subst. cbn [no_enomem forallb snd] in Hne. apply andb_true_iff in Hne. destruct Hne as [Ho Hne].
    change ((ev, o) :: tr2) with ([(ev, o)] ++ tr2). rewrite delivered_app, received_app, concat_app, (IH _ _ _ Er Hne).
    f_equal. destruct ev; try reflexivity; cbn [step_mp] in Es.
    + destruct o; try reflexivity. cbn. destruct (id0 =? id); cbn; now rewrite ?app_nil_r.
    + pose proof (read_buf_step_spec id0 pick blen bcap s) as [_ Hs]. rewrite Es in Hs. cbn [snd] in Hs.
      destruct o; try reflexivity. destruct o; [|discriminate]. destruct Hs as (_&_&->&_).
      cbn. destruct (id0 =? id); cbn; now rewrite ?app_nil_r.
Qed.

(* ---------- Open after the Mux has closed ---------- *)
(* the id is not in mux.conns: never opened, or closed by conn.Close *)
Definition not_in_map (id : N) (s : mux_st) : Prop :=
  forall c, find_conn id (m_conns s) = Some c -> c_mapped c = false.

Theorem open_after_close_fails mp s id :
  m_closed s = true -> not_in_map id s -> id <> reserved_conn_id ->
  let s1 := fst (step_mp mp s (EvOpen id)) in
  snd (step_mp mp s (EvOpen id)) = ROk /\ m_closed s1 = true /\
  (forall pick, exists e, snd (step_mp mp s1 (EvRead id pick)) = RErr e /\ (forall e0, m_err s = Some e0 -> e = e0)) /\
  (forall pick bl bc, exists e, snd (step_mp mp s1 (EvReadB id pick bl bc)) = RErr e /\ (forall e0, m_err s = Some e0 -> e = e0)) /\
  (forall buf cut, snd (step_mp mp s1 (EvWrite id buf cut)) = RErr EEOF).
Proof.
  intros Hcl Hf Hid. cbn [step_mp]. rewrite open_closes_ok.
  assert (Hopen : exists s1 c', open_step true id s = (s1, ROk) /\ find_conn id (m_conns s1) = Some c' /\
                    c_queue c' = [] /\ c_closed c' = true /\ m_err s1 = m_err s /\ m_closed s1 = true).
  { unfold open_step. apply N.eqb_neq in Hid. rewrite Hid, Hcl. cbn [andb].
    destruct (find_conn id (m_conns s)) as [c|] eqn:Ef.
    - rewrite (Hf c Ef). eexists. exists (c_fresh true c). split; [reflexivity|]. cbn [m_conns set_conns m_err m_closed].
      rewrite find_conn_upd by apply keeps_fresh. rewrite Ef. cbn [option_map].
      apply find_conn_In in Ef. rewrite (proj2 Ef), N.eqb_refl. repeat split; auto.
    - eexists. exists (mkConn id [] true true true 0). split; [reflexivity|]. cbn [m_conns set_conns m_err m_closed].
      rewrite find_conn_app, Ef. unfold find_conn. cbn. rewrite N.eqb_refl. repeat split; auto. }
  destruct Hopen as (s1&c'&Ho&Hfind&Hq&Hc&He&Hcl1). rewrite Ho. cbn [fst snd].
  assert (Hrd : forall pick, exists e, snd (read_step id pick s1) = RErr e /\ (forall e0, m_err s = Some e0 -> e = e0)).
  { intros pick. unfold read_step. rewrite Hfind, Hq, Hc. unfold mux_error. rewrite He.
    destruct (m_err s) as [e|]; cbn [snd].
    - exists e. split; [reflexivity|]. intros e0 H0. now inversion H0.
    - exists EEOF. split; [reflexivity|discriminate]. }
  split; [reflexivity|]. split; [exact Hcl1|]. split; [exact Hrd|]. split.
  - intros pick bl bc. destruct (Hrd pick) as [e [He1 He2]]. exists e. split; [|exact He2].
    rewrite read_buf_snd, He1. reflexivity.
  - intros buf cut. unfold write_step, write_step_pf. rewrite Hfind, Hc. reflexivity.
Qed.

(* without the fix (Open does not look at doneC) the connection is open for ever: its Read blocks *)
Theorem open_after_close_refuted :
  let '(s, tr) := run_var false true true max_payload_size (init_mux [] 4 [1]) [EvClose; EvOpen 6; EvRead 6 true] in
  m_closed s = true /\ map snd tr = [ROk; ROk; RBlock].
Proof. cbn. split; reflexivity. Qed.

(* ---------- stale handles ---------- *)
Theorem stale_close_is_noop mp id s : fst (step_mp mp s (EvStaleClose id)) = s.
Proof. cbn [step_mp]. rewrite close_checks_ok. apply stale_close_noop. Qed.

(* conn.Close without the identity test (delete(mux.conns, id) unconditionally): open 1, close it, open 1 again,
   close the OLD handle once more — the replacement leaves the map, Mux.Close does not close it, its Read blocks;
   the sibling connection 2 is woken as it should *)
Theorem stale_close_unguarded_refuted :
  let '(s, tr) := run_var true false true max_payload_size (init_mux [] 4 [1; 2])
                    [EvConnClose 1; EvOpen 1; EvStaleClose 1; EvClose; EvRead 1 true; EvRead 2 true] in
  m_closed s = true /\ map snd tr = [ROk; ROk; ROk; ROk; RBlock; RErr EEOF].
Proof. cbn. split; reflexivity. Qed.

(* the machine of the theorems is the variant with the switches read from the source *)
Lemma step_var_is_step mp s e :
  step_var open_closes_on_closed close_checks_identity payload_failure_fatal_after_header mp s e = step_mp mp s e.
Proof. destruct e; reflexivity. Qed.

(* ---------- the configured queue length is the queue's capacity ---------- *)
Lemma queue_cap_ok : queue_cap_is_configured = true.
Proof. reflexivity. Qed.
Theorem queue_length_is_configured rx q opened : init_mux_cfg rx q opened = init_mux rx q opened.
Proof. unfold init_mux_cfg, eff_qlen. now rewrite queue_cap_ok. Qed.

(* ------------------------------------------------------------------ *)
(* ---------- frame synchronisation of what an end sends, transient trunk failures included ---------- *)
Lemma pf_ok : payload_failure_fatal_after_header = true.
Proof. reflexivity. Qed.

Lemma splitN_zero {A} (l : list A) : fst (splitN 0 l) = [].
Proof. destruct l; reflexivity. Qed.

Lemma splitN_app_l {A} n (a b : list A) : lenN a <= n ->
  fst (splitN n (a ++ b)) = a ++ fst (splitN (n - lenN a) b).
Proof.
  intros H. rewrite !splitN_firstn_skipn. cbn [fst]. unfold lenN in *.
  rewrite firstn_app, firstn_all2 by lia. f_equal. f_equal. lia.
Qed.

(* a failing Write that leaves the Mux open has put a whole number of its frames on the trunk *)
Lemma nonfatal_cut_whole_frames : forall fs k, cut_fatal true k fs = false ->
  exists j, fst (splitN k (frames_bytes fs)) = frames_bytes (firstn j fs).
Proof.
  induction fs as [|f r IH]; intros k H.
  - exists 0%nat. destruct k; reflexivity.
  - cbn [cut_fatal] in H. destruct (k <? 8) eqn:Ek.
    + apply negb_false_iff, N.eqb_eq in H. subst k. exists 0%nat. apply splitN_zero.
    + apply N.ltb_ge in Ek. destruct (lenN (snd f) <=? k - 8) eqn:El.
      * apply N.leb_le in El. destruct (IH _ H) as [j Hj]. exists (S j).
        assert (Hlen : lenN (frame_bytes f) = 8 + lenN (snd f)).
        { unfold lenN. rewrite frame_bytes_length. lia. }
        rewrite frames_bytes_cons, splitN_app_l by lia. cbn [firstn]. rewrite frames_bytes_cons. f_equal.
        rewrite Hlen. replace (k - (8 + lenN (snd f))) with (k - 8 - lenN (snd f)) by lia. exact Hj.
      * rewrite orb_true_r in H. discriminate.
Qed.

(* m_tx = whole frames, each a frame of some attempted Write; a partial tail only on a Mux that is closed and whose
   trunk is down for good *)
Definition Sync (mp : N) (s : mux_st) (tr : list (event * result)) : Prop :=
  exists fs tl, m_tx s = frames_bytes fs ++ tl /\
    (forall f, In f fs -> In f (attempted_frames mp tr)) /\
    (tl <> [] -> m_closed s = true /\ m_tx_broken s = true).

Lemma attempted_app mp a b : attempted_frames mp (a ++ b) = attempted_frames mp a ++ attempted_frames mp b.
Proof. apply flat_map_app. Qed.

Lemma reader_fail_tx s : m_tx (reader_fail_step s) = m_tx s /\ m_tx_broken (reader_fail_step s) = m_tx_broken s.
Proof.
  unfold reader_fail_step. destruct (m_reader_done s); [split; reflexivity|].
  destruct (m_closed s); [cbn [m_tx m_tx_broken set_reader_done]; apply tx_latch|apply tx_fail_reader].
Qed.

(* once the Mux is closed nothing more goes out and a broken trunk stays broken *)
Lemma closed_tx_frozen mp s ev : m_closed s = true ->
  m_tx (fst (step_mp mp s ev)) = m_tx s /\ (m_tx_broken s = true -> m_tx_broken (fst (step_mp mp s ev)) = true).
Proof.
  intros Hc. destruct ev; cbn [step_mp fst].
  - destruct (tx_reader s) as [-> ->]. auto.
  - destruct (tx_read id pick s) as [-> ->]. auto.
  - rewrite read_buf_fst. destruct (tx_read id pick s) as [-> ->]. auto.
  - destruct (open_step_fields open_closes_on_closed id s) as (_&_&->&->&_). auto.
  - rewrite close_checks_ok, stale_close_noop. auto.
  - rewrite deadlines_ok, deadline_noop. auto.
  - rewrite reader_started_ok. destruct (unblock_fields s) as (_&_&_&_&_&->&->). auto.
  - unfold write_step, write_step_pf. destruct (find_conn id (m_conns s)); [|auto]. destruct (c_closed c); [auto|].
    rewrite Hc. cbn [orb fst]. auto.
  - destruct (tx_do_close s) as [-> ->]. auto.
  - cbn. auto.
  - cbn. auto.
  - unfold trunk_up_step. rewrite Hc. auto.
  - destruct (reader_fail_tx s) as [-> ->]. auto.
Qed.

Lemma nonwrite_tx mp s ev : (forall id buf cut, ev <> EvWrite id buf cut) -> m_tx (fst (step_mp mp s ev)) = m_tx s.
Proof.
  intros Hw. destruct ev; cbn [step_mp fst].
  - apply tx_reader.
  - apply tx_read.
  - rewrite read_buf_fst. apply tx_read.
  - destruct (open_step_fields open_closes_on_closed id s) as (_&_&->&_). reflexivity.
  - now rewrite close_checks_ok, stale_close_noop.
  - now rewrite deadlines_ok, deadline_noop.
  - rewrite reader_started_ok. destruct (unblock_fields s) as (_&_&_&_&_&->&_). reflexivity.
  - exfalso. eapply Hw. reflexivity.
  - apply tx_do_close.
  - reflexivity.
  - reflexivity.
  - unfold trunk_up_step. destruct (m_closed s); reflexivity.
  - apply reader_fail_tx.
Qed.

Lemma Sync_step mp s tr e s' o : step_mp mp s e = (s', o) -> Sync mp s tr -> Sync mp s' (tr ++ [(e, o)]).
Proof.
  intros Hstep (fs&tl&Ha&Hb&Hc).
  assert (Hs' : s' = fst (step_mp mp s e)) by (now rewrite Hstep).
  assert (Hmono : forall f, In f fs -> In f (attempted_frames mp (tr ++ [(e, o)]))).
  { intros f Hf. rewrite attempted_app. apply in_or_app. left. auto. }
  destruct (m_closed s) eqn:Ecl.
  { (* closed: frozen *)
    destruct (closed_tx_frozen mp s e Ecl) as [Ht Hbr]. pose proof (step_closed mp s e Ecl) as Hcl'.
    rewrite <- Hs' in *. exists fs, tl. rewrite Ht. split; [exact Ha|]. split; [exact Hmono|].
    intros Hne. destruct (Hc Hne) as [_ Hbk]. split; [exact Hcl'|auto]. }
  assert (Htl : tl = []).
  { destruct tl as [|x r]; [reflexivity|]. destruct Hc as [Hx _]; [discriminate|discriminate]. }
  subst tl. rewrite app_nil_r in Ha.
  assert (Hsame : m_tx s' = m_tx s -> Sync mp s' (tr ++ [(e, o)])).
  { intros Ht. exists fs, []. rewrite Ht, app_nil_r. split; [exact Ha|]. split; [exact Hmono|]. intros Hne. now contradiction Hne. }
  destruct e; try (apply Hsame; rewrite Hs'; apply nonwrite_tx; intros; discriminate).
  clear Hs'. cbn [step_mp] in Hstep. unfold write_step, write_step_pf in Hstep.
  destruct (find_conn id (m_conns s)); [|inversion Hstep; subst; now apply Hsame].
  destruct (c_closed c); [inversion Hstep; subst; now apply Hsame|].
  destruct (m_closed s || m_tx_broken s); [inversion Hstep; subst; now apply Hsame|].
  assert (Hatt : forall f, In f (enc_frames_mp mp id buf) -> In f (attempted_frames mp (tr ++ [(EvWrite id buf cut, o)]))).
  { intros f Hf. rewrite attempted_app. apply in_or_app. right. cbn. now rewrite app_nil_r. }
  assert (Hok : forall b, Sync mp (set_tx (m_tx s ++ frames_bytes (enc_frames_mp mp id buf)) b s) (tr ++ [(EvWrite id buf cut, o)])).
  { intros b. exists (fs ++ enc_frames_mp mp id buf), []. cbn [m_tx set_tx]. rewrite frames_bytes_app, Ha, app_nil_r.
    split; [reflexivity|]. split; [|intros Hne; now contradiction Hne].
    intros f Hf. apply in_app_or in Hf. destruct Hf as [Hf|Hf]; [now apply Hmono|now apply Hatt]. }
  destruct cut as [k|]; [|inversion Hstep; subst; apply Hok].
  destruct (_ <=? k); [inversion Hstep; subst; apply Hok|].
  rewrite pf_ok in Hstep. destruct (cut_fatal true k (enc_frames_mp mp id buf)) eqn:Ef; inversion Hstep; subst.
  - (* the failure closes the Mux: a partial frame may be out, nothing follows it *)
    exists fs, (fst (splitN k (frames_bytes (enc_frames_mp mp id buf)))).
    destruct (tx_do_close (latch EErr (set_tx (m_tx s ++ fst (splitN k (frames_bytes (enc_frames_mp mp id buf)))) true s))) as [-> ->].
    destruct (tx_latch EErr (set_tx (m_tx s ++ fst (splitN k (frames_bytes (enc_frames_mp mp id buf)))) true s)) as [-> ->].
    cbn [m_tx m_tx_broken set_tx]. rewrite Ha. split; [reflexivity|]. split; [exact Hmono|].
    intros _. split; [apply do_close_closed|reflexivity].
  - (* the Mux stays open: whole frames only *)
    destruct (nonfatal_cut_whole_frames _ _ Ef) as [j Hj].
    exists (fs ++ firstn j (enc_frames_mp mp id buf)), []. cbn [m_tx set_tx]. rewrite frames_bytes_app, Ha, Hj, app_nil_r.
    split; [reflexivity|]. split; [|intros Hne; now contradiction Hne].
    intros f Hf. apply in_app_or in Hf. destruct Hf as [Hf|Hf]; [now apply Hmono|].
    apply Hatt. rewrite <- (firstn_skipn j (enc_frames_mp mp id buf)). apply in_or_app. now left.
Qed.

Theorem frame_sync mp rx qlen opened : forall evs s tr,
  run_mp mp (init_mux rx qlen opened) evs = (s, tr) -> Sync mp s tr.
Proof.
  assert (H : forall evs s0 tr0 s tr, Sync mp s0 tr0 -> run_mp mp s0 evs = (s, tr) -> Sync mp s (tr0 ++ tr)).
  { induction evs as [|e r IH]; intros s0 tr0 s tr HI Hrun; cbn [run_mp] in Hrun.
    - inversion Hrun; subst. now rewrite app_nil_r.
    - destruct (step_mp mp s0 e) as [s1 o] eqn:Es. destruct (run_mp mp s1 r) as [s2 tr2] eqn:Er.
      inversion Hrun; subst. replace (tr0 ++ (e, o) :: tr2) with ((tr0 ++ [(e, o)]) ++ tr2) by (now rewrite <- app_assoc).
      eapply IH; [|exact Er]. eapply Sync_step; eauto. }
  intros evs s tr Hrun. apply (H evs (init_mux rx qlen opened) [] s tr); [|exact Hrun].
  exists [], []. cbn. split; [reflexivity|]. split; [intros f []|intros Hne; now contradiction Hne].
Qed.

(* the code before 214cbc8 (payload error path guarded by n != 0 alone): the trunk takes the 8 header bytes of a
   Write to id 1, the payload write fails with n = 0, the trunk carries on (a write deadline expired), a Write to
   id 2 follows: the Mux is open, nothing is latched, and the receiver is handed three bytes of id 2's header on
   connection 1, nothing on connection 2 *)
Theorem frame_sync_refuted :
  let evs := [EvWrite 1 [5; 6; 7] (Some 8); EvTrunkUp; EvWrite 2 [9] None] in
  let '(s, tr) := run_var true true false max_payload_size (init_mux [] 4 [1; 2]) evs in
  m_closed s = false /\ m_tx_broken s = false /\ m_err s = None /\ map snd tr = [RErr EErr; ROk; ROk] /\
  m_tx s = [0;0;0;1; 0;0;0;3; 0;0;0;2; 0;0;0;1; 9] /\
  dec [1; 2] (m_tx s) 1 = [[0; 0; 0]] /\ dec [1; 2] (m_tx s) 2 = [] /\
  (* … while the machine of the theorems fails stop at that point *)
  let '(s', tr') := run_mp max_payload_size (init_mux [] 4 [1; 2]) evs in
  m_closed s' = true /\ m_err s' = Some EErr /\ map snd tr' = [RErr EErr; ROk; RErr EEOF] /\ m_tx s' = [0;0;0;1; 0;0;0;3].
Proof. vm_compute. repeat split. Qed.

(* ---------- deadlines on a logical connection ---------- *)
Theorem deadline_is_noop mp id k s : fst (step_mp mp s (EvDeadline id k)) = s.
Proof. cbn [step_mp]. rewrite deadlines_ok. apply deadline_noop. Qed.

Definition not_deadline (e : event) : bool := match e with EvDeadline _ _ => false | _ => true end.

(* a schedule with deadline operations anywhere and the same schedule without them: the same final state and,
   call for call, the same results — on every connection *)
Theorem deadlines_change_nothing mp : forall evs s,
  fst (run_mp mp s evs) = fst (run_mp mp s (filter not_deadline evs)) /\
  filter (fun eo => not_deadline (fst eo)) (snd (run_mp mp s evs)) = snd (run_mp mp s (filter not_deadline evs)).
Proof.
  induction evs as [|e r IH]; intros s; [split; reflexivity|].
  cbn [run_mp filter]. destruct (not_deadline e) eqn:Ed.
  - cbn [run_mp]. destruct (step_mp mp s e) as [s1 o]. specialize (IH s1).
    destruct (run_mp mp s1 r) as [s2 tr2]. destruct (run_mp mp s1 (filter not_deadline r)) as [s3 tr3].
    cbn [fst snd filter] in *. rewrite Ed. destruct IH as [-> ->]. split; reflexivity.
  - destruct e; try discriminate. pose proof (deadline_is_noop mp id k s) as Hn.
    destruct (step_mp mp s (EvDeadline id k)) as [s1 o]. cbn [fst] in Hn. subst s1. specialize (IH s).
    destruct (run_mp mp s r) as [s2 tr2]. cbn [fst snd filter not_deadline] in *. exact IH.
Qed.

Lemma received_strip id tr : received id (filter (fun eo => not_deadline (fst eo)) tr) = received id tr.
Proof.
  induction tr as [|[e o] r IH]; [reflexivity|]. cbn [filter fst]. destruct (not_deadline e) eqn:Ed.
  - change ((e, o) :: r) with ([(e, o)] ++ r). change ((e, o) :: filter (fun eo => not_deadline (fst eo)) r) with ([(e, o)] ++ filter (fun eo => not_deadline (fst eo)) r).
    now rewrite !received_app, IH.
  - destruct e; try discriminate. change ((EvDeadline id0 k, o) :: r) with ([(EvDeadline id0 k, o)] ++ r).
    rewrite received_app. cbn. exact IH.
Qed.

Theorem deadlines_delivery_unaffected mp evs s id :
  received id (snd (run_mp mp s evs)) = received id (snd (run_mp mp s (filter not_deadline evs))) /\
  queue_in id (fst (run_mp mp s evs)) = queue_in id (fst (run_mp mp s (filter not_deadline evs))).
Proof.
  destruct (deadlines_change_nothing mp evs s) as [H1 H2]. rewrite <- H2, received_strip, H1. split; reflexivity.
Qed.

(* the variant that forwards the deadline to the shared trunk: a read deadline armed on connection 1 expires, the
   reader fails, the Mux closes, and the frame that the peer wrote to connection 2 is never delivered *)
Theorem deadline_forwarded_refuted :
  let evs := [EvDeadline 1 DRead; EvReader; EvRead 2 true] in
  let '(s, tr) := run_var4 true true true false max_payload_size (init_mux (trunk [(2, [7; 8])]) 4 [1; 2]) evs in
  m_closed s = true /\ map snd tr = [ROk; ROk; RErr EErr] /\
  let '(s', tr') := run (init_mux (trunk [(2, [7; 8])]) 4 [1; 2]) evs in
  m_closed s' = false /\ map snd tr' = [ROk; ROk; RData [7; 8]].
Proof. vm_compute. repeat split. Qed.

(* ---------- Unblock ---------- *)
Theorem unblock_noop_when_unblocked mp s : m_blocked s = false -> fst (step_mp mp s EvUnblock) = s.
Proof. intros H. cbn [step_mp fst]. unfold unblock_step. rewrite H, reader_started_ok. reflexivity. Qed.

Theorem unblock_idempotent mp s :
  fst (step_mp mp (fst (step_mp mp s EvUnblock)) EvUnblock) = fst (step_mp mp s EvUnblock).
Proof.
  apply unblock_noop_when_unblocked. cbn [step_mp fst]. unfold unblock_step. rewrite reader_started_ok.
  destruct (m_blocked s) eqn:E; [reflexivity|exact E].
Qed.

Lemma latch_blocked e s : m_blocked (latch e s) = m_blocked s.
Proof. unfold latch. destruct (m_err s); reflexivity. Qed.
Lemma do_close_blocked s : m_blocked (do_close s) = m_blocked s.
Proof. unfold do_close. destruct (m_closed s); reflexivity. Qed.
Lemma fail_reader_blocked e s : m_blocked (fail_reader e s) = m_blocked s.
Proof. unfold fail_reader. cbn [m_blocked set_reader_done]. now rewrite do_close_blocked, latch_blocked. Qed.
Lemma read_blocked id pk s : m_blocked (fst (read_step id pk s)) = m_blocked s.
Proof.
  unfold read_step, mux_error. destruct (find_conn id (m_conns s)); [|reflexivity].
  destruct (c_queue c); [destruct (c_closed c)|destruct (c_closed c && negb pk)]; destruct (m_err s); reflexivity.
Qed.

(* only Unblock touches the flag *)
Lemma step_blocked mp s e : m_blocked (fst (step_mp mp s e)) = match e with EvUnblock => false | _ => m_blocked s end.
Proof.
  destruct e; cbn [step_mp fst].
  - unfold reader_step. destruct (m_blocked s) eqn:E; [exact E|]. destruct (m_reader_done s); [exact E|].
    destruct (m_closed s); [cbn [m_blocked set_reader_done]; now rewrite latch_blocked|].
    destruct (parse_one (m_rx s)); rewrite ?fail_reader_blocked; try exact E.
    destruct (find _ _); [|exact E]. destruct (_ <? _); [exact E|]. rewrite fail_reader_blocked. exact E.
  - apply read_blocked.
  - rewrite read_buf_fst. apply read_blocked.
  - unfold open_step. destruct (id =? reserved_conn_id); [reflexivity|].
    destruct (find_conn id (m_conns s)); [destruct (c_mapped c)|]; reflexivity.
  - rewrite close_checks_ok, stale_close_noop. reflexivity.
  - rewrite deadlines_ok, deadline_noop. reflexivity.
  - unfold unblock_step. rewrite reader_started_ok. destruct (m_blocked s) eqn:E; [reflexivity|exact E].
  - unfold write_step, write_step_pf. destruct (find_conn id (m_conns s)); [|reflexivity]. destruct (c_closed c); [reflexivity|].
    destruct (m_closed s || m_tx_broken s); [reflexivity|]. destruct cut; [|reflexivity].
    destruct (_ <=? _); [reflexivity|]. destruct (cut_fatal _ _ _); [|reflexivity].
    cbn [fst]. now rewrite do_close_blocked, latch_blocked.
  - apply do_close_blocked.
  - reflexivity.
  - reflexivity.
  - unfold trunk_up_step. destruct (m_closed s); reflexivity.
  - unfold reader_fail_step. destruct (m_reader_done s); [reflexivity|].
    destruct (m_closed s); [cbn [m_blocked set_reader_done]; apply latch_blocked|apply fail_reader_blocked].
Qed.

Definition not_unblock (e : event) : bool := match e with EvUnblock => false | _ => true end.

(* on a Mux whose reader runs (never blocked, or unblocked once) any number of further Unblock calls, anywhere in
   the schedule, change nothing: the same final state and, call for call, the same results of all other calls *)
Theorem unblocks_change_nothing mp : forall evs s, m_blocked s = false ->
  fst (run_mp mp s evs) = fst (run_mp mp s (filter not_unblock evs)) /\
  filter (fun eo => not_unblock (fst eo)) (snd (run_mp mp s evs)) = snd (run_mp mp s (filter not_unblock evs)).
Proof.
  induction evs as [|e r IH]; intros s Hb; [split; reflexivity|].
  cbn [run_mp filter]. destruct (not_unblock e) eqn:Ed.
  - cbn [run_mp]. pose proof (step_blocked mp s e) as Hk. destruct (step_mp mp s e) as [s1 o]. cbn [fst] in Hk.
    assert (Hb1 : m_blocked s1 = false) by (destruct e; try discriminate; congruence).
    specialize (IH s1 Hb1).
    destruct (run_mp mp s1 r) as [s2 tr2]. destruct (run_mp mp s1 (filter not_unblock r)) as [s3 tr3].
    cbn [fst snd filter] in *. rewrite Ed. destruct IH as [-> ->]. split; reflexivity.
  - destruct e; try discriminate. pose proof (unblock_noop_when_unblocked mp s Hb) as Hn.
    destruct (step_mp mp s EvUnblock) as [s1 o]. cbn [fst] in Hn. subst s1. specialize (IH s Hb).
    destruct (run_mp mp s r) as [s2 tr2]. cbn [fst snd filter not_unblock] in *. exact IH.
Qed.

Lemma received_strip_unblock id tr : received id (filter (fun eo => not_unblock (fst eo)) tr) = received id tr.
Proof.
  induction tr as [|[e o] r IH]; [reflexivity|]. cbn [filter fst]. destruct (not_unblock e) eqn:Ed.
  - change ((e, o) :: r) with ([(e, o)] ++ r). change ((e, o) :: filter (fun eo => not_unblock (fst eo)) r) with ([(e, o)] ++ filter (fun eo => not_unblock (fst eo)) r).
    now rewrite !received_app, IH.
  - destruct e; try discriminate. change ((EvUnblock, o) :: r) with ([(EvUnblock, o)] ++ r).
    rewrite received_app. cbn. exact IH.
Qed.

Theorem unblocks_delivery_unaffected mp evs s id : m_blocked s = false ->
  received id (snd (run_mp mp s evs)) = received id (snd (run_mp mp s (filter not_unblock evs))) /\
  queue_in id (fst (run_mp mp s evs)) = queue_in id (fst (run_mp mp s (filter not_unblock evs))).
Proof.
  intros Hb. destruct (unblocks_change_nothing mp evs s Hb) as [H1 H2]. rewrite <- H2, received_strip_unblock, H1. split; reflexivity.
Qed.

(* the variant in which Unblock can start a second reader: on a Mux that was never blocked an Unblock makes the two
   readers split the stream — here the frame written to connection 1 is lost and an error comes instead *)
Theorem unblock_second_reader_refuted :
  let evs := [EvUnblock; EvReader; EvRead 1 true] in
  let '(s, tr) := run_var5 false max_payload_size (init_mux (trunk [(1, [7; 8; 9])]) 4 [1]) evs in
  map snd tr = [ROk; ROk; RErr EErr] /\
  let '(s', tr') := run (init_mux (trunk [(1, [7; 8; 9])]) 4 [1]) evs in
  map snd tr' = [ROk; ROk; RData [7; 8; 9]].
Proof. vm_compute. repeat split. Qed.

(* ---------- the reader's send into a connection's queue ---------- *)
Lemma readq_ok : readq_never_closed = true.
Proof. reflexivity. Qed.

(* the queue's channel is never closed: whatever has happened to the connection between the reader's lookup and
   its send (a conn.Close in particular), the send queues the frame or finds the queue full; it cannot panic *)
Theorem send_cannot_panic c qlen : send_to (negb readq_never_closed) c qlen <> SendPanic.
Proof. rewrite readq_ok. unfold send_to. cbn [negb andb]. destruct (_ <? _); discriminate. Qed.

Theorem send_after_close_refuted :
  exists c qlen, send_to true (c_unmap c) qlen = SendPanic.
Proof. exists (mkConn 1 [] false true false 0), 4. reflexivity. Qed.

(* ---------- a length field above any bound ---------- *)
Lemma length_unsigned_ok : length_unsigned = true.
Proof. reflexivity. Qed.

Theorem length_never_negative raw : alloc_len length_unsigned raw = Some raw.
Proof. unfold alloc_len. now rewrite length_unsigned_ok. Qed.

Theorem length_signed_refuted : alloc_len false 2147483648 = None /\ alloc_len false 4294967295 = None.
Proof. split; reflexivity. Qed.

(* a header that announces more bytes than the trunk will ever carry: no frame is made of it — the reader waits,
   and when the trunk ends it sees an end-of-file (nothing of the payload came) or a cut payload *)
Theorem oversized_length_is_no_frame a b c d e f g h rest :
  lenN rest < u32 e f g h ->
  parse_one (a :: b :: c :: d :: e :: f :: g :: h :: rest) = if lenN rest =? 0 then PNoPayload else PShortPayload.
Proof.
  intros H. cbn [parse_one]. rewrite (splitN_short (u32 e f g h) rest) by lia.
  destruct (lenN rest =? u32 e f g h) eqn:E; [apply N.eqb_eq in E; lia|reflexivity].
Qed.

(* … and the reader fails stop on it: the Mux is closed, an error or end-of-file is latched, nothing is queued *)
Theorem oversized_length_fails_stop s a b c d e f g h rest :
  m_blocked s = false -> m_reader_done s = false -> m_closed s = false ->
  m_rx s = a :: b :: c :: d :: e :: f :: g :: h :: rest -> lenN rest < u32 e f g h ->
  let s' := reader_step s in
  m_closed s' = true /\ m_reader_done s' = true /\ m_err s' <> None /\
  forall id, queue_in id s' = queue_in id s.
Proof.
  intros Hb Hd Hc Hrx Hlen. cbn zeta. unfold reader_step. rewrite Hb, Hd, Hc, Hrx, (oversized_length_is_no_frame _ _ _ _ _ _ _ _ _ Hlen).
  assert (H : forall e0, m_closed (fail_reader e0 s) = true /\ m_reader_done (fail_reader e0 s) = true /\
            m_err (fail_reader e0 s) <> None /\ forall id, queue_in id (fail_reader e0 s) = queue_in id s).
  { intros e0. unfold fail_reader. cbn [m_closed m_reader_done m_err set_reader_done]. repeat split.
    - apply do_close_closed.
    - rewrite do_close_err. apply latch_err.
    - intros id. unfold queue_in. cbn [m_conns set_reader_done]. unfold do_close, latch.
      destruct (m_err s); cbn [m_closed set_err]; rewrite Hc; cbn [m_conns set_closed set_conns set_err];
        rewrite find_conn_map by apply keeps_closemapped;
        (destruct (find_conn id (m_conns s)) as [c0|]; [|reflexivity]); cbn [option_map]; destruct (c_mapped c0); reflexivity. }
  destruct (lenN rest =? 0); apply H.
Qed.

(* ---------- a failing trunk read ends the reader ---------- *)
(* whatever the error (a time-out included) and wherever in the stream: the reader latches an error, closes the Mux
   and is done; it does not read again *)
Lemma reader_fail_eq s : m_reader_done s = false ->
  reader_fail_step s = if m_closed s then set_reader_done true (latch EEOF s) else fail_reader EErr s.
Proof. intros H. unfold reader_fail_step. now rewrite H. Qed.

Theorem read_failure_ends_reader s :
  m_reader_done s = false ->
  let s' := reader_fail_step s in
  m_closed s' = true /\ m_reader_done s' = true /\ m_err s' <> None /\
  reader_step s' = s' /\ reader_fail_step s' = s'.
Proof.
  intros Hd. cbn zeta.
  assert (H : forall t, m_reader_done t = true -> reader_step t = t /\ reader_fail_step t = t).
  { intros t Ht. unfold reader_step, reader_fail_step. rewrite Ht. destruct (m_blocked t); split; reflexivity. }
  rewrite (reader_fail_eq s Hd). destruct (m_closed s) eqn:Ec.
  - split; [cbn [m_closed set_reader_done]; unfold latch; destruct (m_err s); exact Ec|].
    split; [reflexivity|]. split; [cbn [m_err set_reader_done]; apply latch_err|]. apply H. reflexivity.
  - unfold fail_reader. split; [cbn [m_closed set_reader_done]; apply do_close_closed|]. split; [reflexivity|].
    split; [cbn [m_err set_reader_done]; rewrite do_close_err; apply latch_err|]. apply H. reflexivity.
Qed.

Lemma read_error_final_ok : read_error_is_final = true.
Proof. reflexivity. Qed.
