(* Model of the event dispatch of the runtime adaptation:
     pkg/adaptation/adaptation.go  the thirteen entry points, StateChange, the
                                   CreateContainer / UpdateContainer / StopContainer /
                                   UpdatePodSandbox loops, removeClosedPlugins, sortPlugins,
                                   updateContainers
     pkg/adaptation/plugin.go      the relay functions, isFatalError, configure's mask
                                   handling, UpdateContainers
     pkg/api/plugin.go             CheckPluginIndex
     pkg/stub/stub.go              UpdateContainers
   The tables read off the sources (membership of isFatalError, which event each
   relay function tests, the statement shape of the entry points, the bounds of
   CheckPluginIndex …) come from the regenerated Model/DispConsts.v; event
   numbers and ValidEvents from Model/Consts.v.  No proofs in this file. *)
From Coq Require Import String Ascii List Bool ZArith NArith Arith.
From NRI Require Import Base.Strs Base.Assoc Model.Consts Model.Event Model.DispConsts.
Import ListNotations.
Open Scope string_scope.
Open Scope list_scope.

(* ------------------------------------------------------------------ *)
(** * Plugin indices (pkg/api/plugin.go: CheckPluginIndex)              *)

Definition nth_bound (i : nat) : N := nth i index_bounds 0%N.

Definition byte_in (lo hi : N) (c : ascii) : bool :=
  let n := N_of_ascii c in (N.leb lo n && N.leb n hi)%bool.

(* len(idx) == index_len, and each of the two bytes within its bounds *)
Definition check_index (s : string) : bool :=
  (Nat.eqb (String.length s) index_len &&
   match s with
   | String a (String b _) => byte_in (nth_bound 0) (nth_bound 1) a && byte_in (nth_bound 2) (nth_bound 3) b
   | _ => false
   end)%bool.

Definition digit (n : nat) : ascii := ascii_of_nat (48 + n).
Definition index_of (n : nat) : string :=
  String (digit (n / 10)) (String (digit (n mod 10)) EmptyString).
(* "00" … "99" *)
Definition all_indices : list string := map index_of (seq 0 100).

(* the number a two-digit index denotes *)
Definition index_num (s : string) : Z :=
  match s with
  | String a (String b EmptyString) =>
      ((Z.of_N (N_of_ascii a) - 48) * 10 + (Z.of_N (N_of_ascii b) - 48))%Z
  | _ => (-1)%Z
  end.

(* Go's < and <= on strings: byte-wise lexicographic *)
Definition str_ltb (a b : string) : bool :=
  match String.compare a b with Lt => true | _ => false end.
Definition str_leb (a b : string) : bool := negb (str_ltb b a).

(* ------------------------------------------------------------------ *)
(** * Plugins                                                           *)

(* p_id identifies the connection (two plugins may register the same index and
   name); p_events is plugin.events as set by configure; p_closed is plugin.closed *)
Record plugin := {
  p_id : N;
  p_idx : string;
  p_name : string;
  p_events : Z;
  p_closed : bool
}.

Definition full_name (p : plugin) : string := p_idx p ++ "-" ++ p_name p.

Definition close_plugin (p : plugin) : plugin :=
  {| p_id := p_id p; p_idx := p_idx p; p_name := p_name p; p_events := p_events p; p_closed := true |}.

(* plugin.configure: the mask of the Configure reply -> plugin.events; None = refused.
   Go: events := EventMask(rpl.Events); if events != 0 { if extra := events &^ ValidEvents; extra != 0 {error} }
       else { events = ValidEvents } *)
Definition configure_events (raw : Z) : option Z :=
  if (raw =? 0)%Z then Some valid_events
  else if (Z.land raw (Z.lnot valid_events) =? 0)%Z then Some raw
  else None.

(* p.events.IsSet(ev) *)
Definition subscribed (ev : Z) (p : plugin) : bool := is_set (p_events p) ev.

(* the plugin is asked: subscribed and its connection is still up *)
Definition callable (ev : Z) (p : plugin) : bool := (subscribed ev p && negb (p_closed p))%bool.

(* sortPlugins' comparison: r.plugins[i].idx < r.plugins[j].idx *)
Definition plugin_ltb (p q : plugin) : bool := str_ltb (p_idx p) (p_idx q).
Definition plugin_leb (p q : plugin) : bool := str_leb (p_idx p) (p_idx q).

Fixpoint insert_plugin (p : plugin) (l : list plugin) : list plugin :=
  match l with
  | [] => [p]
  | q :: r => if plugin_ltb p q then p :: l else q :: insert_plugin p r
  end.

(* removeClosedPlugins *)
Definition prune (l : list plugin) : list plugin := filter (fun p => negb (p_closed p)) l.

(* sortPlugins: removeClosedPlugins, then sort.Slice by idx.  sort.Slice is not
   stable; this insertion sort is one admissible result, and the theorems only
   use that the result is sorted and a permutation (Proofs: Sorted_order). *)
Definition sort_plugins (l : list plugin) : list plugin :=
  fold_left (fun acc p => insert_plugin p acc) (prune l) [].

(* ------------------------------------------------------------------ *)
(** * One call to one plugin                                            *)

Section Relay.
(* Rq: requests; Rp: plugin responses; Acc: the accumulating merged result
   (result.go is modelled elsewhere: here it is an abstract fold over the
   responses); Res: what the caller gets *)
Variables Rq Rp Acc Res : Type.
Variable ev_of : Rq -> Z.
Variable init : Rq -> Acc.
Variable apply : Acc -> plugin -> Rp -> Acc + string.   (* result.apply: inr = conflict error *)
Variable finish : Rq -> Acc -> Res.

(* what ttrpc hands back to the relay function: a reply, or an error of some class *)
Inductive call_result :=
| Reply (r : Rp)
| Failed (cls : string) (msg : string).

(* c_dur: how long the plugin takes, in time units.
   c_in_write: the call does not get past SENDING its request: the request does not fit the
   transport's buffers and the peer has stopped reading.  ttrpc writes the request before it
   enters the select on the context (client.go: createStream, then dispatch's select), and the
   multiplexer's SetWriteDeadline is a stub, so the per-call deadline does not cut such a call: it
   lasts c_dur — until the connection goes down — and then ends with c_res (ttrpc.ErrClosed).
   findings/C07-stalled-reader-blocks-write.md *)
Record call := { c_res : call_result; c_dur : N; c_in_write : bool }.

(* context.WithTimeout(ctx, T): a call that has sent its request and lasts T or longer ends at T
   with DeadlineExceeded *)
Definition effective (T : N) (c : call) : call_result :=
  if c_in_write c then c_res c
  else if N.leb T (c_dur c) then Failed "context.DeadlineExceeded" "context deadline exceeded" else c_res c.
Definition call_time (T : N) (c : call) : N := if c_in_write c then c_dur c else N.min (c_dur c) T.

Definition is_fatal (cls : string) : bool := smem cls fatal_errors.

Inductive outcome :=
| Ok (r : Rp)
| Veto (msg : string)
| Fatal.

(* the relay functions of plugin.go after the call returned *)
Definition classify (r : call_result) : outcome :=
  match r with
  | Reply rp => Ok rp
  | Failed cls msg => if is_fatal cls then Fatal else Veto msg
  end.

(* ------------------------------------------------------------------ *)
(** * One request: the loop over r.plugins                              *)

Record relay_out := {
  ro_result : Acc + string;        (* inl: merged so far; inr: the error returned to the caller *)
  ro_invoked : list plugin;        (* plugins called, in call order *)
  ro_plugins : list plugin;        (* r.plugins with the closed flags after the loop *)
  ro_time : N
}.

Definition cons_invoked (p : plugin) (o : relay_out) (d : N) (p' : plugin) : relay_out :=
  {| ro_result := ro_result o; ro_invoked := p :: ro_invoked o;
     ro_plugins := p' :: ro_plugins o; ro_time := (d + ro_time o)%N |}.

Fixpoint relay (T : N) (rq : Rq) (h : plugin -> call) (ps : list plugin) (acc : Acc) : relay_out :=
  match ps with
  | [] => {| ro_result := inl acc; ro_invoked := []; ro_plugins := []; ro_time := 0%N |}
  | p :: r =>
      if negb (subscribed (ev_of rq) p) then
        (* if !p.events.IsSet(ev) { return nil, nil } *)
        let o := relay T rq h r acc in
        {| ro_result := ro_result o; ro_invoked := ro_invoked o;
           ro_plugins := p :: ro_plugins o; ro_time := ro_time o |}
      else if p_closed p then
        (* the connection is already down: ttrpc answers ErrClosed at once; fatal, p.close() is a no-op *)
        match classify (Failed "ttrpc.ErrClosed" "ttrpc: closed") with
        | Fatal =>
            let o := relay T rq h r acc in
            {| ro_result := ro_result o; ro_invoked := ro_invoked o;
               ro_plugins := p :: ro_plugins o; ro_time := ro_time o |}
        | Veto m => {| ro_result := inr m; ro_invoked := []; ro_plugins := p :: r; ro_time := 0%N |}
        | Ok _ => {| ro_result := inl acc; ro_invoked := []; ro_plugins := p :: r; ro_time := 0%N |}
        end
      else
        let c := h p in
        let d := call_time T c in
        match classify (effective T c) with
        | Ok rp =>
            match apply acc p rp with
            | inl acc' => cons_invoked p (relay T rq h r acc') d p
            | inr e => {| ro_result := inr e; ro_invoked := [p]; ro_plugins := p :: r; ro_time := d |}
            end
        | Veto m => {| ro_result := inr m; ro_invoked := [p]; ro_plugins := p :: r; ro_time := d |}
        | Fatal => cons_invoked p (relay T rq h r acc) d (close_plugin p)
        end
  end.

(* what one request leaves behind and returns: r.Lock(); defer r.Unlock(); defer r.removeClosedPlugins() *)
Record observation := {
  o_rq : Rq;
  o_invoked : list plugin;
  o_result : Res + string;
  o_time : N
}.

Definition run_request (T : N) (rq : Rq) (h : plugin -> call) (ps : list plugin) : list plugin * observation :=
  let o := relay T rq h ps (init rq) in
  (prune (ro_plugins o),
   {| o_rq := rq; o_invoked := ro_invoked o;
      o_result := match ro_result o with inl acc => inl (finish rq acc) | inr e => inr e end;
      o_time := ro_time o |}).

(* the sequence of exchanges of a request: the classified outcome of every call, in
   call order (C06_isolation: the result is a function of the request and this list) *)
Fixpoint exchanges (T : N) (rq : Rq) (h : plugin -> call) (ps : list plugin) (acc : Acc) : list (plugin * outcome) :=
  match ps with
  | [] => []
  | p :: r =>
      if callable (ev_of rq) p then
        let oc := classify (effective T (h p)) in
        match oc with
        | Ok rp => match apply acc p rp with
                   | inl acc' => (p, oc) :: exchanges T rq h r acc'
                   | inr _ => [(p, oc)]
                   end
        | Veto _ => [(p, oc)]
        | Fatal => (p, oc) :: exchanges T rq h r acc
        end
      else exchanges T rq h r acc
  end.

Fixpoint eval_exchanges (xs : list (plugin * outcome)) (acc : Acc) : Acc + string :=
  match xs with
  | [] => inl acc
  | (p, Ok rp) :: r => match apply acc p rp with inl acc' => eval_exchanges r acc' | inr e => inr e end
  | (_, Veto m) :: _ => inr m
  | (_, Fatal) :: r => eval_exchanges r acc
  end.

Definition result_of (rq : Rq) (xs : list (plugin * outcome)) : Res + string :=
  match eval_exchanges xs (init rq) with inl acc => inl (finish rq acc) | inr e => inr e end.

(* ------------------------------------------------------------------ *)
(** * Sequences of requests, registrations and disconnections           *)

(* Every request is processed atomically: the entry points hold the adaptation
   mutex from before the loop until after removeClosedPlugins (DispConsts.entry_points). *)
Inductive action :=
| ARequest (rq : Rq) (h : plugin -> call)   (* a runtime request with what each plugin would answer *)
| ARegister (p : plugin)                    (* a registration completes: append, sortPlugins *)
| ADisconnect (id : N).                     (* a plugin's connection goes down between requests *)

Definition disconnect (id : N) (l : list plugin) : list plugin :=
  map (fun p => if N.eqb (p_id p) id then close_plugin p else p) l.

Definition step (T : N) (ps : list plugin) (a : action) : list plugin * list observation :=
  match a with
  | ARequest rq h => let '(ps', o) := run_request T rq h ps in (ps', [o])
  | ARegister p => (sort_plugins (ps ++ [p]), [])
  | ADisconnect id => (disconnect id ps, [])
  end.

Fixpoint run (T : N) (ps : list plugin) (s : list action) : list plugin * list observation :=
  match s with
  | [] => (ps, [])
  | a :: r =>
      let '(ps1, o1) := step T ps a in
      let '(ps2, o2) := run T ps1 r in
      (ps2, o1 ++ o2)
  end.

(* the global invocation log, and one plugin's view of it *)
Definition log_of (os : list observation) : list (N * Rq) :=
  flat_map (fun o => map (fun p => (p_id p, o_rq o)) (o_invoked o)) os.

Definition trace (id : N) (log : list (N * Rq)) : list Rq :=
  map snd (filter (fun e => N.eqb (fst e) id) log).

Definition was_invoked (id : N) (o : observation) : bool :=
  existsb (fun p => N.eqb (p_id p) id) (o_invoked o).

End Relay.

Arguments Reply {Rp}. Arguments Failed {Rp}.
Arguments Ok {Rp}. Arguments Veto {Rp}. Arguments Fatal {Rp}.
Arguments Build_call {Rp}. Arguments c_res {Rp}. Arguments c_dur {Rp}. Arguments c_in_write {Rp}.
Arguments effective {Rp}. Arguments call_time {Rp}. Arguments classify {Rp}.
Arguments relay {Rq Rp Acc}. Arguments run_request {Rq Rp Acc Res}.
Arguments exchanges {Rq Rp Acc}. Arguments eval_exchanges {Rp Acc}. Arguments result_of {Rq Rp Acc Res}.
Arguments ro_result {Acc}. Arguments ro_invoked {Acc}. Arguments ro_plugins {Acc}. Arguments ro_time {Acc}.
Arguments Build_relay_out {Acc}. Arguments cons_invoked {Acc}.
Arguments o_rq {Rq Res}. Arguments o_invoked {Rq Res}. Arguments o_result {Rq Res}. Arguments o_time {Rq Res}.
Arguments Build_observation {Rq Res}.
Arguments ARequest {Rq Rp}. Arguments ARegister {Rq Rp}. Arguments ADisconnect {Rq Rp}.
Arguments step {Rq Rp Acc Res}. Arguments run {Rq Rp Acc Res}.
Arguments log_of {Rq Res}. Arguments trace {Rq}. Arguments was_invoked {Rq Res}.

(* ------------------------------------------------------------------ *)
(** * The error classes a failing plugin produces                       *)

(* What the runtime's ttrpc client returns for a call to a plugin whose connection
   is cut, closed, broken or silent (observed on the implementation through a ttrpc
   client interceptor; see docs/slices/dispatch.md):
     - "ttrpc.ErrClosed"          connection closed, before or during the call
     - "ttrpc.ErrServerClosed", "ttrpc.ErrProtocol"   named by isFatalError
     - "context.DeadlineExceeded" the caller's own deadline fired
     - "io.ErrUnexpectedEOF"      the trunk ended in the middle of a multiplexer frame:
                                  mux.reader wraps io.ReadFull's error, which ttrpc's
                                  filterCloseErr does not rewrite to ErrClosed; it reaches the
                                  caller when ttrpc's dispatch select picks the stream's close
                                  rather than the client's (seen about once in 10^4 mid-frame cuts;
                                  findings/C07-unexpected-eof-not-fatal.md)
     - "codes.DeadlineExceeded"   the plugin's ttrpc server answered with status
                                  DeadlineExceeded because the handler's context (which
                                  carries the same time-out) expired, and that answer beat the
                                  caller's own timer (5-15 % of the trials with a handler that
                                  returns its context's error; findings/C07-deadline-status-not-fatal.md) *)
Definition fault_error_classes : list string :=
  ["ttrpc.ErrClosed"; "ttrpc.ErrServerClosed"; "ttrpc.ErrProtocol"; "context.DeadlineExceeded";
   "io.ErrUnexpectedEOF"; "codes.DeadlineExceeded"].

(* the classes of that list which isFatalError does not name: each would make a plugin's
   failure fail the request (classify gives Veto) instead of dropping the plugin; empty since the
   two repairs (C07_fault_gap_of_this_tree) *)
Definition fault_gap : list string := filter (fun c => negb (is_fatal c)) fault_error_classes.

(* What the runtime's ttrpc client returns when the plugin's HANDLER returned an error: the plugin's
   ttrpc server turns the error into a status (ttrpc services.go: a status error keeps its code,
   convertCode maps os.ErrInvalid to InvalidArgument, io errors to OutOfRange / FailedPrecondition,
   os.IsExist / IsNotExist / IsPermission errors to AlreadyExists / NotFound / PermissionDenied,
   context.Canceled to Canceled, anything else — errors.New, fmt.Errorf — to Unknown).  Every grpc code
   except OK and DeadlineExceeded (the report of the expired deadline, fatal on purpose).  None of them
   may be in isFatalError's table: such an error is the handler's veto. *)
Definition handler_error_classes : list string :=
  ["codes.Unknown"; "codes.Canceled"; "codes.InvalidArgument"; "codes.NotFound"; "codes.AlreadyExists";
   "codes.PermissionDenied"; "codes.ResourceExhausted"; "codes.FailedPrecondition"; "codes.Aborted";
   "codes.OutOfRange"; "codes.Unimplemented"; "codes.Internal"; "codes.Unavailable"; "codes.DataLoss";
   "codes.Unauthenticated"].

(* isFatalError's table names nothing but fault classes *)
Definition fatal_table_exact : bool := forallb (fun c => smem c fault_error_classes) fatal_errors.

(* the four classes isFatalError's comment and DESIGN name *)
Definition documented_fatal : list string :=
  ["ttrpc.ErrClosed"; "ttrpc.ErrServerClosed"; "ttrpc.ErrProtocol"; "context.DeadlineExceeded"].

(* ------------------------------------------------------------------ *)
(** * Structure of the entry points (from DispConsts)                   *)

Fixpoint drop_guards (l : list string) : list string :=
  match l with
  | s :: r => if String.prefix "if " s then drop_guards r else l
  | [] => []
  end.

(* after optional argument checks: r.Lock(); defer r.Unlock(); defer r.removeClosedPlugins(); …
   and nothing touches the plugins before the lock *)
Definition locked_pruned (body : list string) : bool :=
  match drop_guards body with
  | a :: b :: c :: _ =>
      (String.eqb a "r.Lock()" && String.eqb b "defer r.Unlock()" && String.eqb c "defer r.removeClosedPlugins()")%bool
  | _ => false
  end.

Definition locked (body : list string) : bool :=
  match body with
  | a :: b :: _ => (String.eqb a "r.Lock()" && String.eqb b "defer r.Unlock()")%bool
  | _ => false
  end.

(* which event a relay function tests: Some n, or None = the event it is handed *)
Definition relay_check (fn : string) : option (option Z) :=
  (fix go (l : list (string * option Z)) :=
     match l with
     | [] => None
     | (n, v) :: r => if String.eqb n fn then Some v else go r
     end) relay_event_checks.

(* the event number under which each of the thirteen entry points reaches the plugins,
   and the bit its relay function tests: (entry point, event, tested bit).  The nine
   wrappers set the event themselves (state_change_wrappers) and StateChange's relay
   function tests the event it is handed; the four request loops are tied to their
   events by the API (Consts.event_enum). *)
Definition loop_entry_events : list (string * string) :=
  [("UpdatePodSandbox", "Event_UPDATE_POD_SANDBOX"); ("CreateContainer", "Event_CREATE_CONTAINER");
   ("UpdateContainer", "Event_UPDATE_CONTAINER"); ("StopContainer", "Event_STOP_CONTAINER")].

Definition entry_event_table : list (string * Z * Z) :=
  map (fun w => (fst w, snd w, snd w)) state_change_wrappers ++
  flat_map (fun e =>
    let '(name, _, fn, _) := e in
    match relay_check fn, alookup name loop_entry_events with
    | Some (Some bit), Some evname =>
        match alookup evname event_enum with
        | Some v => [(name, v, bit)]
        | None => []
        end
    | _, _ => []
    end) entry_points.

Definition structure_ok : bool :=
  (forallb (fun e => let '(_, body, _, abort) := e in locked_pruned body && abort) entry_points &&
   Nat.eqb (length entry_points) 5 &&
   (* updateContainers is exactly: lock, deferred unlock, hand the request's list to the call-back *)
   locked update_containers_body &&
   (match update_containers_body with
    | [_; _; c] => String.eqb c "return r.updateFn(ctx, req)"
    | _ => false
    end) &&
   forallb (fun s => forallb (fun b : bool => b) (snd s)) relay_shapes &&
   Nat.eqb (length relay_shapes) 5 &&
   (* the thirteen entry points reach the plugins under thirteen different event numbers
      1..13, and each relay function tests the bit of that very event *)
   Nat.eqb (length entry_event_table) 13 &&
   forallb (fun t => let '(_, ev, bit) := t in (ev =? bit)%Z && (1 <=? ev)%Z && (ev <? event_last)%Z) entry_event_table &&
   forallb (fun k => existsb (fun t => let '(_, ev, _) := t in (ev =? Z.of_nat k)%Z) entry_event_table) (seq 1 13) &&
   (match relay_check "StateChange" with Some None => true | _ => false end) &&
   (* sortPlugins prunes, then sorts r.plugins by idx with < ; registration appends and sorts under the lock *)
   String.eqb sort_less "r.plugins: r.plugins[i].idx < r.plugins[j].idx" &&
   (match sort_plugins_body with a :: b :: _ => String.eqb a "r.removeClosedPlugins()" && String.prefix "sort.Slice(r.plugins," b | _ => false end) &&
   (match register_sequence with
    | [a; b; c; d] => String.eqb a "r.Lock()" && String.eqb b "r.plugins = append(r.plugins, p)" &&
                      String.eqb c "r.sortPlugins()" && String.eqb d "r.Unlock()"
    | _ => false
    end) &&
   configure_zero_is_all && configure_refuses_extra && stub_update_guard && stub_update_relays &&
   (* plugin.UpdateContainers hands exactly the request's list to updateContainers and returns its
      failed list and error; Stub.UpdateContainers tests for a missing runtime first *)
   (* … and does nothing else (in particular takes no lock before the adaptation's): a log line, the
      call, the return *)
   (match plugin_update_body with
    | [l; c; _] => String.prefix "log." l && String.eqb c "failed, err := p.r.updateContainers(ctx, req.Update)"
    | _ => false
    end) &&
   String.eqb plugin_update_return "return &UpdateContainersResponse{ Failed: failed, }, err" &&
   (match stub_update_body with g :: _ => String.eqb g "if stub.runtime == nil" | [] => false end) &&
   (* removeClosedPlugins keeps the plugins that are not closed *)
   (match rev remove_closed_body with l :: _ => String.eqb l "r.plugins = active" | [] => false end) &&
   (* CheckPluginIndex: two bytes, each within '0'..'9' *)
   Nat.eqb index_len 2 &&
   String.eqb index_check_cond "!('0' <= idx[0] && idx[0] <= '9') || !('0' <= idx[1] && idx[1] <= '9')")%bool.

(* ------------------------------------------------------------------ *)
(** * Unsolicited updates (plugin.UpdateContainers, Adaptation.updateContainers,
      stub.UpdateContainers)                                             *)

Section Updates.
Variable U : Type.   (* one container update *)

(* the runtime's UpdateFn: failed list and optional error *)
Definition callback := list U -> list U * option string.

(* Adaptation.updateContainers + plugin.UpdateContainers: the call-back is run once on
   exactly the request's update list; returns (what the plugin is sent, the call-back's
   invocations).  ttrpc transmits either the response or the error status. *)
Definition relay_update (us : list U) (cb : callback) : (list U * option string) * list (list U) :=
  let '(failed, err) := cb us in
  (match err with
   | None => (failed, None)
   | Some e => ([], Some e)
   end, [us]).

(* stub.UpdateContainers: if stub.runtime == nil { return nil, ErrNoService } *)
Definition stub_update (started : bool) (us : list U) (cb : callback) : (list U * option string) * list (list U) :=
  if started then relay_update us cb else (([], Some err_no_service), []).

(* The call-back takes time (dur: its own run time plus the wait for the adaptation mutex behind
   requests and other plugins' updates).  Stub.UpdateContainers makes the call under a context; a
   context with deadline d gives up on a call that lasts d or longer and the plugin is handed the
   deadline error instead of the call-back's result (which still ran). *)
Definition stub_update_timed (deadline : option N) (started : bool) (us : list U) (cb : callback) (dur : N)
  : (list U * option string) * list (list U) :=
  match deadline with
  | Some d => if (started && N.leb d dur)%bool then (([], Some "context deadline exceeded"), [us])
              else stub_update started us cb
  | None => stub_update started us cb
  end.
End Updates.
Arguments relay_update {U}. Arguments stub_update {U}. Arguments stub_update_timed {U}.

(* the deadline of the context Stub.UpdateContainers calls the runtime under, read off the current
   source: "ctx := context.Background()" = none; anything else is taken to be bounded by the request
   time-out the runtime pushes to the stub *)
Definition stub_update_deadline : option N :=
  if existsb (String.eqb "ctx := context.Background()") stub_update_body then None
  else Some default_request_timeout_ms.

(* ------------------------------------------------------------------ *)
(** * The adaptation mutex                                              *)

(* Actors are the goroutines that enter the adaptation: runtime callers of the
   thirteen entry points (work WRequest) and the ttrpc handlers of plugins' unsolicited
   updates (work WCallback).  Each runs: r.Lock(); <work>; r.Unlock()
   (DispConsts.entry_points, update_containers_body).  sync.Mutex: Lock succeeds only
   when nobody holds the mutex. *)
Inductive work := WRequest | WCallback.
Inductive pc := Idle | Waiting (w : work) | Running (w : work).

Record mstate := { holder : option nat; pcs : nat -> pc }.

Inductive maction :=
| MEnter (a : nat) (w : work)    (* the entry point is called *)
| MAcquire (a : nat)             (* r.Lock() returns *)
| MWork (a : nat)                (* one step of the request loop / of the call-back *)
| MLeave (a : nat).              (* deferred r.Unlock() *)

Definition set_pc (f : nat -> pc) (a : nat) (v : pc) : nat -> pc :=
  fun b => if Nat.eqb b a then v else f b.

Definition minit : mstate := {| holder := None; pcs := fun _ => Idle |}.

Inductive mstep : mstate -> maction -> mstate -> Prop :=
| MS_enter s a w : pcs s a = Idle ->
    mstep s (MEnter a w) {| holder := holder s; pcs := set_pc (pcs s) a (Waiting w) |}
| MS_acquire s a w : pcs s a = Waiting w -> holder s = None ->
    mstep s (MAcquire a) {| holder := Some a; pcs := set_pc (pcs s) a (Running w) |}
| MS_work s a w : pcs s a = Running w ->
    mstep s (MWork a) s
| MS_leave s a w : pcs s a = Running w ->
    mstep s (MLeave a) {| holder := None; pcs := set_pc (pcs s) a Idle |}.

Inductive mreach : mstate -> Prop :=
| MR_init : mreach minit
| MR_step s a s' : mreach s -> mstep s a s' -> mreach s'.

(* executable check of a recorded schedule: begin/end marks of call-backs and of
   plugin handlers (a handler runs only inside a request's loop), in the global order
   in which they happened; no call-back may be open together with another call-back
   or with a handler, and no two handlers together *)
Inductive mark := MBegin (w : work) | MEnd (w : work).

Fixpoint no_overlap (l : list mark) (ncb nh : nat) : bool :=
  match l with
  | [] => true
  | MBegin WCallback :: r => (Nat.eqb ncb 0 && Nat.eqb nh 0 && no_overlap r (S ncb) nh)%bool
  | MBegin WRequest :: r => (Nat.eqb ncb 0 && Nat.eqb nh 0 && no_overlap r ncb (S nh))%bool
  | MEnd WCallback :: r => no_overlap r (pred ncb) nh
  | MEnd WRequest :: r => no_overlap r ncb (pred nh)
  end.
