(* Combination theorems for C03 / C04, part 6: concrete inputs.
   - ex_*: a non-trivial history meeting the hypotheses of the theorems (three plugins: set / lone
     removal / remove-then-set over every family, plus a plugin without adjustment);
   - wit_*: for each clause of wf_create an input violating only that clause on which the conclusion
     fails — every clause is necessary. *)
From Coq Require Import String Ascii List Bool ZArith Arith.
From NRI Require Import Base.Strs Base.Assoc Model.Types Model.Result Spec.Apply Spec.AbsLedger
  Proofs.CombineWf Proofs.CombineUpdate.
Import ListNotations.
Open Scope string_scope.
Open Scope list_scope.

Definition ex_mt d s := {| m_dest := d; m_type := "bind"; m_source := s; m_opts := ["ro"] |}.
Definition ex_dv p n := {| d_path := p; d_type := "c"; d_major := n; d_minor := 0%Z; d_mode := None; d_uid := None; d_gid := None |}.
Definition ex_hk p := {| h_path := p; h_args := []; h_env := []; h_timeout := None |}.
Definition ex_R (a : adjustment) : response := {| rp_adjust := Some a; rp_updates := [] |}.

(* the original: duplicate keys, a marked key, an environment entry without '=' — nothing is assumed of it *)
Definition ex_c0 : container :=
  {| c_id := "c"; c_ann := [("a","0");("b","0");("-z","0");("a","dup")];
     c_mounts := [ex_mt "/m" "0"; ex_mt "/n" "0"; ex_mt "/m" "dup"; ex_mt "-/q" "0"];
     c_env := ["E=0";"F=0";"NOEQ";"E=dup";"-G=0";"=empty"]; c_args := ["orig"]; c_hooks := hooks_empty;
     c_rlimits := [{| rl_type := "nofile"; rl_hard := 1; rl_soft := 1 |}];
     c_devices := [ex_dv "/dev/a" 0%Z; ex_dv "/dev/b" 0%Z];
     c_res := {| r_scal := [(MemLimit, VZ 5); (CpuShares, VZ 7)]; r_hp := [("2M", 1%Z)]; r_uni := [("u","0");("w","0")] |};
     c_cgroups := "/cg"; c_oom := Some 3%Z |}.

(* plugin 1: sets, lone removals of originals *)
Definition ex_A1 : adjustment :=
  {| a_ann := [("a","1");("n","1");("-b","")]; a_mounts := [ex_mt "/m" "1"; ex_mt "-/n" ""; ex_mt "/x" "1"];
     a_env := [("E","1");("-F","");("N","1");("","emptykey")]; a_args := ["a1"];
     a_hooks := {| hk_prestart := [ex_hk "/h1"]; hk_createruntime := []; hk_createcontainer := []; hk_startcontainer := [];
                   hk_poststart := []; hk_poststop := [ex_hk "/p1"] |};
     a_rlimits := [{| rl_type := "core"; rl_hard := 1; rl_soft := 1 |}]; a_cdi := ["cdi1"];
     a_devices := [ex_dv "/dev/a" 1%Z; ex_dv "-/dev/b" 0%Z; ex_dv "/dev/x" 1%Z];
     a_res := {| r_scal := [(MemLimit, VZ 10); (Pids, VZ 9); (RdtClass, VS "r")]; r_hp := [("2M", 2%Z); ("1G", 1%Z)];
                 r_uni := [("u","1");("v","1")] |};
     a_cgroups := "/cg1"; a_oom := Some 1%Z |}.
(* plugin 2: lone removals of what plugin 1 set and of originals; remove-then-set; args with the marker *)
Definition ex_A2 : adjustment :=
  {| a_ann := [("-a","");("-n","");("n","2");("-b","")]; a_mounts := [ex_mt "-/m" ""; ex_mt "-/x" ""; ex_mt "/x" "2"];
     a_env := [("-E","");("-N","");("N","2");("-NOEQ","")]; a_args := ["";"a2";"b2"];
     a_hooks := {| hk_prestart := [ex_hk "/h2"]; hk_createruntime := []; hk_createcontainer := []; hk_startcontainer := [];
                   hk_poststart := []; hk_poststop := [] |};
     a_rlimits := [{| rl_type := "stack"; rl_hard := 2; rl_soft := 2 |}]; a_cdi := ["cdi2";"cdi2b"];
     a_devices := [ex_dv "-/dev/a" 0%Z; ex_dv "-/dev/x" 0%Z; ex_dv "/dev/x" 2%Z];
     a_res := {| r_scal := [(CpuShares, VZ 20)]; r_hp := [("4M", 2%Z)]; r_uni := [("z","2")] |}; a_cgroups := ""; a_oom := None |}.
(* plugin 4: sets again what plugin 2 removed *)
Definition ex_A3 : adjustment :=
  {| a_ann := [("a","3");("b","3")]; a_mounts := [ex_mt "/m" "3"; ex_mt "/n" "3"];
     a_env := [("E","3");("NOEQ","3");("F","3")]; a_args := []; a_hooks := hooks_empty;
     a_rlimits := []; a_cdi := []; a_devices := [ex_dv "/dev/a" 3%Z; ex_dv "/dev/b" 3%Z];
     a_res := res_empty; a_cgroups := ""; a_oom := None |}.
Definition ex_rps : list response :=
  [ex_R ex_A1; ex_R ex_A2;
   {| rp_adjust := None; rp_updates := [{| u_id := "other"; u_res := Some {| r_scal := [(CpuShares, VZ 1)]; r_hp := []; r_uni := [] |}; u_ignore := false |}] |};
   ex_R ex_A3].

Lemma ex_wf : wf_create ex_c0 ex_rps = true.
Proof. vm_compute. reflexivity. Qed.

Lemma ex_succeeds : exists s, snd (run_request (RCreate ex_c0) ex_rps) = Ok s.
Proof. eexists. vm_compute. reflexivity. Qed.

Lemma ex_four_views : length (fst (run_request (RCreate ex_c0) ex_rps)) = 4.
Proof. vm_compute. reflexivity. Qed.

(* an update request: own-container updates by three plugins, one of them ignore-failure (not dropped),
   and an update of another container *)
Definition ex_U id f v ign : update :=
  {| u_id := id; u_res := Some {| r_scal := [(f, VZ v)]; r_hp := []; r_uni := [] |}; u_ignore := ign |}.
Definition ex_req : resources := {| r_scal := [(MemLimit, VZ 100); (CpuShares, VZ 2)]; r_hp := []; r_uni := [("u","0")] |}.
Definition ex_ups : list response :=
  [ {| rp_adjust := None; rp_updates := [ex_U "c" CpuShares 1 false; ex_U "other" CpuShares 1 false] |};
    {| rp_adjust := None; rp_updates := [{| u_id := "c"; u_res := Some {| r_scal := [(MemSwap, VZ 7)]; r_hp := [("2M", 4%Z)]; r_uni := [("u","2")] |}; u_ignore := true |}] |};
    {| rp_adjust := None; rp_updates := [ex_U "c" CpuQuota 3 false] |} ].

Lemma ex_ups_not_dropped : some_dropped None ex_ups = false.
Proof. vm_compute. reflexivity. Qed.

Lemma ex_ups_succeeds : exists s, snd (run_request (RUpdate "c" ex_req) ex_ups) = Ok s.
Proof. eexists. vm_compute. reflexivity. Qed.

(* ---------- every clause of wf_create is necessary ---------- *)
Definition wit_c0 : container :=
  {| c_id := "c"; c_ann := [("a","0")]; c_mounts := [ex_mt "/m" "0"]; c_env := ["E=0"]; c_args := ["orig"];
     c_hooks := hooks_empty; c_rlimits := []; c_devices := [ex_dv "/dev/a" 0%Z]; c_res := res_empty; c_cgroups := ""; c_oom := None |}.

Definition c03_fails (c0 : container) (rps : list response) : Prop :=
  exists s, snd (run_request (RCreate c0) rps) = Ok s /\
            obs_eqb (apply_adj c0 (s_adjust s)) (apply_all c0 (adjs rps)) = false.

(* W7, annotations: the second plugin's "--a" makes the code forget the first plugin's removal of a *)
Definition wit_w7_ann := [ex_R (with_a_ann adj_empty [("-a","")]); ex_R (with_a_ann adj_empty [("--a","")])].
Lemma wit_w7_ann_fails : c03_fails wit_c0 wit_w7_ann.
Proof. eexists. split; [vm_compute; reflexivity|]. vm_compute. reflexivity. Qed.

Definition wit_w7_mounts := [ex_R (with_a_mounts adj_empty [ex_mt "-/m" ""]); ex_R (with_a_mounts adj_empty [ex_mt "--/m" ""])].
Lemma wit_w7_mounts_fails : c03_fails wit_c0 wit_w7_mounts.
Proof. eexists. split; [vm_compute; reflexivity|]. vm_compute. reflexivity. Qed.

Definition wit_w7_env := [ex_R (with_a_env adj_empty [("-E","")]); ex_R (with_a_env adj_empty [("--E","")])].
Lemma wit_w7_env_fails : c03_fails wit_c0 wit_w7_env.
Proof. eexists. split; [vm_compute; reflexivity|]. vm_compute. reflexivity. Qed.

Definition wit_w7_devices := [ex_R (with_a_devices adj_empty [ex_dv "-/dev/a" 0%Z]); ex_R (with_a_devices adj_empty [ex_dv "--/dev/a" 0%Z])].
Lemma wit_w7_devices_fails : c03_fails wit_c0 wit_w7_devices.
Proof. eexists. split; [vm_compute; reflexivity|]. vm_compute. reflexivity. Qed.

(* W7=: a plain environment name with '=': "X=Y" and "X" are different items for the ledger and the reply
   but one variable for the container *)
Definition wit_env_eq := [ex_R (with_a_env adj_empty [("X=Y","1")]); ex_R (with_a_env adj_empty [("X","2")])].
Lemma wit_env_eq_fails : c03_fails wit_c0 wit_env_eq.
Proof. eexists. split; [vm_compute; reflexivity|]. vm_compute. reflexivity. Qed.

(* W7': the command line left after the marker begins with "" — re-read as a marker in the reply *)
Definition wit_args_marker := [ex_R (with_a_args adj_empty ["";"";"x"])].
Lemma wit_args_marker_fails : c03_fails wit_c0 wit_args_marker.
Proof. eexists. split; [vm_compute; reflexivity|]. vm_compute. reflexivity. Qed.

(* W4: args = [""] empties the command line shown to the next plugin; the reference leaves it alone *)
Definition wit_args_w4 := [ex_R (with_a_args adj_empty [""]); ex_R adj_empty].
Lemma wit_args_w4_fails :
  exists x, nth_error (fst (run_request (RCreate wit_c0) wit_args_w4)) 1 = Some (ShownContainer x) /\
            obs_eqb x (apply_all wit_c0 (firstn 1 (adjs wit_args_w4))) = false.
Proof. eexists. split; [vm_compute; reflexivity|]. vm_compute. reflexivity. Qed.

(* each witness violates wf_create *)
Lemma wit_not_wf :
  map (wf_create wit_c0) [wit_w7_ann; wit_w7_mounts; wit_w7_env; wit_w7_devices; wit_env_eq; wit_args_marker; wit_args_w4]
  = [false; false; false; false; false; false; false].
Proof. vm_compute. reflexivity. Qed.

(* update requests: without the "nothing dropped before i" hypothesis the view lags the overlay *)
Definition wit_ups : list response :=
  [ {| rp_adjust := None; rp_updates := [ex_U "c" CpuShares 1 false] |};
    {| rp_adjust := None; rp_updates := [ex_U "c" CpuShares 2 true] |};
    {| rp_adjust := None; rp_updates := [ex_U "c" CpuShares 3 false] |} ].
Lemma wit_update_dropped :
  some_dropped None wit_ups = false /\ some_dropped None (firstn 2 wit_ups) = true /\
  exists x, nth_error (fst (run_request (RUpdate "c" res_empty) wit_ups)) 2 = Some (ShownResources x) /\
            res_obs_eqb x (overlay "c" res_empty (firstn 2 wit_ups)) = false.
Proof. split; [vm_compute; reflexivity|]. split; [vm_compute; reflexivity|]. eexists. split; [vm_compute; reflexivity|]. vm_compute. reflexivity. Qed.
