(* List lemmas missing from the 8.16 standard library. *)
From Coq Require Import List.
Import ListNotations.

Lemma NoDup_app_inv {A} (a b : list A) :
  NoDup (a ++ b) -> NoDup a /\ NoDup b /\ (forall x, In x a -> ~ In x b).
Proof.
  induction a as [|x r IH]; simpl; intros H.
  - split; [constructor|]. split; [exact H|]. intros x [].
  - inversion H as [|? ? Hx Hr]; subst. destruct (IH Hr) as [Ha [Hb Hd]].
    split; [constructor; [intros Hi; apply Hx; apply in_or_app; left; exact Hi|exact Ha]|].
    split; [exact Hb|]. intros y [->|Hy] Hyb.
    + apply Hx. apply in_or_app. right. exact Hyb.
    + apply (Hd y Hy Hyb).
Qed.

Lemma NoDup_app_intro {A} (a b : list A) :
  NoDup a -> NoDup b -> (forall x, In x a -> ~ In x b) -> NoDup (a ++ b).
Proof.
  induction a as [|x r IH]; simpl; intros Ha Hb Hd; [exact Hb|].
  inversion Ha as [|? ? Hx Hr]; subst. constructor.
  - intros Hi. apply in_app_or in Hi. destruct Hi as [Hi|Hi]; [contradiction|].
    apply (Hd x (or_introl eq_refl) Hi).
  - apply IH; [exact Hr|exact Hb|]. intros y Hy. apply Hd. right. exact Hy.
Qed.
