// h_mux drives the real multiplex.Mux (pkg/net/multiplex) for properties C10 and C11.
//
// Drivers:
//
//	mux       C10: concurrent writers on several connection ids in both directions, the
//	          trunk bytes recorded; compared in Coq with Model/Mux.v (Run/RunMux.v)
//	muxfault  C11: trunk cut at byte offsets, queue overflow, Close at every point of a
//	          scripted exchange, concurrent closers, blocked readers/writers, listener wrapper
//	exec      internal: executes a batch of scenarios in a child process, so that a panic
//	          or a dead-lock inside the implementation is an observation, not a harness crash
package main

import (
	"bufio"
	"bytes"
	"encoding/json"
	"fmt"
	"os"
	"os/exec"
	"path/filepath"
	"runtime"
	"runtime/pprof"
	"sort"
	"strconv"
	"strings"
	"sync"
	"time"

	"verif/harness/internal/gast"
	"verif/harness/internal/hx"
)

func main() {
	hx.Main(map[string]func(*hx.Ctx) error{"mux": driveMux, "muxfault": driveFault, "exec": driveExec})
}

// opBound is the time every single call on the implementation gets before it is
// reported as hanging.  The expected latency is far below a millisecond; there is no
// legitimate time-out in the multiplexer.
const opBound = 20 * time.Second

// afterHangBound replaces opBound for the rest of a scripted scenario once one of its calls has
// hung: the scenario is a failing input already, the remaining calls only complete the record.
const afterHangBound = 1 * time.Second

// maxHungScenarios: a child that has seen this many scenarios with a hanging call skips the
// rest of its batch (an implementation that hangs everywhere would otherwise cost one bound
// per call).  The parent then runs the hung scenario once more, alone in a fresh process: a
// hang is reported only when it shows again (a time-out is never trusted on one sample); when
// it does not, the second result counts and the skipped rest of the batch is executed.
// Skipped scenarios are reported as such and never count as passed.
const maxHungScenarios = 1

// scnBound is the watchdog of one whole scenario inside the child (a scenario takes some
// milliseconds; one whose calls hang takes opBound plus afterHangBound per remaining call).
const scnBound = 100 * time.Second

// maxCrashes: after this many scenarios of one batch have killed their child process (panic in a
// goroutine of the implementation, fatal error, watchdog) the rest of the batch is skipped; each
// of them is a failing input already.  A watchdog kill weighs as much as ten panics.
const maxCrashes = 20

type scenario struct {
	X *xferScn   `json:"x,omitempty"`
	S *scriptScn `json:"s,omitempty"`
	B *bufScn    `json:"b,omitempty"`
	K *stressScn `json:"k,omitempty"`
}

type obsLine struct {
	I     int        `json:"i"`
	Begin bool       `json:"begin,omitempty"`
	Hang  bool       `json:"hang,omitempty"`
	Skip  bool       `json:"skip,omitempty"`
	X     *xferObs   `json:"x,omitempty"`
	S     *scriptObs `json:"s,omitempty"`
	B     *bufObs    `json:"b,omitempty"`
	K     *stressObs `json:"k,omitempty"`
}

// result of one scenario as seen by the parent
type scnResult struct {
	X     *xferObs
	S     *scriptObs
	B     *bufObs
	K     *stressObs
	Crash string // non-empty: the child died or hung while running this scenario
	Skip  bool   // not executed: the child had met maxHungScenarios hanging scenarios before
}

func (r scnResult) hung() bool {
	return (r.S != nil && r.S.Hung) || (r.X != nil && r.X.Hung) || (r.B != nil && r.B.Hung) || (r.K != nil && r.K.Hung)
}

// maxPayload reads maxPayloadSize from the sources the harness was built against.
func maxPayload(repo string) int {
	tt := gast.Parse(filepath.Join(repo, "pkg/net/multiplex/ttrpc.go"))
	mx := gast.Parse(filepath.Join(repo, "pkg/net/multiplex/mux.go"))
	return int(gast.MustInt(mx.Consts(tt.Consts(nil)), "maxPayloadSize"))
}

// corpus reads corpus/<pid>/*.json (each file: a JSON array of scenarios) — minimised past
// disagreements and boundary cases, executed before the generated scenarios.
func corpus(c *hx.Ctx, pid string) []scenario {
	dir := filepath.Join(filepath.Dir(filepath.Dir(os.Args[0])), "corpus", pid)
	if _, err := os.Stat(dir); err != nil {
		dir = filepath.Join("/verif/corpus", pid)
	}
	files, _ := filepath.Glob(filepath.Join(dir, "*.json"))
	sort.Strings(files)
	var out []scenario
	for _, f := range files {
		raw, err := os.ReadFile(f)
		var l []scenario
		if err == nil {
			err = json.Unmarshal(raw, &l)
		}
		if err != nil {
			c.HarnessError("corpus %s: %v", f, err)
			continue
		}
		for i, sc := range l {
			if (pid == "C10") != (sc.X != nil || sc.B != nil) || (pid == "C11") != (sc.S != nil) {
				c.HarnessError("corpus %s: entry %d is not a %s scenario", f, i, pid)
				continue
			}
			out = append(out, sc)
		}
		c.Count("corpus."+filepath.Base(f), len(l))
	}
	return out
}

// ---------------------------------------------------------------- child side

func driveExec(c *hx.Ctx) error {
	spec := strings.Split(os.Getenv("VERIF_MUX_EXEC"), "|")
	if len(spec) != 3 {
		return fmt.Errorf("exec: VERIF_MUX_EXEC not set")
	}
	start, _ := strconv.Atoi(spec[2])
	raw, err := os.ReadFile(spec[0])
	if err != nil {
		return err
	}
	var scns []scenario
	if err := json.Unmarshal(raw, &scns); err != nil {
		return err
	}
	out, err := os.OpenFile(spec[1], os.O_APPEND|os.O_CREATE|os.O_WRONLY, 0o644)
	if err != nil {
		return err
	}
	defer out.Close()
	emit := func(l obsLine) {
		js, _ := json.Marshal(l)
		out.Write(append(js, '\n'))
	}
	maxp := maxPayload(c.Repo)
	hung := 0
	for i := start; i < len(scns); i++ {
		if hung >= maxHungScenarios {
			emit(obsLine{I: i, Skip: true})
			continue
		}
		emit(obsLine{I: i, Begin: true})
		done := make(chan obsLine, 1)
		go func(i int) {
			l := obsLine{I: i}
			if scns[i].X != nil {
				l.X = execXfer(scns[i].X, maxp)
			} else if scns[i].S != nil {
				l.S = execScript(scns[i].S)
			} else if scns[i].B != nil {
				l.B = execBuf(scns[i].B)
			} else if scns[i].K != nil {
				l.K = execStress(scns[i].K)
			}
			done <- l
		}(i)
		select {
		case l := <-done:
			if (l.S != nil && l.S.Hung) || (l.X != nil && l.X.Hung) || (l.B != nil && l.B.Hung) || (l.K != nil && l.K.Hung) {
				hung++
			}
			emit(l)
		case <-time.After(scnBound):
			emit(obsLine{I: i, Hang: true})
			fmt.Fprintf(os.Stderr, "scenario %d did not finish within %v; goroutines:\n", i, scnBound)
			pprof.Lookup("goroutine").WriteTo(os.Stderr, 1)
			os.Exit(3)
		}
		if i%64 == 63 {
			runtime.GC()
		}
	}
	return nil
}

// ---------------------------------------------------------------- parent side

// runScenarios executes the scenarios in child processes (par of them side by side) and
// returns one result per scenario.
func runScenarios(c *hx.Ctx, tag string, scns []scenario, par int) []scnResult {
	res := make([]scnResult, len(scns))
	if len(scns) == 0 {
		return res
	}
	if par < 1 {
		par = 1
	}
	chunk := (len(scns) + par - 1) / par
	var wg sync.WaitGroup
	for k := 0; k*chunk < len(scns); k++ {
		lo, hi := k*chunk, (k+1)*chunk
		if hi > len(scns) {
			hi = len(scns)
		}
		wg.Add(1)
		go func(k, lo, hi int) {
			defer wg.Done()
			runChunk(c, fmt.Sprintf("%s_%d", tag, k), scns[lo:hi], res[lo:hi])
		}(k, lo, hi)
	}
	wg.Wait()
	return res
}

var raceMu sync.Mutex

func runChunk(c *hx.Ctx, tag string, scns []scenario, res []scnResult) {
	dir := filepath.Join(c.Out, "exec_"+tag)
	if err := os.MkdirAll(dir, 0o755); err != nil {
		c.HarnessError("mkdir %s: %v", dir, err)
		return
	}
	defer os.RemoveAll(dir)
	in := filepath.Join(dir, "scenarios.json")
	js, err := json.Marshal(scns)
	if err != nil {
		c.HarnessError("marshal scenarios: %v", err)
		return
	}
	if err := os.WriteFile(in, js, 0o644); err != nil {
		c.HarnessError("write %s: %v", in, err)
		return
	}
	start, crashes := 0, 0
	for round := 0; start < len(scns); round++ {
		if crashes >= maxCrashes {
			for i := start; i < len(scns); i++ {
				res[i] = scnResult{Skip: true}
			}
			return
		}
		next, ok := runChild(c, dir, in, filepath.Join(dir, fmt.Sprintf("obs_%d.jsonl", round)), len(scns), start, res)
		if !ok {
			return
		}
		h := -1
		for i := start; i < next && i < len(scns); i++ {
			if res[i].hung() {
				h = i
				break
			}
		}
		if h < 0 {
			for i := start; i < next && i < len(scns); i++ {
				if res[i].Crash != "" {
					crashes++
					if strings.Contains(res[i].Crash, "did not finish within") {
						crashes += 9
					}
				}
			}
			start = next
			continue
		}
		// a time-out: run this scenario again, alone
		again := filepath.Join(dir, fmt.Sprintf("again_%d.json", round))
		js, err := json.Marshal([]scenario{scns[h]})
		if err == nil {
			err = os.WriteFile(again, js, 0o644)
		}
		if err != nil {
			c.HarnessError("write %s: %v", again, err)
			return
		}
		one := make([]scnResult, 1)
		if _, ok := runChild(c, dir, again, filepath.Join(dir, fmt.Sprintf("again_obs_%d.jsonl", round)), 1, 0, one); !ok {
			return
		}
		if one[0].Crash != "" || one[0].hung() {
			if one[0].Crash != "" {
				res[h] = one[0]
			}
			c.Count("hangs_confirmed_by_a_second_run_in_isolation", 1)
			return // the rest of the batch stays skipped
		}
		c.Count("hangs_not_reproduced_in_isolation", 1)
		res[h] = one[0]
		start = h + 1
	}
}

// runChild executes scenarios start.. of the file in (n scenarios) in one child process and stores
// their results; it returns the index from which a further child has to continue (n when done).
func runChild(c *hx.Ctx, dir, in, outf string, n, start int, res []scnResult) (int, bool) {
	cmd := exec.Command(os.Args[0], "-out", filepath.Join(dir, "child"), "-seed", fmt.Sprint(c.Seed), "-tier", c.Tier, "-repo", c.Repo, "exec")
	cmd.Env = append(os.Environ(), fmt.Sprintf("VERIF_MUX_EXEC=%s|%s|%d", in, outf, start))
	var stderr bytes.Buffer
	cmd.Stderr = &stderr
	cmd.Stdout = &stderr
	if err := cmd.Start(); err != nil {
		c.HarnessError("start child: %v", err)
		return 0, false
	}
	waitErr := make(chan error, 1)
	go func() { waitErr <- cmd.Wait() }()
	var werr error
	select {
	case werr = <-waitErr:
	case <-time.After(time.Duration(n-start)*scnBound + time.Minute):
		cmd.Process.Kill()
		werr = fmt.Errorf("child killed by the parent's time-out")
		<-waitErr
	}
	errText := stderr.String()
	if strings.Contains(errText, "DATA RACE") {
		raceMu.Lock()
		fmt.Fprintln(os.Stderr, errText)
		raceMu.Unlock()
		c.HarnessError("the race detector reported a data race in a child process (see above)")
	}
	begun, last := -1, start-1
	if f, err := os.Open(outf); err == nil {
		sc := bufio.NewScanner(f)
		sc.Buffer(make([]byte, 1<<20), 1<<30)
		for sc.Scan() {
			var l obsLine
			if json.Unmarshal(sc.Bytes(), &l) != nil || l.I < 0 || l.I >= n {
				continue
			}
			switch {
			case l.Begin:
				begun = l.I
			case l.Hang:
				// handled below as a crash of scenario l.I
			case l.Skip:
				res[l.I] = scnResult{Skip: true}
				last = l.I
			default:
				res[l.I] = scnResult{X: l.X, S: l.S, B: l.B, K: l.K}
				last = l.I
			}
		}
		f.Close()
	}
	if werr == nil && last == n-1 {
		return n, true
	}
	// the child died: the scenario that had begun and has no result is the culprit
	bad := last + 1
	if begun > last {
		bad = begun
	}
	if bad >= n || begun < bad {
		// the child died between two scenarios or after the last one.  A panic or a fatal error of the Go
		// runtime then comes from goroutines an earlier scenario left behind (the Mux's reader, a closer):
		// it is an observation about the implementation and is attributed to the scenario that finished last
		if last >= start && (strings.Contains(errText, "panic:") || strings.Contains(errText, "fatal error:")) {
			res[last] = scnResult{Crash: fmt.Sprintf("%v (after the scenario's calls had returned): %s", werr, clip(errText))}
			return last + 1, true
		}
		// anything else is a problem of the machinery, not an observation
		c.HarnessError("child failed outside a scenario (next: %d of %d): %v\n%s", bad, n, werr, tail(errText, 2000))
		return 0, false
	}
	res[bad] = scnResult{Crash: fmt.Sprintf("%v: %s", werr, clip(errText))}
	return bad + 1, true
}

// clip keeps the beginning (the panic message, the watchdog's line) and the end of a long text
func clip(s string) string {
	if len(s) > 4000 {
		return s[:2500] + "\n[...]\n" + s[len(s)-1500:]
	}
	return s
}

func tail(s string, n int) string {
	if len(s) > n {
		return s[len(s)-n:]
	}
	return s
}
