(* Strings as Go byte strings: utilities mirroring the few functions of Go's
   "strings" package the modelled code uses. *)
From Coq Require Import String Ascii List Bool Arith NArith ZArith Lia.
Import ListNotations.
Open Scope string_scope.
Open Scope list_scope.

Definition byte_of (c : ascii) : N := N_of_ascii c.

Definition lower_ascii (c : ascii) : ascii :=
  let n := N_of_ascii c in
  if (N.leb 65 n && N.leb n 90)%bool then ascii_of_N (n + 32) else c.

Definition upper_ascii (c : ascii) : ascii :=
  let n := N_of_ascii c in
  if (N.leb 97 n && N.leb n 122)%bool then ascii_of_N (n - 32) else c.

Fixpoint smap (f : ascii -> ascii) (s : string) : string :=
  match s with
  | EmptyString => EmptyString
  | String c r => String (f c) (smap f r)
  end.

Definition to_lower := smap lower_ascii.
Definition to_upper := smap upper_ascii.

(* strings.Split(s, sep) for a one-byte separator: never returns the empty list *)
Fixpoint split_on_aux (sep : ascii) (s : string) (cur : string) : list string :=
  match s with
  | EmptyString => [cur]
  | String c r =>
      if Ascii.eqb c sep then cur :: split_on_aux sep r EmptyString
      else split_on_aux sep r (cur ++ String c EmptyString)
  end.
Definition split_on (sep : ascii) (s : string) : list string := split_on_aux sep s EmptyString.

(* strings.SplitN(s, sep, 2) for a one-byte separator *)
Fixpoint cut (sep : ascii) (s : string) : string * option string :=
  match s with
  | EmptyString => (EmptyString, None)
  | String c r =>
      if Ascii.eqb c sep then (EmptyString, Some r)
      else let '(a, b) := cut sep r in (String c a, b)
  end.

Fixpoint join (sep : string) (l : list string) : string :=
  match l with
  | [] => EmptyString
  | [x] => x
  | x :: r => x ++ sep ++ join sep r
  end.

(* strings.Contains *)
Fixpoint contains (sub s : string) : bool :=
  if String.prefix sub s then true
  else match s with
       | EmptyString => false
       | String _ r => contains sub r
       end.

Definition is_space (c : ascii) : bool :=
  let n := N_of_ascii c in
  (N.eqb n 32 || N.eqb n 9 || N.eqb n 10 || N.eqb n 11 || N.eqb n 12 || N.eqb n 13)%bool.

Fixpoint trim_left (s : string) : string :=
  match s with
  | String c r => if is_space c then trim_left r else s
  | EmptyString => EmptyString
  end.

Fixpoint srev_aux (s acc : string) : string :=
  match s with
  | EmptyString => acc
  | String c r => srev_aux r (String c acc)
  end.
Definition srev (s : string) := srev_aux s EmptyString.

(* strings.TrimSpace on ASCII *)
Definition trim_space (s : string) : string := srev (trim_left (srev (trim_left s))).

Definition trim_prefix (p s : string) : string :=
  if String.prefix p s then String.substring (String.length p) (String.length s - String.length p) s else s.

Fixpoint count_char (c : ascii) (s : string) : nat :=
  match s with
  | EmptyString => 0
  | String d r => (if Ascii.eqb c d then 1 else 0) + count_char c r
  end.

Definition smem (k : string) (l : list string) : bool := existsb (String.eqb k) l.

Lemma smem_In k l : smem k l = true <-> In k l.
Proof.
  unfold smem. rewrite existsb_exists. split.
  - intros [x [Hx He]]. apply String.eqb_eq in He. subst. exact Hx.
  - intros H. exists k. split; [exact H | apply String.eqb_refl].
Qed.

Lemma smem_false_notin k l : smem k l = false <-> ~ In k l.
Proof.
  rewrite <- smem_In. destruct (smem k l); split; intros H.
  - discriminate.
  - exfalso. apply H. reflexivity.
  - intros H2. discriminate.
  - reflexivity.
Qed.

Lemma smem_cons k x l : smem k (x :: l) = (String.eqb k x || smem k l)%bool.
Proof. reflexivity. Qed.

Lemma smem_app k a b : smem k (a ++ b) = (smem k a || smem k b)%bool.
Proof. unfold smem. apply existsb_app. Qed.

(* hexadecimal rendering of a positive number, as fmt's %x does *)
Definition hex_digit (n : N) : ascii :=
  if N.ltb n 10 then ascii_of_N (48 + n) else ascii_of_N (87 + n).

Fixpoint hex_aux (fuel : nat) (n : N) (acc : string) : string :=
  match fuel with
  | O => acc
  | S f =>
      let acc' := String (hex_digit (N.modulo n 16)) acc in
      if N.eqb (N.div n 16) 0 then acc' else hex_aux f (N.div n 16) acc'
  end.
Definition hex (n : N) : string := hex_aux 32 n EmptyString.
