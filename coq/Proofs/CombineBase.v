(* Combination theorems for C03 / C04, part 1: generic lemmas.
   - association lists read as maps (last-match reading of a fold of sets, NoDup keys);
   - the reference semantics of Spec/Apply.v characterised by lookups (apply_ann, apply_scal, unified);
   - the Prop-level observational equivalence OEq of containers, its reflection into obs_eqb,
     and the fact that apply_adj respects it. *)
From Coq Require Import String Ascii List Bool ZArith Arith Lia.
From NRI Require Import Base.Lists Base.Strs Base.Assoc Model.Types Model.Result Spec.Apply Proofs.KeyedProofs.
Import ListNotations.
Open Scope string_scope.
Open Scope list_scope.

(* ---------- markers ---------- *)
Lemma eqb_mark x k : String.eqb x (mark k) = marked x && String.eqb (rawkey x) k.
Proof.
  unfold mark, marked, rawkey, is_marked. destruct x as [|c r]; [reflexivity|].
  cbn [String.eqb]. destruct (Ascii.eqb c "-"%char); reflexivity.
Qed.

Lemma mark_eqb k x : String.eqb (mark k) x = marked x && String.eqb (rawkey x) k.
Proof. rewrite String.eqb_sym. apply eqb_mark. Qed.

Lemma mark_inj a b : mark a = mark b -> a = b.
Proof. unfold mark. congruence. Qed.

Lemma marked_neq x k : marked x = true -> marked k = false -> x <> k.
Proof. intros Hx Hk E. subst. congruence. Qed.

(* ---------- reflexivity of the boolean equalities ---------- *)
Lemma list_eqb_refl {A} (eqb : A -> A -> bool) l : (forall x, eqb x x = true) -> list_eqb eqb l l = true.
Proof. intros H. induction l as [|x r IH]; [reflexivity|]. cbn [list_eqb]. rewrite H, IH. reflexivity. Qed.

Lemma opt_eqb_refl {A} (eqb : A -> A -> bool) o : (forall x, eqb x x = true) -> opt_eqb eqb o o = true.
Proof. intros H. destruct o; [apply H|reflexivity]. Qed.

Lemma mount_eqb_refl m : mount_eqb m m = true.
Proof. unfold mount_eqb. rewrite !String.eqb_refl, (list_eqb_refl String.eqb _ String.eqb_refl). reflexivity. Qed.

Lemma device_eqb_refl d : device_eqb d d = true.
Proof.
  unfold device_eqb. rewrite !String.eqb_refl, !Z.eqb_refl, !(opt_eqb_refl Z.eqb _ Z.eqb_refl). reflexivity.
Qed.

Lemma hook_eqb_refl h : hook_eqb h h = true.
Proof.
  unfold hook_eqb. rewrite String.eqb_refl, !(list_eqb_refl String.eqb _ String.eqb_refl), (opt_eqb_refl Z.eqb _ Z.eqb_refl).
  reflexivity.
Qed.

Lemma hooks_eqb_refl h : hooks_eqb h h = true.
Proof. unfold hooks_eqb. rewrite !(list_eqb_refl hook_eqb _ hook_eqb_refl). reflexivity. Qed.

Lemma rlimit_eqb_refl r : rlimit_eqb r r = true.
Proof. unfold rlimit_eqb. rewrite String.eqb_refl, !Z.eqb_refl. reflexivity. Qed.

Lemma sval_eqb_refl v : sval_eqb v v = true.
Proof. destruct v; cbn [sval_eqb]; [apply Z.eqb_refl|apply eqb_reflx|apply String.eqb_refl]. Qed.

(* ---------- lists read as maps: from pointwise equality of lookups to the boolean map equality ---------- *)
Lemma kmap_eqb_ext {E} (key : E -> string) (eqb : E -> E -> bool) a b :
  (forall x, eqb x x = true) -> (forall k, kfind key k a = kfind key k b) -> kmap_eqb key eqb a b = true.
Proof.
  intros Hr H. unfold kmap_eqb, ksub. apply andb_true_iff. split; apply forallb_forall; intros e _.
  - rewrite H. apply opt_eqb_refl. exact Hr.
  - rewrite H. apply opt_eqb_refl. exact Hr.
Qed.

Lemma alookup_kfind {V} k (l : list (string * V)) : alookup k l = option_map snd (kfind fst k l).
Proof.
  induction l as [|[k' v] r IH]; [reflexivity|]. cbn [alookup kfind fst]. destruct (String.eqb k k'); [reflexivity|exact IH].
Qed.

Lemma vmap_eqb_ext {V} (veqb : V -> V -> bool) (a b : list (string * V)) :
  (forall v, veqb v v = true) -> (forall k, alookup k a = alookup k b) ->
  kmap_eqb fst (fun x y => veqb (snd x) (snd y)) a b = true.
Proof.
  intros Hr H.
  assert (Hp : forall k, opt_eqb (fun x y : string * V => veqb (snd x) (snd y)) (kfind fst k a) (kfind fst k b) = true).
  { intros k. specialize (H k). rewrite !alookup_kfind in H.
    destruct (kfind fst k a) as [x|], (kfind fst k b) as [y|]; cbn [option_map] in H; try discriminate; [|reflexivity].
    inversion H as [H1]. cbn [opt_eqb]. rewrite H1. apply Hr. }
  assert (Hq : forall k, opt_eqb (fun x y : string * V => veqb (snd x) (snd y)) (kfind fst k b) (kfind fst k a) = true).
  { intros k. specialize (H k). rewrite !alookup_kfind in H.
    destruct (kfind fst k a) as [x|], (kfind fst k b) as [y|]; cbn [option_map] in H; try discriminate; [|reflexivity].
    inversion H as [H1]. cbn [opt_eqb]. rewrite H1. apply Hr. }
  unfold kmap_eqb, ksub. apply andb_true_iff. split; apply forallb_forall; intros e _; [apply Hp|apply Hq].
Qed.

Lemma smap_eqb_ext a b : (forall k, alookup k a = alookup k b) -> smap_eqb a b = true.
Proof. intros H. unfold smap_eqb. apply (vmap_eqb_ext String.eqb); [exact String.eqb_refl|exact H]. Qed.

Definition env_val (s : string) : string := match snd (cut "="%char s) with Some v => v | None => "" end.

Lemma alookup_env_pairs k l : alookup k (env_pairs l) = option_map env_val (kfind env_key k l).
Proof.
  induction l as [|s r IH]; [reflexivity|]. cbn [env_pairs map kfind]. fold (env_pairs r).
  unfold env_key at 1. destruct (cut "="%char s) as [k' v] eqn:Ec. cbn [alookup fst snd].
  destruct (String.eqb k k'); [|exact IH].
  cbn [option_map]. unfold env_val. rewrite Ec. reflexivity.
Qed.

Lemma env_eqb_ext a b : (forall k, kfind env_key k a = kfind env_key k b) -> env_eqb a b = true.
Proof. intros H. unfold env_eqb. apply smap_eqb_ext. intros k. rewrite !alookup_env_pairs, H. reflexivity. Qed.

Lemma hp_eqb_refl a : hp_eqb a a = true.
Proof. unfold hp_eqb. apply (vmap_eqb_ext Z.eqb); [exact Z.eqb_refl|reflexivity]. Qed.

Lemma scal_eqb_ext a b : (forall f, flookup f a = flookup f b) -> scal_eqb a b = true.
Proof.
  intros H. unfold scal_eqb. apply forallb_forall. intros f _. rewrite H. apply opt_eqb_refl. exact sval_eqb_refl.
Qed.

(* ---------- flookup / fset ---------- *)
Lemma sfield_eqb_refl f : sfield_eqb f f = true.
Proof. destruct (sfield_eqb_spec f f); [reflexivity|contradiction]. Qed.

Lemma flookup_fset_same f v l : flookup f (fset f v l) = Some v.
Proof.
  induction l as [|[g w] r IH]; cbn [fset flookup].
  - rewrite sfield_eqb_refl. reflexivity.
  - destruct (sfield_eqb f g) eqn:E; cbn [flookup]; [rewrite sfield_eqb_refl; reflexivity|rewrite E; exact IH].
Qed.

Lemma flookup_fset_other f g v l : f <> g -> flookup f (fset g v l) = flookup f l.
Proof.
  intros Hne. induction l as [|[h w] r IH]; cbn [fset flookup].
  - destruct (sfield_eqb_spec f g); [contradiction|reflexivity].
  - destruct (sfield_eqb_spec g h) as [->|Hgh]; cbn [flookup].
    + destruct (sfield_eqb_spec f h); [contradiction|reflexivity].
    + destruct (sfield_eqb f h); [reflexivity|exact IH].
Qed.

Definition scal_step (r : list (sfield * sval)) (m : list (sfield * sval)) (f : sfield) : list (sfield * sval) :=
  match flookup f r with Some v => fset f v m | None => m end.

Lemma flookup_fold_scal r fs c f :
  flookup f (fold_left (scal_step r) fs c) =
  if existsb (sfield_eqb f) fs then match flookup f r with Some v => Some v | None => flookup f c end else flookup f c.
Proof.
  revert c. induction fs as [|g rest IH]; intros c; [reflexivity|].
  cbn [fold_left existsb]. rewrite IH. unfold scal_step.
  destruct (sfield_eqb_spec f g) as [->|Hne]; cbn [orb].
  - destruct (flookup g r) as [v|] eqn:Eg.
    + rewrite flookup_fset_same. destruct (existsb _ rest); reflexivity.
    + destruct (existsb _ rest); reflexivity.
  - destruct (flookup g r) as [v|]; [rewrite (flookup_fset_other f g v c Hne)|]; reflexivity.
Qed.

Lemma apply_scal_fold c r : apply_scal c r = fold_left (scal_step r) all_scalars c.
Proof. reflexivity. Qed.

Lemma flookup_apply_scal c r f :
  flookup f (apply_scal c r) = match flookup f r with Some v => Some v | None => flookup f c end.
Proof.
  rewrite apply_scal_fold, flookup_fold_scal.
  assert (H : existsb (sfield_eqb f) all_scalars = true) by (destruct f; reflexivity).
  rewrite H. reflexivity.
Qed.

(* ---------- association lists: last-match reading ---------- *)
Definition alast {V} (k : string) (l : list (string * V)) : option V := alookup k (rev l).

Lemma alast_cons {V} k (e : string * V) r :
  alast k (e :: r) = match alast k r with Some v => Some v | None => if String.eqb k (fst e) then Some (snd e) else None end.
Proof. unfold alast. cbn [rev]. rewrite alookup_app. destruct e as [k' v]. reflexivity. Qed.

Lemma alast_None_notin {V} k (l : list (string * V)) : alast k l = None <-> ~ In k (akeys l).
Proof.
  unfold alast. rewrite alookup_None_notin. unfold akeys. rewrite map_rev, <- in_rev. tauto.
Qed.

Lemma alast_Some_in {V} k (l : list (string * V)) v : alast k l = Some v -> In k (akeys l).
Proof.
  intros H. destruct (in_dec string_dec k (akeys l)) as [Hi|Hn]; [exact Hi|].
  apply alast_None_notin in Hn. congruence.
Qed.

Lemma alast_nodup {V} k (l : list (string * V)) : NoDup (akeys l) -> alast k l = alookup k l.
Proof.
  induction l as [|[k' v] r IH]; intros Hnd; [reflexivity|].
  cbn [akeys map fst] in Hnd. inversion Hnd as [|? ? Hn Hr]; subst.
  rewrite alast_cons, (IH Hr). cbn [alookup fst snd].
  destruct (String.eqb_spec k k') as [->|Hne].
  - assert (Hnone : alookup k' r = None) by (apply alookup_None_notin; exact Hn). rewrite Hnone. reflexivity.
  - destruct (alookup k r); reflexivity.
Qed.

Definition set_all {V} (es c : list (string * V)) : list (string * V) :=
  fold_left (fun m e => aset (fst e) (snd e) m) es c.

Lemma alookup_set_all {V} (es c : list (string * V)) k :
  alookup k (set_all es c) = match alast k es with Some v => Some v | None => alookup k c end.
Proof.
  unfold set_all. revert c. induction es as [|e r IH]; intros c; [reflexivity|].
  cbn [fold_left]. rewrite IH, alast_cons. destruct (alast k r); [reflexivity|].
  destruct (String.eqb_spec k (fst e)) as [->|Hne]; [apply alookup_aset_same|apply alookup_aset_other; exact Hne].
Qed.

Lemma akeys_aset_in {V} k (v : V) l x : In x (akeys (aset k v l)) <-> x = k \/ In x (akeys l).
Proof.
  unfold akeys. induction l as [|[k' v'] r IH]; simpl.
  - split; [intros [H|[]]; left; symmetry; exact H|intros [H|[]]; left; symmetry; exact H].
  - destruct (String.eqb_spec k k') as [->|Hne]; simpl.
    + split; [intros [H|H]; [left; symmetry; exact H|right; right; exact H]|intros [H|[H|H]]; [left; symmetry; exact H|left; exact H|right; exact H]].
    + rewrite IH. tauto.
Qed.

Lemma NoDup_akeys_aset {V} k (v : V) l : NoDup (akeys l) -> NoDup (akeys (aset k v l)).
Proof.
  induction l as [|[k' v'] r IH]; intros Hnd; cbn [aset akeys map fst].
  - constructor; [intros []|constructor].
  - cbn [akeys map fst] in Hnd. inversion Hnd as [|? ? Hn Hr]; subst.
    destruct (String.eqb_spec k k') as [->|Hne]; cbn [map fst]; [constructor; assumption|].
    constructor; [|apply IH; exact Hr].
    intros Hi. apply (akeys_aset_in k v r k') in Hi. destruct Hi as [Hi|Hi]; [congruence|contradiction].
Qed.

Lemma NoDup_akeys_aremove {V} k (l : list (string * V)) : NoDup (akeys l) -> NoDup (akeys (aremove k l)).
Proof.
  unfold aremove, akeys. induction l as [|[k' v'] r IH]; intros Hnd; [constructor|].
  cbn [map fst] in Hnd. inversion Hnd as [|? ? Hn Hr]; subst. cbn [filter fst].
  destruct (negb (String.eqb k k')); [|apply IH; exact Hr].
  cbn [map fst]. constructor; [|apply IH; exact Hr].
  intros Hi. apply Hn. apply in_map_iff in Hi. destruct Hi as [e [He Hin]]. apply filter_In in Hin.
  apply in_map_iff. exists e. tauto.
Qed.

Lemma NoDup_akeys_set_all {V} (es c : list (string * V)) : NoDup (akeys c) -> NoDup (akeys (set_all es c)).
Proof.
  unfold set_all. revert c. induction es as [|e r IH]; intros c H; [exact H|]. cbn [fold_left]. apply IH. apply NoDup_akeys_aset. exact H.
Qed.

Lemma akeys_aremove_in {V} k (l : list (string * V)) x : In x (akeys (aremove k l)) -> In x (akeys l).
Proof.
  unfold akeys, aremove. intros Hi. apply in_map_iff in Hi. destruct Hi as [e [He Hin]]. apply filter_In in Hin.
  apply in_map_iff. exists e. tauto.
Qed.

Lemma smem_filter (p : string -> bool) x l : smem x (filter p l) = smem x l && p x.
Proof.
  induction l as [|y r IH]; [reflexivity|]. cbn [filter]. destruct (p y) eqn:Hp.
  - rewrite !smem_cons, IH. destruct (String.eqb_spec x y) as [->|Hne]; cbn [orb]; [rewrite Hp|]; reflexivity.
  - rewrite smem_cons, IH. destruct (String.eqb_spec x y) as [->|Hne]; cbn [orb]; [|reflexivity].
    rewrite Hp, andb_false_r. reflexivity.
Qed.

(* ---------- the reference semantics of annotations, by lookups ---------- *)
Lemma ann_dels_cons e r :
  ann_dels (e :: r) = if marked (fst e) then rawkey (fst e) :: ann_dels r else ann_dels r.
Proof. unfold ann_dels. cbn [filter]. destruct (marked (fst e)); reflexivity. Qed.

Lemma ann_sets_cons e r : ann_sets (e :: r) = if marked (fst e) then ann_sets r else e :: ann_sets r.
Proof. unfold ann_sets. cbn [filter]. destruct (marked (fst e)); reflexivity. Qed.

Lemma ann_sets_unmarked ann e : In e (ann_sets ann) -> marked (fst e) = false.
Proof. unfold ann_sets. rewrite filter_In. intros [_ H]. apply negb_true_iff in H. exact H. Qed.

Lemma ann_dels_unmarked ann k :
  (forall e, In e ann -> marked (rawkey (fst e)) = false) -> In k (ann_dels ann) -> marked k = false.
Proof.
  intros H Hk. unfold ann_dels in Hk. apply in_map_iff in Hk. destruct Hk as [e [<- He]]. apply filter_In in He.
  apply H. tauto.
Qed.

Lemma alookup_ann_removed ann (c : list (string * string)) k :
  alookup k (fold_left (fun m e => if marked (fst e) then aremove (rawkey (fst e)) m else m) ann c) =
  if smem k (ann_dels ann) then None else alookup k c.
Proof.
  revert c. induction ann as [|e r IH]; intros c; [reflexivity|].
  cbn [fold_left]. rewrite IH, ann_dels_cons. destruct (marked (fst e)); [|reflexivity].
  rewrite smem_cons. destruct (String.eqb_spec k (rawkey (fst e))) as [->|Hne]; cbn [orb].
  - rewrite alookup_aremove_same. destruct (smem _ _); reflexivity.
  - rewrite (alookup_aremove_other _ _ _ Hne). reflexivity.
Qed.

Lemma alookup_ann_set ann (c : list (string * string)) k :
  alookup k (fold_left (fun m e => if marked (fst e) then m else aset (fst e) (snd e) m) ann c) =
  match alast k (ann_sets ann) with Some v => Some v | None => alookup k c end.
Proof.
  revert c. induction ann as [|e r IH]; intros c; [reflexivity|].
  cbn [fold_left]. rewrite IH, ann_sets_cons. destruct (marked (fst e)); [reflexivity|].
  rewrite alast_cons. destruct (alast k (ann_sets r)); [reflexivity|].
  destruct (String.eqb_spec k (fst e)) as [->|Hne]; [apply alookup_aset_same|apply alookup_aset_other; exact Hne].
Qed.

Lemma alookup_apply_ann c ann k :
  alookup k (apply_ann c ann) =
  match alast k (ann_sets ann) with
  | Some v => Some v
  | None => if smem k (ann_dels ann) then None else alookup k c
  end.
Proof. unfold apply_ann. rewrite alookup_ann_set, alookup_ann_removed. reflexivity. Qed.

(* ---------- the reference semantics of the keyed families, by lookups ---------- *)
Lemma kfind_apply_keyed {E W} (ekey : E -> string) (wkey : W -> string) (inj : E -> W) c es k :
  kfind wkey k (apply_keyed ekey wkey inj c es) =
  match (if negb (smem k (r_dels ekey es)) && negb (smem k (r_mods ekey es)) then kfind wkey k c else None) with
  | Some w => Some w
  | None => kfind wkey k (map inj (r_adds ekey es))
  end.
Proof.
  unfold apply_keyed. rewrite kfind_app.
  rewrite (kfind_filter_key wkey k (fun x => negb (smem x (r_dels ekey es)) && negb (smem x (r_mods ekey es)))).
  reflexivity.
Qed.

(* ---------- observational equivalence of containers (DESIGN.md I3), Prop level ---------- *)
Record OEq (x y : container) : Prop := {
  oe_ann : forall k, alookup k (c_ann x) = alookup k (c_ann y);
  oe_mounts : forall k, kfind m_dest k (c_mounts x) = kfind m_dest k (c_mounts y);
  oe_env : forall k, kfind env_key k (c_env x) = kfind env_key k (c_env y);
  oe_args : c_args x = c_args y;
  oe_hooks : c_hooks x = c_hooks y;
  oe_rlimits : c_rlimits x = c_rlimits y;
  oe_devices : forall k, kfind d_path k (c_devices x) = kfind d_path k (c_devices y);
  oe_scal : forall f, flookup f (r_scal (c_res x)) = flookup f (r_scal (c_res y));
  oe_hp : r_hp (c_res x) = r_hp (c_res y);
  oe_uni : forall k, alookup k (r_uni (c_res x)) = alookup k (r_uni (c_res y));
  oe_cgroups : c_cgroups x = c_cgroups y;
  oe_oom : c_oom x = c_oom y
}.

Lemma OEq_refl x : OEq x x.
Proof. split; reflexivity. Qed.

Lemma OEq_sym x y : OEq x y -> OEq y x.
Proof. intros [H1 H2 H3 H4 H5 H6 H7 H8 H9 H10 H11 H12]. split; intros; symmetry; auto. Qed.

Lemma OEq_trans x y z : OEq x y -> OEq y z -> OEq x z.
Proof.
  intros [H1 H2 H3 H4 H5 H6 H7 H8 H9 H10 H11 H12] [G1 G2 G3 G4 G5 G6 G7 G8 G9 G10 G11 G12].
  split; intros; try (etransitivity; [apply H1 || apply H2 || apply H3 || apply H7 || apply H8 || apply H10|]; auto; fail); congruence.
Qed.

Lemma OEq_obs_eqb x y : OEq x y -> obs_eqb x y = true.
Proof.
  intros [H1 H2 H3 H4 H5 H6 H7 H8 H9 H10 H11 H12]. unfold obs_eqb, res_obs_eqb.
  rewrite (smap_eqb_ext _ _ H1), (kmap_eqb_ext m_dest mount_eqb _ _ mount_eqb_refl H2), (env_eqb_ext _ _ H3).
  rewrite H4, (list_eqb_refl String.eqb _ String.eqb_refl), H5, hooks_eqb_refl, H6, (list_eqb_refl rlimit_eqb _ rlimit_eqb_refl).
  rewrite (kmap_eqb_ext d_path device_eqb _ _ device_eqb_refl H7), (scal_eqb_ext _ _ H8), H9, hp_eqb_refl, (smap_eqb_ext _ _ H10).
  rewrite H11, String.eqb_refl, H12, (opt_eqb_refl Z.eqb _ Z.eqb_refl). reflexivity.
Qed.

(* apply_adj respects the equivalence: the sequential reference result only depends on the observation *)
Lemma apply_adj_OEq x y p : OEq x y -> OEq (apply_adj x p) (apply_adj y p).
Proof.
  intros [H1 H2 H3 H4 H5 H6 H7 H8 H9 H10 H11 H12].
  split; cbn [apply_adj c_ann c_mounts c_env c_args c_hooks c_rlimits c_devices c_res c_cgroups c_oom apply_res r_scal r_hp r_uni].
  - intros k. rewrite !alookup_apply_ann, H1. reflexivity.
  - intros k. rewrite !kfind_apply_keyed, H2. reflexivity.
  - intros k. change ref_env_key with env_key. rewrite !kfind_apply_keyed, H3. reflexivity.
  - rewrite H4. reflexivity.
  - rewrite H5. reflexivity.
  - rewrite H6. reflexivity.
  - intros k. rewrite !kfind_apply_keyed, H7. reflexivity.
  - intros f. rewrite !flookup_apply_scal, H8. reflexivity.
  - rewrite H9. reflexivity.
  - intros k. fold (set_all (r_uni (a_res p)) (r_uni (c_res x))). fold (set_all (r_uni (a_res p)) (r_uni (c_res y))).
    rewrite !alookup_set_all, H10. reflexivity.
  - rewrite H11. reflexivity.
  - rewrite H12. reflexivity.
Qed.

Lemma apply_all_OEq x y ps : OEq x y -> OEq (apply_all x ps) (apply_all y ps).
Proof.
  unfold apply_all. revert x y. induction ps as [|p r IH]; intros x y H; [exact H|].
  cbn [fold_left]. apply IH. apply apply_adj_OEq. exact H.
Qed.

Lemma apply_all_snoc c ps p : apply_all c (ps ++ [p]) = apply_adj (apply_all c ps) p.
Proof. unfold apply_all. rewrite fold_left_app. reflexivity. Qed.

Lemma apply_all_app c ps qs : apply_all c (ps ++ qs) = apply_all (apply_all c ps) qs.
Proof. unfold apply_all. apply fold_left_app. Qed.

(* the empty adjustment changes nothing observable *)
Lemma hooks_append_empty h : hooks_append h hooks_empty = h.
Proof. destruct h. unfold hooks_append, hooks_empty. cbn. rewrite !app_nil_r. reflexivity. Qed.

Lemma apply_adj_empty c : OEq (apply_adj c adj_empty) c.
Proof.
  split; cbn [apply_adj adj_empty c_ann c_mounts c_env c_args c_hooks c_rlimits c_devices c_res c_cgroups c_oom apply_res r_scal r_hp r_uni
                a_ann a_mounts a_env a_args a_hooks a_rlimits a_devices a_res a_cgroups a_oom res_empty].
  - reflexivity.
  - intros k. rewrite kfind_apply_keyed. cbn. destruct (kfind m_dest k (c_mounts c)); reflexivity.
  - intros k. change ref_env_key with env_key. rewrite kfind_apply_keyed. cbn. destruct (kfind env_key k (c_env c)); reflexivity.
  - reflexivity.
  - apply hooks_append_empty.
  - apply app_nil_r.
  - intros k. rewrite kfind_apply_keyed. cbn. destruct (kfind d_path k (c_devices c)); reflexivity.
  - intros f. rewrite flookup_apply_scal. reflexivity.
  - apply app_nil_r.
  - reflexivity.
  - reflexivity.
  - reflexivity.
Qed.
