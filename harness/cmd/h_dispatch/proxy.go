package main

import (
	"encoding/binary"
	"fmt"
	"net"
	"os"
	"sync"
	"sync/atomic"
	"time"
)

// A cutting proxy between one plugin and the runtime: a unix-socket forwarder
// that parses the multiplexer's frames (8-byte header: connection id, payload
// length, both big endian) in each direction, so that every byte offset of an
// exchange can be labelled with its protocol phase, and that can cut the trunk
// after exactly n bytes of an exchange in either direction.

const (
	p2r = 0 // plugin -> runtime
	r2p = 1 // runtime -> plugin
)

func dirName(d int) string {
	if d == p2r {
		return "p2r"
	}
	return "r2p"
}

type frameInfo struct {
	Off int // offset of the frame header since the last mark
	ID  uint32
	Len int // payload length
}

type pdir struct {
	mu sync.Mutex
	// frame parser over every byte that arrived in this direction
	hdr       [8]byte
	hdrGot    int
	payLeft   int
	sinceMk   int // bytes arrived since the last mark
	frames    []frameInfo
	armed     bool
	remain    int
	inject    []byte // written back towards the sender of this direction just before the cut
	forwarded int    // bytes forwarded since the last mark
}

type proxy struct {
	path    string
	target  string
	l       net.Listener
	connMu  sync.Mutex
	a, b    net.Conn   // a: plugin side, b: runtime side
	wmu     sync.Mutex // serialises forwarding writes of both directions with inject+cut: an injected partial frame is the last thing its receiver gets
	dirs    [2]*pdir
	stalled atomic.Bool // the pumps stop reading: the peer behaves like a stopped process
	cutOnce sync.Once
	cutC    chan struct{}
	ready   chan struct{}
}

func newProxy(path, target string) (*proxy, error) {
	os.Remove(path)
	l, err := net.Listen("unix", path)
	if err != nil {
		return nil, err
	}
	px := &proxy{path: path, target: target, l: l, cutC: make(chan struct{}), ready: make(chan struct{})}
	px.dirs[0], px.dirs[1] = &pdir{}, &pdir{}
	go px.accept()
	return px, nil
}

func (px *proxy) accept() {
	a, err := px.l.Accept()
	px.l.Close()
	os.Remove(px.path)
	if err != nil {
		return
	}
	b, err := net.Dial("unix", px.target)
	if err != nil {
		a.Close()
		return
	}
	px.connMu.Lock()
	px.a, px.b = a, b
	px.connMu.Unlock()
	close(px.ready)
	go px.pump(p2r, a, b)
	go px.pump(r2p, b, a)
}

func (px *proxy) pump(d int, src, dst net.Conn) {
	buf := make([]byte, 64*1024)
	for {
		for px.stalled.Load() && !px.isCut() {
			time.Sleep(5 * time.Millisecond)
		}
		n, err := src.Read(buf)
		if px.stalled.Load() {
			// a stopped peer: what was just read stays unprocessed, nothing more is read
			<-px.cutC
			return
		}
		if n > 0 {
			if !px.forward(d, src, dst, buf[:n]) {
				return
			}
		}
		if err != nil {
			px.cut()
			return
		}
	}
}

// forward passes a chunk on, honouring an armed cut; false once the trunk is cut.
func (px *proxy) forward(d int, src, dst net.Conn, chunk []byte) bool {
	pd := px.dirs[d]
	pd.mu.Lock()
	defer pd.mu.Unlock()
	pd.parse(chunk)
	k := len(chunk)
	if pd.armed && pd.remain < k {
		k = pd.remain
	}
	px.wmu.Lock()
	defer px.wmu.Unlock()
	if px.isCut() {
		return false
	}
	if k > 0 {
		if _, err := dst.Write(chunk[:k]); err != nil {
			px.cut()
			return false
		}
		pd.forwarded += k
	}
	if pd.armed {
		pd.remain -= k
		if pd.remain == 0 {
			if len(pd.inject) > 0 {
				src.Write(pd.inject)
			}
			px.cut()
			return false
		}
	}
	return true
}

func (pd *pdir) parse(chunk []byte) {
	for len(chunk) > 0 {
		if pd.payLeft > 0 {
			k := pd.payLeft
			if k > len(chunk) {
				k = len(chunk)
			}
			pd.payLeft -= k
			pd.sinceMk += k
			chunk = chunk[k:]
			continue
		}
		k := 8 - pd.hdrGot
		if k > len(chunk) {
			k = len(chunk)
		}
		copy(pd.hdr[pd.hdrGot:], chunk[:k])
		pd.hdrGot += k
		pd.sinceMk += k
		chunk = chunk[k:]
		if pd.hdrGot == 8 {
			id := binary.BigEndian.Uint32(pd.hdr[0:4])
			ln := int(binary.BigEndian.Uint32(pd.hdr[4:8]))
			pd.frames = append(pd.frames, frameInfo{Off: pd.sinceMk - 8, ID: id, Len: ln})
			pd.hdrGot = 0
			pd.payLeft = ln
		}
	}
}

func (pd *pdir) atBoundary() bool { return pd.hdrGot == 0 && pd.payLeft == 0 }

// cut closes both halves of the trunk.
func (px *proxy) cut() {
	px.cutOnce.Do(func() {
		px.connMu.Lock()
		if px.a != nil {
			px.a.Close()
		}
		if px.b != nil {
			px.b.Close()
		}
		px.connMu.Unlock()
		close(px.cutC)
	})
}

// stall makes both pumps stop reading (after the read in progress).
func (px *proxy) stall() { px.stalled.Store(true) }

func (px *proxy) isCut() bool {
	select {
	case <-px.cutC:
		return true
	default:
		return false
	}
}

// mark starts a new exchange: offsets and frame lists count from here.  Both
// directions must be idle at a frame boundary.
func (px *proxy) mark() error {
	for d := 0; d < 2; d++ {
		pd := px.dirs[d]
		pd.mu.Lock()
		ok := pd.atBoundary()
		pd.sinceMk, pd.forwarded, pd.frames = 0, 0, nil
		pd.armed, pd.inject = false, nil
		pd.mu.Unlock()
		if !ok {
			return fmt.Errorf("proxy: %s not at a frame boundary at the start of an exchange", dirName(d))
		}
	}
	return nil
}

// arm: cut the trunk once n bytes of the exchange went through in direction d
// (n = 0: on arrival of the first byte, forwarding nothing).
func (px *proxy) arm(d, n int) error {
	if err := px.mark(); err != nil {
		return err
	}
	pd := px.dirs[d]
	pd.mu.Lock()
	pd.armed, pd.remain = true, n
	pd.mu.Unlock()
	return nil
}

// armInject: like arm, but just before cutting write the given bytes (the
// beginning of a frame the peer of direction d was in the middle of sending)
// back towards the sender of direction d: the plugin dies in the middle of a
// write of its own while the runtime is sending, or vice versa.
func (px *proxy) armInject(d, n int, partial []byte) error {
	if err := px.arm(d, n); err != nil {
		return err
	}
	pd := px.dirs[d]
	pd.mu.Lock()
	pd.inject = partial
	pd.mu.Unlock()
	return nil
}

// injectNow writes the given bytes (the beginning of a frame) towards the
// receiver of direction d and cuts the trunk: the sender of direction d died
// in the middle of a write while nothing else was going on.
func (px *proxy) injectNow(d int, partial []byte) {
	px.connMu.Lock()
	dst := px.b
	if d == r2p {
		dst = px.a
	}
	px.connMu.Unlock()
	px.wmu.Lock()
	defer px.wmu.Unlock()
	if dst != nil && !px.isCut() {
		dst.Write(partial)
	}
	px.cut()
}

// firstFrameForwarded reports whether the first frame of the exchange in
// direction d went through completely (for p2r: the plugin's reply reached the
// runtime's socket before the cut).
func (px *proxy) firstFrameForwarded(d int) bool {
	pd := px.dirs[d]
	pd.mu.Lock()
	defer pd.mu.Unlock()
	if len(pd.frames) == 0 {
		return false
	}
	f := pd.frames[0]
	return pd.forwarded >= f.Off+8+f.Len
}

type exchange struct {
	Bytes  [2]int
	Frames [2][]frameInfo
}

// measured returns what went through since the last mark.
func (px *proxy) measured() exchange {
	var x exchange
	for d := 0; d < 2; d++ {
		pd := px.dirs[d]
		pd.mu.Lock()
		x.Bytes[d] = pd.sinceMk
		x.Frames[d] = append([]frameInfo(nil), pd.frames...)
		pd.mu.Unlock()
	}
	return x
}

// phase labels byte offset n (bytes let through before the cut) of a direction
// of a measured exchange: which part of which frame the cut falls into.
func phase(fr []frameInfo, total, n int) string {
	if n >= total {
		return "complete"
	}
	for i, f := range fr {
		end := f.Off + 8 + f.Len
		if n >= end {
			continue
		}
		rel := n - f.Off
		pre := ""
		if i > 0 {
			pre = fmt.Sprintf("frame%d.", i)
		}
		switch {
		case rel == 0:
			return pre + "before-frame"
		case rel < 8:
			return pre + "mux-header"
		case rel == 8:
			return pre + "after-mux-header"
		case rel < 18:
			return pre + "ttrpc-header"
		case rel == 18:
			return pre + "after-ttrpc-header"
		default:
			return pre + "payload"
		}
	}
	return "complete"
}
